/* C09 environment: socket log, payload blocks with ghost ids, serializeXml over the writer tree model,
   class-level array-backed model of QMap<unsigned, QXmppPacket>. Included after qt_core.c and qt_dom.c. */
#ifdef HAVE_T_struct_QArrayData
/* ---- byte blocks that reach the socket: {QArrayData header, ghost classification} -------------------------------------- */
#define K_PACKET 1u
#define K_ACK 2u
#define K_REQ 3u
#define K_OTHER 4u
#define K_RESUME 5u
#define K_ENABLE 6u
struct c09blk { QAD h; uint32_t magic; uint32_t kind; uint32_t val; uint8_t data[8]; };
#define C09_MAGIC 0xC09B10C5u
static QAD *c09_blk(uint32_t kind, uint32_t val) { struct c09blk *b = malloc(sizeof(struct c09blk)); ASSUME(b != 0);
  REF(&b->h) = 1; b->h.f1 = 1; b->h.f2 = 8; b->h.f3 = offsetof(struct c09blk, data); b->magic = C09_MAGIC; b->kind = kind; b->val = val; b->data[0] = (uint8_t)val; b->data[1] = 0; return &b->h; }
void vp_c09_payload(char *out, uint32_t id) { *(QAD**)out = c09_blk(K_PACKET, id); }
static struct c09blk *c09_of(char *ba) { QAD *d = *(QAD**)ba; ASSERT(d != SHARED_NULL, "C09 model: empty QByteArray where a classified block is expected"); ASSUME(d != SHARED_NULL);
  struct c09blk *b = (struct c09blk*)d; ASSERT(b->magic == C09_MAGIC, "C09 model: byte array was not produced by the payload/serializeXml models"); return b; }
uint32_t vp_c09_payload_id(char *ba) { struct c09blk *b = c09_of(ba); return b->kind == K_PACKET ? b->val : 0xffffu; }

/* ---- socket: XmppSocket::sendData (reached through the harness' FakeSock vtable) -------------------------------------------- */
#ifndef SENT_CAP
#define SENT_CAP 8
#endif
static uint32_t sent_n, sent_kind[SENT_CAP], sent_val[SENT_CAP]; static uint8_t sent_ok[SENT_CAP];
uint8_t vp_c09_send(char *ba) { struct c09blk *b = c09_of(ba); ASSERT(sent_n < SENT_CAP, "C09 model: socket log capacity");
  uint8_t ok = vp_bool(); sent_kind[sent_n] = b->kind; sent_val[sent_n] = b->val; sent_ok[sent_n] = ok; sent_n++; return ok; }
uint32_t vp_c09_sent_n(void) { return sent_n; }
uint32_t vp_c09_sent_kind(uint32_t i) { return i < SENT_CAP ? sent_kind[i] : 0; }
uint32_t vp_c09_sent_val(uint32_t i) { return i < SENT_CAP ? sent_val[i] : 0; }
uint8_t vp_c09_sent_ok(uint32_t i) { return i < SENT_CAP ? sent_ok[i] : 0; }
void _ZN5QXmpp7Private10XmppSocketC2EP7QObject(char *self, char *parent) { /* QObject part of the socket is never touched */ }

/* ---- serializeXml<SmAck>, serializeXml<SmRequest> (inline templates, overridden): run the REAL T::toXml into the writer tree model
   (Qt's text encoding is trusted) and classify the finished document: <r xmlns=sm/> | <a xmlns=sm h=N/> (N an unsigned 32-bit number) | anything else -------- */
static uint8_t c09_lit(QAD **s, const char *l, uint32_t n) { return _ZNK7QStringeqE13QLatin1String((char*)s, n, (char*)l); }
static void c09_classify(char *w, char *ret) {
  struct wr *x = WR(w); VP_ASSERT(x->root != 0 && x->depth == 0, "C09 serialized nonza is one complete element");
  ASSUME(x->root != 0);
  struct dnode *r = x->root; uint32_t kind = K_OTHER, val = 0;
  if (c09_lit(&r->ns, "urn:xmpp:sm:3", 13) && r->nch == 0 && r->text->f1 == 0) {
    if (c09_lit(&r->tag, "r", 1) && r->nattr == 0) kind = K_REQ;
    else if (c09_lit(&r->tag, "enable", 6)) kind = K_ENABLE;
    else if (c09_lit(&r->tag, "a", 1) || c09_lit(&r->tag, "resume", 6)) { uint8_t isack = c09_lit(&r->tag, "a", 1); QAD *hn = (QAD*)_ZN7QString17fromLatin1_helperEPKci((char*)"h", 1); int i = dn_attr(r, hn);
      if (i >= 0 && numS(r->av[i]).isnum && !numS(r->av[i]).neg && numS(r->av[i]).mag <= 0xffffffffULL && r->nattr == (isack ? 1u : 2u)) { kind = isack ? K_ACK : K_RESUME; val = (uint32_t)numS(r->av[i]).mag; } } }
  *(QAD**)ret = c09_blk(kind, val); }
void _ZN5QXmpp7Private12serializeXmlINS0_5SmAckEEE10QByteArrayRKT_(char *ret, char *pkt) { char *w[2]; vp_writer_init((char*)w); F_vp_c09_toxml_ack(pkt, (char*)w); c09_classify((char*)w, ret); }
void _ZN5QXmpp7Private12serializeXmlINS0_9SmRequestEEE10QByteArrayRKT_(char *ret, char *pkt) { char *w[2]; vp_writer_init((char*)w); F_vp_c09_toxml_req(pkt, (char*)w); c09_classify((char*)w, ret); }
void _ZN5QXmpp7Private12serializeXmlINS0_8SmResumeEEE10QByteArrayRKT_(char *ret, char *pkt) { char *w[2]; vp_writer_init((char*)w); F_vp_c09_toxml_resume(pkt, (char*)w); c09_classify((char*)w, ret); }
void _ZN5QXmpp7Private12serializeXmlINS0_8SmEnableEEE10QByteArrayRKT_(char *ret, char *pkt) { char *w[2]; vp_writer_init((char*)w); F_vp_c09_toxml_enable(pkt, (char*)w); c09_classify((char*)w, ret); }
uint8_t vp_c09_false(void) { return 0; }
#ifndef VP_NFIX
#define VP_NFIX 0xffffffffu
#endif
uint32_t vp_c09_nfix(void) { return VP_NFIX; }
#ifndef VP_SENDFIX
#define VP_SENDFIX 0xffffffffu
#endif
uint32_t vp_c09_sendfix(void) { return VP_SENDFIX; }
/* error condition named inside <failed/> (QXmppStanza.cpp is not linked): irrelevant for C09 - any optional<Condition> (value 0..21 in the low word, engaged flag in bit 32) */
uint64_t _ZN5QXmpp7Private19conditionFromStringERK7QString(char *s) { uint8_t has = vp_bool(); uint32_t c = vp_u32(); ASSUME(c <= 21); return has ? ((uint64_t)1 << 32) | c : 0; }
/* task shadow: dropping the last reference to a promise/task state only reclaims memory (nobody can observe the state afterwards);
   the model keeps the count and leaks the block, which spares symex the destructor of optional<variant<SendSuccess,QXmppError>>
   on every (infeasible) "last reference" branch of a packet copy that is destroyed */
#ifdef HAVE_T_struct_QXmpp__Private__ShadowState
void _ZN5QXmpp7Private9ShadowRefISt7variantIJNS_11SendSuccessE10QXmppErrorEEE7releaseEv(char *self) { struct T_struct_QXmpp__Private__ShadowState *st = *(struct T_struct_QXmpp__Private__ShadowState**)self; ASSERT(st->f0 != 0, "C09 model: reference count underflow"); st->f0--; }
#endif
/* logging signal of QXmppLoggable (moc): no observable effect */
void _ZN13QXmppLoggable10logMessageEN11QXmppLogger11MessageTypeERK7QString(char *self, uint32_t type, char *msg) { }
#endif

/* ---- class-level model of QMap<unsigned, QXmppPacket>: ordered SLOT array with value semantics (what implicit sharing implements).
   Elements are copied / destroyed with the REAL QXmppPacket copy constructor / destructor.
   Every slot is an object of its own (struct ent), the map holds the ordered array s[0..MCAP] of slot pointers.
   Iterator semantics are Qt's node semantics: an iterator is the address of a slot object, and an element never leaves its slot object:
     - erase() frees the slot in place (no shifting), so iterators to OTHER elements stay valid and it+1 cached before an erase is still right;
     - insert() never moves an element: a key above all stored keys goes into slot hi, an existing key is overwritten in place, for a key
       below the largest stored one a free slot object is rotated into the slot pointer array (elements stay put);
     - end() is the fixed sentinel slot s[MCAP]: it compares "past" every element, including elements inserted after end() was taken;
     - ++ / -- walk to the next / previous USED slot (slot index order == key order is the representation invariant).
   Representation: slot i holds an element <=> i < hi && s[i]->used == 1 (hi = one past the highest slot ever filled since the last clear(); a
   freed slot below hi is a hole; the flags of slots >= hi are don't-care and kept at 1 so that an arbitrary pre-state "slots 0..n-1 filled"
   is symbolic in hi ONLY - begin()/++ then yield two-way choices (slot | end()), not chains over all slots).  s[MCAP]->used == 2: end sentinel.
   Dereferencing end() or an erased element, and ++/-- of an iterator whose element was erased, are model limits (MODEL assertions: inconclusive).
   n = number of elements.  Copies are deep and slot-wise (positions stay concrete).
   NOT modelled (cannot be instantiated for QXmppPacket: no default constructor / operator==): operator[], take, value(key), key(), keys(value),
   operator==; deprecated multi-map API (insertMulti, unite, uniqueKeys, values(key)); equal_range; construction from initializer_list / std::map.
   Run as REAL inline code over the modelled primitives: first/last/firstKey/lastKey, iterator +,-,+=,-=, key_iterator / key-value iterators,
   keys(), values() (these two need qt_list.c in the group's models), empty(), operator==(iterator, const_iterator). ---------------------------- */
#ifdef HAVE_T_class_QXmppPacket
typedef struct T_class_QXmppPacket PKT;
#ifndef MCAP
#define MCAP 4
#endif
struct amap;
struct ent { uint32_t key; uint32_t used; uint32_t idx; struct amap *own; PKT val; };
struct amap { uint32_t n, hi; struct ent *s[MCAP + 1]; };   /* every slot is an object of its own: a choice between slots is a choice between OBJECTS at offset 0 (field-sensitive in cbmc), not one object at a symbolic offset */
#define AMP(self) (*(struct amap**)(self))
static struct amap AM_ZERO;
#ifdef HAVE_T_struct_QXmpp__Private__ShadowState
static struct T_struct_QXmpp__Private__ShadowState AM_BLANK_STATE;     /* never finished, no continuation, no value */
/* payload of the blank image: a classified block that is no stanza (static reference count: never freed).  The harness view of an entry
   that does not exist (vp_c09_map_val beyond the size) therefore reads as "wrong stanza" (property failure), not as a model limit */
#define AM_BLANK(e) do { (e)->val.f0.f0.f0 = (char*)&AM_BLANK_STATE; (e)->val.f1.f0 = (char*)blank; } while (0)
#else
#define AM_BLANK(e) do { } while (0)
#endif
static struct ent ENT_ZERO;
static struct amap *am_new(void) { struct amap *m = malloc(sizeof(struct amap)); ASSUME(m != 0); *m = AM_ZERO;
  QAD *blank = c09_blk(K_OTHER, 0xfffffffeu); REF(blank) = (uint32_t)-1;
  for (uint32_t i = 0; i <= MCAP; i++) { struct ent *e = malloc(sizeof(struct ent)); ASSUME(e != 0); *e = ENT_ZERO; e->idx = i; e->own = m; e->used = i == MCAP ? 2 : 1; m->s[i] = e;
    /* a slot that holds no element (and the sentinel) carries a harmless packet image: symex dereferences every alternative of a merged
       iterator value, also the infeasible "end()" one; a NULL promise there reads as an arbitrary continuation pointer (spurious re-entry) */
    AM_BLANK(e); }
  return m; }
#define LIVE(m, i) ((i) < (m)->hi && (m)->s[i]->used == 1)
static struct amap *AM(char *self) { return AMP(self); }
#define AM_END(m) ((m)->s[MCAP])
static void pk_copy(PKT *d, PKT *s) { F_vp_c09_pkt_copy((char*)d, (char*)s); }
static void pk_kill(PKT *p) { F_vp_c09_pkt_destroy((char*)p); }
/* next / previous used slot (the sentinel is "used"); ++end() stays at end(), --begin() stays at slot 0 (both undefined in Qt) */
static struct ent *ent_next(struct ent *p) { struct amap *m = p->own; uint32_t i = p->idx;
  for (uint32_t j = 0; j < MCAP; j++) { i++; if (i >= m->hi) break; if (m->s[i]->used == 1) return m->s[i]; } return AM_END(m); }
static struct ent *ent_prev(struct ent *p) { struct amap *m = p->own; uint32_t i = p->idx; if (i > m->hi) i = m->hi;
  for (uint32_t j = 0; j < MCAP; j++) { if (i == 0) break; i--; if (m->s[i]->used == 1) return m->s[i]; } return m->s[0]; }
static struct ent *am_first(struct amap *m) { for (uint32_t i = 0; i < MCAP; i++) { if (i >= m->hi) break; if (m->s[i]->used == 1) return m->s[i]; } return AM_END(m); }
/* i-th element in key order (harness view of the store) */
static struct ent *am_nth(struct amap *m, uint32_t i) { uint32_t c = 0;
  for (uint32_t s = 0; s < MCAP; s++) { if (m->s[s]->used == 1) { if (c == i) return s < m->hi ? m->s[s] : AM_END(m); c++; } } return AM_END(m); }
uint32_t vp_c09_map_n(char *self) { return AM(self)->n; }
uint32_t vp_c09_map_key(char *self, uint32_t i) { ASSERT(i < MCAP, "C09 model: map index"); return am_nth(AM(self), i)->key; }
char* vp_c09_map_val(char *self, uint32_t i) { ASSERT(i < MCAP, "C09 model: map index"); return (char*)&am_nth(AM(self), i)->val; }
/* pre-state construction: slot i := (key, copy of pkt); setn(n): exactly the slots 0..n-1 hold elements */
void vp_c09_map_set(char *self, uint32_t i, uint32_t key, char *pkt) { ASSERT(i < MCAP, "C09 model: map index"); struct amap *m = AM(self); m->s[i]->key = key; pk_copy(&m->s[i]->val, (PKT*)pkt); }
void vp_c09_map_setn(char *self, uint32_t n) { ASSERT(n <= MCAP, "C09 model: map size"); struct amap *m = AM(self); for (uint32_t i = 0; i < MCAP; i++) m->s[i]->used = 1; m->n = n; m->hi = n; }
void _ZN4QMapIj11QXmppPacketEC2Ev(char *self) { AMP(self) = am_new(); }
void _ZN4QMapIj11QXmppPacketE5clearEv(char *self) { struct amap *m = AM(self); for (uint32_t i = 0; i < MCAP; i++) { if (i >= m->hi) break; if (m->s[i]->used == 1) pk_kill(&m->s[i]->val); } for (uint32_t i = 0; i < MCAP; i++) m->s[i]->used = 1; m->n = 0; m->hi = 0; }
void _ZN4QMapIj11QXmppPacketED2Ev(char *self) { if (AMP(self)) { _ZN4QMapIj11QXmppPacketE5clearEv(self); AMP(self) = 0; } }
/* into an EMPTY map (fresh or just cleared) */
static void am_copy_into(struct amap *m, struct amap *s) { for (uint32_t i = 0; i < MCAP; i++) { if (i >= s->hi) break; m->s[i]->used = s->s[i]->used; if (s->s[i]->used == 1) { m->s[i]->key = s->s[i]->key; pk_copy(&m->s[i]->val, &s->s[i]->val); } } m->n = s->n; m->hi = s->hi; }
void _ZN4QMapIj11QXmppPacketEC2ERKS1_(char *self, char *o) { struct amap *m = am_new(); AMP(self) = m; am_copy_into(m, AM(o)); }
void _ZN4QMapIj11QXmppPacketEC2EOS1_(char *self, char *o) { AMP(self) = AMP(o); AMP(o) = am_new(); }
void _ZN4QMapIj11QXmppPacketE4swapERS1_(char *self, char *o) { struct amap *t = AMP(self); AMP(self) = AMP(o); AMP(o) = t; }
char* _ZN4QMapIj11QXmppPacketEaSEOS1_(char *self, char *o) { struct amap *t = AMP(self); AMP(self) = AMP(o); AMP(o) = t; return self; }
char* _ZN4QMapIj11QXmppPacketEaSERKS1_(char *self, char *o) { if (AMP(self) != AMP(o)) { _ZN4QMapIj11QXmppPacketE5clearEv(self); am_copy_into(AM(self), AM(o)); } return self; }
void _ZN4QMapIj11QXmppPacketE6detachEv(char *self) { }
void _ZN4QMapIj11QXmppPacketE13detach_helperEv(char *self) { }
uint8_t _ZNK4QMapIj11QXmppPacketE10isDetachedEv(char *self) { return 1; }
uint8_t _ZNK4QMapIj11QXmppPacketE12isSharedWithERKS1_(char *self, char *o) { return AMP(self) == AMP(o); }
void _ZN4QMapIj11QXmppPacketE11setSharableEb(char *self, uint8_t on) { }
uint8_t _ZNK4QMapIj11QXmppPacketE7isEmptyEv(char *self) { return AM(self)->n == 0; }
uint32_t _ZNK4QMapIj11QXmppPacketE4sizeEv(char *self) { return AM(self)->n; }
uint32_t _ZNK4QMapIj11QXmppPacketE5countEv(char *self) { return AM(self)->n; }
char* _ZN4QMapIj11QXmppPacketE5beginEv(char *self) { return (char*)am_first(AM(self)); }
char* _ZNK4QMapIj11QXmppPacketE5beginEv(char *self) { return (char*)am_first(AM(self)); }
char* _ZNK4QMapIj11QXmppPacketE10constBeginEv(char *self) { return (char*)am_first(AM(self)); }
char* _ZNK4QMapIj11QXmppPacketE6cbeginEv(char *self) { return (char*)am_first(AM(self)); }
char* _ZN4QMapIj11QXmppPacketE3endEv(char *self) { return (char*)AM_END(AM(self)); }
char* _ZNK4QMapIj11QXmppPacketE3endEv(char *self) { return (char*)AM_END(AM(self)); }
char* _ZNK4QMapIj11QXmppPacketE8constEndEv(char *self) { return (char*)AM_END(AM(self)); }
char* _ZNK4QMapIj11QXmppPacketE4cendEv(char *self) { return (char*)AM_END(AM(self)); }
/* insert / replace without ever moving an element.  A key above all stored keys is appended at slot hi.  General case (replace in place; a
   key below the largest stored one: a free slot OBJECT is rotated into the pointer array at the right position - the elements themselves stay
   where they are, iterators stay valid).  -DMAP_APPEND_ONLY=1 (per instance) turns everything but "append" into a model limit: the choice
   between append and the general case depends on key comparisons, which symex cannot fold - after the merge hi / s[] / flags are symbolic
   and every later traversal pays for it (measured on the re-entrancy instances: 160 s / 3 GB -> see spec_re.py). */
static struct ent *am_fill(struct amap *m, struct ent *e, uint32_t key, PKT *v) { e->key = key; pk_copy(&e->val, v); e->used = 1; m->n++; return e; }
static struct ent *am_insert(struct amap *m, uint32_t key, PKT *v) {
#ifdef MAP_APPEND_ONLY
  uint8_t above = 1;
  for (uint32_t i = 0; i < MCAP; i++) { if (i >= m->hi) break; if (m->s[i]->used == 1 && m->s[i]->key >= key) above = 0; }
  ASSERT(above, "C09 model: (MAP_APPEND_ONLY) QMap::insert of a key that is not above all stored keys");
  ASSUME(above);
#else
  uint32_t eq = MCAP, pos = m->hi;
  for (uint32_t i = MCAP; i > 0; i--) { if (i - 1 < m->hi && m->s[i - 1]->used == 1) { if (m->s[i - 1]->key == key) eq = i - 1; if (m->s[i - 1]->key > key) pos = i - 1; } }
  if (eq < MCAP) { pk_kill(&m->s[eq]->val); pk_copy(&m->s[eq]->val, v); return m->s[eq]; }
  if (pos < m->hi) {
    ASSERT(m->hi < MCAP, "C09 model: QMap capacity exceeded");
    struct ent *f = m->s[m->hi];                                   /* free slot object; rotate s[pos..hi] right by one */
    for (uint32_t i = MCAP - 1; i > 0; i--) { if (i > pos && i <= m->hi) { m->s[i] = m->s[i - 1]; m->s[i]->idx = i; } }
    for (uint32_t i = 0; i < MCAP; i++) { if (i == pos) m->s[i] = f; }
    f->idx = pos; m->hi++;
    return am_fill(m, f, key, v);
  }
#endif
  ASSERT(m->hi < MCAP, "C09 model: QMap capacity exceeded");
  struct ent *e = m->s[m->hi]; m->hi++;
  return am_fill(m, e, key, v); }
char* _ZN4QMapIj11QXmppPacketE6insertERKjRKS0_(char *self, char *k, char *v) { return (char*)am_insert(AM(self), *(uint32_t*)k, (PKT*)v); }
char* _ZN4QMapIj11QXmppPacketE6insertENS1_14const_iteratorERKjRKS0_(char *self, char *hint, char *k, char *v) { return (char*)am_insert(AM(self), *(uint32_t*)k, (PKT*)v); }
void _ZN4QMapIj11QXmppPacketE6insertERKS1_(char *self, char *o) { struct amap *m = AM(self), *s = AM(o); if (m == s) return;
  for (uint32_t i = 0; i < MCAP; i++) { if (LIVE(s, i)) am_insert(m, s->s[i]->key, &s->s[i]->val); } }
/* erase: Qt returns end() for erase(end()); the slot is freed in place, the result is the next element (or end()) */
static struct ent *am_erase(struct amap *m, struct ent *p) { if (p->used == 2) return p;
  ASSERT(p->idx < m->hi && p->used == 1, "C09 model: QMap::erase of an iterator whose element was already erased");
  pk_kill(&p->val); p->used = 0; m->n--; return ent_next(p); }
char* _ZN4QMapIj11QXmppPacketE5eraseENS1_8iteratorE(char *self, char *it) { return (char*)am_erase(AM(self), (struct ent*)it); }
void _ZN4QMapIj11QXmppPacketE8iteratorC2EP8QMapNodeIjS0_E(char *it, char *n) { *(char**)it = n; }
void _ZN4QMapIj11QXmppPacketE14const_iteratorC2EPK8QMapNodeIjS0_E(char *it, char *n) { *(char**)it = n; }
void _ZN4QMapIj11QXmppPacketE14const_iteratorC2ERKNS1_8iteratorE(char *it, char *o) { *(char**)it = *(char**)o; }
/* ++ / -- of an iterator whose element was erased reads a freed node in Qt: model limit, never a silent "next element" */
static struct ent *it_chk(struct ent *p) { ASSERT(p->used == 2 || (p->used == 1 && p->idx < p->own->hi), "C09 model: QMap iterator advanced after its element was erased"); return p; }
#define ent_next_it(p) ent_next(it_chk(p))
#define ent_prev_it(p) ent_prev(it_chk(p))
char* _ZN4QMapIj11QXmppPacketE8iteratorppEv(char *it) { *(struct ent**)it = ent_next_it(*(struct ent**)it); return it; }
char* _ZN4QMapIj11QXmppPacketE14const_iteratorppEv(char *it) { *(struct ent**)it = ent_next_it(*(struct ent**)it); return it; }
char* _ZN4QMapIj11QXmppPacketE8iteratormmEv(char *it) { *(struct ent**)it = ent_prev_it(*(struct ent**)it); return it; }
char* _ZN4QMapIj11QXmppPacketE14const_iteratormmEv(char *it) { *(struct ent**)it = ent_prev_it(*(struct ent**)it); return it; }
char* _ZN4QMapIj11QXmppPacketE8iteratorppEi(char *it, uint32_t d) { struct ent *o = *(struct ent**)it; *(struct ent**)it = ent_next_it(o); return (char*)o; }
char* _ZN4QMapIj11QXmppPacketE14const_iteratorppEi(char *it, uint32_t d) { struct ent *o = *(struct ent**)it; *(struct ent**)it = ent_next_it(o); return (char*)o; }
char* _ZN4QMapIj11QXmppPacketE8iteratormmEi(char *it, uint32_t d) { struct ent *o = *(struct ent**)it; *(struct ent**)it = ent_prev_it(o); return (char*)o; }
char* _ZN4QMapIj11QXmppPacketE14const_iteratormmEi(char *it, uint32_t d) { struct ent *o = *(struct ent**)it; *(struct ent**)it = ent_prev_it(o); return (char*)o; }
static struct ent *am_find(struct amap *m, uint32_t key) { for (uint32_t i = 0; i < MCAP; i++) { if (i >= m->hi) break; if (m->s[i]->used == 1 && m->s[i]->key == key) return m->s[i]; } return AM_END(m); }
/* first element with key >= k (strict = 0) resp. key > k (strict = 1), else end() */
static struct ent *am_bound(struct amap *m, uint32_t key, int strict) { struct ent *r = AM_END(m);
  for (uint32_t i = MCAP; i > 0; i--) { struct ent *p = m->s[i - 1]; if (i - 1 < m->hi && p->used == 1 && (strict ? p->key > key : p->key >= key)) r = p; } return r; }
char* _ZN4QMapIj11QXmppPacketE4findERKj(char *self, char *k) { return (char*)am_find(AM(self), *(uint32_t*)k); }
char* _ZNK4QMapIj11QXmppPacketE4findERKj(char *self, char *k) { return (char*)am_find(AM(self), *(uint32_t*)k); }
char* _ZNK4QMapIj11QXmppPacketE9constFindERKj(char *self, char *k) { return (char*)am_find(AM(self), *(uint32_t*)k); }
char* _ZN4QMapIj11QXmppPacketE10lowerBoundERKj(char *self, char *k) { return (char*)am_bound(AM(self), *(uint32_t*)k, 0); }
char* _ZNK4QMapIj11QXmppPacketE10lowerBoundERKj(char *self, char *k) { return (char*)am_bound(AM(self), *(uint32_t*)k, 0); }
char* _ZN4QMapIj11QXmppPacketE10upperBoundERKj(char *self, char *k) { return (char*)am_bound(AM(self), *(uint32_t*)k, 1); }
char* _ZNK4QMapIj11QXmppPacketE10upperBoundERKj(char *self, char *k) { return (char*)am_bound(AM(self), *(uint32_t*)k, 1); }
uint8_t _ZNK4QMapIj11QXmppPacketE8containsERKj(char *self, char *k) { struct amap *m = AM(self); return am_find(m, *(uint32_t*)k) != AM_END(m); }
uint32_t _ZNK4QMapIj11QXmppPacketE5countERKj(char *self, char *k) { struct amap *m = AM(self); return am_find(m, *(uint32_t*)k) != AM_END(m) ? 1 : 0; }
uint32_t _ZN4QMapIj11QXmppPacketE6removeERKj(char *self, char *k) { struct amap *m = AM(self); struct ent *p = am_find(m, *(uint32_t*)k); if (p == AM_END(m)) return 0; am_erase(m, p); return 1; }
void _ZNK4QMapIj11QXmppPacketE5valueERKjRKS0_(char *ret, char *self, char *k, char *dflt) { struct amap *m = AM(self); struct ent *p = am_find(m, *(uint32_t*)k); pk_copy((PKT*)ret, p == AM_END(m) ? (PKT*)dflt : &p->val); }
/* dereference: only of a live element (end() and erased elements have no key / value in Qt either) */
static struct ent *ent_live(char *it) { struct ent *p = *(struct ent**)it; ASSERT(p->used == 1 && p->idx < p->own->hi, "C09 model: QMap iterator dereferenced at end() or at an erased element"); return p; }
char* _ZNK4QMapIj11QXmppPacketE8iterator3keyEv(char *it) { return (char*)&ent_live(it)->key; }
char* _ZNK4QMapIj11QXmppPacketE14const_iterator3keyEv(char *it) { return (char*)&ent_live(it)->key; }
char* _ZNK4QMapIj11QXmppPacketE8iterator5valueEv(char *it) { return (char*)&ent_live(it)->val; }
char* _ZNK4QMapIj11QXmppPacketE8iteratordeEv(char *it) { return (char*)&ent_live(it)->val; }
char* _ZNK4QMapIj11QXmppPacketE8iteratorptEv(char *it) { return (char*)&ent_live(it)->val; }
char* _ZNK4QMapIj11QXmppPacketE14const_iterator5valueEv(char *it) { return (char*)&ent_live(it)->val; }
char* _ZNK4QMapIj11QXmppPacketE14const_iteratordeEv(char *it) { return (char*)&ent_live(it)->val; }
char* _ZNK4QMapIj11QXmppPacketE14const_iteratorptEv(char *it) { return (char*)&ent_live(it)->val; }
uint8_t _ZNK4QMapIj11QXmppPacketE8iteratoreqERKS2_(char *a, char *b) { return *(char**)a == *(char**)b; }
uint8_t _ZNK4QMapIj11QXmppPacketE8iteratorneERKS2_(char *a, char *b) { return *(char**)a != *(char**)b; }
uint8_t _ZNK4QMapIj11QXmppPacketE14const_iteratoreqERKS2_(char *a, char *b) { return *(char**)a == *(char**)b; }
uint8_t _ZNK4QMapIj11QXmppPacketE14const_iteratorneERKS2_(char *a, char *b) { return *(char**)a != *(char**)b; }
#endif
