/* C09 environment: socket log, payload blocks with ghost ids, serializeXml over the writer tree model,
   class-level array-backed model of QMap<unsigned, QXmppPacket>. Included after qt_core.c and qt_dom.c. */
#ifdef HAVE_T_struct_QArrayData
/* ---- byte blocks that reach the socket: {QArrayData header, ghost classification} -------------------------------------- */
#define K_PACKET 1u
#define K_ACK 2u
#define K_REQ 3u
#define K_OTHER 4u
#define K_RESUME 5u
#define K_ENABLE 6u
struct c09blk { QAD h; uint32_t magic; uint32_t kind; uint32_t val; uint8_t data[8]; };
#define C09_MAGIC 0xC09B10C5u
static QAD *c09_blk(uint32_t kind, uint32_t val) { struct c09blk *b = malloc(sizeof(struct c09blk)); ASSUME(b != 0);
  REF(&b->h) = 1; b->h.f1 = 1; b->h.f2 = 8; b->h.f3 = offsetof(struct c09blk, data); b->magic = C09_MAGIC; b->kind = kind; b->val = val; b->data[0] = (uint8_t)val; b->data[1] = 0; return &b->h; }
void vp_c09_payload(char *out, uint32_t id) { *(QAD**)out = c09_blk(K_PACKET, id); }
static struct c09blk *c09_of(char *ba) { QAD *d = *(QAD**)ba; ASSERT(d != SHARED_NULL, "C09 model: empty QByteArray where a classified block is expected"); ASSUME(d != SHARED_NULL);
  struct c09blk *b = (struct c09blk*)d; ASSERT(b->magic == C09_MAGIC, "C09 model: byte array was not produced by the payload/serializeXml models"); return b; }
uint32_t vp_c09_payload_id(char *ba) { struct c09blk *b = c09_of(ba); return b->kind == K_PACKET ? b->val : 0xffffu; }

/* ---- socket: XmppSocket::sendData (reached through the harness' FakeSock vtable) -------------------------------------------- */
#ifndef SENT_CAP
#define SENT_CAP 8
#endif
static uint32_t sent_n, sent_kind[SENT_CAP], sent_val[SENT_CAP]; static uint8_t sent_ok[SENT_CAP];
uint8_t vp_c09_send(char *ba) { struct c09blk *b = c09_of(ba); ASSERT(sent_n < SENT_CAP, "C09 model: socket log capacity");
  uint8_t ok = vp_bool(); sent_kind[sent_n] = b->kind; sent_val[sent_n] = b->val; sent_ok[sent_n] = ok; sent_n++; return ok; }
uint32_t vp_c09_sent_n(void) { return sent_n; }
uint32_t vp_c09_sent_kind(uint32_t i) { return i < SENT_CAP ? sent_kind[i] : 0; }
uint32_t vp_c09_sent_val(uint32_t i) { return i < SENT_CAP ? sent_val[i] : 0; }
uint8_t vp_c09_sent_ok(uint32_t i) { return i < SENT_CAP ? sent_ok[i] : 0; }
void _ZN5QXmpp7Private10XmppSocketC2EP7QObject(char *self, char *parent) { /* QObject part of the socket is never touched */ }

/* ---- serializeXml<SmAck>, serializeXml<SmRequest> (inline templates, overridden): run the REAL T::toXml into the writer tree model
   (Qt's text encoding is trusted) and classify the finished document: <r xmlns=sm/> | <a xmlns=sm h=N/> (N an unsigned 32-bit number) | anything else -------- */
static uint8_t c09_lit(QAD **s, const char *l, uint32_t n) { return _ZNK7QStringeqE13QLatin1String((char*)s, n, (char*)l); }
static void c09_classify(char *w, char *ret) {
  struct wr *x = WR(w); VP_ASSERT(x->root != 0 && x->depth == 0, "C09 serialized nonza is one complete element");
  ASSUME(x->root != 0);
  struct dnode *r = x->root; uint32_t kind = K_OTHER, val = 0;
  if (c09_lit(&r->ns, "urn:xmpp:sm:3", 13) && r->nch == 0 && r->text->f1 == 0) {
    if (c09_lit(&r->tag, "r", 1) && r->nattr == 0) kind = K_REQ;
    else if (c09_lit(&r->tag, "enable", 6)) kind = K_ENABLE;
    else if (c09_lit(&r->tag, "a", 1) || c09_lit(&r->tag, "resume", 6)) { uint8_t isack = c09_lit(&r->tag, "a", 1); QAD *hn = (QAD*)_ZN7QString17fromLatin1_helperEPKci((char*)"h", 1); int i = dn_attr(r, hn);
      if (i >= 0 && numS(r->av[i]).isnum && !numS(r->av[i]).neg && numS(r->av[i]).mag <= 0xffffffffULL && r->nattr == (isack ? 1u : 2u)) { kind = isack ? K_ACK : K_RESUME; val = (uint32_t)numS(r->av[i]).mag; } } }
  *(QAD**)ret = c09_blk(kind, val); }
void _ZN5QXmpp7Private12serializeXmlINS0_5SmAckEEE10QByteArrayRKT_(char *ret, char *pkt) { char *w[2]; vp_writer_init((char*)w); F_vp_c09_toxml_ack(pkt, (char*)w); c09_classify((char*)w, ret); }
void _ZN5QXmpp7Private12serializeXmlINS0_9SmRequestEEE10QByteArrayRKT_(char *ret, char *pkt) { char *w[2]; vp_writer_init((char*)w); F_vp_c09_toxml_req(pkt, (char*)w); c09_classify((char*)w, ret); }
void _ZN5QXmpp7Private12serializeXmlINS0_8SmResumeEEE10QByteArrayRKT_(char *ret, char *pkt) { char *w[2]; vp_writer_init((char*)w); F_vp_c09_toxml_resume(pkt, (char*)w); c09_classify((char*)w, ret); }
void _ZN5QXmpp7Private12serializeXmlINS0_8SmEnableEEE10QByteArrayRKT_(char *ret, char *pkt) { char *w[2]; vp_writer_init((char*)w); F_vp_c09_toxml_enable(pkt, (char*)w); c09_classify((char*)w, ret); }
uint8_t vp_c09_false(void) { return 0; }
#ifndef VP_NFIX
#define VP_NFIX 0xffffffffu
#endif
uint32_t vp_c09_nfix(void) { return VP_NFIX; }
#ifndef VP_SENDFIX
#define VP_SENDFIX 0xffffffffu
#endif
uint32_t vp_c09_sendfix(void) { return VP_SENDFIX; }
/* error condition named inside <failed/> (QXmppStanza.cpp is not linked): irrelevant for C09 - any optional<Condition> (value 0..21 in the low word, engaged flag in bit 32) */
uint64_t _ZN5QXmpp7Private19conditionFromStringERK7QString(char *s) { uint8_t has = vp_bool(); uint32_t c = vp_u32(); ASSUME(c <= 21); return has ? ((uint64_t)1 << 32) | c : 0; }
/* task shadow: dropping the last reference to a promise/task state only reclaims memory (nobody can observe the state afterwards);
   the model keeps the count and leaks the block, which spares symex the destructor of optional<variant<SendSuccess,QXmppError>>
   on every (infeasible) "last reference" branch of a packet copy that is destroyed */
#ifdef HAVE_T_struct_QXmpp__Private__ShadowState
void _ZN5QXmpp7Private9ShadowRefISt7variantIJNS_11SendSuccessE10QXmppErrorEEE7releaseEv(char *self) { struct T_struct_QXmpp__Private__ShadowState *st = *(struct T_struct_QXmpp__Private__ShadowState**)self; ASSERT(st->f0 != 0, "C09 model: reference count underflow"); st->f0--; }
#endif
/* logging signal of QXmppLoggable (moc): no observable effect */
void _ZN13QXmppLoggable10logMessageEN11QXmppLogger11MessageTypeERK7QString(char *self, uint32_t type, char *msg) { }
#endif

/* ---- class-level model of QMap<unsigned, QXmppPacket>: ordered array with value semantics (what implicit sharing implements).
   Elements are copied / destroyed with the REAL QXmppPacket copy constructor / destructor. ------------------------------------- */
#ifdef HAVE_T_class_QXmppPacket
typedef struct T_class_QXmppPacket PKT;
#ifndef MCAP
#define MCAP 4
#endif
struct ent { uint32_t key; PKT val; };
struct amap { uint32_t n; struct ent e[MCAP + 1]; };
#define AMP(self) (*(struct amap**)(self))
static struct amap AM_ZERO;
static struct amap *am_new(void) { struct amap *m = malloc(sizeof(struct amap)); ASSUME(m != 0); *m = AM_ZERO; return m; }
static struct amap *AM(char *self) { return AMP(self); }
static void pk_copy(PKT *d, PKT *s) { F_vp_c09_pkt_copy((char*)d, (char*)s); }
static void pk_kill(PKT *p) { F_vp_c09_pkt_destroy((char*)p); }
uint32_t vp_c09_map_n(char *self) { return AM(self)->n; }
uint32_t vp_c09_map_key(char *self, uint32_t i) { ASSERT(i < MCAP, "C09 model: map index"); return AM(self)->e[i].key; }
char* vp_c09_map_val(char *self, uint32_t i) { ASSERT(i < MCAP, "C09 model: map index"); return (char*)&AM(self)->e[i].val; }
void vp_c09_map_set(char *self, uint32_t i, uint32_t key, char *pkt) { ASSERT(i < MCAP, "C09 model: map index"); struct amap *m = AM(self); m->e[i].key = key; pk_copy(&m->e[i].val, (PKT*)pkt); }
void vp_c09_map_setn(char *self, uint32_t n) { ASSERT(n <= MCAP, "C09 model: map size"); AM(self)->n = n; }
void _ZN4QMapIj11QXmppPacketEC2Ev(char *self) { AMP(self) = am_new(); }
void _ZN4QMapIj11QXmppPacketE5clearEv(char *self) { struct amap *m = AM(self); for (uint32_t i = 0; i < MCAP; i++) { if (i >= m->n) break; pk_kill(&m->e[i].val); } m->n = 0; }
void _ZN4QMapIj11QXmppPacketED2Ev(char *self) { if (AMP(self)) { _ZN4QMapIj11QXmppPacketE5clearEv(self); AMP(self) = 0; } }
void _ZN4QMapIj11QXmppPacketEC2ERKS1_(char *self, char *o) { struct amap *m = am_new(), *s = AM(o); AMP(self) = m;
  for (uint32_t i = 0; i < MCAP; i++) { if (i >= s->n) break; m->e[i].key = s->e[i].key; pk_copy(&m->e[i].val, &s->e[i].val); } m->n = s->n; }
void _ZN4QMapIj11QXmppPacketEC2EOS1_(char *self, char *o) { AMP(self) = AMP(o); AMP(o) = am_new(); }
void _ZN4QMapIj11QXmppPacketE4swapERS1_(char *self, char *o) { struct amap *t = AMP(self); AMP(self) = AMP(o); AMP(o) = t; }
char* _ZN4QMapIj11QXmppPacketEaSEOS1_(char *self, char *o) { struct amap *t = AMP(self); AMP(self) = AMP(o); AMP(o) = t; return self; }
char* _ZN4QMapIj11QXmppPacketEaSERKS1_(char *self, char *o) { if (AMP(self) != AMP(o)) { _ZN4QMapIj11QXmppPacketE5clearEv(self); struct amap *m = AM(self), *s = AM(o);
  for (uint32_t i = 0; i < MCAP; i++) { if (i >= s->n) break; m->e[i].key = s->e[i].key; pk_copy(&m->e[i].val, &s->e[i].val); } m->n = s->n; } return self; }
void _ZN4QMapIj11QXmppPacketE6detachEv(char *self) { }
void _ZN4QMapIj11QXmppPacketE13detach_helperEv(char *self) { }
uint8_t _ZNK4QMapIj11QXmppPacketE7isEmptyEv(char *self) { return AM(self)->n == 0; }
uint32_t _ZNK4QMapIj11QXmppPacketE4sizeEv(char *self) { return AM(self)->n; }
char* _ZN4QMapIj11QXmppPacketE5beginEv(char *self) { return (char*)&AM(self)->e[0]; }
char* _ZNK4QMapIj11QXmppPacketE5beginEv(char *self) { return (char*)&AM(self)->e[0]; }
char* _ZNK4QMapIj11QXmppPacketE10constBeginEv(char *self) { return (char*)&AM(self)->e[0]; }
char* _ZN4QMapIj11QXmppPacketE3endEv(char *self) { struct amap *m = AM(self); return (char*)&m->e[m->n]; }
char* _ZNK4QMapIj11QXmppPacketE3endEv(char *self) { struct amap *m = AM(self); return (char*)&m->e[m->n]; }
char* _ZNK4QMapIj11QXmppPacketE8constEndEv(char *self) { struct amap *m = AM(self); return (char*)&m->e[m->n]; }
char* _ZN4QMapIj11QXmppPacketE6insertERKjRKS0_(char *self, char *k, char *v) { struct amap *m = AM(self); uint32_t key = *(uint32_t*)k, pos = 0;
  for (uint32_t i = 0; i < MCAP; i++) { if (i >= m->n) break; if (m->e[i].key < key) pos = i + 1; }
  if (pos < m->n && m->e[pos].key == key) { pk_kill(&m->e[pos].val); pk_copy(&m->e[pos].val, (PKT*)v); return (char*)&m->e[pos]; }
  ASSERT(m->n < MCAP, "C09 model: QMap capacity exceeded");
  for (uint32_t i = MCAP; i > 0; i--) { if (i <= m->n && i > pos) m->e[i] = m->e[i - 1]; }
  m->e[pos].key = key; pk_copy(&m->e[pos].val, (PKT*)v); m->n++; return (char*)&m->e[pos]; }
char* _ZN4QMapIj11QXmppPacketE5eraseENS1_8iteratorE(char *self, char *it) { struct amap *m = AM(self); uint32_t pos = (uint32_t)((struct ent*)it - m->e);
  ASSERT(pos < m->n, "C09 model: QMap::erase(end())"); pk_kill(&m->e[pos].val);
  for (uint32_t i = 0; i < MCAP; i++) { if (i >= pos && i + 1 < m->n) m->e[i] = m->e[i + 1]; } m->n--; return (char*)&m->e[pos]; }
void _ZN4QMapIj11QXmppPacketE8iteratorC2EP8QMapNodeIjS0_E(char *it, char *n) { *(char**)it = n; }
void _ZN4QMapIj11QXmppPacketE14const_iteratorC2EPK8QMapNodeIjS0_E(char *it, char *n) { *(char**)it = n; }
void _ZN4QMapIj11QXmppPacketE14const_iteratorC2ERKNS1_8iteratorE(char *it, char *o) { *(char**)it = *(char**)o; }
char* _ZN4QMapIj11QXmppPacketE8iteratorppEv(char *it) { *(struct ent**)it += 1; return it; }
char* _ZN4QMapIj11QXmppPacketE14const_iteratorppEv(char *it) { *(struct ent**)it += 1; return it; }
char* _ZN4QMapIj11QXmppPacketE8iteratormmEv(char *it) { *(struct ent**)it -= 1; return it; }
char* _ZN4QMapIj11QXmppPacketE14const_iteratormmEv(char *it) { *(struct ent**)it -= 1; return it; }
static struct ent *am_find(struct amap *m, uint32_t key) { for (uint32_t i = 0; i < MCAP; i++) { if (i >= m->n) break; if (m->e[i].key == key) return &m->e[i]; } return &m->e[m->n]; }
char* _ZN4QMapIj11QXmppPacketE4findERKj(char *self, char *k) { return (char*)am_find(AM(self), *(uint32_t*)k); }
char* _ZNK4QMapIj11QXmppPacketE4findERKj(char *self, char *k) { return (char*)am_find(AM(self), *(uint32_t*)k); }
char* _ZNK4QMapIj11QXmppPacketE9constFindERKj(char *self, char *k) { return (char*)am_find(AM(self), *(uint32_t*)k); }
uint8_t _ZNK4QMapIj11QXmppPacketE8containsERKj(char *self, char *k) { struct amap *m = AM(self); return am_find(m, *(uint32_t*)k) != &m->e[m->n]; }
char* _ZNK4QMapIj11QXmppPacketE8iterator3keyEv(char *it) { return (char*)&(*(struct ent**)it)->key; }
char* _ZNK4QMapIj11QXmppPacketE14const_iterator3keyEv(char *it) { return (char*)&(*(struct ent**)it)->key; }
char* _ZNK4QMapIj11QXmppPacketE8iterator5valueEv(char *it) { return (char*)&(*(struct ent**)it)->val; }
char* _ZNK4QMapIj11QXmppPacketE8iteratordeEv(char *it) { return (char*)&(*(struct ent**)it)->val; }
char* _ZNK4QMapIj11QXmppPacketE8iteratorptEv(char *it) { return (char*)&(*(struct ent**)it)->val; }
char* _ZNK4QMapIj11QXmppPacketE14const_iteratordeEv(char *it) { return (char*)&(*(struct ent**)it)->val; }
uint8_t _ZNK4QMapIj11QXmppPacketE8iteratoreqERKS2_(char *a, char *b) { return *(char**)a == *(char**)b; }
uint8_t _ZNK4QMapIj11QXmppPacketE8iteratorneERKS2_(char *a, char *b) { return *(char**)a != *(char**)b; }
uint8_t _ZNK4QMapIj11QXmppPacketE14const_iteratoreqERKS2_(char *a, char *b) { return *(char**)a == *(char**)b; }
uint8_t _ZNK4QMapIj11QXmppPacketE14const_iteratorneERKS2_(char *a, char *b) { return *(char**)a != *(char**)b; }
#endif
