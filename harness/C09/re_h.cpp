// C09 - re-entrancy instances on the REAL StreamAckManager (see re_common.h for the scenario and the reference).
#include "re_common.h"

static QDomElement ackElement(unsigned h)
{
    QDomElement a = vpElement(QStringLiteral("a"), ns_stream_management.toString());
    QString hs = QString::number(h), hn = QStringLiteral("h");
    vp_dom_set_attr(&a, &hn, &hs);
    return a;
}

// ---- <a h=H/> (any H) while stream management is active; then the session is resumed with the same H: the new stanza, if still stored,
//      is retransmitted after the older uncovered ones (re_resume has the resumption whose own h triggers the handler) -------------------------------------------------------------------------------
extern "C" void h_re_ack()
{
    World &w = *new World(1);
    ReWorld re(w);
    unsigned h = vp_u32();
    w.m->handleStanza(ackElement(h));
    unsigned k = w.covered(h);
    re.checkReports(k, R_ACKED);                        // old ones: acknowledged <=> key <= h; handler ran <=> stanza j covered
    bool newStored = re.checkNew(true, h);              // new one: acknowledged only if lastOut+1 <= h, else stored and unreported
    re.checkStore(k, newStored);
    w.checkUnchangedCounters(true);
    re.checkNoOtherStanza(0);                           // an ack makes the client transmit nothing but what the handler sent
    // a following resumption (the server's h covers nothing more) retransmits exactly what is stored, the new stanza last
    unsigned from = vp_c09_sent_n();
    w.m->onSessionClosed();
    w.m->enableStreamManagement(false);
    vp_assert(g_runs <= 1, "C09 no report fires twice");
    re.checkStore(k, newStored);
    re.checkResend(from, k, newStored);
}
// ---- setAcknowledgedSequenceNumber(H) directly (what <resumed h=H/> does first), stream management active or not ------------------
extern "C" void h_re_setack()
{
    World &w = *new World(2);
    ReWorld re(w);
    unsigned h = vp_u32();
    w.m->setAcknowledgedSequenceNumber(h);
    unsigned k = w.covered(h);
    re.checkReports(k, R_ACKED);
    bool newStored = re.checkNew(true, h);
    re.checkStore(k, newStored);
    w.checkUnchangedCounters(w.enabled);
    re.checkNoOtherStanza(0);
}
// ---- resumption: setAcknowledgedSequenceNumber(H); enableStreamManagement(false).  State and content of the retransmission -----------
static void resumeStep(bool order)
{
    // order variant: stream management is NOT active when <resumed/> arrives (closeSession -> onSessionClosed always precedes a resumption)
    World &w = *new World(order ? 0 : 2);
    ReWorld re(w);
    unsigned h = vp_u32();
    w.m->setAcknowledgedSequenceNumber(h);
    unsigned from = vp_c09_sent_n();                     // what the handler wrote (its stanza, <r/>) precedes the retransmission
    w.m->enableStreamManagement(false);
    unsigned k = w.covered(h);
    re.checkReports(k, R_ACKED);
    bool newStored = re.checkNew(true, h);
    re.checkStore(k, newStored);
    w.checkUnchangedCounters(true);
    re.checkResend(from, k, newStored);                  // exactly the uncovered old ones in order, then the new one if it is stored
    if (order) {
        // "... and before newer traffic": nothing newer than the retransmitted stanzas may be on the wire before them
        vp_assert(!(re.ran() && w.n - k > 0), "C09 on resumption the uncovered stanzas are transmitted again before newer traffic");
        // and every stanza written on a session with stream management is numbered (else the server's handled-count runs ahead)
        vp_assert(!re.ran() || g_enabledAtRun, "C09 a stanza written on a resumed session takes part in the stream-management numbering");
    }
}
extern "C" void h_re_resume() { resumeStep(false); }
extern "C" void h_re_resume_order() { resumeStep(true); }
// ---- the client gives up the session: everything pending fails exactly once; the failure handler sends a new stanza -----------------
extern "C" void h_re_reset_cache()
{
    World &w = *new World(2);
    ReWorld re(w);
    w.m->resetCache();
    re.checkReports(w.n, R_ERROR);
    bool newStored = re.checkNew(false, 0, true);             // never acknowledged; stored & unreported, or reported & not stored
#ifdef RE_STRONG
    vp_assert(!newStored, "C09 (what the code does) a stanza sent from a failure handler during resetCache is failed by the same resetCache");
#endif
    re.checkStore(w.n, newStored);
    w.checkUnchangedCounters(w.enabled);
    re.checkNoOtherStanza(0);
    w.m->resetCache();                                   // a second call reports nothing twice
    vp_assert(g_runs == 1, "C09 no report fires twice");
    re.checkReports(w.n, R_ERROR);
}
// ---- connection loss alone reports nothing: no handler runs, nothing is sent ---------------------------------------------------------
extern "C" void h_re_session_closed()
{
    World &w = *new World(2);
    ReWorld re(w);
    w.m->onSessionClosed();
    re.checkReports(0, R_NONE);
    re.checkStore(0, false);
    w.checkUnchangedCounters(false);
    re.checkNoOtherStanza(0);
}
