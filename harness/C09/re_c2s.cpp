// C09 - re-entrancy through the layer that handles <resumed h=H/>: REAL C2sStreamManager::handleElement -> onResumed ->
// StreamAckManager::setAcknowledgedSequenceNumber(H); enableStreamManagement(false).  Scaffolding as in h_c2s.cpp.
#include "re_common.h"
#define private public
#include "QXmppOutgoingClient.h"
#include "QXmppOutgoingClient_p.h"
#undef private
#include <memory>

struct C2sWorld {
    VpRaw<QXmppOutgoingClient> qbuf;
    VpRaw<QXmppOutgoingClientPrivate> dbuf;
    QXmppOutgoingClient *q;
    QXmppOutgoingClientPrivate *d;
    World w;
    C2sStreamManager c2s;
    C2sWorld(int enabledMode)
        : q(qbuf.p()), d(dbuf.p()), w(enabledMode, &dbuf.p()->socket, &dbuf.p()->streamAckManager), c2s(qbuf.p())
    {
        new (const_cast<std::unique_ptr<QXmppOutgoingClientPrivate> *>(&q->d)) std::unique_ptr<QXmppOutgoingClientPrivate>(d);
    }
};

// state, reports and CONTENT of the retransmission (where the handler's own first transmission sits relative to the retransmission is
// the subject of re_resume_order, see spec_re.py)
extern "C" void h_re_c2s_resumed()
{
    C2sWorld &c = *new C2sWorld(2);
    World &w = c.w;
    ReWorld re(w);
    unsigned h = vp_u32();
    c.c2s.m_request = C2sStreamManager::ResumeRequest();
    c.c2s.m_canResume = true; c.c2s.m_enabled = false;
    QDomElement el = vpElement(QStringLiteral("resumed"), ns_stream_management.toString());
    QString hs = QString::number(h), hn = QStringLiteral("h"), pn = QStringLiteral("previd"), pv = vpSymString(2);
    vp_dom_set_attr(&el, &hn, &hs); vp_dom_set_attr(&el, &pn, &pv);
    c.c2s.handleElement(el);
    unsigned k = w.covered(h);
    re.checkReports(k, R_ACKED);
    bool newStored = re.checkNew(true, h);
    re.checkStore(k, newStored);
    w.checkUnchangedCounters(true);
    // the handler ran inside setAcknowledgedSequenceNumber: what it wrote (its stanza; <r/> if stream management was active) precedes the retransmission
    unsigned from = re.ran() ? g_logAtRun + (g_enabledAtRun ? 2u : 1u) : 0u;
    re.checkResend(from, k, newStored);
    vp_assert(!re.ran() || g_logAtRun == 0, "C09 no stanza is transmitted (again) by this event beyond the expected ones");   // nothing before the handler's stanza
}
