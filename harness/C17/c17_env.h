// C17 environment, C++ side: the extension classes of OTHER translation units that QXmppMessage embeds.
// Their real serializers/parsers (QXmppMixInvitation.cpp, QXmppJingleData.cpp, QXmppFileShare.cpp, ...) are NOT linked; each
// class is replaced by a one-value stand-in that writes / recognises / parses ONE element with the real tag and namespace and
// one attribute "v" carrying the value (DESIGN C17 "E:"): C17 is about WHICH mode-guarded block of QXmppMessage the call sits
// in, the sub-codecs' own round trip is C01's subject.  The value is reachable through one real accessor pair of the class.
#pragma once
#include "QXmppMessage.h"
#include "QXmppBitsOfBinaryContentId.h"
#include "QXmppBitsOfBinaryData.h"
#include "QXmppBitsOfBinaryDataList.h"
#include "QXmppConstants_p.h"
#include "QXmppFallback.h"
#include "QXmppFileShare.h"
#include "QXmppJingleData.h"
#include "QXmppMessageReaction.h"
#include "QXmppMixInvitation.h"
#include "QXmppOutOfBandUrl.h"
#include "QXmppTrustMessageElement.h"
#include <QDateTime>
#include <QDomElement>
#include <QXmlStreamWriter>

static void c17_write(QXmlStreamWriter *w, QStringView tag, QStringView ns, const QString &v)
{
    w->writeStartElement(tag.toString());
    w->writeDefaultNamespace(ns.toString());
    w->writeAttribute(QStringLiteral("v"), v);
    w->writeEndElement();
}
static bool c17_is(const QDomElement &e, QStringView tag, QStringView ns) { return e.tagName() == tag && e.namespaceURI() == ns; }
static QString c17_value(const QDomElement &e) { return e.attribute(QStringLiteral("v")); }

#define C17_SIX(X, NOEXCEPT)                                  \
    X::X() : d(new X##Private) { }                            \
    X::X(const X &) = default;                                \
    X::X(X &&) NOEXCEPT = default;                            \
    X::~X() = default;                                        \
    X &X::operator=(const X &) = default;                     \
    X &X::operator=(X &&) NOEXCEPT = default;
#define C17_PRIV(X) class X##Private : public QSharedData { public: QString v; };

// XEP-0066 <x xmlns='jabber:x:oob'/>
C17_PRIV(QXmppOutOfBandUrl) C17_SIX(QXmppOutOfBandUrl, noexcept)
const QString &QXmppOutOfBandUrl::url() const { return d->v; }
void QXmppOutOfBandUrl::setUrl(const QString &u) { d->v = u; }
bool QXmppOutOfBandUrl::parse(const QDomElement &e) { d->v = c17_value(e); return true; }
void QXmppOutOfBandUrl::toXml(QXmlStreamWriter *w) const { c17_write(w, u"x", ns_oob, d->v); }

// XEP-0231 <data xmlns='urn:xmpp:bob'/>  (value = max-age, an int)
class QXmppBitsOfBinaryDataPrivate : public QSharedData { public: int v = 0; };
C17_SIX(QXmppBitsOfBinaryData, )
int QXmppBitsOfBinaryData::maxAge() const { return d->v; }
void QXmppBitsOfBinaryData::setMaxAge(int a) { d->v = a; }
bool QXmppBitsOfBinaryData::isBitsOfBinaryData(const QDomElement &e) { return c17_is(e, u"data", ns_bob); }
void QXmppBitsOfBinaryData::parseElementFromChild(const QDomElement &e) { d->v = c17_value(e).toInt(); }
void QXmppBitsOfBinaryData::toXmlElementFromChild(QXmlStreamWriter *w) const { c17_write(w, u"data", ns_bob, QString::number(d->v)); }
QXmppBitsOfBinaryDataList::QXmppBitsOfBinaryDataList() = default;
QXmppBitsOfBinaryDataList::~QXmppBitsOfBinaryDataList() = default;

// XEP-0353 <propose xmlns='urn:xmpp:jingle-message:0' id=.../>  (real recogniser: known tag && has id && namespace)
C17_PRIV(QXmppJingleMessageInitiationElement) C17_SIX(QXmppJingleMessageInitiationElement, noexcept)
QString QXmppJingleMessageInitiationElement::id() const { return d->v; }
void QXmppJingleMessageInitiationElement::setId(const QString &i) { d->v = i; }
bool QXmppJingleMessageInitiationElement::isJingleMessageInitiationElement(const QDomElement &e) { return c17_is(e, u"propose", ns_jingle_message_initiation); }
void QXmppJingleMessageInitiationElement::parse(const QDomElement &e) { d->v = c17_value(e); }
void QXmppJingleMessageInitiationElement::toXml(QXmlStreamWriter *w) const { c17_write(w, u"propose", ns_jingle_message_initiation, d->v); }

// XEP-0482 <invite xmlns='urn:xmpp:call-invites:0'/>
C17_PRIV(QXmppCallInviteElement) C17_SIX(QXmppCallInviteElement, noexcept)
QString QXmppCallInviteElement::id() const { return d->v; }
void QXmppCallInviteElement::setId(const QString &i) { d->v = i; }
bool QXmppCallInviteElement::isCallInviteElement(const QDomElement &e) { return c17_is(e, u"invite", ns_call_invites); }
void QXmppCallInviteElement::parse(const QDomElement &e) { d->v = c17_value(e); }
void QXmppCallInviteElement::toXml(QXmlStreamWriter *w) const { c17_write(w, u"invite", ns_call_invites, d->v); }

// XEP-0407 <invitation xmlns='urn:xmpp:mix:misc:0'/>
C17_PRIV(QXmppMixInvitation) C17_SIX(QXmppMixInvitation, )
QString QXmppMixInvitation::token() const { return d->v; }
void QXmppMixInvitation::setToken(const QString &t) { d->v = t; }
void QXmppMixInvitation::parse(const QDomElement &e) { d->v = c17_value(e); }
void QXmppMixInvitation::toXml(QXmlStreamWriter *w) const { c17_write(w, u"invitation", ns_mix_misc, d->v); }

// XEP-0434 <trust-message xmlns='urn:xmpp:tm:1'/>
C17_PRIV(QXmppTrustMessageElement) C17_SIX(QXmppTrustMessageElement, )
QString QXmppTrustMessageElement::usage() const { return d->v; }
void QXmppTrustMessageElement::setUsage(const QString &u) { d->v = u; }
bool QXmppTrustMessageElement::isTrustMessageElement(const QDomElement &e) { return c17_is(e, u"trust-message", ns_tm); }
void QXmppTrustMessageElement::parse(const QDomElement &e) { d->v = c17_value(e); }
void QXmppTrustMessageElement::toXml(QXmlStreamWriter *w) const { c17_write(w, u"trust-message", ns_tm, d->v); }

// XEP-0444 <reactions xmlns='urn:xmpp:reactions:0'/>
C17_PRIV(QXmppMessageReaction) C17_SIX(QXmppMessageReaction, noexcept)
QString QXmppMessageReaction::messageId() const { return d->v; }
void QXmppMessageReaction::setMessageId(const QString &i) { d->v = i; }
bool QXmppMessageReaction::isMessageReaction(const QDomElement &e) { return c17_is(e, u"reactions", ns_reactions); }
void QXmppMessageReaction::parse(const QDomElement &e) { d->v = c17_value(e); }
void QXmppMessageReaction::toXml(QXmlStreamWriter *w) const { c17_write(w, u"reactions", ns_reactions, d->v); }

// XEP-0447 <file-sharing xmlns='urn:xmpp:sfs:0'/> and <sources xmlns='urn:xmpp:sfs:0'/>
C17_PRIV(QXmppFileShare) C17_SIX(QXmppFileShare, noexcept)
const QString &QXmppFileShare::id() const { return d->v; }
void QXmppFileShare::setId(const QString &i) { d->v = i; }
bool QXmppFileShare::parse(const QDomElement &e) { d->v = c17_value(e); return true; }
void QXmppFileShare::toXml(QXmlStreamWriter *w) const { c17_write(w, u"file-sharing", ns_sfs, d->v); }
C17_PRIV(QXmppFileSourcesAttachment) C17_SIX(QXmppFileSourcesAttachment, noexcept)
const QString &QXmppFileSourcesAttachment::id() const { return d->v; }
void QXmppFileSourcesAttachment::setId(const QString &i) { d->v = i; }
std::optional<QXmppFileSourcesAttachment> QXmppFileSourcesAttachment::fromDom(const QDomElement &e)
{
    QXmppFileSourcesAttachment a;
    a.d->v = c17_value(e);
    return a;
}
void QXmppFileSourcesAttachment::toXml(QXmlStreamWriter *w) const { c17_write(w, u"sources", ns_sfs, d->v); }
