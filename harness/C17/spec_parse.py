# C17, parse-path instances: a PARSED message (arbitrary, possibly malformed children from the sensitive vocabulary) serialized split.
TUS = ['src/base/QXmppMessage.cpp', 'src/base/QXmppStanza.cpp', 'src/base/QXmppUtils.cpp', 'src/base/QXmppGlobal.cpp']
MODELS = ['qt_core.c', 'qt_list.c', 'qt_dom.c', 'c17_models.c', 'parse_models.c']
# rows of PARSE_KINDS in parse_h.cpp (keep in step)
KINDS = ['body', 'subject', 'thread', 'body_foreign_ns', 'x_legacy_delay', 'x_muc_invitation', 'x_oob', 'html', 'cs_active', 'cs_inactive', 'cs_gone', 'cs_composing', 'cs_paused',
         'cs_unknown_tag', 'receipt_received', 'receipt_request', 'delay', 'attention', 'bob', 'replace', 'markable', 'marker_received', 'marker_displayed', 'marker_acknowledged',
         'marker_unknown_tag', 'jmi_propose', 'jmi_ringing', 'jmi_proceed', 'jmi_reject', 'jmi_retract', 'jmi_finish', 'attach_to', 'spoiler', 'mix_invitation', 'trust_message',
         'reactions', 'file_sharing', 'reply', 'sources', 'call_invite', 'call_accept', 'call_reject', 'call_retract', 'call_left', 'fallback', 'origin_id', 'mix', 'foreign',
         'nm_x_foreign_ns', 'nm_received_foreign_ns', 'nm_file_sharing_foreign_ns', 'nm_foreign_tag_sfs', 'nm_file_sharing_client_ns', 'nm_sources_reply_ns', 'nm_reactions_sfs_ns', 'nm_html_xhtml_ns']
K = {n: i for i, n in enumerate(KINDS)}
VL = ['absent / empty', 'exactly 1 arbitrary UTF-16 unit', 'exactly 2 arbitrary UTF-16 units']
# a round = one input tree: R(kind0[, kind1], g0=, g1=, verdict=, defmode=, vlen=, noid=)
def R(k0, k1=None, g0=0, g1=0, verdict=0, defmode=0, vlen=1, noid=0):
    return (k0, k1, g0, g1, verdict, defmode, vlen, noid)
def rtext(r):
    k0, k1, g0, g1, verdict, defmode, vlen, noid = r
    s = '<%s>' % k0 + (' with %d grandchildren' % g0 if g0 else '')
    if k1 is not None: s += ' + <%s>' % k1 + (' with %d grandchildren' % g1 if g1 else '')
    s += ', values %s' % VL[vlen]
    if noid: s += ', id attribute absent'
    if any(k in ('file_sharing', 'sources', 'x_oob') for k in (k0, k1)): s += ', failing-capable sub-parsers: %s' % ('FAIL' if verdict == 0 else 'succeed' if verdict == 3 else 'verdict bits %d' % verdict)
    if defmode: s += ', parse(tree)'
    return s
def P(name, rounds, tiers=('quick', 'thorough'), **kw):
    cases = ','.join('{%d,%d,%d,%d,%d,%d,%d,%d}' % (K[r[0]], 255 if r[1] is None else K[r[1]], r[2], r[3], r[4], r[5], r[6], r[7]) for r in rounds)
    cdefs = {'DOM_MAXCH': 6, 'DOM_MAXATTR': 24, 'PARSE_CASES': cases}
    cdefs.update(kw.pop('cdefs', {}))
    d = dict(name='parse_' + name, entry='h_parse_tree', unwind=8, timeout_s=180, mem_gb=3, object_bits=13, cdefs=cdefs, tiers=tiers,
             bound='%d input trees <message type=chat> with child(ren): %s. Per child: the attributes the parser reads on it (id always) and its text have the stated length, contents arbitrary; '
                   'grandchildren: tag = symbolic pick from {file, sources, url-data, encrypted, body, subject, jid, nick, desc, address, foreign 2-unit name}, namespace from {inherited, xhtml, fallback, sfs, file-metadata, foreign}, '
                   'text and attributes start / end like the child; parsed by parse(tree, SceAll) unless stated' % (len(rounds), ' | '.join(rtext(r) for r in rounds)))
    d.update(kw); return d
# One tree per instance: several trees in one cbmc run scale worse than linearly (measured: 5 trees 52 CPU-s and 2.2 GB, 5 two-children trees no verdict in 720 s).
# ---- quick: one representative of every family of the vocabulary, two children per tree; grandchildren 0..1, values 1 unit; the sub-parsers that can
# fail FAIL unless stated (the branch the setter-built instances of spec.py never reach)
QUICK_PAIRS = [('body', 'jmi_propose'), ('subject', 'reactions'), ('thread', 'call_invite'), ('body_foreign_ns', 'attach_to'), ('x_legacy_delay', 'spoiler'), ('x_muc_invitation', 'mix_invitation'),
               ('x_oob', 'trust_message'), ('html', 'reply'), ('cs_active', 'sources'), ('cs_unknown_tag', 'call_left'), ('fallback', 'receipt_received'), ('receipt_request', 'origin_id'),
               ('delay', 'mix'), ('attention', 'foreign'), ('bob', 'nm_file_sharing_client_ns'), ('replace', 'jmi_finish'), ('markable', 'marker_displayed'), ('marker_unknown_tag', 'file_sharing')]
STAMPED = ('x_legacy_delay', 'delay')   # an arbitrary non-numeric stamp text gave no verdict (abstract QDateTime with symbolic validity): these elements carry NO stamp (OUTSIDE)
QUICK_TO_THOROUGH = ('bob', 'receipt_request', 'x_muc_invitation', 'replace')   # first kinds of the pairs that run in the thorough tier only (quick tier budget)
QUICK = ([P('q_%s__%s' % (a, b), [R(a, b, g0=j % 2, g1=(j + 1) % 2, verdict=0, defmode=1 if j % 3 == 2 else 0, vlen=0 if a in STAMPED else 1)], tiers=('thorough',) if a in QUICK_TO_THOROUGH else ('quick', 'thorough')) for j, (a, b) in enumerate(QUICK_PAIRS)]
         + [P('q_file_sharing_x2', [R('file_sharing', 'file_sharing', g0=2, g1=1, verdict=1)]), P('q_sources_oob_ok', [R('sources', 'x_oob', g0=1, verdict=3)])])
# ---- thorough: every kind alone (values 1 unit; parse entry alternating), the emptiness-sensitive kinds with absent values, the id-dependent kinds without id
T_SINGLE = [R(k, g0=j % 2, vlen=0 if k in STAMPED else 1, defmode=j % 2, verdict=0 if j % 4 < 2 else 3) for j, k in enumerate(KINDS)]
T_EMPTY = [R(k, vlen=0) for k in ('body', 'thread', 'x_muc_invitation', 'receipt_received', 'replace', 'marker_received', 'attach_to', 'spoiler', 'reply', 'fallback', 'jmi_propose', 'call_invite', 'file_sharing', 'foreign')]
T_NOID = [R(k, noid=1, vlen=1) for k in KINDS if k.startswith('jmi_') or k.startswith('call_')]
def nm(r): return r[0] + ('_empty' if r[6] == 0 else '') + ('_noid' if r[7] else '')
THOROUGH = [P('s_' + nm(r), [r], tiers=('thorough',)) for r in T_SINGLE + T_EMPTY + T_NOID]
# ---- demonstration (does not run): STRICT reading - an element with a Jingle-message / call-invite tag and namespace but WITHOUT the id attribute is not
# recognised by QXmppJingleMessageInitiationElement::isJingleMessageInitiationElement / QXmppCallInviteElement::isCallInviteElement, is kept as an unknown
# extension and written into the public part
KF = [P('strict_jmi_noid', [R('jmi_propose', noid=1, g0=1)], tiers=(), cdefs={'PARSE_STRICT': 1})]
INSTANCES = QUICK + THOROUGH + KF
GROUPS = [dict(name='parse', harness='parse_h.cpp', tus=TUS, models=MODELS, cxxdefs={'_GLIBCXX_RANGES': 1}, loop_bounds={'parse_make_child': 12, 'h_parse_tree': 14}, instances=INSTANCES)]
BOUNDS = ['parse_*: ONE input tree per instance: <message xmlns=jabber:client id=<1 unit> to/from=<value> type=chat> with 1 or 2 children; the KIND (tag, namespace) of each child is a compile-time case out of 56 (parse_h.cpp PARSE_KINDS): the 47 (tag, namespace) pairs QXmppMessage::parseExtension recognises (44 sensitive incl. every chat-state / marker / Jingle-message / call-invite name and an unknown name under the chat-state and chat-marker namespaces, body under a foreign namespace; fallback; origin-id, mix), a foreign element (tag and namespace 2 arbitrary units each) and 8 near-misses (known tag under a foreign / inherited / other known namespace, foreign tag under urn:xmpp:sfs:0)',
          'parse_*: content of a child: the attributes the real code (or the stand-in) reads on that kind plus id, and the text, all of ONE length per instance: absent/empty, exactly 1 or (not registered: no verdict for some kinds) 2 arbitrary UTF-16 units; 0..2 grandchildren (count per instance) with tag = symbolic pick from {file, sources, url-data, encrypted, body, subject, jid, nick, desc, address, foreign 2-unit name}, namespace = symbolic pick from {inherited, xhtml, fallback, sfs, file-metadata, foreign 2-unit}, same value length, attributes start / end',
          'parse_*: verdict of the sub-parsers that are stand-ins and can fail (QXmppFileShare::parse, QXmppFileSourcesAttachment::fromDom, QXmppOutOfBandUrl::parse): a compile-time case per call (fail / succeed), both registered for file-sharing and sources; parse entry parse(tree, SceAll) or parse(tree) per instance; message type chat',
          'parse_q_* (quick, 16 + 4 thorough-only): two children per tree, one representative per family of the vocabulary; parse_s_* (thorough, 81): every one of the 56 kinds alone (1-unit values), 14 emptiness-sensitive kinds with absent values, the 10 id-dependent kinds (Jingle message initiation, call invites) without id']
ASSUMPTIONS = ['parse_*: stand-ins of the nine extension classes as in the other C17 groups, in an own copy (parse_env.h): the sub-parsers that can fail return the verdict chosen by the instance; QXmppJingleMessageInitiationElement::isJingleMessageInitiationElement and QXmppCallInviteElement::isCallInviteElement are TRANSCRIBED from QXmppJingleData.cpp (tag set, id attribute present, namespace) and those two stand-ins keep tag and id',
               'parse_*: QXmppElement (unknown extensions, QXmppElement.cpp not linked) keeps the source element and writes back its tag, namespace and id attribute - what reaches the writer through QXmppStanza::extensionsToXml is observable',
               'parse_*: "conversational payload" in assertion (i) is an oracle written in the harness from the statement and the XEPs (parse_is_sensitive), not derived from parseExtension: tag body/subject/thread (any namespace), x under delay / conference / oob, html (xhtml-im), every element of the chat-state and chat-marker namespaces, receipts, delay, attention, bob data, replace, attach-to, spoiler, mix invitation, trust-message, reactions, file-sharing, sources, reply, Jingle-message and call-invite elements that carry the id XEP-0353 / XEP-0482 require (invite: no id needed)',
               'parse_*: after the parse the harness asserts message type, chat state and chat marker against the input and stores the same values back as constants (they reach the object through an integer-coerced std::optional, which symex does not fold; a symbolic index into MESSAGE_TYPES / CHAT_STATES / MARKER_TYPES gave no verdict)']
OUTSIDE = ['parse_*: UNKNOWN (third-party) child elements and near-misses are written into EVERY part by QXmppStanza::extensionsToXml (existing behaviour for extensions the library does not know; XEP-0420 would put them into the envelope content): no claim about them beyond (ii) "same count in every part"',
           'parse_strict_jmi_noid (registered with tiers=(), does not run; VIOLATION when run): an element with a Jingle-message-initiation or call-invite tag and namespace but WITHOUT the id attribute is not recognised by the recognisers of QXmppJingleData.cpp, is kept as an unknown extension and therefore written into the public part; under the reading "recognised = what the library recognises" (all other parse_* instances) such an element is a near-miss',
           'parse_*: <html xmlns=xhtml-im> with a <body xmlns=xhtml> child (the real code saves the subtree through QTextStream / QDomNode::save: unmodelled); <delay/> and <x xmlns=jabber:x:delay/> WITH a stamp text (abstract QDateTime of symbolic validity: no verdict in 250 s) - they are parsed without stamp; values of 2 units (x_legacy_delay + spoiler: no verdict in 200 s); more than one tree per cbmc run (5 two-children trees: no verdict in 720 s); more than 2 children; a symbolic (not case-split) kind or sub-parser verdict (no verdict in 360 s)',
           'parse_*: parse(tree, ScePublic) / parse(tree, SceSensitive) of a received split message followed by re-serialization; stanza error and extended addresses children in the input; message types other than chat']
