TUS = ['src/base/QXmppMessage.cpp', 'src/base/QXmppStanza.cpp', 'src/base/QXmppUtils.cpp', 'src/base/QXmppGlobal.cpp']
MODELS = ['qt_core.c', 'qt_list.c', 'qt_dom.c', 'c17_models.c']
KF = 'd12_jmi_callinvite'
PUBLIC_FIELDS = ['e2ee_fallback_body', 'private_msg', 'stanza_id', 'stanza_ids2', 'origin_id', 'mix_user', 'mix_jid', 'mix_nick', 'eme']
BOTH_FIELDS = ['fallback_marker', 'addresses']
SENSITIVE_FIELDS = ['body', 'subject', 'thread', 'oob_url', 'stamp', 'receipt_id', 'receipt_request', 'attention', 'bob', 'muc_invitation', 'replace_id', 'markable',
                    'attach_id', 'spoiler', 'mix_invitation', 'trust_message', 'reaction', 'shared_file', 'file_sources', 'reply', 'jmi', 'call_invite']
STR = 'every string value exactly 1 arbitrary UTF-16 unit (lengths concrete, contents symbolic), integers/date-time values full range'
def I(name, entry, **kw):
    d = dict(name=name, entry=entry, unwind=8, timeout_s=300, mem_gb=3, object_bits=12, cdefs={'DOM_MAXCH': 6, 'DOM_MAXATTR': 16},
             bound='message with only this field set; ' + STR); d.update(kw); return d
def CASE(field, k, n, **kw):
    return I('f_%s_c%d' % (field, k), 'h_f_' + field, cdefs={'DOM_MAXCH': 6, 'DOM_MAXATTR': 16, 'VP_CASE': k}, bound='message with only this field set (enum value %d of %d); %s' % (k, n, STR), **kw)
THOROUGH_ONLY = ('stanza_id', 'mix_jid', 'mix_nick',   # variants of stanza_ids2 / mix_user; also exercised (symbolic presence) by ni_sensitive_*
                 'attention', 'replace_id', 'trust_message', 'mix_invitation', 'file_sources', 'shared_file')   # same code shape as attach_id / reaction; in quick they are covered by allset, envelope and ni_* only
FIELD_INSTANCES = ([I('f_' + f, 'h_f_' + f, tiers=('thorough',) if f in THOROUGH_ONLY else ('quick', 'thorough')) for f in PUBLIC_FIELDS + BOTH_FIELDS + SENSITIVE_FIELDS]
                   + [CASE('hint', k, 4, tiers=('quick', 'thorough') if k == 3 else ('thorough',)) for k in range(4)]
                   + [CASE('chat_state', k, 5, tiers=('quick', 'thorough') if k == 4 else ('thorough',)) for k in range(5)]
                   + [CASE('marker', k, 3, tiers=('quick', 'thorough') if k == 1 else ('thorough',)) for k in range(3)])
BIG = dict(unwind=40, object_bits=14, cdefs={'DOM_MAXCH': 36, 'DOM_MAXATTR': 24}, mem_gb=6, timeout_s=600)
COMPOSITE = [I('allset', 'h_allset', bound='message with EVERY extension set at once (13 elements in the public part, 25 in the sensitive part); ' + STR, **BIG),
             I('allset_all', 'h_allset_all', bound='message with every extension set, unsplit (SceAll); ' + STR, **BIG),
             I('envelope', 'h_envelope', bound='message with every extension set, real e2ee flow (outer stanza + SCE envelope content); ' + STR, **BIG),
             I('ni_public_full', 'h_ni_public_full', bound='every whitelisted field set x ANY subset of the 24 sensitive fields (2^24; chat state / marker any enum value): public serialization unchanged; ' + STR, **BIG),
             I('ni_public_empty', 'h_ni_public_empty', bound='no whitelisted field set x ANY subset of the 24 sensitive fields: public part stays empty; ' + STR, **BIG),
             I('ni_sensitive_full', 'h_ni_sensitive_full', bound='every sensitive field (and a fallback marker) set x ANY subset of the whitelisted fields (2^11): sensitive serialization unchanged; ' + STR, **BIG),
             I('ni_sensitive_empty', 'h_ni_sensitive_empty', bound='no sensitive field set x ANY subset of the whitelisted fields: sensitive part stays empty; ' + STR, **BIG)]
TYPES = ['error', 'normal', 'chat', 'groupchat', 'headline']
def WITH_TYPE(inst, t, **kw):
    d = dict(inst); d['cdefs'] = dict(inst['cdefs']); d['cdefs']['VP_C17_TYPE'] = t; d['name'] = '%s_%s' % (inst['name'], TYPES[t]); d['bound'] = 'message type %s; %s' % (TYPES[t], inst['bound']); d.update(kw); return d
def TEXT(t, c, **kw):
    parts = [n for b, n in ((1, 'body'), (2, 'subject'), (4, 'thread'), (8, 'parent thread'), (16, 'stanza error')) if c & b]
    return I('text_%s_c%d' % (TYPES[t], c), 'h_text', cdefs={'DOM_MAXCH': 6, 'DOM_MAXATTR': 16, 'VP_CASE': c, 'VP_C17_TYPE': t},
             bound='message type %s with exactly: %s (others empty/absent); %s' % (TYPES[t], ', '.join(parts) or 'nothing', STR), **kw)
TEXT_QUICK = [(3, 2), (3, 15), (0, 1 + 16), (4, 2 + 4), (1, 8)]      # groupchat x subject only (room subject change); groupchat x everything; error x body + stanza error; headline x subject + thread; normal x parent thread only
TEXT_INSTANCES = [TEXT(t, c) for t, c in TEXT_QUICK] + [TEXT(t, c, tiers=('thorough',)) for t in range(5) for c in list(range(8)) + [12, 15] if (t, c) not in TEXT_QUICK] + [TEXT(2, 16 + 2, tiers=('thorough',))]
KF_INSTANCES = [I('kf_jmi', 'h_kf_jmi', known_finding=KF), I('kf_call_invite', 'h_kf_call_invite', known_finding=KF)]
_by = {i['name']: i for i in COMPOSITE + FIELD_INSTANCES}
# the non-interference / all-set / single-field instances again under the other message types
TYPED = ([WITH_TYPE(_by['ni_public_empty'], t) for t in (3, 0, 1, 4)] + [WITH_TYPE(_by['ni_public_full'], 3)]
         + [WITH_TYPE(_by['ni_public_full'], t, tiers=('thorough',)) for t in (0, 1, 4)]
         + [WITH_TYPE(_by[n], t, tiers=('thorough',)) for n in ('ni_sensitive_empty', 'ni_sensitive_full', 'allset') for t in (0, 3)]
         + [WITH_TYPE(_by[n], 3, tiers=('thorough',)) for n in ('f_subject', 'f_body', 'f_thread', 'f_e2ee_fallback_body')])
SEND_TUS = TUS + ['src/client/QXmppClient.cpp']
def SEND(c):
    what = '%s, returned message %s XEP-0380 encryption namespace, %s e2ee fallback body, payload %s' % ('reply(stanza, e2eeMetadata)' if c & 8 else 'sendSensitive(stanza)', 'WITH' if c & 1 else 'WITHOUT', 'with' if c & 2 else 'without',
            'reaction+receipt request+marker+chat state+markable' if c & 4 else 'body+subject+oob+attach-to+reply')
    return I('send_c%d' % c, 'h_send_encrypted', unwind=14, tiers=('thorough',) if c in (1, 3, 5) else ('quick', 'thorough'), cdefs={'DOM_MAXCH': 12, 'DOM_MAXATTR': 16, 'VP_CASE': c}, bound='REAL QXmppClient send path: ' + what + '; origin-id and a store hint set; ' + STR)
SEND_INSTANCES = [SEND(c) for c in (0, 1, 2, 3, 4, 5, 6, 7, 8 + 4, 8 + 1)] + [I('send_error', 'h_send_error', cdefs={'DOM_MAXCH': 12, 'DOM_MAXATTR': 16}, bound='REAL QXmppClient::sendSensitive, the encryption extension reports an error; ' + STR)]
SPEC = dict(
    property='C17',
    groups=[
        dict(name='msg', harness='h.cpp', tus=TUS, models=MODELS, cxxdefs={'_GLIBCXX_RANGES': 1},
             instances=COMPOSITE + TYPED + TEXT_INSTANCES + FIELD_INSTANCES + KF_INSTANCES),
        dict(name='send', harness='h_send.cpp', tus=SEND_TUS, models=MODELS + ['c17_send.c'], cxxdefs={'_GLIBCXX_RANGES': 1}, shadow_task=True,
             instances=SEND_INSTANCES),
    ],
    bounds=['message type: a structural case per instance (VP_C17_TYPE); default chat; ni_public_empty under all five types and ni_public_full under chat and groupchat in quick, the remaining type x {ni_*, allset, f_subject/body/thread/e2ee_fallback_body} combinations in thorough',
            'text_<type>_c<K>: exactly the listed subset of {body, subject, thread, parent thread, stanza error} set (exact-length strings, absent = empty): quick = groupchat x subject-only, groupchat x all four, error x body+stanza error, headline x subject+thread, normal x parent-only; thorough = all five types x {every subset of body/subject/thread, thread+parent, all four}',
            'send_*: one message per run through the real send path; 2 payload variants (body+subject+oob+attach-to+reply / reaction+receipt request+marker+chat state+markable) plus origin-id and a store hint; encryption result: message with/without XEP-0380 namespace x with/without fallback body, or error; entry sendSensitive or reply(e2eeMetadata)',
            'every string-valued field: exactly 1 arbitrary UTF-16 code unit (string LENGTHS are concrete, contents symbolic); integers, the stamp and the bob max-age: full range',
            'f_*: message with exactly one extension field (or one group such as thread+parent, marker+id+thread, MUC jid+password+reason) set; enum-valued fields one value per instance (hints 4, chat states 5, markers 3; quick tier runs the boundary values)',
            'allset / allset_all / envelope: every extension at once: 13 elements in the public part, 25 in the sensitive part (<= 2 stanza ids, 1 element per list-valued field)',
            'ni_public_full/empty: every / no whitelisted field set, then ANY subset (2^24, symbolic presence flags) of the sensitive fields with any chat state / marker value on top; ni_sensitive_full/empty: the mirror image with ANY subset (2^11) of the whitelisted fields',
            'modes: ScePublic, SceSensitive, SceAll each serialized; parse(public tree, ScePublic) then parse(sensitive tree, SceSensitive) into one object; parse(unsplit tree, SceAll)',
            'DOM/writer tree model: <= 36 children, <= 24 distinct attribute names; QVector payloads <= 4 elements'],
    assumptions=['group send (REAL QXmppClient::sendSensitive / reply): QXmppClient, QXmppClientPrivate, QXmppOutgoingClient are raw storage with only d, d->stream, d->encryptionExtension alive; the encryption extension is a mock whose encryptMessage returns an already finished task (QXmppTask/QXmppPromise = assume-guarantee shadow, contract by C13) holding the input message plus, by case, an XEP-0380 namespace+name and/or an e2ee fallback body, or a QXmppError; QXmlStreamWriter(QByteArray*) is the writer tree model bound to that array, QXmppPacket(const QByteArray&) picks that tree up, QXmppPacket(const QXmppNonza&) runs the stanza\'s real virtual toXml into a tree, StreamAckManager::send logs the tree and returns the packet\'s task (stream accounting: C09); dynamic_cast of the stanza: every stanza sent is a QXmppMessage',
                 'the extension classes of other translation units (QXmppOutOfBandUrl, QXmppBitsOfBinaryData, QXmppJingleMessageInitiationElement, QXmppCallInviteElement, QXmppMixInvitation, QXmppTrustMessageElement, QXmppMessageReaction, QXmppFileShare, QXmppFileSourcesAttachment) are one-value stand-ins (c17_env.h) that write/recognise/parse ONE element with the real tag and namespace and an attribute "v": C17 is about which mode-guarded block of QXmppMessage calls them, their own codecs are C01\'s subject',
                 'QXmppElement (unknown extensions) is a counting stand-in: an element that falls through to "unknown extension" is counted, not stored',
                 'QDateTime/QTime/QTimeZone are abstract values (c17_models.c): text form = abstract number string, fromString(toString(x)) == x for valid x, any other text parses to an arbitrary date-time; all values are UTC',
                 'QXmlStreamWriter/QDom = shared tree model (serialize -> parse never goes through text; Qt\'s escaping/tokenising trusted); namespaceURI() = own xmlns or the parent\'s',
                 'QVector<T> payload blocks are typed fixed-capacity blocks (class-level override of QTypedArrayData<T>::allocate); ~QString does not decrement reference counts (string blocks of the model are never recycled)',
                 'cbmc\'s dead-object / deallocated bookkeeping is reset at phase boundaries and in ~QString (vp_c17_phase, performance): use-after-scope / use-after-free of objects that died earlier is not reported; NULL / bounds / invalid-pointer checks of the translated code stay on',
                 'known finding d12_jmi_callinvite (if listed in known_findings.txt): the split round trip of the Jingle-message-initiation and call-invite elements is then not asserted in f_jmi / f_call_invite / allset / envelope and is demonstrated by kf_jmi / kf_call_invite instead'],
    outside=['XHTML-IM (setXhtml): serialization writes raw text to writer->device(), which is deliberately unmodelled (flagged if reached); never set',
             'legacy delayed delivery (XEP-0091 stamp type): only reachable by parsing, has no setter',
             'OMEMO element (BUILD_OMEMO is off in the build this framework mirrors)',
             'arbitrary subsets of the fields in the part that is being serialized (only: one field, all fields, none; the OTHER part\'s fields are arbitrary subsets in ni_*)',
             'encryptionName without encryptionMethod, parentThread without thread, spoiler hint without spoiler: not serialized at all by design',
             'stanza errors other than (cancel, item-not-found) without text; a symbolic (non-case-split) message type gave no verdict (SAT memory)',
             'receipt request together with a receipt id (the serializer drops the request by design)',
             'fallback markers with references (QXmppFallback codec itself is C01\'s subject; markers carry a for-namespace only)',
             'strings longer than 1 unit, more than 2 stanza ids / 1 element per list-valued extension; unknown (third-party) extension elements',
             'QXmppOmemoManager call sites (serializeExtensions(SceSensitive, ns_client) / parseExtensions(SceSensitive)): their call pattern is reproduced in instance envelope; the iq branch of sendSensitive (encryptIq) and sendSensitiveIq',
             'QXmppClient.cpp:198 parses an UNENCRYPTED message with SceSensitive when an e2ee extension is installed (public-block fields such as stanza-id are then dropped): observed while reading, not part of C17'],
)
