TUS = ['src/base/QXmppMessage.cpp', 'src/base/QXmppStanza.cpp', 'src/base/QXmppUtils.cpp']
MODELS = ['qt_core.c', 'qt_list.c', 'qt_dom.c', 'c17_models.c']
FIELDS = ['e2ee_fallback_body', 'private_msg', 'origin_id', 'body', 'subject', 'jmi', 'stamp']
def I(name, entry, **kw):
    d = dict(name=name, entry=entry, unwind=8, timeout_s=300, mem_gb=4, cdefs={'DOM_MAXCH': 6, 'DOM_MAXATTR': 16},
             bound='strings 1..2 arbitrary UTF-16 units'); d.update(kw); return d
SPEC = dict(
    property='C17',
    groups=[
        dict(name='msg', harness='h.cpp', tus=TUS, models=MODELS, cxxdefs={'_GLIBCXX_RANGES': 1},
             instances=[I('f_' + f, 'h_f_' + f) for f in FIELDS]),
    ],
    bounds=[], assumptions=[], outside=[],
)
