TUS = ['src/base/QXmppMessage.cpp', 'src/base/QXmppStanza.cpp', 'src/base/QXmppUtils.cpp', 'src/base/QXmppGlobal.cpp']
MODELS = ['qt_core.c', 'qt_list.c', 'qt_dom.c', 'c17_models.c']
KF = 'd12_jmi_callinvite'
PUBLIC_FIELDS = ['e2ee_fallback_body', 'private_msg', 'stanza_id', 'stanza_ids2', 'origin_id', 'mix_user', 'mix_jid', 'mix_nick', 'eme']
BOTH_FIELDS = ['fallback_marker', 'addresses']
SENSITIVE_FIELDS = ['body', 'subject', 'thread', 'oob_url', 'stamp', 'receipt_id', 'receipt_request', 'attention', 'bob', 'muc_invitation', 'replace_id', 'markable',
                    'attach_id', 'spoiler', 'mix_invitation', 'trust_message', 'reaction', 'shared_file', 'file_sources', 'reply', 'jmi', 'call_invite']
STR = 'every string value exactly 1 arbitrary UTF-16 unit (lengths concrete, contents symbolic), integers/date-time values full range'
def I(name, entry, **kw):
    d = dict(name=name, entry=entry, unwind=8, timeout_s=300, mem_gb=3, object_bits=12, cdefs={'DOM_MAXCH': 6, 'DOM_MAXATTR': 16},
             bound='message with only this field set; ' + STR); d.update(kw); return d
def CASE(field, k, n, **kw):
    return I('f_%s_c%d' % (field, k), 'h_f_' + field, cdefs={'DOM_MAXCH': 6, 'DOM_MAXATTR': 16, 'VP_CASE': k}, bound='message with only this field set (enum value %d of %d); %s' % (k, n, STR), **kw)
FIELD_INSTANCES = ([I('f_' + f, 'h_f_' + f) for f in PUBLIC_FIELDS + BOTH_FIELDS + SENSITIVE_FIELDS]
                   + [CASE('hint', k, 4) for k in range(4)]
                   + [CASE('chat_state', k, 5, tiers=('quick', 'thorough') if k in (0, 4) else ('thorough',)) for k in range(5)]
                   + [CASE('marker', k, 3, tiers=('quick', 'thorough') if k == 1 else ('thorough',)) for k in range(3)])
BIG = dict(unwind=40, object_bits=14, cdefs={'DOM_MAXCH': 36, 'DOM_MAXATTR': 24}, mem_gb=6, timeout_s=600)
COMPOSITE = [I('allset', 'h_allset', bound='message with EVERY extension set at once (13 elements in the public part, 25 in the sensitive part); ' + STR, **BIG),
             I('allset_all', 'h_allset_all', bound='message with every extension set, unsplit (SceAll); ' + STR, **BIG),
             I('envelope', 'h_envelope', bound='message with every extension set, real e2ee flow (outer stanza + SCE envelope content); ' + STR, **BIG),
             I('ni_public_full', 'h_ni_public_full', bound='every whitelisted field set x ANY subset of the 24 sensitive fields (2^24; chat state / marker any enum value): public serialization unchanged; ' + STR, **BIG),
             I('ni_public_empty', 'h_ni_public_empty', bound='no whitelisted field set x ANY subset of the 24 sensitive fields: public part stays empty; ' + STR, **BIG),
             I('ni_sensitive_full', 'h_ni_sensitive_full', bound='every sensitive field (and a fallback marker) set x ANY subset of the whitelisted fields (2^11): sensitive serialization unchanged; ' + STR, **BIG),
             I('ni_sensitive_empty', 'h_ni_sensitive_empty', bound='no sensitive field set x ANY subset of the whitelisted fields: sensitive part stays empty; ' + STR, **BIG)]
KF_INSTANCES = [I('kf_jmi', 'h_kf_jmi', known_finding=KF), I('kf_call_invite', 'h_kf_call_invite', known_finding=KF)]
SPEC = dict(
    property='C17',
    groups=[
        dict(name='msg', harness='h.cpp', tus=TUS, models=MODELS, cxxdefs={'_GLIBCXX_RANGES': 1},
             instances=COMPOSITE + FIELD_INSTANCES + KF_INSTANCES),
    ],
    bounds=[], assumptions=[], outside=[],
)
