// C17, parse-path instances: a message that was PARSED (as every incoming / forwarded message is) and is then serialized split.
// Input: an element tree <message xmlns='jabber:client'> with 1..2 children; the KIND of each child (its tag and namespace) is a
// compile-time case drawn from the vocabulary of everything QXmppMessage::parseExtension recognises as sensitive payload, plus
// foreign elements and near-misses; the content is arbitrary and possibly malformed: the attributes the parser reads absent or present
// with values of 1..2 arbitrary units (length = compile-time case), text likewise, 0..2 grandchildren whose tag / namespace are symbolic
// picks from the sub-parsers' vocabulary; the verdict of the sub-parsers that are stand-ins is nondeterministic.
// REAL code: QXmppMessage::parse(tree, SceAll) / parse(tree), parseExtensions, parseExtension, QXmppStanza::parse, QXmppFallback::fromDom,
// then toXml(ScePublic / SceSensitive / SceAll), serializeExtensions, QXmppStanza::extensionsToXml.
// Asserted: (i) no child of the public tree is an element the library recognises as conversational payload, however malformed its
// content was; (ii) E(All) = E(Public) (+) E(Sensitive) as multisets of (tag, namespace), elements that accompany every part aside.
#include "parse_env.h"
#include "StringLiterals.h"
#include "vp_harness.h"
#include "vp_dom.h"

extern "C" {
unsigned vp_c17_nch(const QDomElement *el);
void vp_c17_child(const QDomElement *el, unsigned i, QDomElement *out);
void vp_c17_unknown_hit();
unsigned vp_c17_unknown();
void vp_c17_unknown_reset();
void vp_c17_phase();
unsigned vp_c17_type();
// an instance = a list of ROUNDS (-DPARSE_CASES={k0,k1,g0,g1,verdicts,defmode,vlen,noid},...), each an independent input tree with its own
// compile-time cases; vp_parse_round(r) selects the round the accessors below answer for
unsigned vp_parse_nrounds();
void vp_parse_round(unsigned r);
unsigned vp_parse_k(unsigned i);
unsigned vp_parse_g(unsigned i);
bool vp_parse_defmode();
bool vp_parse_strict();
bool vp_parse_noid();
unsigned vp_parse_vlen();
void vp_parse_pick(QString *out, const char *tab, unsigned stride, unsigned n, unsigned idx);
unsigned vp_parse_count(const QDomElement *el, const QDomElement *ref);
}

// ---- unknown extensions (QXmppElement.cpp is not linked): a stand-in that keeps the source element and writes it back with its tag,
// namespace and `id` attribute - enough to see WHICH element reaches the writer through QXmppStanza::extensionsToXml
class QXmppElementPrivate { public: QDomElement src; };
QXmppElement::QXmppElement() : d(nullptr) { }
QXmppElement::QXmppElement(const QXmppElement &o) : d(o.d) { }
QXmppElement::QXmppElement(const QDomElement &e) : d(new QXmppElementPrivate { e }) { vp_c17_unknown_hit(); }
QXmppElement::~QXmppElement() { }
QXmppElement &QXmppElement::operator=(const QXmppElement &o) { d = o.d; return *this; }
void QXmppElement::toXml(QXmlStreamWriter *w) const
{
    if (!d) {
        return;
    }
    w->writeStartElement(d->src.tagName());
    w->writeDefaultNamespace(d->src.namespaceURI());
    if (d->src.hasAttribute(QStringLiteral("id"))) {
        w->writeAttribute(QStringLiteral("id"), d->src.attribute(QStringLiteral("id")));
    }
    w->writeEndElement();
}

// ---- vocabulary of the children.  Class: S = recognised as sensitive payload by tag / namespace alone; I = recognised as sensitive payload
// iff it also carries an `id` attribute (recognisers of QXmppJingleData.cpp); B = accompanies both parts (fallback marker);
// P = whitelisted public element (sanity of (ii)); F = foreign or near-miss: no claim (OUTSIDE: unknown third-party elements are written
// into every part by QXmppStanza::extensionsToXml).
enum Cls : unsigned char { S, I, B, P, F };
// tag / ns: SYM = exactly 2 arbitrary units (a foreign name), INH = no own declaration (inherits jabber:client from <message>)
enum Sym : unsigned char { LIT, SYM, INH };
// attrs: the attributes the real code (or the stand-in: "v") reads on this child; they are present with a value of exactly VLEN arbitrary
// units (VLEN = 0: absent).  `id` is on every child (the recognisers of QXmppJingleData.cpp test its presence).
enum Attr : unsigned { A_ID = 1, A_PARENT = 2, A_STAMP = 4, A_JID = 8, A_PASSWORD = 16, A_REASON = 32, A_TO = 64, A_THREAD = 128, A_FOR = 256, A_V = 512 };
static constexpr QStringView PARSE_ATTRS[10] = { u"id", u"parent", u"stamp", u"jid", u"password", u"reason", u"to", u"thread", u"for", u"v" };
struct ParseKind { QStringView tag; Sym tagSym; QStringView ns; Sym nsSym; Cls cls; unsigned attrs = A_ID; };
static constexpr ParseKind PARSE_KINDS[] = {
    /* 0*/ { u"body", LIT, {}, INH, S },
    /* 1*/ { u"subject", LIT, {}, INH, S },
    /* 2*/ { u"thread", LIT, {}, INH, S, A_ID | A_PARENT },
    /* 3*/ { u"body", LIT, {}, SYM, S },                       // <body/> is recognised by its tag alone
    /* 4*/ { u"x", LIT, ns_legacy_delayed_delivery, LIT, S, A_ID | A_STAMP },
    /* 5*/ { u"x", LIT, ns_conference, LIT, S, A_ID | A_JID | A_PASSWORD | A_REASON },
    /* 6*/ { u"x", LIT, ns_oob, LIT, S, A_ID | A_V },
    /* 7*/ { u"html", LIT, ns_xhtml_im, LIT, S },
    /* 8*/ { u"active", LIT, ns_chat_states, LIT, S },
    /* 9*/ { u"inactive", LIT, ns_chat_states, LIT, S },
    /*10*/ { u"gone", LIT, ns_chat_states, LIT, S },
    /*11*/ { u"composing", LIT, ns_chat_states, LIT, S },
    /*12*/ { u"paused", LIT, ns_chat_states, LIT, S },
    /*13*/ { {}, SYM, ns_chat_states, LIT, S },                 // any element of the chat-states namespace is consumed
    /*14*/ { u"received", LIT, ns_message_receipts, LIT, S },
    /*15*/ { u"request", LIT, ns_message_receipts, LIT, S },
    /*16*/ { u"delay", LIT, ns_delayed_delivery, LIT, S, A_ID | A_STAMP },
    /*17*/ { u"attention", LIT, ns_attention, LIT, S },
    /*18*/ { u"data", LIT, ns_bob, LIT, S, A_ID | A_V },
    /*19*/ { u"replace", LIT, ns_message_correct, LIT, S },
    /*20*/ { u"markable", LIT, ns_chat_markers, LIT, S },
    /*21*/ { u"received", LIT, ns_chat_markers, LIT, S, A_ID | A_THREAD },
    /*22*/ { u"displayed", LIT, ns_chat_markers, LIT, S, A_ID | A_THREAD },
    /*23*/ { u"acknowledged", LIT, ns_chat_markers, LIT, S, A_ID | A_THREAD },
    /*24*/ { {}, SYM, ns_chat_markers, LIT, S, A_ID | A_THREAD },                // unknown marker name: consumed all the same
    /*25*/ { u"propose", LIT, ns_jingle_message_initiation, LIT, I, A_ID | A_V },
    /*26*/ { u"ringing", LIT, ns_jingle_message_initiation, LIT, I, A_ID | A_V },
    /*27*/ { u"proceed", LIT, ns_jingle_message_initiation, LIT, I, A_ID | A_V },
    /*28*/ { u"reject", LIT, ns_jingle_message_initiation, LIT, I, A_ID | A_V },
    /*29*/ { u"retract", LIT, ns_jingle_message_initiation, LIT, I, A_ID | A_V },
    /*30*/ { u"finish", LIT, ns_jingle_message_initiation, LIT, I, A_ID | A_V },
    /*31*/ { u"attach-to", LIT, ns_message_attaching, LIT, S },
    /*32*/ { u"spoiler", LIT, ns_spoiler, LIT, S },
    /*33*/ { u"invitation", LIT, ns_mix_misc, LIT, S, A_ID | A_V },
    /*34*/ { u"trust-message", LIT, ns_tm, LIT, S, A_ID | A_V },
    /*35*/ { u"reactions", LIT, ns_reactions, LIT, S, A_ID | A_V },
    /*36*/ { u"file-sharing", LIT, ns_sfs, LIT, S, A_ID | A_V },
    /*37*/ { u"reply", LIT, ns_reply, LIT, S, A_ID | A_TO },
    /*38*/ { u"sources", LIT, ns_sfs, LIT, S, A_ID | A_V },
    /*39*/ { u"invite", LIT, ns_call_invites, LIT, S, A_ID | A_V },        // "invite" needs no id
    /*40*/ { u"accept", LIT, ns_call_invites, LIT, I, A_ID | A_V },
    /*41*/ { u"reject", LIT, ns_call_invites, LIT, I, A_ID | A_V },
    /*42*/ { u"retract", LIT, ns_call_invites, LIT, I, A_ID | A_V },
    /*43*/ { u"left", LIT, ns_call_invites, LIT, I, A_ID | A_V },
    /*44*/ { u"fallback", LIT, ns_fallback_indication, LIT, B, A_ID | A_FOR },
    /*45*/ { u"origin-id", LIT, ns_sid, LIT, P },
    /*46*/ { u"mix", LIT, ns_mix, LIT, P },
    /*47*/ { {}, SYM, {}, SYM, F, A_ID | A_V | A_TO },                             // foreign element
    // near-misses (no claim): known tag under a foreign / the inherited / another known namespace, foreign tag under a known namespace
    /*48*/ { u"x", LIT, {}, SYM, F },
    /*49*/ { u"received", LIT, {}, SYM, F },
    /*50*/ { u"file-sharing", LIT, {}, SYM, F, A_ID | A_V },
    /*51*/ { {}, SYM, ns_sfs, LIT, F, A_ID | A_V },
    /*52*/ { u"file-sharing", LIT, {}, INH, F, A_ID | A_V },
    /*53*/ { u"sources", LIT, ns_reply, LIT, F, A_ID | A_V },
    /*54*/ { u"reactions", LIT, ns_sfs, LIT, F, A_ID | A_V },
    /*55*/ { u"html", LIT, ns_xhtml, LIT, F },
};
static constexpr unsigned PARSE_NKINDS = sizeof(PARSE_KINDS) / sizeof(PARSE_KINDS[0]);
static constexpr unsigned PARSE_KIND_HTML = 7;
// chat state / chat marker the parser must derive from a child of this kind (0 = none: unknown names of those namespaces are consumed without effect)
static constexpr unsigned parse_state_of(unsigned k) { return k >= 8 && k <= 12 ? k - 7 : 0; }
static constexpr unsigned parse_marker_of(unsigned k) { return k >= 21 && k <= 23 ? k - 20 : 0; }

// grandchildren: vocabulary of the sub-parsers (QXmppFileShare, QXmppFileSourcesAttachment, QXmppFallback, XHTML-IM, MIX, ...); row N = foreign
#define PG_L 16
static const char PARSE_GTAGS[][PG_L] = { "file", "sources", "url-data", "encrypted", "body", "subject", "jid", "nick", "desc", "address" };
static constexpr unsigned PARSE_NGTAGS = sizeof(PARSE_GTAGS) / sizeof(PARSE_GTAGS[0]);
#define PN_L 40
static const char PARSE_GNSS[][PN_L] = { "", "http://www.w3.org/1999/xhtml", "urn:xmpp:fallback:0", "urn:xmpp:sfs:0", "urn:xmpp:file:metadata:0" };
static constexpr unsigned PARSE_NGNSS = sizeof(PARSE_GNSS) / sizeof(PARSE_GNSS[0]);

static void parse_warm()
{
    (void)u"id"_s; (void)u"type"_s; (void)u"stamp"_s; (void)u"jid"_s; (void)u"to"_s; (void)u"by"_s; (void)u"thread"_s; (void)u"reason"_s;
    (void)u"password"_s; (void)u"parent"_s; (void)u"nick"_s; (void)u"namespace"_s; (void)u"name"_s; (void)u"start"_s; (void)u"end"_s;
    (void)u"for"_s; (void)u"from"_s; (void)u"lang"_s; (void)u"code"_s; (void)u"body"_s; (void)u"desc"_s; (void)u"yyyyMMddThh:mm:ss"_s; (void)u"delivered"_s; (void)u"true"_s;
}
// attribute / text values: exactly vp_parse_vlen() arbitrary units (a compile-time case: lengths are structure); 0 = attribute absent, no text
static void parse_attr(QDomElement &el, QStringView name, bool present = true)
{
    if (!present || vp_parse_vlen() == 0) {
        return;
    }
    QString n = name.toString(), v = vpSymStringExact(vp_parse_vlen());
    vp_dom_set_attr(&el, &n, &v);
}
static void parse_make_child(QDomElement &root, unsigned k, unsigned ng)
{
    const ParseKind &kd = PARSE_KINDS[k];
    QString tag = kd.tagSym == SYM ? vpSymStringExact(2) : kd.tag.toString();
    QString ns = kd.nsSym == SYM ? vpSymStringExact(2) : (kd.nsSym == INH ? QString() : kd.ns.toString());
    QDomElement c;
    vp_dom_new(&c, &tag, &ns);
    QString text = vpSymStringExact(vp_parse_vlen());
    vp_dom_set_text(&c, &text);
    for (unsigned a = 0; a < 10; a++) {
        if ((kd.attrs >> a) & 1u) {
            parse_attr(c, PARSE_ATTRS[a], !(a == 0 && vp_parse_noid()));   // PARSE_NOID: the `id` attribute is absent whatever VLEN
        }
    }
    vp_dom_append(&root, &c);   // inherits jabber:client when it has no own declaration
    for (unsigned j = 0; j < 2; j++) {
        if (j >= ng) {
            break;
        }
        unsigned ti = vp_u8(), ni = vp_u8();
        vp_assume(ti <= PARSE_NGTAGS && ni <= PARSE_NGNSS);
        if (k == PARSE_KIND_HTML) {
            // OUTSIDE: <html xmlns=xhtml-im><body xmlns=xhtml>...: the real code saves that subtree through QTextStream (unmodelled)
            vp_assume(!(ti == 4 && ni == 1));
        }
        QString gt, gn;
        vp_parse_pick(&gt, &PARSE_GTAGS[0][0], PG_L, PARSE_NGTAGS, ti);
        vp_parse_pick(&gn, &PARSE_GNSS[0][0], PN_L, PARSE_NGNSS, ni);
        QDomElement g;
        vp_dom_new(&g, &gt, &gn);
        QString gtext = vpSymStringExact(vp_parse_vlen());
        vp_dom_set_text(&g, &gtext);
        parse_attr(g, u"start");
        parse_attr(g, u"end");
        vp_dom_append(&c, &g);
    }
}

// ---- the oracle, written from the property statement and the XEPs, not from parseExtension: is this element conversational payload?
static bool parse_has_id(const QDomElement &c) { return c.hasAttribute(QStringLiteral("id")); }
static bool parse_is_sensitive(const QDomElement &c, bool strict)
{
    const QString t = c.tagName(), n = c.namespaceURI();
    if (t == u"body" || t == u"subject" || t == u"thread") {
        return true;   // the message was parsed unsplit: it has no explicit e2ee fallback body, so ANY <body/> in the public part is the body
    }
    if (t == u"x" && (n == ns_legacy_delayed_delivery || n == ns_conference || n == ns_oob)) {
        return true;
    }
    if (n == ns_chat_states || n == ns_chat_markers) {
        return true;
    }
    if ((t == u"html" && n == ns_xhtml_im) || ((t == u"received" || t == u"request") && n == ns_message_receipts) || (t == u"delay" && n == ns_delayed_delivery) ||
        (t == u"attention" && n == ns_attention) || (t == u"data" && n == ns_bob) || (t == u"replace" && n == ns_message_correct) ||
        (t == u"attach-to" && n == ns_message_attaching) || (t == u"spoiler" && n == ns_spoiler) || (t == u"invitation" && n == ns_mix_misc) ||
        (t == u"trust-message" && n == ns_tm) || (t == u"reactions" && n == ns_reactions) || ((t == u"file-sharing" || t == u"sources") && n == ns_sfs) ||
        (t == u"reply" && n == ns_reply)) {
        return true;
    }
    if (n == ns_jingle_message_initiation && (t == u"propose" || t == u"ringing" || t == u"proceed" || t == u"reject" || t == u"retract" || t == u"finish")) {
        return strict || parse_has_id(c);   // XEP-0353: the id is REQUIRED; the library's recogniser treats an element without it as unknown
    }
    if (n == ns_call_invites && (t == u"invite" || t == u"accept" || t == u"reject" || t == u"retract" || t == u"left")) {
        return strict || t == u"invite" || parse_has_id(c);
    }
    return false;
}
static bool parse_is_public(const QDomElement &c)
{
    const QString t = c.tagName(), n = c.namespaceURI();
    return (t == u"private" && n == ns_carbons) ||
        (n == ns_message_processing_hints && (t == u"no-permanent-store" || t == u"no-store" || t == u"no-copy" || t == u"store")) ||
        ((t == u"stanza-id" || t == u"origin-id") && n == ns_sid) || (t == u"mix" && n == ns_mix) || (t == u"encryption" && n == ns_eme);
}
struct ParseTrees { QDomElement pub, sens, all; };
static void parse_check_part(const ParseTrees &t, const QDomElement &part, bool strict)
{
    for (unsigned i = 0; i < 3; i++) {
        QDomElement c;
        vp_c17_child(&part, i, &c);
        if (c.isNull()) {
            continue;
        }
        const unsigned na = vp_parse_count(&t.all, &c), np = vp_parse_count(&t.pub, &c), ns = vp_parse_count(&t.sens, &c);
        const bool sens = parse_is_sensitive(c, strict), pub = parse_is_public(c);
        // fallback markers, stanza error, extended addresses and unknown (third-party) elements accompany every part
        const bool okShared = (na == np && na == ns), okSplit = (na == np + ns);
        vp_assert((sens || pub) ? okSplit : okShared, "C17 (ii) E(All) = E(Public) + E(Sensitive) per (tag, namespace): each element in exactly one part (elements that accompany every part aside)");
        vp_assert(sens ? np == 0 : true, "C17 (ii) a sensitive element is in the sensitive part only");
        vp_assert(pub ? ns == 0 : true, "C17 (ii) a whitelisted element is in the public part only");
    }
}

static void parse_round()
{
    const unsigned k0 = vp_parse_k(0), k1 = vp_parse_k(1);
    const bool strict = vp_parse_strict();
    // ---- input tree
    QDomElement root;
    {
        QString tag = QStringLiteral("message"), ns = ns_client.toString();
        vp_dom_new(&root, &tag, &ns);
        QString an = QStringLiteral("id"), av = vpSymStringExact(1);
        vp_dom_set_attr(&root, &an, &av);
        parse_attr(root, u"to");
        parse_attr(root, u"from");
        static constexpr QStringView TYPES[5] = { u"error", u"normal", u"chat", u"groupchat", u"headline" };
        an = QStringLiteral("type");
        av = TYPES[vp_c17_type()].toString();
        vp_dom_set_attr(&root, &an, &av);
    }
    if (k0 < PARSE_NKINDS) {
        parse_make_child(root, k0, vp_parse_g(0));
    }
    if (k1 < PARSE_NKINDS) {
        parse_make_child(root, k1, vp_parse_g(1));
    }
    vp_c17_phase();
    // ---- the real parser (the message lives on the heap and is never destroyed: its destructor adds nothing to the claim)
    QXmppMessage &m = *new QXmppMessage;
    vp_c17_unknown_reset();
    if (vp_parse_defmode()) {
        m.parse(root);
    } else {
        m.parse(root, QXmpp::SceAll);
    }
    vp_c17_phase();
    // The parsed type is correct but reaches d->type through an integer-coerced std::optional (ABI), i.e. not as a constant for symex;
    // MESSAGE_TYPES.at(d->type) in toXml would then be a symbolic table access (SAT memory, see spec.py "outside").  Assert it, then
    // store the same value back as a constant: a no-op for every execution that passes the assertion.
    vp_assert(unsigned(m.type()) == vp_c17_type(), "C17 (iii) message type restored");
    m.setType(QXmppMessage::Type(vp_c17_type()));
    {
        // same for the chat state and the chat marker (enumFromString<State/Marker>): the LAST child of those namespaces decides
        unsigned st = 0, mk = 0;
        if (k0 < PARSE_NKINDS && PARSE_KINDS[k0].ns == ns_chat_states) { st = parse_state_of(k0); }
        if (k1 < PARSE_NKINDS && PARSE_KINDS[k1].ns == ns_chat_states) { st = parse_state_of(k1); }
        if (k0 < PARSE_NKINDS && parse_marker_of(k0)) { mk = parse_marker_of(k0); }
        if (k1 < PARSE_NKINDS && parse_marker_of(k1)) { mk = parse_marker_of(k1); }
        vp_assert(unsigned(m.state()) == st, "C17 (iii) chat state recovered from the parsed element");
        vp_assert(unsigned(m.marker()) == mk, "C17 (iii) chat marker recovered from the parsed element");
        m.setState(QXmppMessage::State(st));
        m.setMarker(QXmppMessage::Marker(mk));
    }
    // a recognised element never falls through to "unknown extension"
    {
        unsigned expectUnknownMax = 0;
        if (k0 < PARSE_NKINDS && (PARSE_KINDS[k0].cls == F || PARSE_KINDS[k0].cls == I)) { expectUnknownMax++; }
        if (k1 < PARSE_NKINDS && (PARSE_KINDS[k1].cls == F || PARSE_KINDS[k1].cls == I)) { expectUnknownMax++; }
        vp_assert(strict || vp_c17_unknown() <= expectUnknownMax, "C17 an element the parser recognises as payload (or whitelists) is consumed, never kept as an unknown extension, however malformed its content");
    }
    // ---- split serialization
    ParseTrees t;
    {
        VpWriter w;
        m.toXml(w.writer(), QXmpp::ScePublic);
        t.pub = w.root();
    }
    vp_c17_phase();
    // (i) nothing the library recognises as conversational payload reaches the public part
    {
        bool clean = true;
        for (unsigned i = 0; i < 3; i++) {
            QDomElement c;
            vp_c17_child(&t.pub, i, &c);
            clean = clean && (c.isNull() || !parse_is_sensitive(c, strict));
        }
        vp_assert(clean, "C17 (i) public part of a PARSED message: no body, subject, thread, attachment, reaction, receipt, marker or other conversational payload element, however malformed its content was");
        vp_assert(vp_c17_nch(&t.pub) <= 2, "C17 (i) public part: at most one element per input element");
    }
    {
        VpWriter w;
        m.toXml(w.writer(), QXmpp::SceSensitive);
        t.sens = w.root();
    }
    vp_c17_phase();
    {
        VpWriter w;
        m.toXml(w.writer(), QXmpp::SceAll);
        t.all = w.root();
    }
    vp_c17_phase();
    // (ii) each element in exactly one part
    parse_check_part(t, t.all, strict);
    parse_check_part(t, t.pub, strict);
    parse_check_part(t, t.sens, strict);
}

extern "C" void h_parse_tree()
{
    parse_warm();
    vp_c17_phase();
    for (unsigned r = 0; r < 12; r++) {
        if (r >= vp_parse_nrounds()) {
            break;
        }
        vp_parse_round(r);
        parse_round();
    }
}
