/* C17 environment, C side (needs qt_core.c, qt_list.c, qt_dom.c before it: one translation unit) */
/* ---- tree helpers for the harness ---- */
uint32_t vp_c17_nch(char *el) { struct dnode *n = DN(el); return n ? n->nch : 0; }
void vp_c17_child(char *el, uint32_t i, char *out) { struct dnode *n = DN(el); DN(out) = (n && i < n->nch && i < DOM_MAXCH) ? n->ch[i] : 0; }
static int vpl_c17_seq_eq(struct dnode *a, uint32_t ia, struct dnode *b, uint32_t ib, uint32_t cnt) {
  for (uint32_t k = 0; k < DOM_MAXCH; k++) { if (k >= cnt) break; if (!tree_eq_walk(a->ch[ia + k], b->ch[ib + k], 1)) return 0; } return 1; }
uint8_t vp_c17_children_equal(char *a, char *b) { struct dnode *x = DN(a), *y = DN(b); if (!x || !y) return 0; if (x->nch != y->nch) return 0; return vpl_c17_seq_eq(x, 0, y, 0, x->nch); }
uint8_t vp_c17_is_split(char *all, char *pub, char *sens, uint32_t skipPubHead, uint32_t shared) { struct dnode *a = DN(all), *p = DN(pub), *s = DN(sens); if (!a || !p || !s) return 0;
  if (p->nch < skipPubHead + shared || s->nch < shared) return 0; uint32_t np = p->nch - skipPubHead - shared;
  if (a->nch != np + s->nch) return 0; return vpl_c17_seq_eq(a, 0, p, skipPubHead, np) && vpl_c17_seq_eq(a, np, s, 0, s->nch); }
/* a symbolic string whose LENGTH is a constant for symex (structure concrete, characters arbitrary) */
void vp_c17_str(char *out, uint32_t n) { ASSERT(n <= 4, "c17 string bound"); QAD *d = qs_new(n, n); uint16_t c0 = vp_u16(), c1 = vp_u16(), c2 = vp_u16(), c3 = vp_u16(); uint16_t *p = SD(d);
  if (n > 0) p[0] = c0; if (n > 1) p[1] = c1; if (n > 2) p[2] = c2; if (n > 3) p[3] = c3; qs_seal(d, 0); *(QAD**)out = d; }
/* ---- unknown-extension counter (QXmppElement stand-in of h.cpp) ---- */
static uint32_t c17_unknown;
void vp_c17_unknown_hit(void) { c17_unknown++; }
uint32_t vp_c17_unknown(void) { return c17_unknown; }
void vp_c17_unknown_reset(void) { c17_unknown = 0; }
/* ---- QDateTime / QTime / QTimeZone (libQt5Core): abstract values.  A QDateTime is a pointer to an immutable ghost record
   (null pointer = null date-time); its text form is an abstract number string carrying the value, so that
   fromString(toString(x)) == x for valid x; any other text parses to an arbitrary (possibly invalid) date-time.
   Time zones are not modelled: every value is UTC (toUTC / setTimeZone are identities). ---- */
struct c17_dt { uint8_t valid; uint64_t ms; };
#define DT(p) (*(struct c17_dt**)(p))
static struct c17_dt *c17_dt_new(uint8_t valid, uint64_t ms) { struct c17_dt *d = malloc(sizeof(struct c17_dt)); ASSUME(d != 0); d->valid = valid; d->ms = ms; return d; }
void vp_c17_sym_datetime(char *out) { DT(out) = c17_dt_new(1, vp_u64()); }
void _ZN9QDateTimeC1Ev(char *self) { DT(self) = 0; }
void _ZN9QDateTimeC2Ev(char *self) { DT(self) = 0; }
void _ZN9QDateTimeC1ERKS_(char *self, char *o) { DT(self) = DT(o); }
void _ZN9QDateTimeC2ERKS_(char *self, char *o) { DT(self) = DT(o); }
void _ZN9QDateTimeC1EOS_(char *self, char *o) { DT(self) = DT(o); DT(o) = 0; }
void _ZN9QDateTimeC2EOS_(char *self, char *o) { DT(self) = DT(o); DT(o) = 0; }
void _ZN9QDateTimeD1Ev(char *self) { }
void _ZN9QDateTimeD2Ev(char *self) { }
char* _ZN9QDateTimeaSERKS_(char *self, char *o) { DT(self) = DT(o); return self; }
char* _ZN9QDateTimeaSEOS_(char *self, char *o) { DT(self) = DT(o); return self; }
uint8_t _ZNK9QDateTime6isNullEv(char *self) { return DT(self) == 0; }
uint8_t _ZNK9QDateTime7isValidEv(char *self) { return DT(self) != 0 && DT(self)->valid; }
void _ZNK9QDateTime5toUTCEv(char *ret, char *self) { DT(ret) = DT(self); }
uint8_t _ZNK9QDateTimeeqERKS_(char *a, char *b) { struct c17_dt *x = DT(a), *y = DT(b); uint8_t vx = x && x->valid, vy = y && y->valid; if (!vx || !vy) return vx == vy; return x->ms == y->ms; }
uint32_t _ZNK9QDateTime4timeEv(char *self) { struct c17_dt *x = DT(self); return (x && x->valid) ? (uint32_t)(x->ms & 0x3ffffff) : (uint32_t)-1; }
uint32_t _ZNK5QTime4msecEv(char *self) { uint32_t mds = *(uint32_t*)self; return mds == (uint32_t)-1 ? 0 : (mds & 0x3ff); }
static void c17_dt_text(char *ret, char *self) { struct c17_dt *x = DT(self); *(QAD**)ret = (x && x->valid) ? qs_number(x->ms, 0) : SHARED_NULL; }
static void c17_dt_parse(char *ret, QAD *s) { struct numv v = numS(s); if (v.isnum) { DT(ret) = c17_dt_new(1, v.mag); return; } if (s->f1 == 0) { DT(ret) = 0; return; } DT(ret) = c17_dt_new(vp_bool(), vp_u64()); }
void _ZNK9QDateTime8toStringEN2Qt10DateFormatE(char *ret, char *self, uint32_t fmt) { c17_dt_text(ret, self); }
void _ZNK9QDateTime8toStringE11QStringView(char *ret, char *self, uint64_t n, char *p) { c17_dt_text(ret, self); }
void _ZNK9QDateTime8toStringERK7QString(char *ret, char *self, char *fmt) { c17_dt_text(ret, self); }
void _ZN9QDateTime10fromStringERK7QStringN2Qt10DateFormatE(char *ret, char *s, uint32_t fmt) { c17_dt_parse(ret, *(QAD**)s); }
void _ZN9QDateTime10fromStringERK7QStringS2_(char *ret, char *s, char *fmt) { c17_dt_parse(ret, *(QAD**)s); }
void _ZN9QDateTime11setTimeZoneERK9QTimeZone(char *self, char *tz) { }
void _ZN9QTimeZoneC1Ei(char *self, uint32_t off) { *(char**)self = 0; }
void _ZN9QTimeZoneD1Ev(char *self) { }
/* ---- QVector<T> payload blocks (QTypedArrayData<T>::allocate is inline and would end in QArrayData::allocate, which qt_core.c
   models for QString/QByteArray payloads only): typed blocks of fixed capacity C17_VCAP, Qt's header layout {ref,size,alloc,offset=24}.
   Class-level override of the inline instantiations reachable from QXmppMessage.cpp. ---- */
#ifndef C17_VCAP
#define C17_VCAP 4
#endif
struct c17_vp1 { QAD h; char *data[C17_VCAP]; };                                  /* pimpl classes: one d-pointer */
struct c17_vp2 { QAD h; struct { char *a, *b; } data[C17_VCAP]; };                /* QXmppStanzaId { QString id, by } */
struct c17_vsv { QAD h; struct T_class_QStringView data[C17_VCAP]; };             /* QStringView { size, ptr } */
struct c17_vref { QAD h; struct { uint32_t el, start, end, engaged; } data[C17_VCAP]; }; /* QXmppFallback::Reference { Element, optional<Range> } */
static void c17_vhdr(QAD *h, uint64_t cap) { ASSERT(cap <= C17_VCAP, "QVector capacity of the C17 model exceeded"); REF(h) = 1; h->f1 = 0; h->f2 = (uint32_t)cap; h->f3 = sizeof(QAD); }
char* _ZN15QTypedArrayDataI11QStringViewE8allocateEm6QFlagsIN10QArrayData16AllocationOptionEE(uint64_t cap, uint32_t opts) { struct c17_vsv *b = malloc(sizeof(struct c17_vsv)); ASSUME(b != 0); c17_vhdr(&b->h, cap); return (char*)b; }
char* _ZN15QTypedArrayDataI13QXmppStanzaIdE8allocateEm6QFlagsIN10QArrayData16AllocationOptionEE(uint64_t cap, uint32_t opts) { struct c17_vp2 *b = malloc(sizeof(struct c17_vp2)); ASSUME(b != 0); c17_vhdr(&b->h, cap); return (char*)b; }
char* _ZN15QTypedArrayDataI13QXmppFallbackE8allocateEm6QFlagsIN10QArrayData16AllocationOptionEE(uint64_t cap, uint32_t opts) { struct c17_vp1 *b = malloc(sizeof(struct c17_vp1)); ASSUME(b != 0); c17_vhdr(&b->h, cap); return (char*)b; }
char* _ZN15QTypedArrayDataI14QXmppFileShareE8allocateEm6QFlagsIN10QArrayData16AllocationOptionEE(uint64_t cap, uint32_t opts) { struct c17_vp1 *b = malloc(sizeof(struct c17_vp1)); ASSUME(b != 0); c17_vhdr(&b->h, cap); return (char*)b; }
char* _ZN15QTypedArrayDataI17QXmppOutOfBandUrlE8allocateEm6QFlagsIN10QArrayData16AllocationOptionEE(uint64_t cap, uint32_t opts) { struct c17_vp1 *b = malloc(sizeof(struct c17_vp1)); ASSUME(b != 0); c17_vhdr(&b->h, cap); return (char*)b; }
char* _ZN15QTypedArrayDataI21QXmppBitsOfBinaryDataE8allocateEm6QFlagsIN10QArrayData16AllocationOptionEE(uint64_t cap, uint32_t opts) { struct c17_vp1 *b = malloc(sizeof(struct c17_vp1)); ASSUME(b != 0); c17_vhdr(&b->h, cap); return (char*)b; }
char* _ZN15QTypedArrayDataI26QXmppFileSourcesAttachmentE8allocateEm6QFlagsIN10QArrayData16AllocationOptionEE(uint64_t cap, uint32_t opts) { struct c17_vp1 *b = malloc(sizeof(struct c17_vp1)); ASSUME(b != 0); c17_vhdr(&b->h, cap); return (char*)b; }
char* _ZN15QTypedArrayDataIN13QXmppFallback9ReferenceEE8allocateEm6QFlagsIN10QArrayData16AllocationOptionEE(uint64_t cap, uint32_t opts) { struct c17_vref *b = malloc(sizeof(struct c17_vref)); ASSUME(b != 0); c17_vhdr(&b->h, cap); return (char*)b; }
void _Z9qBadAllocv(void) { ASSERT(0, "qBadAlloc (out of scope)"); ASSUME(0); }
/* Reference counting of QString on destruction is dropped (class-level override of the inline ~QString, as in harness C12):
   string blocks of the model are never recycled, and an over-approximated reference count only makes the copy-on-write paths
   of the string model copy where Qt would modify in place - value semantics are unchanged. */
void vp_c17_phase(void);
void _ZN7QStringD2Ev(char *self) { vp_c17_phase(); }
void _ZN7QStringD1Ev(char *self) { vp_c17_phase(); }
/* known finding D12 (JMI / call-invite elements parsed in the public block): listed in known_findings.txt <=> -DKF_d12_jmi_callinvite */
uint8_t vp_c17_kf_d12(void) {
#ifdef KF_d12_jmi_callinvite
  return 1;
#else
  return 0;
#endif
}
/* QVector<QStringView>::copyConstruct (inline; memcpy of a run-time size for this primitive type): typed element copy instead of
   cbmc's library memcpy, which would turn the block of the static HINT_TYPES table into one opaque value */
void _ZN7QVectorI11QStringViewE13copyConstructEPKS0_S3_PS0_(char *self, char *b, char *e, char *dst) { uint64_t n = (uint64_t)(e - b) / sizeof(struct T_class_QStringView);
  ASSERT(n <= C17_VCAP, "QVector capacity of the C17 model exceeded"); struct T_class_QStringView *s = (struct T_class_QStringView*)b, *d = (struct T_class_QStringView*)dst;
  for (uint32_t i = 0; i < C17_VCAP; i++) { if (i >= n) break; d[i] = s[i]; } }
/* QVector<QStringView>(std::initializer_list) (inline) - used once, by the global constructor of the static HINT_TYPES table.
   The translated constructor copies the initializer array through pointer-typed words, after which the `size` members are no longer
   constants for symex.  The model rebuilds each view from its (NUL-terminated literal) data pointer and ASSERTS that the recomputed
   length equals the stored one, so nothing is assumed. */
void _ZN7QVectorI11QStringViewEC2ESt16initializer_listIS0_E(char *self, char *arr, uint64_t n) { ASSERT(n <= C17_VCAP, "QVector capacity of the C17 model exceeded");
  struct c17_vsv *b = malloc(sizeof(struct c17_vsv)); ASSUME(b != 0); c17_vhdr(&b->h, C17_VCAP); b->h.f1 = (uint32_t)n; struct T_class_QStringView *s = (struct T_class_QStringView*)arr;
  for (uint32_t i = 0; i < C17_VCAP; i++) { if (i >= n) break; char *p = s[i].f1; uint32_t len = vpl_strlen16((uint16_t*)p); ASSERT(s[i].f0 == len, "C17 model: initializer view is not a whole literal"); b->data[i].f0 = len; b->data[i].f1 = p; }
  *(char**)self = (char*)b; }
/* Phase boundary (performance): cbmc's "dead object"/"deallocated" bookkeeping symbols accumulate every local that ever went out of
   scope; each pointer check of the translated code is simplified against that ever-growing set (measured: > 80 % of symex time).
   The harness forgets the set between phases (after a serialization / a parse has returned).  Effect on the claim: a dereference
   of a stack object or freed block that died in an EARLIER phase is no longer reported as a pointer-safety failure; C17's own
   assertions and all other checks are unaffected. */
#ifdef __CPROVER__
extern const void *__CPROVER_dead_object; extern const void *__CPROVER_deallocated;
void vp_c17_phase(void) { __CPROVER_dead_object = 0; __CPROVER_deallocated = 0; }
#else
void vp_c17_phase(void) { }
#endif
/* message type of the instance (structural case): 0 error, 1 normal, 2 chat (default), 3 groupchat, 4 headline */
#ifndef VP_C17_TYPE
#define VP_C17_TYPE 2
#endif
uint32_t vp_c17_type(void) { return VP_C17_TYPE; }
