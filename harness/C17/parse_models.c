/* C17 / parse-path instances (spec_parse.py), C side.  Needs qt_core.c, qt_list.c, qt_dom.c, c17_models.c before it (one translation unit). */
/* ---- compile-time cases of an instance (cdefs): a list of rounds; kind = row of PARSE_KINDS in parse_h.cpp (255 = no such child);
   PARSE_STRICT: strict reading of the Jingle-message / call-invite recognisers (see parse_h.cpp) ---- */
#ifndef PARSE_CASES
#define PARSE_CASES {0,255,0,0,0,0,1,0}
#endif
#ifndef PARSE_STRICT
#define PARSE_STRICT 0
#endif
/* one row per round: kind of child 0, kind of child 1, grandchildren of child 0, of child 1, verdict bits of the failing-capable sub-parsers
   (bit n = n-th call succeeds), parse entry (0 = parse(tree, SceAll), 1 = parse(tree)), value length 0..2, `id` attribute forced absent */
static const uint8_t parse_cases[][8] = { PARSE_CASES };
static uint32_t parse_r, parse_ncalls;
uint32_t vp_parse_nrounds(void) { return (uint32_t)(sizeof(parse_cases) / sizeof(parse_cases[0])); }
void vp_parse_round(uint32_t r) { parse_r = r; parse_ncalls = 0; }
uint32_t vp_parse_k(uint32_t i) { return parse_cases[parse_r][i == 0 ? 0 : 1]; }
uint32_t vp_parse_g(uint32_t i) { return parse_cases[parse_r][i == 0 ? 2 : 3]; }
uint8_t vp_parse_verdict(void) { uint32_t n = parse_ncalls++; return (uint8_t)((parse_cases[parse_r][4] >> (n & 7u)) & 1u); }
uint8_t vp_parse_defmode(void) { return parse_cases[parse_r][5]; }
uint32_t vp_parse_vlen(void) { return parse_cases[parse_r][6]; }
uint8_t vp_parse_noid(void) { return parse_cases[parse_r][7]; }
uint8_t vp_parse_strict(void) { return PARSE_STRICT; }
/* ---- a name picked from a constant table by a SYMBOLIC row (harness/C02 idiom, vp_c02_pick): every candidate row is written on its own
   guarded path with constant content, so length, characters and content id of the block are if-then-else terms over constants.
   Row index n (one past the table) = a FOREIGN name: exactly 2 arbitrary UTF-16 units (cannot equal any name the parsers compare with
   except by its characters; compared unit by unit).  The rows are 8-bit literals of the translated harness: they take part in the
   driver's offline injectivity check of the id hash (report.json literals16), which is what `exact` relies on. ---- */
void vp_parse_pick(char *out, char *tab, uint32_t stride, uint32_t n, uint32_t idx) {
  ASSUME(idx <= n); ASSERT(stride <= QS_CAP && n <= 16, "C17 parse env: name table too large");
  uint16_t c0 = vp_u16(), c1 = vp_u16();
  QAD *d = qs_new(0, stride); struct qs *q = (struct qs*)d;
  for (uint32_t k = 0; k < n; k++) { if (k == idx) { uint32_t l = 0; for (; l < stride; l++) { uint8_t c = ((uint8_t*)tab)[k * stride + l]; if (!c) break; q->data[l] = c; }
      d->f1 = l; q->lit = 1; q->exact = 1; q->sid = l <= 3 ? SID_PACK(q->data, l) : vpl_hash16(q->data, l); } }
  if (idx == n) { q->data[0] = c0; q->data[1] = c1; d->f1 = 2; q->lit = 0; q->exact = 0; }
  REF(d) = (uint32_t)-1;
  *(QAD**)out = d; }
/* number of children of `el` whose (tag, namespace) equal those of `ref` */
uint32_t vp_parse_count(char *el, char *ref) { struct dnode *n = DN(el), *r = DN(ref); uint32_t c = 0; if (!n || !r) return 0;
  for (uint32_t i = 0; i < DOM_MAXCH; i++) { if (i >= n->nch) break; if (d_eq(n->ch[i]->tag, r->tag) && d_eq(n->ch[i]->ns, r->ns)) c++; } return c; }
