// C17, fourth anchored mechanism: the encrypted send path.  REAL code under check: QXmppClient::sendSensitive (its sendEncrypted
// continuation, the std::visit over the encryption result) and QXmppClient::reply (e2ee branch), src/client/QXmppClient.cpp:523-590,
// on top of the real QXmppMessage serialization.
// Environment: QXmppClient / QXmppClientPrivate / QXmppOutgoingClient are raw storage in which only d, d->stream and
// d->encryptionExtension are alive.  The end-to-end encryption extension is a mock whose encryptMessage returns an already finished
// task (QXmppTask/QXmppPromise = assume-guarantee shadow, contract by C13) holding the input message plus what an encryption manager
// adds: XEP-0380 encryption namespace (set or NOT set: case), e2ee fallback body (case) - or an error.
// What reaches the stream: `QXmlStreamWriter writer(&xml)` of the real code is the writer TREE model bound to that byte array;
// QXmppPacket(const QByteArray&, ...) picks up the tree written into it; QXmppPacket(const QXmppNonza&, ...) runs the stanza's REAL
// virtual toXml into a tree (what QXmppPacket.cpp does with bytes); StreamAckManager::send logs the packet's tree (accounting: C09).
#include <QString>
#include <QMap>
#include <QList>
#include <QDomElement>
#include <QXmlStreamWriter>
#include <variant>
#include <optional>
#include <memory>
#include <any>
#include <functional>
#include <unordered_map>
#include <chrono>
#include <QObject>
#include <QSet>
#include <QStringList>
#include <QSharedDataPointer>
#include <QDateTime>
#include <QNetworkProxy>
#include <QSslError>
#include <QSslSocket>
#include <QAbstractSocket>
#include <QFuture>
#include <QTimer>
#include <QDnsLookup>
#include <QHostAddress>
#include <QUrl>
#include "QXmppDiscoveryIq.h"
#include "QXmppExtension.h"
#include "QXmppLogger.h"
#include "QXmppPresence.h"
#include "QXmppElement.h"
#include "QXmppMessage.h"
#include "QXmppIq.h"
#include "QXmppTask.h"
#include "QXmppPromise.h"
#include "QXmppError.h"
#include "QXmppE2eeMetadata.h"
#include "QXmppSendStanzaParams.h"
#include "QXmppStreamFeatures.h"
#include "QXmppConfiguration.h"
#include "QXmppE2eeExtension.h"
#define private public
#define protected public
#include "QXmppClientExtension.h"
#include "QXmppClient.h"
#include "QXmppClient_p.h"
#include "QXmppOutgoingClient.h"
#include "QXmppStreamManagement_p.h"
#include "QXmppPacket_p.h"
#undef private
#undef protected
#include "h.cpp"   // field table (setters), value source, stand-ins of the extension classes, tree helpers
using namespace QXmpp::Private;

extern "C" {
bool vp_c17_tree_of_bytes(const QByteArray *buf, QDomElement *out);   // tree written by the QXmlStreamWriter that was constructed on *buf
}

// ---------------------------------------------------------------- the wire
static int g_nsent;
static QDomElement g_sent;
static bool g_sentIsStanza;
static QDomElement g_pktTree;
static bool g_pktFromBytes;
QXmppPacket::QXmppPacket(const QXmppNonza &nonza, QXmppPromise<QXmpp::SendResult> p)
    : m_promise(std::move(p)), m_isXmppStanza(nonza.isXmppStanza())
{
    VpWriter w;
    nonza.toXml(w.writer());
    g_pktTree = w.root();
    g_pktFromBytes = false;
}
QXmppPacket::QXmppPacket(const QByteArray &data, bool isXmppStanza, QXmppPromise<QXmpp::SendResult> p)
    : m_promise(std::move(p)), m_isXmppStanza(isXmppStanza)
{
    bool known = vp_c17_tree_of_bytes(&data, &g_pktTree);
    vp_assert(known, "C17 send path: the bytes handed to QXmppPacket are those written by the serializer of the send path");
    g_pktFromBytes = true;
}
QXmppTask<QXmpp::SendResult> QXmppPacket::task() { return m_promise.task(); }
static VpRaw<StreamAckManager> g_sam;
StreamAckManager &QXmppOutgoingClient::streamAckManager() const { return *g_sam.p(); }
QXmppTask<QXmpp::SendResult> StreamAckManager::send(QXmppPacket &&packet)
{
    g_nsent++;
    g_sent = g_pktTree;
    g_sentIsStanza = packet.m_isXmppStanza;
    return packet.task();
}

// ---------------------------------------------------------------- the mock encryption extension
enum { ENC_OK, ENC_ERROR };
struct MockE2ee final : QXmppE2eeExtension {
    int outcome = ENC_OK;
    bool setNs = false, setFallback = false;
    int calls = 0;
    QDomElement expected;      // ScePublic serialization of the message handed back
    QString fallbackBody;
    QXmppTask<MessageEncryptResult> encryptMessage(QXmppMessage &&in, const std::optional<QXmppSendStanzaParams> &) override
    {
        calls++;
        QXmppPromise<MessageEncryptResult> p;
        if (outcome == ENC_ERROR) {
            p.finish(MessageEncryptResult(QXmppError { QStringLiteral("e"), {} }));
            return p.task();
        }
        auto m = std::make_unique<QXmppMessage>(std::move(in));
        if (setNs) {
            m->setEncryptionMethodNs(c17Str(1));
            m->setEncryptionName(c17Str(1));   // explicit name: the name table lookup by a symbolic namespace is not this property's subject
        }
        if (setFallback) {
            m->setE2eeFallbackBody(c17Str(1));
        }
        fallbackBody = m->e2eeFallbackBody();
        {
            VpWriter w;
            m->toXml(w.writer(), QXmpp::ScePublic);
            expected = w.root();
        }
        vp_c17_phase();
        p.finish(MessageEncryptResult(std::move(m)));
        return p.task();
    }
    QXmppTask<MessageDecryptResult> decryptMessage(QXmppMessage &&) override { vp_assert(false, "C17 send path: decryptMessage is not part of sending"); return QXmppPromise<MessageDecryptResult>().task(); }
    QXmppTask<IqEncryptResult> encryptIq(QXmppIq &&, const std::optional<QXmppSendStanzaParams> &) override { vp_assert(false, "C17 send path: a message is not encrypted as an iq"); return QXmppPromise<IqEncryptResult>().task(); }
    QXmppTask<IqDecryptResult> decryptIq(const QDomElement &) override { vp_assert(false, "C17 send path: decryptIq is not part of sending"); return QXmppPromise<IqDecryptResult>().task(); }
    bool isEncrypted(const QDomElement &) override { return false; }
    bool isEncrypted(const QXmppMessage &) override { return false; }
};

struct SendWorld {
    VpRaw<QXmppClient> cbuf;
    VpRaw<QXmppClientPrivate> cdbuf;
    VpRaw<QXmppOutgoingClient> sbuf;
    QXmppClient *client;
    MockE2ee *e2ee;
    SendWorld() : client(cbuf.p()), e2ee(new MockE2ee)
    {
        new (const_cast<std::unique_ptr<QXmppClientPrivate> *>(&client->d)) std::unique_ptr<QXmppClientPrivate>(cdbuf.p());
        cdbuf.p()->stream = sbuf.p();
        cdbuf.p()->encryptionExtension = e2ee;
    }
};
// a message as an application hands it to sendSensitive(): routing data plus conversational payload, nothing encrypted yet
static void set_payload(QXmppMessage &m, unsigned variant)
{
    set_origin_id(m);
    m.addHint(QXmppMessage::Store);
    if (variant == 0) {          // text message with attachments
        set_body(m);
        set_subject(m);
        set_oob_url(m);
        set_attach_id(m);
        set_reply(m);
    } else {                     // body-less messages: reaction, receipt, marker, chat state
        set_reaction(m);
        m.setReceiptRequested(true);
        m.setMarker(QXmppMessage::Displayed);
        m.setMarkerId(S1);
        m.setState(QXmppMessage::Composing);
        set_markable(m);
    }
}
static void check_sent(const SendWorld &w)
{
    vp_assert(w.e2ee->calls == 1, "C17 send path: the encryption extension is asked exactly once");
    vp_assert(g_nsent == 1, "C17 send path: an encrypted message is handed to the stream exactly once");
    vp_assert(g_sentIsStanza, "C17 send path: the packet is accounted as a stanza");
    vp_assert(vp_dom_equal(&g_sent, &w.e2ee->expected), "C17 send path: what goes to the stream is the ScePublic serialization of the message the encryption extension returned");
    unsigned n = vp_c17_nch(&g_sent);
    bool wl = true;
    for (unsigned i = 0; i < 12; i++) {
        if (i < n) {
            QDomElement c;
            vp_c17_child(&g_sent, i, &c);
            wl = wl && !c.isNull() && c17_whitelisted(c, w.e2ee->fallbackBody);
        }
    }
    vp_assert(wl, "C17 send path: no sensitive element (body, subject, reaction, receipt, marker, chat state, oob, attach-to, reply) reaches the stream in clear");
}
// VP_CASE: bit 0 = the returned message carries an XEP-0380 encryption namespace, bit 1 = it carries an e2ee fallback body,
//          bit 2 = payload variant, bit 3 = entry through QXmppClient::reply(stanza, e2eeMetadata)
extern "C" void h_send_encrypted()
{
    c17_warm();
    SendWorld w;
    w.e2ee->setNs = vp_case_bool(0);
    w.e2ee->setFallback = vp_case_bool(1);
    QXmppMessage m;
    c17_base(m);
    set_payload(m, vp_case_bool(2) ? 1 : 0);
    vp_c17_phase();
    if (vp_case_bool(3)) {
        std::optional<QXmppE2eeMetadata> meta;
        meta.emplace();
        auto t = w.client->reply(std::move(m), meta, std::nullopt);
    } else {
        auto t = w.client->sendSensitive(std::move(m), std::nullopt);
    }
    check_sent(w);
}
// the encryption extension reports an error: nothing may be sent, the caller gets the error
extern "C" void h_send_error()
{
    c17_warm();
    SendWorld w;
    w.e2ee->outcome = ENC_ERROR;
    QXmppMessage m;
    c17_base(m);
    set_payload(m, 0);
    auto t = w.client->sendSensitive(std::move(m), std::nullopt);
    vp_assert(w.e2ee->calls == 1, "C17 send path: the encryption extension is asked exactly once");
    vp_assert(g_nsent == 0, "C17 send path: nothing is sent when encryption fails");
    vp_assert(t.isFinished() && t.hasResult() && std::holds_alternative<QXmppError>(t.result()), "C17 send path: the caller is told that encryption failed");
}
