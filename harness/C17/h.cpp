// C17: the public part of an encrypted message never carries sensitive content.
// Real code under check: QXmppMessage::toXml/parse(mode), serializeExtensions, parseExtensions, parseExtension (QXmppMessage.cpp),
// QXmppStanza::parse/extensionsToXml (QXmppStanza.cpp), operator&(SceMode,SceMode) (QXmppGlobal.h), QXmppFallback (QXmppMessage.cpp).
// Trees: QXmlStreamWriter/QDom tree model (models/qt_dom.c).  Other classes' sub-codecs: one-element stand-ins (c17_env.h).
#include "c17_env.h"
#include "StringLiterals.h"
#include "vp_harness.h"
#include "vp_dom.h"

extern "C" {
unsigned vp_c17_nch(const QDomElement *el);                                  // number of child elements
void vp_c17_child(const QDomElement *el, unsigned i, QDomElement *out);      // i-th child (null if none)
bool vp_c17_children_equal(const QDomElement *a, const QDomElement *b);      // same child sequence (deep, attribute order ignored)
// children(all) == children(pub) minus its leading `skipPubHead` and trailing `shared` children, followed by children(sens)
bool vp_c17_is_split(const QDomElement *all, const QDomElement *pub, const QDomElement *sens, unsigned skipPubHead, unsigned shared);
void vp_c17_str(QString *out, unsigned n);                                    // exactly n arbitrary UTF-16 units (length is a constant for symex)
void vp_c17_sym_datetime(QDateTime *out);                                    // arbitrary VALID date-time (abstract value)
unsigned vp_c17_unknown();                                                   // number of QXmppElement(QDomElement) constructions = elements that fell through to "unknown extension"
void vp_c17_unknown_reset();
void vp_c17_phase();                                                         // forget cbmc dead/deallocated bookkeeping (see c17_models.c)
unsigned vp_c17_type();                                                      // message type of this instance (-DVP_C17_TYPE=0..4: error, normal, chat, groupchat, headline; default chat)
bool vp_c17_kf_d12();                                                        // known finding d12_jmi_callinvite listed (-DKF_d12_jmi_callinvite)
}

// ---- unknown extensions (QXmppElement.cpp is not linked): a counting stand-in, so "element not recognised in this mode" is observable
class QXmppElementPrivate { public: int dummy; };
extern "C" void vp_c17_unknown_hit();
QXmppElement::QXmppElement() : d(nullptr) { }
QXmppElement::QXmppElement(const QXmppElement &) : d(nullptr) { }
QXmppElement::QXmppElement(const QDomElement &) : d(nullptr) { vp_c17_unknown_hit(); }
QXmppElement::~QXmppElement() { }
QXmppElement &QXmppElement::operator=(const QXmppElement &) { return *this; }
void QXmppElement::toXml(QXmlStreamWriter *) const { }

// Value source.  Normally every call yields a fresh symbolic value.  With the pool switched on, the values are recorded and can be
// replayed, so that two messages can be built from the SAME values without copying a message (the compiler-generated copy of
// QXmppMessagePrivate moves its small members through memcpy, after which they are no longer constants for symex).
static QString *c17_spool[32];
static int c17_ipool[4];
static QDateTime *c17_dpool[2];
static unsigned c17_sn, c17_si, c17_in, c17_ii, c17_dn, c17_di;
static bool c17_pool_on;
static void c17_pool_replay() { c17_si = 0; c17_ii = 0; c17_di = 0; }
static QString c17Str(unsigned n)
{
    if (c17_pool_on && c17_si < c17_sn) {
        return *c17_spool[c17_si++];
    }
    QString s;
    vp_c17_str(&s, n);
    if (c17_pool_on) {
        c17_spool[c17_sn++] = new QString(s);
        c17_si = c17_sn;
    }
    return s;
}
static int c17Int()
{
    if (c17_pool_on && c17_ii < c17_in) {
        return c17_ipool[c17_ii++];
    }
    int v = vp_int();
    if (c17_pool_on) {
        c17_ipool[c17_in++] = v;
        c17_ii = c17_in;
    }
    return v;
}
static void c17Dt(QDateTime *out)
{
    if (c17_pool_on && c17_di < c17_dn) {
        *out = *c17_dpool[c17_di++];
        return;
    }
    vp_c17_sym_datetime(out);
    if (c17_pool_on) {
        c17_dpool[c17_dn++] = new QDateTime(*out);
        c17_di = c17_dn;
    }
}
enum Part { PUB, SENS, BOTH, PUBONLY };
struct C17Trees {
    QDomElement pub, sens, all;
};

// The u"..."_s literals of qxmpp are function-local statics that are filled on first use.  A first use under a guard that is
// symbolic for the solver would leave the literal's characters an if-then-else; using each one once here (concrete control flow)
// keeps them constants.  Pure performance measure: no effect on values.
static void c17_warm()
{
    (void)u"id"_s; (void)u"type"_s; (void)u"stamp"_s; (void)u"jid"_s; (void)u"to"_s; (void)u"by"_s; (void)u"thread"_s; (void)u"reason"_s;
    (void)u"password"_s; (void)u"parent"_s; (void)u"nick"_s; (void)u"namespace"_s; (void)u"name"_s; (void)u"start"_s; (void)u"end"_s;
    (void)u"for"_s; (void)u"from"_s; (void)u"lang"_s; (void)u"code"_s; (void)u"body"_s; (void)u"desc"_s; (void)u"yyyyMMddThh:mm:ss"_s; (void)u"delivered"_s; (void)u"true"_s;
}
static void c17_base(QXmppMessage &m)
{
    c17_warm();
    vp_c17_phase();
    m.setId(c17Str(1));
    m.setTo(c17Str(1));
    m.setType(QXmppMessage::Type(vp_c17_type()));   // structural case of the instance; value-dependent serialization must not depend on it
}
static void c17_serialize(const QXmppMessage &m, C17Trees &t)
{
    {
        VpWriter w;
        m.toXml(w.writer(), QXmpp::ScePublic);
        t.pub = w.root();
    }
    vp_c17_phase();
    {
        VpWriter w;
        m.toXml(w.writer(), QXmpp::SceSensitive);
        t.sens = w.root();
    }
    vp_c17_phase();
    {
        VpWriter w;
        m.toXml(w.writer(), QXmpp::SceAll);
        t.all = w.root();
    }
    vp_c17_phase();
}
// where do the `nel` elements of the single field that is set land?
static void c17_place(const C17Trees &t, Part part, unsigned nel, QStringView tag, QStringView ns)
{
    unsigned np = vp_c17_nch(&t.pub), nsn = vp_c17_nch(&t.sens), na = vp_c17_nch(&t.all);
    unsigned ep = (part == SENS) ? 0 : nel, es = (part == SENS || part == BOTH) ? nel : 0, ea = (part == PUBONLY) ? 0 : nel;
    vp_assert(np == ep, "C17 (i) public part: holds exactly the elements of whitelisted fields, nothing of a sensitive field");
    vp_assert(nsn == es, "C17 (ii) sensitive part: holds exactly the elements of sensitive fields");
    vp_assert(na == ea, "C17 (ii) unsplit message: every element once");
    bool eqp = vp_c17_children_equal(&t.all, &t.pub), eqs = vp_c17_children_equal(&t.all, &t.sens);
    vp_assert(part == PUB || part == BOTH ? eqp : true, "C17 (ii) elements of the public part are those of the unsplit message");
    vp_assert(part == SENS || part == BOTH ? eqs : true, "C17 (ii) elements of the sensitive part are those of the unsplit message");
    if (!tag.isEmpty()) {
        QDomElement c;
        vp_c17_child(part == SENS ? &t.sens : &t.pub, 0, &c);
        bool ok = !c.isNull() && c.tagName() == tag && (ns.isEmpty() || c.namespaceURI() == ns);
        vp_assert(ok, "C17 the element written for the field has the field's tag and namespace");
    }
}
static void c17_roundtrip(const C17Trees &t, QXmppMessage &r)
{
    vp_c17_unknown_reset();
    vp_c17_phase();
    r.parse(t.pub, QXmpp::ScePublic);
    vp_c17_phase();
    r.parse(t.sens, QXmpp::SceSensitive);
    vp_c17_phase();
    vp_assert(vp_c17_unknown() == 0, "C17 (iii) every element of each part is recognised when that part is parsed in its own mode");
    vp_assert(unsigned(r.type()) == vp_c17_type(), "C17 (iii) message type restored");
}

#define FIELD(name, part, nel, tag, ns)                                                  \
    static void set_##name(QXmppMessage &m);                                             \
    static void chk_##name(const QXmppMessage &m, const QXmppMessage &r, bool alone);    \
    extern "C" void h_f_##name()                                                         \
    {                                                                                    \
        QXmppMessage m;                                                                  \
        c17_base(m);                                                                     \
        set_##name(m);                                                                   \
        C17Trees t;                                                                      \
        c17_serialize(m, t);                                                             \
        c17_place(t, part, nel, tag, ns);                                                \
        QXmppMessage r;                                                                  \
        c17_roundtrip(t, r);                                                             \
        chk_##name(m, r, true);                                                          \
        if (part != PUBONLY) {                                                           \
            QXmppMessage r2;                                                             \
            r2.parse(t.all, QXmpp::SceAll);                                              \
            vp_c17_phase();                                                              \
            chk_##name(m, r2, true);                                                     \
        }                                                                                \
    }
#define SET(name) static void set_##name(QXmppMessage &m)
#define CHK(name) static void chk_##name(const QXmppMessage &m, const QXmppMessage &r, bool alone)
#define S1 c17Str(1)

// ================= whitelisted (public) fields: DESIGN C17 whitelist = fallback body, private, hints, stanza-id, origin-id, mix, EME, fallback markers =================
FIELD(e2ee_fallback_body, PUBONLY, 1, u"body", u"")
SET(e2ee_fallback_body) { m.setE2eeFallbackBody(S1); }
CHK(e2ee_fallback_body) { vp_assert(r.e2eeFallbackBody() == m.e2eeFallbackBody() && (!alone || r.body().isEmpty()), "C17 (iii) e2eeFallbackBody restored from the public part, body stays empty"); }

FIELD(private_msg, PUB, 1, u"private", ns_carbons)
SET(private_msg) { m.setPrivate(true); }
CHK(private_msg) { vp_assert(r.isPrivate(), "C17 (iii) private restored"); }

// one instance per hint (VP_CASE = hint index): structure stays concrete
static constexpr QStringView C17_HINT_TAGS[4] = { u"no-permanent-store", u"no-store", u"no-copy", u"store" };
static unsigned c17_hint_index() { return vp_case_u(0, 4); }
FIELD(hint, PUB, 1, C17_HINT_TAGS[c17_hint_index()], ns_message_processing_hints)
SET(hint) { m.addHint(QXmppMessage::Hint(1u << c17_hint_index())); }
CHK(hint)
{
    bool ok = true;
    for (unsigned i = 0; i < 4; i++) {
        ok = ok && (r.hasHint(QXmppMessage::Hint(1u << i)) == m.hasHint(QXmppMessage::Hint(1u << i)));
    }
    vp_assert(ok, "C17 (iii) hints restored");
}

FIELD(stanza_id, PUB, 1, u"stanza-id", ns_sid)
SET(stanza_id)
{
    m.setStanzaId(S1);
    m.setStanzaIdBy(S1);
}
CHK(stanza_id)
{
    vp_assert(r.stanzaIds().size() == 1 && r.stanzaId() == m.stanzaId() && r.stanzaIdBy() == m.stanzaIdBy(), "C17 (iii) stanza id restored");
}
FIELD(stanza_ids2, PUB, 2, u"stanza-id", ns_sid)
SET(stanza_ids2) { m.setStanzaIds({ QXmppStanzaId { S1, S1 }, QXmppStanzaId { S1, QString() } }); }
CHK(stanza_ids2)
{
    auto a = r.stanzaIds(), b = m.stanzaIds();
    vp_assert(a.size() == 2 && a.at(0).id == b.at(0).id && a.at(0).by == b.at(0).by && a.at(1).id == b.at(1).id && a.at(1).by.isEmpty(), "C17 (iii) stanza ids restored");
}

FIELD(origin_id, PUB, 1, u"origin-id", ns_sid)
SET(origin_id) { m.setOriginId(S1); }
CHK(origin_id) { vp_assert(r.originId() == m.originId(), "C17 (iii) originId restored"); }

FIELD(mix_user, PUB, 1, u"mix", ns_mix)
SET(mix_user)
{
    m.setMixUserJid(S1);
    m.setMixUserNick(S1);
}
CHK(mix_user) { vp_assert(r.mixUserJid() == m.mixUserJid() && r.mixUserNick() == m.mixUserNick(), "C17 (iii) MIX user jid/nick restored"); }
FIELD(mix_jid, PUB, 1, u"mix", ns_mix)
SET(mix_jid) { m.setMixUserJid(S1); }
CHK(mix_jid) { vp_assert(r.mixUserJid() == m.mixUserJid() && (!alone || r.mixUserNick().isEmpty()), "C17 (iii) MIX user jid restored"); }
FIELD(mix_nick, PUB, 1, u"mix", ns_mix)
SET(mix_nick) { m.setMixUserNick(S1); }
CHK(mix_nick) { vp_assert(r.mixUserNick() == m.mixUserNick() && (!alone || r.mixUserJid().isEmpty()), "C17 (iii) MIX user nick restored"); }

FIELD(eme, PUB, 1, u"encryption", ns_eme)
SET(eme)
{
    m.setEncryptionMethodNs(S1);
    m.setEncryptionName(S1);
}
CHK(eme) { vp_assert(r.encryptionMethodNs() == m.encryptionMethodNs() && r.encryptionName() == m.encryptionName(), "C17 (iii) explicit message encryption restored"); }

// fallback markers accompany both parts (so parsing both parts yields the marker twice: "fallback markers aside")
FIELD(fallback_marker, BOTH, 1, u"fallback", ns_fallback_indication)
SET(fallback_marker) { m.setFallbackMarkers({ QXmppFallback(S1, {}) }); }
CHK(fallback_marker)
{
    const auto &a = r.fallbackMarkers();
    const auto &b = m.fallbackMarkers();
    bool ok = a.size() >= 1 && a.size() <= 2 && a.first().forNamespace() == b.first().forNamespace() && a.last().forNamespace() == b.first().forNamespace();
    vp_assert(ok, "C17 (iii) fallback marker restored (from either part)");
}

// XEP-0033 extended addresses (QXmppStanza): routing data.  QXmppMessage::toXml writes them in EVERY mode (QXmppStanza::extensionsToXml
// is called without a mode, "shared tail"), QXmppStanza::parse reads them in every mode; serializeExtensions (the real envelope
// content) does not write them (checked in h_envelope).
FIELD(addresses, BOTH, 1, u"addresses", ns_extended_addressing)
SET(addresses)
{
    QXmppExtendedAddress a;
    a.setJid(S1);
    a.setType(S1);
    m.setExtendedAddresses({ a });
}
CHK(addresses)
{
    auto a = r.extendedAddresses(), b = m.extendedAddresses();
    vp_assert(a.size() >= 1 && a.size() <= 2 && a.first().jid() == b.first().jid() && a.first().type() == b.first().type(), "C17 (iii) extended addresses restored (from either part)");
}

// ================= sensitive fields =================
FIELD(body, SENS, 1, u"body", u"")
SET(body) { m.setBody(S1); }
CHK(body) { vp_assert(r.body() == m.body() && (!alone || r.e2eeFallbackBody().isEmpty()), "C17 (iii) body restored from the sensitive part"); }

FIELD(subject, SENS, 1, u"subject", u"")
SET(subject) { m.setSubject(S1); }
CHK(subject) { vp_assert(r.subject() == m.subject(), "C17 (iii) subject restored"); }

FIELD(thread, SENS, 1, u"thread", u"")
SET(thread)
{
    m.setThread(S1);
    m.setParentThread(S1);
}
CHK(thread) { vp_assert(r.thread() == m.thread() && r.parentThread() == m.parentThread(), "C17 (iii) thread / parent thread restored"); }

FIELD(oob_url, SENS, 1, u"x", ns_oob)
SET(oob_url) { m.setOutOfBandUrl(S1); }
CHK(oob_url) { vp_assert(r.outOfBandUrls().size() == 1 && r.outOfBandUrl() == m.outOfBandUrl(), "C17 (iii) out-of-band url restored"); }

// chat state: one instance per state (VP_CASE = state - 1)
static constexpr QStringView C17_STATE_TAGS[5] = { u"active", u"inactive", u"gone", u"composing", u"paused" };
static unsigned c17_state_index() { return vp_case_u(0, 5); }
FIELD(chat_state, SENS, 1, C17_STATE_TAGS[c17_state_index()], ns_chat_states)
SET(chat_state) { m.setState(QXmppMessage::State(1 + c17_state_index())); }
CHK(chat_state) { vp_assert(r.state() == m.state(), "C17 (iii) chat state restored"); }

FIELD(stamp, SENS, 1, u"delay", ns_delayed_delivery)
SET(stamp)
{
    QDateTime dt;
    c17Dt(&dt);
    m.setStamp(dt);
}
CHK(stamp) { vp_assert(r.stamp() == m.stamp(), "C17 (iii) stamp restored"); }

FIELD(receipt_id, SENS, 1, u"received", ns_message_receipts)
SET(receipt_id) { m.setReceiptId(S1); }
CHK(receipt_id) { vp_assert(r.receiptId() == m.receiptId() && (!alone || !r.isReceiptRequested()), "C17 (iii) receipt id restored"); }

FIELD(receipt_request, SENS, 1, u"request", ns_message_receipts)
SET(receipt_request) { m.setReceiptRequested(true); }
CHK(receipt_request) { vp_assert(r.isReceiptRequested() && (!alone || r.receiptId().isEmpty()), "C17 (iii) receipt request restored"); }

FIELD(attention, SENS, 1, u"attention", ns_attention)
SET(attention) { m.setAttentionRequested(true); }
CHK(attention) { vp_assert(r.isAttentionRequested(), "C17 (iii) attention request restored"); }

FIELD(bob, SENS, 1, u"data", ns_bob)
SET(bob)
{
    QXmppBitsOfBinaryData d;
    d.setMaxAge(c17Int());
    QXmppBitsOfBinaryDataList l;
    l << d;
    m.setBitsOfBinaryData(l);
}
CHK(bob) { vp_assert(r.bitsOfBinaryData().size() == 1 && r.bitsOfBinaryData().first().maxAge() == m.bitsOfBinaryData().first().maxAge(), "C17 (iii) bits of binary restored"); }

FIELD(muc_invitation, SENS, 1, u"x", ns_conference)
SET(muc_invitation)
{
    m.setMucInvitationJid(S1);
    m.setMucInvitationPassword(S1);
    m.setMucInvitationReason(S1);
}
CHK(muc_invitation)
{
    vp_assert(r.mucInvitationJid() == m.mucInvitationJid() && r.mucInvitationPassword() == m.mucInvitationPassword() && r.mucInvitationReason() == m.mucInvitationReason(), "C17 (iii) MUC invitation restored");
}

FIELD(replace_id, SENS, 1, u"replace", ns_message_correct)
SET(replace_id) { m.setReplaceId(S1); }
CHK(replace_id) { vp_assert(r.replaceId() == m.replaceId(), "C17 (iii) replace id restored"); }

FIELD(markable, SENS, 1, u"markable", ns_chat_markers)
SET(markable) { m.setMarkable(true); }
CHK(markable) { vp_assert(r.isMarkable() && (!alone || r.marker() == QXmppMessage::NoMarker), "C17 (iii) markable restored"); }

static constexpr QStringView C17_MARKER_TAGS[3] = { u"received", u"displayed", u"acknowledged" };
static unsigned c17_marker_index() { return vp_case_u(0, 3); }
FIELD(marker, SENS, 1, C17_MARKER_TAGS[c17_marker_index()], ns_chat_markers)
SET(marker)
{
    m.setMarker(QXmppMessage::Marker(1 + c17_marker_index()));
    m.setMarkerId(S1);
    m.setMarkedThread(S1);
}
CHK(marker) { vp_assert(r.marker() == m.marker() && r.markedId() == m.markedId() && r.markedThread() == m.markedThread() && (!alone || !r.isMarkable()), "C17 (iii) chat marker restored"); }

FIELD(attach_id, SENS, 1, u"attach-to", ns_message_attaching)
SET(attach_id) { m.setAttachId(S1); }
CHK(attach_id) { vp_assert(r.attachId() == m.attachId(), "C17 (iii) attach id restored"); }

FIELD(spoiler, SENS, 1, u"spoiler", ns_spoiler)
SET(spoiler) { m.setSpoilerHint(S1); }
CHK(spoiler) { vp_assert(r.isSpoiler() && r.spoilerHint() == m.spoilerHint(), "C17 (iii) spoiler restored"); }

FIELD(mix_invitation, SENS, 1, u"invitation", ns_mix_misc)
SET(mix_invitation)
{
    QXmppMixInvitation e;
    e.setToken(S1);
    m.setMixInvitation(e);
}
CHK(mix_invitation)
{
    auto a = r.mixInvitation();
    vp_assert(a.has_value() && a->token() == m.mixInvitation()->token(), "C17 (iii) MIX invitation restored");
}

FIELD(trust_message, SENS, 1, u"trust-message", ns_tm)
SET(trust_message)
{
    QXmppTrustMessageElement e;
    e.setUsage(S1);
    m.setTrustMessageElement(e);
}
CHK(trust_message)
{
    auto a = r.trustMessageElement();
    vp_assert(a.has_value() && a->usage() == m.trustMessageElement()->usage(), "C17 (iii) trust message element restored");
}

FIELD(reaction, SENS, 1, u"reactions", ns_reactions)
SET(reaction)
{
    QXmppMessageReaction e;
    e.setMessageId(S1);
    m.setReaction(e);
}
CHK(reaction)
{
    auto a = r.reaction();
    vp_assert(a.has_value() && a->messageId() == m.reaction()->messageId(), "C17 (iii) reaction restored");
}

FIELD(shared_file, SENS, 1, u"file-sharing", ns_sfs)
SET(shared_file)
{
    QXmppFileShare f;
    f.setId(S1);
    m.setSharedFiles({ f });
}
CHK(shared_file) { vp_assert(r.sharedFiles().size() == 1 && r.sharedFiles().first().id() == m.sharedFiles().first().id(), "C17 (iii) shared file restored"); }

FIELD(file_sources, SENS, 1, u"sources", ns_sfs)
SET(file_sources)
{
    QXmppFileSourcesAttachment f;
    f.setId(S1);
    m.setFileSourcesAttachments({ f });
}
CHK(file_sources)
{
    auto a = r.fileSourcesAttachments(), b = m.fileSourcesAttachments();
    vp_assert(a.size() == 1 && a.first().id() == b.first().id(), "C17 (iii) file sources attachment restored");
}

FIELD(reply, SENS, 1, u"reply", ns_reply)
SET(reply) { m.setReply(QXmpp::Reply { S1, S1 }); }
CHK(reply)
{
    auto a = r.reply();
    vp_assert(a.has_value() && a->to == m.reply()->to && a->id == m.reply()->id, "C17 (iii) reply restored");
}

// Jingle message initiation and call invites: SERIALIZED in the sensitive block. DESIGN D12: the unchanged tree PARSES them in the
// public block, so the split round trip (iii) loses them; with known finding `d12_jmi_callinvite` listed that one obligation is
// skipped here and demonstrated by the kf_* instances instead.
static void set_jmi_(QXmppMessage &m)
{
    QXmppJingleMessageInitiationElement e;
    e.setId(S1);
    m.setJingleMessageInitiationElement(e);
}
static bool same_jmi(const QXmppMessage &m, const QXmppMessage &r)
{
    auto a = r.jingleMessageInitiationElement();
    return a.has_value() && a->id() == m.jingleMessageInitiationElement()->id();
}
static void set_call_invite_(QXmppMessage &m)
{
    QXmppCallInviteElement e;
    e.setId(S1);
    m.setCallInviteElement(e);
}
static bool same_call_invite(const QXmppMessage &m, const QXmppMessage &r)
{
    auto a = r.callInviteElement();
    return a.has_value() && a->id() == m.callInviteElement()->id();
}
#define FIELD_D12(name, tag, ns, SETTER, SAME, WHAT)                                                                          \
    static void c17_d12_##name(bool assertSplit)                                                                              \
    {                                                                                                                         \
        QXmppMessage m;                                                                                                       \
        c17_base(m);                                                                                                          \
        SETTER(m);                                                                                                            \
        C17Trees t;                                                                                                           \
        c17_serialize(m, t);                                                                                                  \
        c17_place(t, SENS, 1, tag, ns);                                                                                       \
        QXmppMessage r;                                                                                                       \
        vp_c17_unknown_reset();                                                                                               \
        r.parse(t.pub, QXmpp::ScePublic);                                                                                     \
        r.parse(t.sens, QXmpp::SceSensitive);                                                                                 \
        bool ok = vp_c17_unknown() == 0 && SAME(m, r);                                                                        \
        vp_assert(assertSplit ? ok : true, "C17 (iii) " WHAT " restored by parsing the public part, then the sensitive part"); \
        QXmppMessage r2;                                                                                                      \
        r2.parse(t.all, QXmpp::SceAll);                                                                                       \
        vp_assert(SAME(m, r2), "C17 " WHAT " restored from the unsplit message");                                             \
    }                                                                                                                         \
    extern "C" void h_f_##name() { c17_d12_##name(!vp_c17_kf_d12()); }                                                        \
    extern "C" void h_kf_##name() { c17_d12_##name(true); }
FIELD_D12(jmi, u"propose", ns_jingle_message_initiation, set_jmi_, same_jmi, "Jingle message initiation element")
FIELD_D12(call_invite, u"invite", ns_call_invites, set_call_invite_, same_call_invite, "call invite element")


// ================= core text elements x message type =================
// The serializer must not make the placement of body / subject / thread depend on their VALUES or on the message type (e.g. a
// groupchat message with a subject but no body = room subject change): VP_CASE bit 0 body, bit 1 subject, bit 2 thread,
// bit 3 parent thread present (exact-length strings, absent = empty), bit 4 a stanza error is set; VP_C17_TYPE = message type.
extern "C" void h_text()
{
    const bool hasBody = vp_case_bool(0), hasSubject = vp_case_bool(1), hasThread = vp_case_bool(2), hasParent = vp_case_bool(3), hasError = vp_case_bool(4);
    QXmppMessage m;
    c17_base(m);
    if (hasBody) { m.setBody(S1); }
    if (hasSubject) { m.setSubject(S1); }
    if (hasThread) { m.setThread(S1); }
    if (hasParent) { m.setParentThread(S1); }
    if (hasError) { m.setError(QXmppStanza::Error(QXmppStanza::Error::Cancel, QXmppStanza::Error::ItemNotFound)); }
    C17Trees t;
    c17_serialize(m, t);
    const unsigned nText = (hasBody ? 1 : 0) + (hasSubject ? 1 : 0) + (hasThread ? 1 : 0), nErr = hasError ? 1 : 0;   // a parent thread without thread is not serialized
    unsigned np = vp_c17_nch(&t.pub), nsn = vp_c17_nch(&t.sens), na = vp_c17_nch(&t.all);
    vp_assert(np == nErr, "C17 (i) public part: no body, subject or thread, whatever the message type and whichever of them are empty (a stanza error is routing data of every part)");
    vp_assert(nsn == nErr + nText, "C17 (ii) sensitive part: exactly the non-empty body / subject / thread");
    vp_assert(na == nErr + nText, "C17 (ii) unsplit message: every element once");
    vp_assert(vp_c17_children_equal(&t.all, &t.sens), "C17 (ii) elements of the sensitive part are those of the unsplit message");
    bool clean = true;
    for (unsigned i = 0; i < 2; i++) {
        QDomElement c;
        vp_c17_child(&t.pub, i, &c);
        clean = clean && (c.isNull() || c.tagName() == u"error");
    }
    vp_assert(clean, "C17 (i) public part: nothing but the stanza error");
    QXmppMessage r;
    c17_roundtrip(t, r);
    vp_assert(r.body() == m.body() && r.subject() == m.subject() && r.thread() == m.thread() && r.e2eeFallbackBody().isEmpty(), "C17 (iii) body / subject / thread restored from the sensitive part");
    vp_assert(hasThread ? r.parentThread() == m.parentThread() : true, "C17 (iii) parent thread restored");
    vp_assert(hasError ? (r.error().type() == QXmppStanza::Error::Cancel && r.error().condition() == QXmppStanza::Error::ItemNotFound) : true, "C17 (iii) stanza error restored");
}

// ================= composite instances =================
#define C17_NPUB_ALLSET 13   // fallback body, private, 4 hints, 2 stanza ids, origin id, mix, encryption, fallback marker, addresses
#define C17_NSENS_ALLSET 25  // 23 sensitive elements + fallback marker + addresses (toXml only)
static void set_all_public(QXmppMessage &m)
{
    set_e2ee_fallback_body(m);
    set_private_msg(m);
    for (unsigned i = 0; i < 4; i++) {
        m.addHint(QXmppMessage::Hint(1u << i));
    }
    set_stanza_ids2(m);
    set_origin_id(m);
    set_mix_user(m);
    set_eme(m);
    set_fallback_marker(m);
    set_addresses(m);
}
static void set_all_sensitive(QXmppMessage &m)
{
    set_body(m);
    set_subject(m);
    set_thread(m);
    set_oob_url(m);
    m.setState(QXmppMessage::Composing);
    set_stamp(m);
    set_receipt_id(m);   // excludes <request/> by construction of the serializer (an ack must not request a receipt)
    set_attention(m);
    set_bob(m);
    set_muc_invitation(m);
    set_replace_id(m);
    set_markable(m);
    m.setMarker(QXmppMessage::Acknowledged);
    m.setMarkerId(S1);
    m.setMarkedThread(S1);
    set_jmi_(m);
    set_attach_id(m);
    set_spoiler(m);
    set_mix_invitation(m);
    set_trust_message(m);
    set_reaction(m);
    set_shared_file(m);
    set_file_sources(m);
    set_reply(m);
    set_call_invite_(m);
}
static void chk_all(const QXmppMessage &m, const QXmppMessage &r, bool withFallbackBody, bool withD12)
{
    if (withFallbackBody) {
        chk_e2ee_fallback_body(m, r, false);
    }
    chk_private_msg(m, r, false);
    chk_hint(m, r, false);
    chk_stanza_ids2(m, r, false);
    chk_origin_id(m, r, false);
    chk_mix_user(m, r, false);
    chk_eme(m, r, false);
    chk_fallback_marker(m, r, false);
    chk_addresses(m, r, false);
    chk_body(m, r, false);
    chk_subject(m, r, false);
    chk_thread(m, r, false);
    chk_oob_url(m, r, false);
    chk_chat_state(m, r, false);
    chk_stamp(m, r, false);
    chk_receipt_id(m, r, false);
    chk_attention(m, r, false);
    chk_bob(m, r, false);
    chk_muc_invitation(m, r, false);
    chk_replace_id(m, r, false);
    chk_markable(m, r, false);
    chk_marker(m, r, false);
    chk_attach_id(m, r, false);
    chk_spoiler(m, r, false);
    chk_mix_invitation(m, r, false);
    chk_trust_message(m, r, false);
    chk_reaction(m, r, false);
    chk_shared_file(m, r, false);
    chk_file_sources(m, r, false);
    chk_reply(m, r, false);
    bool d12 = same_jmi(m, r) && same_call_invite(m, r);
    vp_assert(withD12 ? d12 : true, "C17 (iii) Jingle message initiation and call invite elements restored");
}
static bool c17_whitelisted(const QDomElement &c, const QString &fallbackBody)
{
    QString tag = c.tagName(), ns = c.namespaceURI();
    if (tag == u"body") {
        return ns.isEmpty() && c.text() == fallbackBody;   // the only <body/> allowed is the explicit fallback text
    }
    return (tag == u"private" && ns == ns_carbons) ||
        (ns == ns_message_processing_hints && (tag == u"no-permanent-store" || tag == u"no-store" || tag == u"no-copy" || tag == u"store")) ||
        ((tag == u"stanza-id" || tag == u"origin-id") && ns == ns_sid) || (tag == u"mix" && ns == ns_mix) || (tag == u"encryption" && ns == ns_eme) ||
        (tag == u"fallback" && ns == ns_fallback_indication) || (tag == u"addresses" && ns == ns_extended_addressing);
}
// every extension at once (structure concrete, all values symbolic)
extern "C" void h_allset()
{
    QXmppMessage m;
    c17_base(m);
    set_all_public(m);
    set_all_sensitive(m);
    C17Trees t;
    c17_serialize(m, t);
    unsigned np = vp_c17_nch(&t.pub), nsn = vp_c17_nch(&t.sens), na = vp_c17_nch(&t.all);
    vp_assert(np == C17_NPUB_ALLSET, "C17 (i) public part of the full message: exactly the elements of the whitelisted fields");
    vp_assert(nsn == C17_NSENS_ALLSET, "C17 (ii) sensitive part of the full message: exactly the sensitive elements and the fallback marker");
    vp_assert(na == C17_NPUB_ALLSET - 1 + C17_NSENS_ALLSET - 2, "C17 (ii) unsplit message: every element once (explicit fallback body aside)");
    vp_assert(vp_c17_is_split(&t.all, &t.pub, &t.sens, 1, 2), "C17 (ii) E(All) = E(Public) + E(Sensitive): each element in exactly one part (fallback body aside; fallback marker and addresses are shared)");
    bool wl = true;
    for (unsigned i = 0; i < C17_NPUB_ALLSET; i++) {
        QDomElement c;
        vp_c17_child(&t.pub, i, &c);
        wl = wl && !c.isNull() && c17_whitelisted(c, m.e2eeFallbackBody());
    }
    vp_assert(wl, "C17 (i) every element of the public part is on the whitelist (routing data, hints, ids, explicit fallback)");
    QXmppMessage r;
    vp_c17_unknown_reset();
    r.parse(t.pub, QXmpp::ScePublic);
    r.parse(t.sens, QXmpp::SceSensitive);
    bool kf = vp_c17_kf_d12();
    vp_assert(kf || vp_c17_unknown() == 0, "C17 (iii) every element of each part is recognised when that part is parsed in its own mode");
    chk_all(m, r, true, !kf);
    vp_assert(unsigned(r.type()) == vp_c17_type(), "C17 (iii) message type restored");
    vp_assert(r.fallbackMarkers().size() == 2, "C17 fallback marker read from both parts");
}
// the unsplit message parsed in SceAll mode
extern "C" void h_allset_all()
{
    QXmppMessage m;
    c17_base(m);
    set_all_public(m);
    set_all_sensitive(m);
    QDomElement all;
    {
        VpWriter w;
        m.toXml(w.writer(), QXmpp::SceAll);
        all = w.root();
    }
    QXmppMessage r;
    vp_c17_unknown_reset();
    r.parse(all, QXmpp::SceAll);
    vp_assert(vp_c17_unknown() == 0, "C17 every element of the unsplit message is recognised in SceAll mode");
    chk_all(m, r, false, true);
    vp_assert(r.e2eeFallbackBody().isEmpty(), "C17 the body of an unsplit message is never taken for the e2ee fallback body");
}
// the real e2ee flow (QXmppClient::sendSensitive / QXmppOmemoManager): outer stanza = toXml(ScePublic); envelope content =
// serializeExtensions(SceSensitive, "jabber:client"); receiver: parse(outer, ScePublic) then parseExtensions(content, SceSensitive)
extern "C" void h_envelope()
{
    QXmppMessage m;
    c17_base(m);
    set_all_public(m);
    set_all_sensitive(m);
    QDomElement outer, content;
    {
        VpWriter w;
        m.toXml(w.writer(), QXmpp::ScePublic);
        outer = w.root();
    }
    {
        VpWriter w;
        w.writer()->writeStartElement(QStringLiteral("content"));
        w.writer()->writeDefaultNamespace(QStringLiteral("urn:xmpp:sce:1"));
        m.serializeExtensions(w.writer(), QXmpp::SceSensitive, ns_client.toString());
        w.writer()->writeEndElement();
        content = w.root();
    }
    vp_assert(vp_c17_nch(&outer) == C17_NPUB_ALLSET && vp_c17_nch(&content) == C17_NSENS_ALLSET - 1, "C17 (i)(ii) outer stanza / envelope content hold the public / sensitive elements");
    QXmppMessage r;
    vp_c17_unknown_reset();
    r.parse(outer, QXmpp::ScePublic);
    r.parseExtensions(content, QXmpp::SceSensitive);
    bool kf = vp_c17_kf_d12();
    vp_assert(kf || vp_c17_unknown() == 0, "C17 (iii) every element of each part is recognised when that part is parsed in its own mode");
    chk_all(m, r, true, !kf);
}
// ---- non-interference.  The messages live on the heap and are never destroyed: destructors of list members whose presence is
// symbolic would only add loops that symex cannot bound.
static void add_any_sensitive(QXmppMessage &m)
{
    if (vp_bool()) { set_body(m); }
    if (vp_bool()) { set_subject(m); }
    if (vp_bool()) { set_thread(m); }
    if (vp_bool()) { set_oob_url(m); }
    if (vp_bool()) { m.setState(QXmppMessage::State(vp_u8() % 6)); }
    if (vp_bool()) { set_stamp(m); }
    if (vp_bool()) { set_receipt_id(m); }
    if (vp_bool()) { m.setReceiptRequested(true); }
    if (vp_bool()) { set_attention(m); }
    if (vp_bool()) { set_bob(m); }
    if (vp_bool()) { set_muc_invitation(m); }
    if (vp_bool()) { set_replace_id(m); }
    if (vp_bool()) { set_markable(m); }
    if (vp_bool()) { m.setMarker(QXmppMessage::Marker(vp_u8() % 4)); m.setMarkerId(S1); m.setMarkedThread(S1); }
    if (vp_bool()) { set_jmi_(m); }
    if (vp_bool()) { set_attach_id(m); }
    if (vp_bool()) { set_spoiler(m); }
    if (vp_bool()) { set_mix_invitation(m); }
    if (vp_bool()) { set_trust_message(m); }
    if (vp_bool()) { set_reaction(m); }
    if (vp_bool()) { set_shared_file(m); }
    if (vp_bool()) { set_file_sources(m); }
    if (vp_bool()) { set_reply(m); }
    if (vp_bool()) { set_call_invite_(m); }
}
static void add_any_public(QXmppMessage &m)
{
    if (vp_bool()) { set_e2ee_fallback_body(m); }
    if (vp_bool()) { set_private_msg(m); }
    unsigned hints = vp_u8() & 15u;
    for (unsigned i = 0; i < 4; i++) {
        if (hints & (1u << i)) {
            m.addHint(QXmppMessage::Hint(1u << i));
        }
    }
    if (vp_bool()) { set_stanza_id(m); }
    if (vp_bool()) { set_origin_id(m); }
    if (vp_bool()) { set_mix_jid(m); }
    if (vp_bool()) { set_mix_nick(m); }
    if (vp_bool()) { set_eme(m); }
}
static void c17_ni_base(QXmppMessage &x, bool publicPart, bool baseFull)
{
    c17_base(x);
    if (baseFull) {
        if (publicPart) {
            set_all_public(x);
        } else {
            set_all_sensitive(x);
            set_fallback_marker(x);
        }
    }
}
static void c17_ni(bool publicPart, bool baseFull)
{
    c17_pool_on = true;
    QXmppMessage *p = new QXmppMessage;
    c17_ni_base(*p, publicPart, baseFull);
    c17_pool_replay();
    QXmppMessage *m = new QXmppMessage;   // same values again (no copy of the message, see the value pool)
    c17_ni_base(*m, publicPart, baseFull);
    c17_pool_on = false;
    if (publicPart) {
        add_any_sensitive(*m);
    } else {
        add_any_public(*m);
    }
    vp_c17_phase();
    QXmpp::SceMode mode = publicPart ? QXmpp::ScePublic : QXmpp::SceSensitive;
    QDomElement a, b;
    VpWriter *w1 = new VpWriter, *w2 = new VpWriter;
    p->toXml(w1->writer(), mode);
    a = w1->root();
    vp_c17_phase();
    m->toXml(w2->writer(), mode);
    b = w2->root();
    vp_c17_phase();
    bool eq = vp_dom_equal(&a, &b);
    vp_assert(publicPart ? eq : true, "C17 (i) the public part does not depend on any sensitive field (non-interference)");
    vp_assert(publicPart ? true : eq, "C17 (ii) the sensitive part does not depend on any whitelisted field (non-interference; fallback markers are shared)");
    unsigned n = vp_c17_nch(&b);
    unsigned expect = !baseFull ? 0 : (publicPart ? C17_NPUB_ALLSET : C17_NSENS_ALLSET - 1);
    vp_assert(n == expect, "C17 (i)(ii) number of elements of the part");
}
// public part: every whitelisted field set / none set, ANY combination of sensitive fields on top
extern "C" void h_ni_public_full() { c17_ni(true, true); }
extern "C" void h_ni_public_empty() { c17_ni(true, false); }
// sensitive part: every sensitive field set / none set, ANY combination of whitelisted fields on top
extern "C" void h_ni_sensitive_full() { c17_ni(false, true); }
extern "C" void h_ni_sensitive_empty() { c17_ni(false, false); }
