// C17: the public part of an encrypted message never carries sensitive content.
// Real code under check: QXmppMessage::toXml/parse(mode), serializeExtensions, parseExtensions, parseExtension (QXmppMessage.cpp),
// QXmppStanza::parse/extensionsToXml (QXmppStanza.cpp), operator&(SceMode,SceMode) (QXmppGlobal.h), QXmppFallback (QXmppMessage.cpp).
// Trees: QXmlStreamWriter/QDom tree model (models/qt_dom.c).  Other classes' sub-codecs: one-element stand-ins (c17_env.h).
#include "c17_env.h"
#include "vp_harness.h"
#include "vp_dom.h"

extern "C" {
unsigned vp_c17_nch(const QDomElement *el);                                  // number of child elements
void vp_c17_child(const QDomElement *el, unsigned i, QDomElement *out);      // i-th child (null if none)
bool vp_c17_children_equal(const QDomElement *a, const QDomElement *b);      // same child sequence (deep, attribute order ignored)
// children(all) == children(pub) minus its leading `skipPubHead` and trailing `shared` children, followed by children(sens)
bool vp_c17_is_split(const QDomElement *all, const QDomElement *pub, const QDomElement *sens, unsigned skipPubHead, unsigned shared);
void vp_c17_sym_datetime(QDateTime *out);                                    // arbitrary VALID date-time (abstract value)
unsigned vp_c17_unknown();                                                   // number of QXmppElement(QDomElement) constructions = elements that fell through to "unknown extension"
void vp_c17_unknown_reset();
}

// ---- unknown extensions (QXmppElement.cpp is not linked): a counting stand-in, so "element not recognised in this mode" is observable
class QXmppElementPrivate { public: int dummy; };
extern "C" void vp_c17_unknown_hit();
QXmppElement::QXmppElement() : d(nullptr) { }
QXmppElement::QXmppElement(const QXmppElement &) : d(nullptr) { }
QXmppElement::QXmppElement(const QDomElement &) : d(nullptr) { vp_c17_unknown_hit(); }
QXmppElement::~QXmppElement() { }
QXmppElement &QXmppElement::operator=(const QXmppElement &) { return *this; }
void QXmppElement::toXml(QXmlStreamWriter *) const { }

enum Part { PUB, SENS, BOTH, PUBONLY };
struct C17Trees {
    QDomElement pub, sens, all;
};

static void c17_base(QXmppMessage &m)
{
    m.setId(vpSymStringNonEmpty(1));
    m.setTo(vpSymString(1));
}
static void c17_serialize(const QXmppMessage &m, C17Trees &t)
{
    {
        VpWriter w;
        m.toXml(w.writer(), QXmpp::ScePublic);
        t.pub = w.root();
    }
    {
        VpWriter w;
        m.toXml(w.writer(), QXmpp::SceSensitive);
        t.sens = w.root();
    }
    {
        VpWriter w;
        m.toXml(w.writer(), QXmpp::SceAll);
        t.all = w.root();
    }
}
// where do the `nel` elements of the single field that is set land?
static void c17_place(const C17Trees &t, Part part, unsigned nel, QStringView tag, QStringView ns)
{
    unsigned np = vp_c17_nch(&t.pub), nsn = vp_c17_nch(&t.sens), na = vp_c17_nch(&t.all);
    unsigned ep = (part == SENS) ? 0 : nel, es = (part == SENS || part == BOTH) ? nel : 0, ea = (part == PUBONLY) ? 0 : nel;
    vp_assert(np == ep, "C17 (i) public part: holds exactly the elements of whitelisted fields, nothing of a sensitive field");
    vp_assert(nsn == es, "C17 (ii) sensitive part: holds exactly the elements of sensitive fields");
    vp_assert(na == ea, "C17 (ii) unsplit message: every element once");
    bool eqp = vp_c17_children_equal(&t.all, &t.pub), eqs = vp_c17_children_equal(&t.all, &t.sens);
    vp_assert(part == PUB || part == BOTH ? eqp : true, "C17 (ii) elements of the public part are those of the unsplit message");
    vp_assert(part == SENS || part == BOTH ? eqs : true, "C17 (ii) elements of the sensitive part are those of the unsplit message");
    if (!tag.isEmpty()) {
        QDomElement c;
        vp_c17_child(part == SENS ? &t.sens : &t.pub, 0, &c);
        bool ok = !c.isNull() && c.tagName() == tag && (ns.isEmpty() || c.namespaceURI() == ns);
        vp_assert(ok, "C17 the element written for the field has the field's tag and namespace");
    }
}
static void c17_roundtrip(const C17Trees &t, QXmppMessage &r)
{
    vp_c17_unknown_reset();
    r.parse(t.pub, QXmpp::ScePublic);
    r.parse(t.sens, QXmpp::SceSensitive);
    vp_assert(vp_c17_unknown() == 0, "C17 (iii) every element of each part is recognised when that part is parsed in its own mode");
}

#define FIELD(name, part, nel, tag, ns)                                                  \
    static void set_##name(QXmppMessage &m);                                             \
    static void chk_##name(const QXmppMessage &m, const QXmppMessage &r);                \
    extern "C" void h_f_##name()                                                         \
    {                                                                                    \
        QXmppMessage m;                                                                  \
        c17_base(m);                                                                     \
        set_##name(m);                                                                   \
        C17Trees t;                                                                      \
        c17_serialize(m, t);                                                             \
        c17_place(t, part, nel, tag, ns);                                                \
        QXmppMessage r;                                                                  \
        c17_roundtrip(t, r);                                                             \
        chk_##name(m, r);                                                                \
        if (part != PUBONLY) {                                                           \
            QXmppMessage r2;                                                             \
            r2.parse(t.all, QXmpp::SceAll);                                              \
            chk_##name(m, r2);                                                           \
        }                                                                                \
    }
#define SET(name) static void set_##name(QXmppMessage &m)
#define CHK(name) static void chk_##name(const QXmppMessage &m, const QXmppMessage &r)
#define S1 vpSymStringNonEmpty(2)

// ================= whitelisted (public) fields =================
FIELD(e2ee_fallback_body, PUBONLY, 1, u"body", u"")
SET(e2ee_fallback_body) { m.setE2eeFallbackBody(S1); }
CHK(e2ee_fallback_body) { vp_assert(r.e2eeFallbackBody() == m.e2eeFallbackBody() && r.body().isEmpty(), "C17 (iii) e2eeFallbackBody restored from the public part, body stays empty"); }

FIELD(private_msg, PUB, 1, u"private", ns_carbons)
SET(private_msg) { m.setPrivate(true); }
CHK(private_msg) { vp_assert(r.isPrivate(), "C17 (iii) private restored"); }

FIELD(origin_id, PUB, 1, u"origin-id", ns_sid)
SET(origin_id) { m.setOriginId(S1); }
CHK(origin_id) { vp_assert(r.originId() == m.originId(), "C17 (iii) originId restored"); }

// ================= sensitive fields =================
FIELD(body, SENS, 1, u"body", u"")
SET(body) { m.setBody(S1); }
CHK(body) { vp_assert(r.body() == m.body() && r.e2eeFallbackBody().isEmpty(), "C17 (iii) body restored from the sensitive part"); }

FIELD(subject, SENS, 1, u"subject", u"")
SET(subject) { m.setSubject(S1); }
CHK(subject) { vp_assert(r.subject() == m.subject(), "C17 (iii) subject restored"); }

FIELD(jmi, SENS, 1, u"propose", ns_jingle_message_initiation)
SET(jmi)
{
    QXmppJingleMessageInitiationElement e;
    e.setId(S1);
    m.setJingleMessageInitiationElement(e);
}
CHK(jmi)
{
    auto a = r.jingleMessageInitiationElement();
    vp_assert(a.has_value() && a->id() == m.jingleMessageInitiationElement()->id(), "C17 (iii) Jingle message initiation element restored");
}

FIELD(stamp, SENS, 1, u"delay", ns_delayed_delivery)
SET(stamp)
{
    QDateTime dt;
    vp_c17_sym_datetime(&dt);
    m.setStamp(dt);
}
CHK(stamp) { vp_assert(r.stamp() == m.stamp(), "C17 (iii) stamp restored"); }
