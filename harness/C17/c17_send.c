/* C17 group "send": environment of the encrypted send path (needs qt_core.c, qt_dom.c, c17_models.c before it) */
/* QXmlStreamWriter(QByteArray *) (libQt5Core): the writer tree model, bound to the byte array it "writes" into; the harness's
   QXmppPacket(const QByteArray &) picks the tree up by the array's address (DESIGN 2.3: serialise -> parse never goes through text) */
#define C17_NW 2
static char *c17_wbuf[C17_NW]; static struct wr *c17_wwr[C17_NW]; static uint32_t c17_nw;
void _ZN16QXmlStreamWriterC1EP10QByteArray(char *self, char *buf) { ASSERT(c17_nw < C17_NW, "C17 send model: too many byte-array writers"); ASSUME(c17_nw < C17_NW); vp_writer_init(self); c17_wbuf[c17_nw] = buf; c17_wwr[c17_nw] = WR(self); c17_nw++; }
void _ZN16QXmlStreamWriterC2EP10QByteArray(char *self, char *buf) { _ZN16QXmlStreamWriterC1EP10QByteArray(self, buf); }
void _ZN16QXmlStreamWriterD1Ev(char *self) { }
void _ZN16QXmlStreamWriterD2Ev(char *self) { }
uint8_t vp_c17_tree_of_bytes(char *buf, char *out) { for (uint32_t i = 0; i < C17_NW; i++) { if (i < c17_nw && c17_wbuf[i] == buf) { struct wr *x = c17_wwr[i];
      VP_ASSERT(x->root != 0 && x->depth == 0, "writer: document element is complete and balanced"); DN(out) = x->root; return x->root != 0; } } DN(out) = 0; return 0; }
/* dynamic_cast to QXmppMessage / QXmppIq pointers in sendSensitive: every stanza the harness sends IS a QXmppMessage (final overriders only) */
#ifdef HAVE_G__ZTI12QXmppMessage
char* __dynamic_cast(char *src, char *st, char *dt, uint64_t hint) { if (!src) return 0; if (dt == (char*)&G__ZTI12QXmppMessage) return src; return 0; }
#endif
/* logging (QXmppLoggable::logMessage is a moc signal) */
void _ZN13QXmppLoggable10logMessageEN11QXmppLogger11MessageTypeERK7QString(char *self, uint32_t type, char *msg) { }
