// C17 / parse-path instances (spec_parse.py): OWN COPY of c17_env.h (the one-element stand-ins of the nine extension classes of
// other translation units), with two differences that matter on the PARSE path:
//  (1) sub-parsers whose real implementation can FAIL return a verdict chosen by the instance (success / failure, both run; QXmppFileShare::parse,
//      QXmppFileSourcesAttachment::fromDom, QXmppOutOfBandUrl::parse), so both branches of the real parseExtension are explored;
//  (2) the recognisers of QXmppJingleData.cpp are transcribed faithfully (tag SET, `id` attribute, namespace) instead of
//      recognising one tag only: what counts as "recognised conversational payload" is decided by them.
// The JMI / call-invite stand-ins keep the parsed tag and write the element back under it.
// c17_env.h itself is unchanged; the existing groups keep using it.
// ---- original header of c17_env.h follows ----
// C17 environment, C++ side: the extension classes of OTHER translation units that QXmppMessage embeds.
// Their real serializers/parsers (QXmppMixInvitation.cpp, QXmppJingleData.cpp, QXmppFileShare.cpp, ...) are NOT linked; each
// class is replaced by a one-value stand-in that writes / recognises / parses ONE element with the real tag and namespace and
// one attribute "v" carrying the value (DESIGN C17 "E:"): C17 is about WHICH mode-guarded block of QXmppMessage the call sits
// in, the sub-codecs' own round trip is C01's subject.  The value is reachable through one real accessor pair of the class.
#pragma once
#include "QXmppMessage.h"
#include "QXmppBitsOfBinaryContentId.h"
#include "QXmppBitsOfBinaryData.h"
#include "QXmppBitsOfBinaryDataList.h"
#include "QXmppConstants_p.h"
#include "QXmppFallback.h"
#include "QXmppFileShare.h"
#include "QXmppJingleData.h"
#include "QXmppMessageReaction.h"
#include "QXmppMixInvitation.h"
#include "QXmppOutOfBandUrl.h"
#include "QXmppTrustMessageElement.h"
#include <QDateTime>
#include <QDomElement>
#include <QXmlStreamWriter>
#include "vp_harness.h"
// verdict of the n-th call (per round) of a sub-parser that can fail: a compile-time case of the round (a symbolic verdict makes the
// lengths of the QVector members symbolic: no verdict within the caps)
extern "C" bool vp_parse_verdict();

static void c17_write(QXmlStreamWriter *w, QStringView tag, QStringView ns, const QString &v)
{
    w->writeStartElement(tag.toString());
    w->writeDefaultNamespace(ns.toString());
    w->writeAttribute(QStringLiteral("v"), v);
    w->writeEndElement();
}
static bool c17_is(const QDomElement &e, QStringView tag, QStringView ns) { return e.tagName() == tag && e.namespaceURI() == ns; }
static QString c17_value(const QDomElement &e) { return e.attribute(QStringLiteral("v")); }

#define C17_SIX(X, NOEXCEPT)                                  \
    X::X() : d(new X##Private) { }                            \
    X::X(const X &) = default;                                \
    X::X(X &&) NOEXCEPT = default;                            \
    X::~X() = default;                                        \
    X &X::operator=(const X &) = default;                     \
    X &X::operator=(X &&) NOEXCEPT = default;
#define C17_PRIV(X) class X##Private : public QSharedData { public: QString v; };

// XEP-0066 <x xmlns='jabber:x:oob'/>
C17_PRIV(QXmppOutOfBandUrl) C17_SIX(QXmppOutOfBandUrl, noexcept)
const QString &QXmppOutOfBandUrl::url() const { return d->v; }
void QXmppOutOfBandUrl::setUrl(const QString &u) { d->v = u; }
bool QXmppOutOfBandUrl::parse(const QDomElement &e) { d->v = c17_value(e); return vp_parse_verdict(); }   // verdict ignored by parseExtension (pushed anyway)
void QXmppOutOfBandUrl::toXml(QXmlStreamWriter *w) const { c17_write(w, u"x", ns_oob, d->v); }

// XEP-0231 <data xmlns='urn:xmpp:bob'/>  (value = max-age, an int)
class QXmppBitsOfBinaryDataPrivate : public QSharedData { public: int v = 0; };
C17_SIX(QXmppBitsOfBinaryData, )
int QXmppBitsOfBinaryData::maxAge() const { return d->v; }
void QXmppBitsOfBinaryData::setMaxAge(int a) { d->v = a; }
bool QXmppBitsOfBinaryData::isBitsOfBinaryData(const QDomElement &e) { return c17_is(e, u"data", ns_bob); }
void QXmppBitsOfBinaryData::parseElementFromChild(const QDomElement &e) { d->v = c17_value(e).toInt(); }
void QXmppBitsOfBinaryData::toXmlElementFromChild(QXmlStreamWriter *w) const { c17_write(w, u"data", ns_bob, QString::number(d->v)); }
QXmppBitsOfBinaryDataList::QXmppBitsOfBinaryDataList() = default;
QXmppBitsOfBinaryDataList::~QXmppBitsOfBinaryDataList() = default;

// XEP-0353 <propose xmlns='urn:xmpp:jingle-message:0' id=.../>  (real recogniser: known tag && has id && namespace)
class QXmppJingleMessageInitiationElementPrivate : public QSharedData { public: QString v; QString tag; };
C17_SIX(QXmppJingleMessageInitiationElement, noexcept)
QString QXmppJingleMessageInitiationElement::id() const { return d->v; }
void QXmppJingleMessageInitiationElement::setId(const QString &i) { d->v = i; }
// transcription of QXmppJingleData.cpp:3062 (stringToJmiElementType(tag).has_value() && hasAttribute("id") && namespace)
bool QXmppJingleMessageInitiationElement::isJingleMessageInitiationElement(const QDomElement &e)
{
    const QString t = e.tagName();
    return (t == u"propose" || t == u"ringing" || t == u"proceed" || t == u"reject" || t == u"retract" || t == u"finish") &&
        e.hasAttribute(QStringLiteral("id")) && e.namespaceURI() == ns_jingle_message_initiation;
}
// the value of these two stand-ins is the `id` attribute (the recognisers test its presence, so it is written back under its real name)
static void c17_write_id(QXmlStreamWriter *w, const QString &tag, QStringView ns, const QString &id, bool hasId)
{
    w->writeStartElement(tag);
    w->writeDefaultNamespace(ns.toString());
    if (hasId) {
        w->writeAttribute(QStringLiteral("id"), id);
    }
    w->writeEndElement();
}
void QXmppJingleMessageInitiationElement::parse(const QDomElement &e) { d->v = e.attribute(QStringLiteral("id")); d->tag = e.tagName(); }
void QXmppJingleMessageInitiationElement::toXml(QXmlStreamWriter *w) const { c17_write_id(w, d->tag, ns_jingle_message_initiation, d->v, true); }

// XEP-0482 <invite xmlns='urn:xmpp:call-invites:0'/>
class QXmppCallInviteElementPrivate : public QSharedData { public: QString v; QString tag; bool hasId = false; };
C17_SIX(QXmppCallInviteElement, noexcept)
QString QXmppCallInviteElement::id() const { return d->v; }
void QXmppCallInviteElement::setId(const QString &i) { d->v = i; }
// transcription of QXmppJingleData.cpp:3334 (known tag && (has id || tag == "invite") && namespace)
bool QXmppCallInviteElement::isCallInviteElement(const QDomElement &e)
{
    const QString t = e.tagName();
    return (t == u"invite" || t == u"accept" || t == u"reject" || t == u"retract" || t == u"left") &&
        (e.hasAttribute(QStringLiteral("id")) || t == u"invite") && e.namespaceURI() == ns_call_invites;
}
void QXmppCallInviteElement::parse(const QDomElement &e) { d->v = e.attribute(QStringLiteral("id")); d->hasId = e.hasAttribute(QStringLiteral("id")); d->tag = e.tagName(); }
void QXmppCallInviteElement::toXml(QXmlStreamWriter *w) const { c17_write_id(w, d->tag, ns_call_invites, d->v, d->hasId); }

// XEP-0407 <invitation xmlns='urn:xmpp:mix:misc:0'/>
C17_PRIV(QXmppMixInvitation) C17_SIX(QXmppMixInvitation, )
QString QXmppMixInvitation::token() const { return d->v; }
void QXmppMixInvitation::setToken(const QString &t) { d->v = t; }
void QXmppMixInvitation::parse(const QDomElement &e) { d->v = c17_value(e); }
void QXmppMixInvitation::toXml(QXmlStreamWriter *w) const { c17_write(w, u"invitation", ns_mix_misc, d->v); }

// XEP-0434 <trust-message xmlns='urn:xmpp:tm:1'/>
C17_PRIV(QXmppTrustMessageElement) C17_SIX(QXmppTrustMessageElement, )
QString QXmppTrustMessageElement::usage() const { return d->v; }
void QXmppTrustMessageElement::setUsage(const QString &u) { d->v = u; }
bool QXmppTrustMessageElement::isTrustMessageElement(const QDomElement &e) { return c17_is(e, u"trust-message", ns_tm); }
void QXmppTrustMessageElement::parse(const QDomElement &e) { d->v = c17_value(e); }
void QXmppTrustMessageElement::toXml(QXmlStreamWriter *w) const { c17_write(w, u"trust-message", ns_tm, d->v); }

// XEP-0444 <reactions xmlns='urn:xmpp:reactions:0'/>
C17_PRIV(QXmppMessageReaction) C17_SIX(QXmppMessageReaction, noexcept)
QString QXmppMessageReaction::messageId() const { return d->v; }
void QXmppMessageReaction::setMessageId(const QString &i) { d->v = i; }
bool QXmppMessageReaction::isMessageReaction(const QDomElement &e) { return c17_is(e, u"reactions", ns_reactions); }
void QXmppMessageReaction::parse(const QDomElement &e) { d->v = c17_value(e); }
void QXmppMessageReaction::toXml(QXmlStreamWriter *w) const { c17_write(w, u"reactions", ns_reactions, d->v); }

// XEP-0447 <file-sharing xmlns='urn:xmpp:sfs:0'/> and <sources xmlns='urn:xmpp:sfs:0'/>
C17_PRIV(QXmppFileShare) C17_SIX(QXmppFileShare, noexcept)
const QString &QXmppFileShare::id() const { return d->v; }
void QXmppFileShare::setId(const QString &i) { d->v = i; }
bool QXmppFileShare::parse(const QDomElement &e) { d->v = c17_value(e); return vp_parse_verdict(); }   // real: fails without <file/> child, ...
void QXmppFileShare::toXml(QXmlStreamWriter *w) const { c17_write(w, u"file-sharing", ns_sfs, d->v); }
C17_PRIV(QXmppFileSourcesAttachment) C17_SIX(QXmppFileSourcesAttachment, noexcept)
const QString &QXmppFileSourcesAttachment::id() const { return d->v; }
void QXmppFileSourcesAttachment::setId(const QString &i) { d->v = i; }
std::optional<QXmppFileSourcesAttachment> QXmppFileSourcesAttachment::fromDom(const QDomElement &e)
{
    if (!vp_parse_verdict()) {   // real: fails on a foreign tag / namespace
        return std::nullopt;
    }
    QXmppFileSourcesAttachment a;
    a.d->v = c17_value(e);
    return a;
}
void QXmppFileSourcesAttachment::toXml(QXmlStreamWriter *w) const { c17_write(w, u"sources", ns_sfs, d->v); }
