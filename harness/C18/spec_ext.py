# C18, topic "ext": scenario instances (authenticated sender + foreign postponed decision, 2-3 event compositions, inert messages,
# list shapes, manual decisions about OWN-account keys with the contact's levels fixed).  Same TUs / models / storage model as spec.py.
import importlib.util, os
_sp = importlib.util.spec_from_file_location('c18_base_spec', os.path.join(os.path.dirname(os.path.abspath(__file__)), 'spec.py'))
_b = importlib.util.module_from_spec(_sp); _sp.loader.exec_module(_b)
T = ('thorough',)
def E(name, entry, cfg, policy, bound, **kw):
    d = dict(name=name, entry=entry, unwind=5, timeout_s=300, mem_gb=4, object_bits=12, cdefs={'C18_CFG': cfg, 'C18_POLICY': policy},
             bound=bound + '; security policy ' + ('TOAKAFA' if policy == 1 else 'none'))
    d.update(kw); return d
def AUTH(name, policy, own, pT, t, d, oc, **kw):
    return E(name, 'h_ext_authmsg', own | (pT << 1) | (t << 2) | (d << 3) | (oc << 4), policy,
             'one trust message from %s whose key is Authenticated, naming the %s with %s; pre-state: all other levels symbolic, ONE postponed decision present (%s) from any sender key A..D/X about any key'
             % ('another own device (key A)' if own else "the contact's device (key C)", 'contact' if oc else 'own account',
                '+'.join(x for x, f in (('1 trusted key', t), ('1 distrusted key', d)) if f), 'trust' if pT else 'distrust'), **kw)
def TWO(name, policy, kind, dirT, sC, npre, **kw):
    return E(name, 'h_ext_two', kind | (dirT << 1) | (sC << 2) | (npre << 8), policy,
             'event sequence: (1) message from S = %s (level symbolic, not Authenticated) deciding (%s) about one key of the contact; (2) message from another own device with Authenticated key A that %s; %d postponed-decision slots in the pre-state, other levels symbolic'
             % ("the contact's key C" if sC else 'the own key B', 'trust' if dirT else 'distrust',
                "distrusts S's key; (3) a further message that authenticates S's key" if kind else "authenticates S's key", npre), **kw)
def INERT(name, policy, kind, t, d, npre, **kw):
    return E(name, 'h_ext_inert', kind | (t << 2) | (d << 3) | (npre << 8), policy,
             'one message %s, 1 key owner (%s), sender / resource / owner / key ids symbolic; %d postponed-decision slots in the pre-state'
             % (('without e2ee metadata (empty sender key)', 'with a trust message element of a foreign usage namespace', 'without trust message element')[kind],
                '+'.join(x for x, f in (('1 trusted key', t), ('1 distrusted key', d)) if f), npre), **kw)
def LISTS(name, policy, dd, two, npre, **kw):
    return E(name, 'h_ext_lists', dd | (two << 1) | (npre << 8), policy,
             'one trust message whose first key owner lists 2 %s keys (symbolic, may coincide with each other / the sender key)%s; %d postponed-decision slots in the pre-state'
             % ('distrusted' if dd else 'trusted', ' and a second owner entry (same or other account) with 1 key of the opposite kind' if two else '', npre), **kw)
GROUPS = [
    dict(name='ext_atm', harness='ext_h.cpp', tus=_b.TUS, models=_b.MODELS, shadow_task=True, cand=_b.CAND, block_order='wto',
         instances=[
             AUTH('ext_auth_own_t_pT', 0, 1, 1, 1, 0, 0),
             AUTH('ext_auth_con_t_pD', 0, 0, 0, 1, 0, 1),
             AUTH('ext_auth_own_d_pT', 0, 1, 1, 0, 1, 1),
             AUTH('ext_auth_own_td_pT_toakafa', 1, 1, 1, 1, 1, 1),
             TWO('ext_two_auth_C_t', 0, 0, 1, 1, 0, tiers=T, mem_gb=6),
             TWO('ext_two_dis_C_t', 0, 1, 1, 1, 0, tiers=T, mem_gb=6),
             TWO('ext_two_auth_B_d_toakafa', 1, 0, 0, 0, 0, tiers=T, mem_gb=6),
             TWO('ext_two_dis_B_t_p1', 0, 1, 1, 0, 1, tiers=T, mem_gb=6),
             INERT('ext_inert_nometa_td', 0, 0, 1, 1, 1),
             INERT('ext_inert_usage_t', 1, 1, 1, 0, 1),
             INERT('ext_inert_noelem', 0, 2, 1, 0, 1),
             _b.MAN('ext_manual_o_a_f6', 0, 1, 0, own=1, fixed=6, tiers=T),
         ]),
    dict(name='ext_atm_k2', harness='ext_h.cpp', tus=_b.TUS, models=_b.MODELS, shadow_task=True, cand=_b.CAND, block_order='wto', cxxdefs={'MAX_KEYS': 2},
         instances=[
             LISTS('ext_lists_tt', 0, 0, 0, 1, tiers=T, mem_gb=6),
             LISTS('ext_lists_dd_t_toakafa', 1, 1, 1, 1, tiers=T, mem_gb=6),
         ]),
]
BOUNDS = [
    'ext scenarios: sender / owner structure and list lengths fixed per instance (C18_CFG), all key ids, levels and the postponed table symbolic as stated per instance; h_ext_two: 2-3 events, the deciding own device has the Authenticated key A, S is B or C; h_ext_lists: group ext_atm_k2 with MAX_KEYS=2 (<= 2 keys per list)',
    'ext_manual_o_a_f6: manual decision about ONE own-account key with both keys of the contact Authenticated (concrete), 2 postponed slots',
]
OUTSIDE = [
    'manual decisions about own-account keys with SYMBOLIC levels of the contact or with a key to distrust (ext_manual_o_a: out of memory at 8 GB, ext_manual_o_ad_f1: out of memory at 4 GB even with the loop-aware block order of ll2c); only the shape ext_manual_o_a_f6 is decided',
    'trust messages for a DIFFERENT encryption namespace (the storage model has one namespace and ignores the argument); a message without e2ee metadata is covered (ext_inert_nometa_*): its decisions are held back under the empty sender key id, which no key of the universe has',
    'Store::keys() called without trust levels ("all keys", allowed by the documented contract) is flagged as a model limit, not answered',
]
ASSUMPTIONS = [
    'storage contract for EMPTY lists (checked against the doc comments of QXmppAtmTrustStorage.cpp / QXmppTrustStorage.cpp and the two memory storages): keysForPostponedTrustDecisions(empty sender list) = ALL held-back decisions; removeKeysForPostponedTrustDecisions with empty lists removes nothing; setTrustLevel with an empty key set / owner list changes nothing - the Store model of h.cpp implements exactly this',
    'h_ext_two assumes after its first event again that no two senders hold back the same decision (bound (3) of the pre-state, see spec.py outside)',
]
