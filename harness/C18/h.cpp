// C18 - automatic trust management (XEP-0450): only an authenticated key's holder can move trust, within scope.
// REAL code under check: QXmppAtmManager::{handleMessage, makeTrustDecisions (both overloads), authenticate, distrust,
// distrustAutomaticallyTrustedKeys, makePostponedTrustDecisions}, QXmppTrustManager forwarding (setTrustLevel x2, trustLevel,
// securityPolicy, keys), QXmppTrustMessageElement / QXmppTrustMessageKeyOwner accessors, QXmppStanza::from / e2eeMetadata,
// QXmppE2eeMetadata::senderKey, QXmppUtils::jidToBareJid, QXmppFutureUtils (makeReadyTask) over the Task/Promise shadow.
// Environment: the trust storage INTERFACE is the array-backed model `Store` below (universe: 2 accounts x 2 keys + an
// unknown sender key), hash containers are the class-level models of c18_containers.h, QList block management and the
// universe strings are in c18_env.c, QXmppClient / QXmppConfiguration answer harness values,
// QXmppMessage::trustMessageElement() is fed by the harness, sendTrustMessage is a recorder.
// Oracle: a reference model of XEP-0450 over the same universe (refApply / refAuthenticate / refDistrust), written from the
// property text, plus the frame conditions of the property as separate assertions.  Single steps from an arbitrary valid
// pre-state (h_msg: one received trust message, h_manual: one manual decision); shapes are fixed per instance (C18_CFG).
#include <QString>
#include <QByteArray>
#include <QHash>
#include <QMultiHash>
#include <QMap>
#include <QList>
#include <QSet>
#include <QStringList>
#include <QDomElement>
#include <QXmlStreamWriter>
#include <QSharedDataPointer>
#include <QDateTime>
#include <QObject>
#include <QNetworkProxy>
#include <QSslError>
#include <QAbstractSocket>
#include <QFuture>
#include <QFutureWatcher>
#include <QMimeType>
#include <QUrl>
#include <QVariant>
#include <variant>
#include <optional>
#include <memory>
#include <any>
#include <functional>
#include "vp_harness.h"
#include "c18_containers.h"

#define private public
#define protected public
#include "QXmppTrustMessageKeyOwner.h"
#include "QXmppTrustMessageElement.h"
#include "QXmppE2eeMetadata.h"
#include "QXmppStanza.h"
#include "QXmppMessage.h"
#include "QXmppClient.h"
#include "QXmppConfiguration.h"
#include "QXmppAtmTrustStorage.h"
#include "client/QXmppTrustManager.cpp"
#include "client/QXmppAtmManager.cpp"
#undef private
#undef protected

extern "C" {
bool vp_c18_false();
unsigned vp_c18_policy();
unsigned vp_c18_cfg();
void vp_c18_str1(QString *out, unsigned short c);
void vp_c18_str3(QString *out, unsigned short c0, unsigned short c1, unsigned short c2);
void vp_c18_bytes1(QByteArray *out, unsigned char c);
void vp_c18_owner_str(QString *out, unsigned code);   // universe constants ('o' / 'c', 'A'..'D' / 'X')
void vp_c18_key_str(QByteArray *out, unsigned code);
unsigned vp_c18_jid_code(const QString *s);
unsigned vp_c18_key_code(const QByteArray *s);
unsigned vp_c18_list_len(const void *l);
bool vp_c18_list_has_key(const QList<QByteArray> *l, unsigned code);
bool vp_c18_list_has_jid(const QList<QString> *l, unsigned code);
unsigned vp_c18_list_key(const QList<QByteArray> *l, unsigned j);
const QXmppTrustMessageKeyOwner *vp_c18_list_owner(const QList<QXmppTrustMessageKeyOwner> *l, unsigned j);   // address of the j-th node
void vp_c18_set_dummy_owner(const QXmppTrustMessageKeyOwner *o);
void vp_c18_set_atm_storage(void *p);
void vp_c18_init();
unsigned vp_c18_sends();
}

VpMHBlk *vp_c18_mh_empty;

// ------------------------------------------------------------------------------------------------ universe
// accounts: 'o' (own bare JID), 'c' (a contact); key ids: 'A','B' belong to 'o', 'C','D' belong to 'c'; 'X' is a key id the
// storage has never seen.  Pair index q = key - 'A' (0..3), owner(q) = q < 2 ? 'o' : 'c'.
#define NQ 4
#define KEY_X 'X'
#define KEY_NONE 'E'   /* postponed-table code of the EMPTY sender key id (message without e2ee metadata); never a key of the universe */
static inline unsigned ownerOf(unsigned q) { return q < 2 ? 'o' : 'c'; }
enum { LvUndecided = 1, LvAutoDistrusted = 2, LvManDistrusted = 4, LvAutoTrusted = 8, LvManTrusted = 16, LvAuthenticated = 32 };

// ------------------------------------------------------------------------------------------------ trust storage model
#ifndef PCAP
#define PCAP 4
#endif
#define MAX_OWNERS 2   /* key owners per trust message */
#ifndef MAX_KEYS
#define MAX_KEYS 1     /* trusted / distrusted keys per owner */
#endif
struct PEnt { bool used; unsigned char s; unsigned char q; bool t; };   // postponed decision: sender key id, pair, trust
struct TrustState {
    unsigned char L[NQ];
    PEnt P[PCAP];
};
static TrustState g_st;      // state of the storage model
static unsigned g_policy;    // 0 none, 1 TOAKAFA
static int g_nsig;           // trustLevelsChanged emissions

static void stAddPostponed(TrustState &st, unsigned s, unsigned q, bool t, bool modelSide)
{
    bool done = false;
    for (int i = 0; i < PCAP; i++) { if (st.P[i].used && st.P[i].s == s && st.P[i].q == q) { st.P[i].t = t; done = true; } }
    for (int i = 0; i < PCAP; i++) { if (!done && !st.P[i].used) { st.P[i].used = true; st.P[i].s = (unsigned char)s; st.P[i].q = (unsigned char)q; st.P[i].t = t; done = true; } }
    if (modelSide) vp_c18_limit(done); else vp_assume(done);
}

class Store final : public QXmppAtmTrustStorage
{
public:
    using TL = QXmpp::TrustLevel;
    using MH = QMultiHash<QString, QByteArray>;
    // --- used by the manager
    QXmppTask<QXmpp::TrustSecurityPolicy> securityPolicy(const QString &) override
    {
        auto p = QXmpp::TrustSecurityPolicy(g_policy);
        return makeReadyTask(std::move(p));
    }
    QXmppTask<TL> trustLevel(const QString &, const QString &keyOwnerJid, const QByteArray &keyId) override
    {
        unsigned oc = vp_c18_jid_code(&keyOwnerJid), kc = vp_c18_key_code(&keyId);
        vp_c18_limit(oc != C18_UNKNOWN && kc != C18_UNKNOWN);
        unsigned lvl = LvUndecided;
        for (unsigned q = 0; q < NQ; q++) { if (kc == 'A' + q && oc == ownerOf(q)) lvl = g_st.L[q]; }
        auto l = TL(lvl);
        return makeReadyTask(std::move(l));
    }
    QXmppTask<QHash<QString, MH>> setTrustLevel(const QString &, const MH &keyIds, TL trustLevel) override
    {
        for (int i = 0; i < MH_CAP; i++) {
            if (!keyIds.b->used[i]) continue;
            unsigned oc = vp_c18_jid_code(&keyIds.b->k[i]), kc = vp_c18_key_code(&keyIds.b->v[i]);
            bool hit = false;
            for (unsigned q = 0; q < NQ; q++) { if (kc == 'A' + q && oc == ownerOf(q)) { g_st.L[q] = (unsigned char)trustLevel; hit = true; } }
            vp_c18_limit(hit);   // (owner, key) outside the universe would create a new entry
        }
        return makeReadyTask(QHash<QString, MH>());
    }
    QXmppTask<QHash<QString, MH>> setTrustLevel(const QString &, const QList<QString> &keyOwnerJids, TL oldTrustLevel, TL newTrustLevel) override
    {
        for (unsigned q = 0; q < NQ; q++) {
            if (g_st.L[q] == (unsigned char)oldTrustLevel && vp_c18_list_has_jid(&keyOwnerJids, ownerOf(q))) g_st.L[q] = (unsigned char)newTrustLevel;
        }
        return makeReadyTask(QHash<QString, MH>());
    }
    static VpMHBlk *levelBlk(unsigned level)   // slot q <-> pair q (one loop per function: nested loops confuse the loop bounds)
    {
        VpMHBlk *blk = new VpMHBlk;
        for (unsigned q = 0; q < NQ; q++) {
            blk->used[q] = g_st.L[q] == level;
            vp_c18_owner_str(&blk->k[q], ownerOf(q));
            vp_c18_key_str(&blk->v[q], 'A' + q);
        }
        return blk;
    }
    QXmppTask<QHash<TL, MH>> keys(const QString &, QXmpp::TrustLevels trustLevels = {}) override
    {
        QHash<TL, MH> h;
        // levels with a slot in the model: ManuallyDistrusted, Authenticated (any non-empty subset of them may be requested)
        int req = int(trustLevels);
        vp_c18_limit(req != 0 && (req & ~(LvManDistrusted | LvAuthenticated)) == 0);
        if (req & LvManDistrusted) h.s[0].b = levelBlk(LvManDistrusted);
        if (req & LvAuthenticated) h.s[1].b = levelBlk(LvAuthenticated);
        return makeReadyTask(std::move(h));
    }
    QXmppTask<void> addKeysForPostponedTrustDecisions(const QString &, const QByteArray &senderKeyId, const QList<QXmppTrustMessageKeyOwner> &keyOwners) override
    {
        // fixed trip counts (MAX_OWNERS x MAX_KEYS), every element access at a literal index guarded by the symbolic length;
        // unused list slots hold valid dummy elements (c18_env.c)
        unsigned s = vp_c18_key_code(&senderKeyId);
        if (s == 0) s = KEY_NONE;   // empty sender key id (no e2ee metadata): stored under its own code; no key of the universe has it
        unsigned n = vp_c18_list_len(&keyOwners);
        vp_c18_limit(n <= MAX_OWNERS);
        for (unsigned i = 0; i < MAX_OWNERS; i++) {
            if (i >= n) continue;
            const QXmppTrustMessageKeyOwner *o = vp_c18_list_owner(&keyOwners, i);
            const QString jid = o->jid();
            unsigned oc = vp_c18_jid_code(&jid);
            const QList<QByteArray> tk = o->trustedKeys();
            unsigned nt = vp_c18_list_len(&tk);
            vp_c18_limit(nt <= MAX_KEYS);
            for (unsigned j = 0; j < MAX_KEYS; j++) { if (j < nt) addOne(s, oc, vp_c18_list_key(&tk, j), true); }
            const QList<QByteArray> dk = o->distrustedKeys();
            unsigned nd = vp_c18_list_len(&dk);
            vp_c18_limit(nd <= MAX_KEYS);
            for (unsigned j = 0; j < MAX_KEYS; j++) { if (j < nd) addOne(s, oc, vp_c18_list_key(&dk, j), false); }
        }
        return makeReadyTask();
    }
    static void addOne(unsigned s, unsigned oc, unsigned kc, bool t)
    {
        unsigned q = kc - 'A';
        vp_c18_limit(q < NQ && ownerOf(q) == oc && s != 0);
        stAddPostponed(g_st, s, q, t, true);
    }
    QXmppTask<void> removeKeysForPostponedTrustDecisions(const QString &, const QList<QByteArray> &keyIdsForAuthentication, const QList<QByteArray> &keyIdsForDistrusting) override
    {
        for (int i = 0; i < PCAP; i++) {
            PEnt &e = g_st.P[i];
            if (e.used && ((e.t && vp_c18_list_has_key(&keyIdsForAuthentication, 'A' + e.q)) || (!e.t && vp_c18_list_has_key(&keyIdsForDistrusting, 'A' + e.q)))) e.used = false;
        }
        return makeReadyTask();
    }
    QXmppTask<void> removeKeysForPostponedTrustDecisions(const QString &, const QList<QByteArray> &senderKeyIds) override
    {
        for (int i = 0; i < PCAP; i++) {
            PEnt &e = g_st.P[i];
            if (e.used && vp_c18_list_has_key(&senderKeyIds, e.s)) e.used = false;
        }
        return makeReadyTask();
    }
    QXmppTask<QHash<bool, MH>> keysForPostponedTrustDecisions(const QString &, const QList<QByteArray> &senderKeyIds = {}) override
    {
        QHash<bool, MH> h;
        VpMHBlk *bt = new VpMHBlk, *bf = new VpMHBlk;
        bool all = vp_c18_list_len(&senderKeyIds) == 0;
        for (int i = 0; i < PCAP; i++) {
            const PEnt &e = g_st.P[i];
            bool m = e.used && (all || vp_c18_list_has_key(&senderKeyIds, e.s));
            bt->used[i] = m && e.t;
            bf->used[i] = m && !e.t;
            vp_c18_owner_str(&bt->k[i], ownerOf(e.q));
            vp_c18_key_str(&bt->v[i], 'A' + e.q);
            bf->k[i] = bt->k[i];
            bf->v[i] = bt->v[i];
        }
        h.s[1].b = bt;
        h.s[0].b = bf;
        return makeReadyTask(std::move(h));
    }
    // --- not used by the code under check
    static QXmppTask<void> unused() { vp_c18_limit(false); return makeReadyTask(); }
    QXmppTask<void> setSecurityPolicy(const QString &, QXmpp::TrustSecurityPolicy) override { return unused(); }
    QXmppTask<void> resetSecurityPolicy(const QString &) override { return unused(); }
    QXmppTask<void> setOwnKey(const QString &, const QByteArray &) override { return unused(); }
    QXmppTask<void> resetOwnKey(const QString &) override { return unused(); }
    QXmppTask<QByteArray> ownKey(const QString &) override { vp_c18_limit(false); return makeReadyTask(QByteArray()); }
    QXmppTask<void> addKeys(const QString &, const QString &, const QList<QByteArray> &, TL) override { return unused(); }
    QXmppTask<void> removeKeys(const QString &, const QList<QByteArray> &) override { return unused(); }
    QXmppTask<void> removeKeys(const QString &, const QString &) override { return unused(); }
    QXmppTask<void> removeKeys(const QString &) override { return unused(); }
    QXmppTask<QHash<QString, QHash<QByteArray, TL>>> keys(const QString &, const QList<QString> &, QXmpp::TrustLevels) override { vp_c18_limit(false); return makeReadyTask(QHash<QString, QHash<QByteArray, TL>>()); }
    QXmppTask<bool> hasKey(const QString &, const QString &, QXmpp::TrustLevels) override { vp_c18_limit(false); return makeReadyTask(false); }
    QXmppTask<void> resetAll(const QString &) override { return unused(); }
    QXmppTask<void> removeKeysForPostponedTrustDecisions(const QString &) override { return unused(); }
};
static_assert(PCAP <= MH_CAP && NQ <= MH_CAP, "slot-aligned planting needs MH_CAP >= PCAP, NQ");

// ------------------------------------------------------------------------------------------------ rest of the environment
static QString g_ownBare, g_ownFull, g_enc;
static char g_cfgRaw[16];
static char g_clientRaw[64];
static std::optional<QXmppTrustMessageElement> g_tme;
static QXmppTrustMessageKeyOwner *g_dummyOwner;

void QXmppTrustManager::trustLevelsChanged(const QHash<QString, QMultiHash<QString, QByteArray>> &) { g_nsig++; }   // signal (moc code in the real build)
QXmppConfiguration &QXmppClient::configuration() { return *reinterpret_cast<QXmppConfiguration *>(g_cfgRaw); }
QString QXmppConfiguration::jidBare() const { return g_ownBare; }
QString QXmppConfiguration::jid() const { return g_ownFull; }
QList<QXmppClientExtension *> QXmppClient::extensions() const { return {}; }
std::optional<QXmppTrustMessageElement> QXmppMessage::trustMessageElement() const { return g_tme; }
extern "C" void vp_c18_send_hook(QXmppTask<QXmpp::SendResult> *out) { new (out) QXmppTask<QXmpp::SendResult>(QXmppPromise<QXmpp::SendResult>().task()); }

struct FakeStanza final : QXmppStanza {
    FakeStanza() : QXmppStanza() { }
    void toXml(QXmlStreamWriter *) const override { }
};
union MsgU {
    FakeStanza s;
    char pad[sizeof(QXmppMessage)];
    MsgU() { }
    ~MsgU() { }
};
union MgrU {
    QXmppAtmManager m;
    MgrU() { }
    ~MgrU() { }
};

struct World {
    MgrU mgr;
    Store store;
    World()
    {
        vp_c18_init();
        vp_c18_mh_empty = new VpMHBlk;
        g_dummyOwner = new QXmppTrustMessageKeyOwner;
        vp_c18_set_dummy_owner(g_dummyOwner);
        vp_c18_owner_str(&g_ownBare, 'o');
        vp_c18_str3(&g_ownFull, 'o', '/', '1');
        vp_c18_str1(&g_enc, 'e');
        mgr.m.m_client = reinterpret_cast<QXmppClient *>(g_clientRaw);
        mgr.m.m_trustStorage = &store;
        vp_c18_set_atm_storage(static_cast<QXmppAtmTrustStorage *>(&store));
        g_policy = vp_c18_policy();
        if (vp_c18_false()) { VpRaw<QXmppTask<QXmpp::SendResult>> t; vp_c18_send_hook(t.p()); }
    }
    QXmppAtmManager *operator->() { return &mgr.m; }
};

static QString str1(unsigned c) { QString s; vp_c18_owner_str(&s, c); return s; }
static QByteArray key1(unsigned c) { QByteArray s; vp_c18_key_str(&s, c); return s; }

// symbolic pre-state: any level per pair; NPRE postponed decisions in slots 0..NPRE-1, each used or not, from any sender key
// (A..D or X) about any pair.  Representation invariant of the storage: at most one entry per (sender key, pair).
// fixedContact (1..6): both keys of the contact have the CONCRETE level 1 << (fixedContact - 1) (case split per instance; keeps
// the key lists built from the storage concrete where the code under check iterates over them).
static void symState(TrustState &st, int npre, unsigned fixedContact = 0, bool allowSameDecision = false)
{
    for (int q = 0; q < NQ; q++) {
        if (fixedContact && q >= 2) { st.L[q] = (unsigned char)(1u << (fixedContact - 1)); continue; }
        unsigned x = vp_u8(); vp_assume(x < 6); st.L[q] = (unsigned char)(1u << x);
    }
    for (int i = 0; i < PCAP; i++) { st.P[i].used = false; st.P[i].s = 'A'; st.P[i].q = 0; st.P[i].t = false; }
    for (int i = 0; i < 2; i++) {
        if (i >= npre) continue;
        unsigned s = vp_u8(); vp_assume(s < 5);
        unsigned q = vp_u8(); vp_assume(q < NQ);
        st.P[i].used = vp_bool(); st.P[i].s = (unsigned char)(s == 4 ? KEY_X : 'A' + s); st.P[i].q = (unsigned char)q; st.P[i].t = vp_bool();
    }
    // representation invariants: (1) storage contract: at most one entry per (sender key, pair); (2) a decision is only ever
    // held back for a sender that was in scope when it arrived: entries sent with a key of the contact concern the contact's keys
    // (entries of the unknown sender key X and of own keys may concern any pair); (3) bound of this harness: no two senders have
    // postponed the SAME decision (same pair, same direction) - see SPEC['outside'].
    for (int i = 0; i < 2; i++) { if (i < npre) vp_assume(!(st.P[i].used && (st.P[i].s == 'C' || st.P[i].s == 'D') && st.P[i].q < 2)); }
    if (npre > 1) vp_assume(!(st.P[0].used && st.P[1].used && st.P[0].q == st.P[1].q && (st.P[0].s == st.P[1].s || (st.P[0].t == st.P[1].t && !allowSameDecision))));
}

// ------------------------------------------------------------------------------------------------ reference model of XEP-0450
// sets of pairs are bit masks over q
static void refDistrust(TrustState &r, unsigned D)
{
    if (!D) return;
    for (unsigned q = 0; q < NQ; q++) { if (D & (1u << q)) r.L[q] = LvManDistrusted; }
    // decisions held back for a sender key that is now distrusted are discarded
    for (int i = 0; i < PCAP; i++) { if (r.P[i].used && r.P[i].s != KEY_X && (D & (1u << (r.P[i].s - 'A')))) r.P[i].used = false; }
}
template<int DEPTH> static void refApply(TrustState &r, unsigned policy, unsigned A, unsigned D);
template<int DEPTH> static void refAuthenticate(TrustState &r, unsigned policy, unsigned A)
{
    if (!A) return;
    for (unsigned q = 0; q < NQ; q++) { if (A & (1u << q)) r.L[q] = LvAuthenticated; }
    if (policy == 1) {
        // TOAKAFA: once a key of an owner is authenticated, his merely automatically trusted keys are not trusted any more
        for (unsigned q = 0; q < NQ; q++) {
            bool ownerHit = false;
            for (unsigned p = 0; p < NQ; p++) { if ((A & (1u << p)) && ownerOf(p) == ownerOf(q)) ownerHit = true; }
            if (ownerHit && r.L[q] == LvAutoTrusted) r.L[q] = LvAutoDistrusted;
        }
    }
    // decisions held back for the sender keys that just became authenticated take effect now
    unsigned A2 = 0, D2 = 0;
    for (int i = 0; i < PCAP; i++) {
        if (r.P[i].used && r.P[i].s != KEY_X && (A & (1u << (r.P[i].s - 'A')))) { if (r.P[i].t) A2 |= 1u << r.P[i].q; else D2 |= 1u << r.P[i].q; }
    }
    for (int i = 0; i < PCAP; i++) {
        if (r.P[i].used && r.P[i].s != KEY_X && (A & (1u << (r.P[i].s - 'A')))) r.P[i].used = false;   // applied once
    }
    refApply<DEPTH - 1>(r, policy, A2, D2);
}
template<int DEPTH> static void refApply(TrustState &r, unsigned policy, unsigned A, unsigned D)
{
    refAuthenticate<DEPTH>(r, policy, A);
    refDistrust(r, D);
}
template<> void refApply<0>(TrustState &, unsigned, unsigned A, unsigned D) { vp_c18_limit(A == 0 && D == 0); }   // deeper cascades than the pre-state allows: flagged

// post-state of the storage model == reference state (postponed decisions compared as a set)
static bool sameLevels(const TrustState &a, const TrustState &b)
{
    bool ok = true;
    for (int q = 0; q < NQ; q++) { if (a.L[q] != b.L[q]) ok = false; }
    return ok;
}
static bool subsetPostponed(const TrustState &a, const TrustState &b)
{
    bool ok = true;
    for (int i = 0; i < PCAP; i++) {
        if (!a.P[i].used) continue;
        bool found = false;
        for (int j = 0; j < PCAP; j++) { if (b.P[j].used && b.P[j].s == a.P[i].s && b.P[j].q == a.P[i].q && b.P[j].t == a.P[i].t) found = true; }
        if (!found) ok = false;
    }
    return ok;
}

// ------------------------------------------------------------------------------------------------ trust message event
// shape (per instance, C18_CFG): bits 0-1 number of owners - 1 .. ; per owner i: bit (2+2i) has a trusted key, bit (3+2i) has a
// distrusted key.  Symbolic: sender account, resource (own device echo), sender key, owner accounts, key ids, pre-state.
// bits 8-9: number of postponed-decision slots of the pre-state that may be in use (0..2).
extern "C" void h_msg()
{
    World w;
    unsigned cfg = vp_c18_cfg();
    int nOwners = 1 + (cfg & 1);
    symState(g_st, (cfg >> 8) & 3, 0, (cfg >> 10) & 1);   // bit 10: lift bound (3) of symState (demonstration instance only)
    TrustState ref = g_st;
    const TrustState pre = g_st;

    bool sOwn = vp_bool();
    bool res1 = vp_bool();
    unsigned sk = vp_u8(); vp_assume(sk < 3);
    unsigned senderAcct = sOwn ? 'o' : 'c';
    unsigned senderKey = sk == 2 ? KEY_X : (sOwn ? 'A' : 'C') + sk;
    QString from; vp_c18_str3(&from, (unsigned short)senderAcct, '/', res1 ? '1' : '2');

    QXmppTrustMessageElement tme;
    tme.setUsage(ns_atm.toString());
    tme.setEncryption(g_enc);
    unsigned oAcct[2] = { 0, 0 }; bool hasT[2], hasD[2]; unsigned tq[2] = { 0, 0 }, dq[2] = { 0, 0 };
    for (int i = 0; i < nOwners; i++) {
        bool own = vp_bool();
        oAcct[i] = own ? 'o' : 'c';
        hasT[i] = (cfg >> (2 + 2 * i)) & 1; hasD[i] = (cfg >> (3 + 2 * i)) & 1;
        QXmppTrustMessageKeyOwner ko;
        ko.setJid(str1(oAcct[i]));
        if (hasT[i]) { tq[i] = (own ? 0 : 2) + (vp_bool() ? 1 : 0); ko.setTrustedKeys({ key1('A' + tq[i]) }); }
        if (hasD[i]) { dq[i] = (own ? 0 : 2) + (vp_bool() ? 1 : 0); ko.setDistrustedKeys({ key1('A' + dq[i]) }); }
        tme.addKeyOwner(ko);
    }
    g_tme = tme;

    MsgU msg;
    new (&msg.s) FakeStanza();
    msg.s.setFrom(from);
    QXmppE2eeMetadata md;
    md.setSenderKey(key1(senderKey));
    msg.s.setE2eeMetadata(md);

    auto task = w->handleMessage(reinterpret_cast<const QXmppMessage &>(msg.s));

    // reference
    bool echo = sOwn && res1;
    if (!echo) {
        bool auth = senderKey != KEY_X && ref.L[senderKey - 'A'] == LvAuthenticated;
        unsigned A = 0, D = 0;
        for (int i = 0; i < nOwners; i++) {
            bool qualified = sOwn || oAcct[i] == senderAcct;
            if (!qualified) continue;
            if (auth) {
                if (hasT[i]) A |= 1u << tq[i];
                if (hasD[i]) D |= 1u << dq[i];
            } else {
                if (hasT[i]) stAddPostponed(ref, senderKey, tq[i], true, false);
                if (hasD[i]) stAddPostponed(ref, senderKey, dq[i], false, false);
            }
        }
        refApply<3>(ref, g_policy, A, D);
    }
    bool senderAuth = senderKey != KEY_X && pre.L[senderKey - 'A'] == LvAuthenticated;
    vp_assert(task.isFinished(), "C18 handleMessage completes (storage answers synchronously)");
    vp_assert(!(echo || !senderAuth) || sameLevels(g_st, pre), "C18 no trust level changes unless the sender's own key is authenticated and the message is not an echo of this device");
    vp_assert(sOwn || (g_st.L[0] == pre.L[0] && g_st.L[1] == pre.L[1]), "C18 a contact's trust message changes no key of another account");
    vp_assert(!echo || (subsetPostponed(g_st, pre) && subsetPostponed(pre, g_st)), "C18 an echo of this device's own trust message is ignored (nothing held back either)");
    vp_assert(sameLevels(g_st, ref), "C18 trust levels after a trust message equal the XEP-0450 reference (authenticated sender, scope, echo, cascade)");
    vp_assert(subsetPostponed(g_st, ref), "C18 every postponed decision kept by the storage is one the reference keeps");
    vp_assert(subsetPostponed(ref, g_st), "C18 every postponed decision of the reference is still held back");
}

// ------------------------------------------------------------------------------------------------ manual decision event
// QXmppAtmManager::makeTrustDecisions(encryption, owner, keysForAuthentication, keysForDistrusting) (public API: QR code scan,
// manual entry).  shape (C18_CFG): bit 0 one key to authenticate, bit 1 one key to distrust, bit 2 the owner is the own account,
// bits 4-6: 0 = contact's levels symbolic, k = both keys of the contact have level 1 << (k-1);
// bits 8-9 postponed-decision slots of the pre-state.  Symbolic: which keys of the owner, pre-state.
extern "C" void h_manual()
{
    World w;
    unsigned cfg = vp_c18_cfg();
    bool hasA = cfg & 1, hasD = cfg & 2, own = cfg & 4;
    symState(g_st, (cfg >> 8) & 3, (cfg >> 4) & 7);
    TrustState ref = g_st;
    unsigned base = own ? 0 : 2;
    unsigned aq = base + (vp_bool() ? 1 : 0), dq = base + (vp_bool() ? 1 : 0);
    QList<QByteArray> la, ld;
    if (hasA) la.append(key1('A' + aq));
    if (hasD) ld.append(key1('A' + dq));

    auto task = w->makeTrustDecisions(g_enc, str1(own ? 'o' : 'c'), la, ld);

    // reference: keys that already have the requested level are skipped; the rest is authenticated (with the cascade of
    // postponed decisions) and then distrusted
    unsigned A = hasA && ref.L[aq] != LvAuthenticated ? 1u << aq : 0;
    unsigned D = hasD && ref.L[dq] != LvManDistrusted ? 1u << dq : 0;
    refApply<3>(ref, g_policy, A, D);
    vp_assert(task.isFinished(), "C18 makeTrustDecisions completes (storage answers synchronously)");
    vp_assert(sameLevels(g_st, ref), "C18 trust levels after a manual decision equal the XEP-0450 reference (incl. cascade of postponed decisions)");
    vp_assert(subsetPostponed(g_st, ref), "C18 manual decision: every postponed decision kept by the storage is one the reference keeps");
    vp_assert(subsetPostponed(ref, g_st), "C18 manual decision: every postponed decision of the reference is still held back");
}
