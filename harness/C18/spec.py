# C18 - automatic trust management (QXmppAtmManager over a modelled trust storage)
TUS = ['src/base/QXmppTrustMessages.cpp', 'src/base/QXmppStanza.cpp', 'src/base/QXmppUtils.cpp', 'src/client/QXmppClientExtension.cpp']
MODELS = ['qt_core.c', 'qt_list.c', 'c18_env.c']
# Store overrides reached through QXmppTrustStorage / QXmppAtmTrustStorage (virtual inheritance: the vtable has 19 vcall/vbase-offset
# words in front, so ll2c's slot arithmetic does not find the functions by itself; they are offered as candidates by name and
# selected by comparing the function pointer loaded from the real vtable)
CAND = ';'.join(['_ZN5Store10trustLevelERK7QStringS2_RK10QByteArray', '_ZN5Store13setTrustLevelERK7QStringRK10QMultiHashIS0_10QByteArrayEN5QXmpp10TrustLevelE',
                 '_ZN5Store13setTrustLevelERK7QStringRK5QListIS0_EN5QXmpp10TrustLevelES8_', '_ZN5Store14securityPolicyERK7QString',
                 '_ZN5Store30keysForPostponedTrustDecisionsERK7QStringRK5QListI10QByteArrayE', '_ZN5Store33addKeysForPostponedTrustDecisionsERK7QStringRK10QByteArrayRK5QListI25QXmppTrustMessageKeyOwnerE',
                 '_ZN5Store36removeKeysForPostponedTrustDecisionsERK7QStringRK5QListI10QByteArrayE', '_ZN5Store36removeKeysForPostponedTrustDecisionsERK7QStringRK5QListI10QByteArrayES7_',
                 '_ZN5Store4keysERK7QString6QFlagsIN5QXmpp10TrustLevelEE'])
def I(name, entry, cfg, policy, bound, **kw):
    d = dict(name=name, entry=entry, unwind=5, timeout_s=300, mem_gb=4, object_bits=12, cdefs={'C18_CFG': cfg, 'C18_POLICY': policy}, bound=bound)
    d.update(kw); return d
def shape(two, t0, d0, t1=0, d1=0, npre=2): return two | (t0 << 2) | (d0 << 3) | (t1 << 4) | (d1 << 5) | (npre << 8)
SPEC = dict(
    property='C18',
    groups=[
        dict(name='atm', harness='h.cpp', tus=TUS, models=MODELS, shadow_task=True, cand=CAND,
             instances=[
                 I('msg_1o_t', 'h_msg', shape(0, 1, 0), 0, 'one owner, one trusted key'),
                 I('msg_1o_td_toakafa', 'h_msg', shape(0, 1, 1), 1, 'one owner, one trusted key'),
                 I('msg_2o_t_d', 'h_msg', shape(1, 1, 0, 0, 1), 0, ''),
                 I('msg_2o_td_td_toakafa', 'h_msg', shape(1, 1, 1, 1, 1, npre=0), 1, ''),
                 I('manual_c_ad', 'h_manual', 3 | (2 << 8), 0, ''),
                 I('manual_o_ad_toakafa', 'h_manual', 7 | (2 << 8), 1, ''),
             ]),
    ],
    bounds=[], assumptions=[], outside=[],
)
