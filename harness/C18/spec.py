# C18 - automatic trust management (QXmppAtmManager over a modelled trust storage)
TUS = ['src/base/QXmppTrustMessages.cpp', 'src/base/QXmppStanza.cpp', 'src/base/QXmppUtils.cpp', 'src/client/QXmppClientExtension.cpp']
MODELS = ['qt_core.c', 'qt_list.c', 'c18_env.c']
# Store overrides reached through QXmppTrustStorage / QXmppAtmTrustStorage (virtual inheritance: the vtable has 19 vcall/vbase-offset
# words in front, so ll2c's slot arithmetic does not find the functions by itself; they are offered as candidates by name and
# selected by comparing the function pointer loaded from the real vtable)
CAND = ';'.join(['_ZN5Store10trustLevelERK7QStringS2_RK10QByteArray', '_ZN5Store13setTrustLevelERK7QStringRK10QMultiHashIS0_10QByteArrayEN5QXmpp10TrustLevelE',
                 '_ZN5Store13setTrustLevelERK7QStringRK5QListIS0_EN5QXmpp10TrustLevelES8_', '_ZN5Store14securityPolicyERK7QString',
                 '_ZN5Store30keysForPostponedTrustDecisionsERK7QStringRK5QListI10QByteArrayE', '_ZN5Store33addKeysForPostponedTrustDecisionsERK7QStringRK10QByteArrayRK5QListI25QXmppTrustMessageKeyOwnerE',
                 '_ZN5Store36removeKeysForPostponedTrustDecisionsERK7QStringRK5QListI10QByteArrayE', '_ZN5Store36removeKeysForPostponedTrustDecisionsERK7QStringRK5QListI10QByteArrayES7_',
                 '_ZN5Store4keysERK7QString6QFlagsIN5QXmpp10TrustLevelEE'])
B_PRE = 'pre-state: any of the 6 trust levels for each of the 4 (owner, key) pairs; postponed decisions: 2 slots, each in use or not, from any sender key (A..D or the unknown key X) about any pair in either direction'
B_MSG = 'trust message: sender account own/contact, resource own-device/other (echo), sender key any key of the sender account or the unknown key X, e2ee metadata present; owner accounts and key ids symbolic within the universe'
def I(name, entry, cfg, policy, bound, **kw):
    d = dict(name=name, entry=entry, unwind=5, timeout_s=300, mem_gb=4, object_bits=12, cdefs={'C18_CFG': cfg, 'C18_POLICY': policy},
             bound=bound + '; security policy ' + ('TOAKAFA' if policy == 1 else 'none'))
    d.update(kw); return d
def shape(two, t0, d0, t1=0, d1=0, npre=2): return two | (t0 << 2) | (d0 << 3) | (t1 << 4) | (d1 << 5) | (npre << 8)
def MSG(name, policy, two, t0, d0, t1=0, d1=0, npre=2, **kw):
    own = lambda t, d: '+'.join(x for x, f in (('1 trusted key', t), ('1 distrusted key', d)) if f)
    b = 'one trust message with %s' % ('2 key owners (%s | %s)' % (own(t0, d0), own(t1, d1)) if two else '1 key owner (%s)' % own(t0, d0))
    return I(name, 'h_msg', shape(two, t0, d0, t1, d1, npre), policy, b + '; %d postponed-decision slots in the pre-state' % npre, **kw)
def MAN(name, policy, a, d, own=0, fixed=0, npre=2, **kw):
    b = 'one manual decision (public makeTrustDecisions) about keys of %s: %s; %d postponed-decision slots in the pre-state' % (
        'the own account' if own else 'the contact', '+'.join(x for x, f in (('authenticate 1 key', a), ('distrust 1 key', d)) if f), npre)
    if fixed: b += '; both keys of the contact have the fixed level %d' % (1 << (fixed - 1))
    return I(name, 'h_manual', a | (d << 1) | (own << 2) | (fixed << 4) | (npre << 8), policy, b, **kw)
T = ('thorough',)
SPEC = dict(
    property='C18',
    groups=[
        dict(name='atm', harness='h.cpp', tus=TUS, models=MODELS, shadow_task=True, cand=CAND,
             instances=[
                 MSG('msg_1o_t', 0, 0, 1, 0),
                 MSG('msg_1o_d_toakafa', 1, 0, 0, 1),
                 MSG('msg_1o_td_toakafa', 1, 0, 1, 1),
                 MSG('msg_2o_t_d', 0, 1, 1, 0, 0, 1),
                 MSG('msg_2o_t_t_toakafa', 1, 1, 1, 0, 1, 0),
                 MSG('msg_2o_td_td', 0, 1, 1, 1, 1, 1, npre=0),
                 MAN('manual_c_ad', 0, 1, 1),
                 MAN('manual_c_a_toakafa', 1, 1, 0),
                 MAN('manual_c_d_toakafa', 1, 0, 1),
                 I('msg_same_decision_twice', 'h_msg', shape(0, 1, 0) | (1 << 10), 0, 'as msg_1o_t, but two senders may have postponed the same decision (same key, same direction)', known_finding='same-decision-postponed-twice'),
                 # thorough: the remaining shape / policy combinations
                 MSG('msg_1o_t_toakafa', 1, 0, 1, 0, tiers=T), MSG('msg_1o_d', 0, 0, 0, 1, tiers=T), MSG('msg_1o_td', 0, 0, 1, 1, tiers=T),
                 MSG('msg_2o_t_d_toakafa', 1, 1, 1, 0, 0, 1, tiers=T), MSG('msg_2o_d_t', 0, 1, 0, 1, 1, 0, tiers=T), MSG('msg_2o_t_t', 0, 1, 1, 0, 1, 0, tiers=T),
                 MSG('msg_2o_d_d_toakafa', 1, 1, 0, 1, 0, 1, tiers=T), MSG('msg_2o_td_td_toakafa', 1, 1, 1, 1, 1, 1, npre=0, tiers=T),
                 MSG('msg_2o_td_t_toakafa', 1, 1, 1, 1, 1, 0, npre=1, tiers=T),
                 MAN('manual_c_ad_toakafa', 1, 1, 1, tiers=T), MAN('manual_c_a', 0, 1, 0, tiers=T), MAN('manual_c_d', 0, 0, 1, tiers=T),
             ]),
        # thorough only: larger tables (postponed-decision table and hash containers 6 entries) so that the largest message shape
        # runs from a pre-state with 2 postponed decisions
        dict(name='atm6', harness='h.cpp', tus=TUS, models=MODELS, shadow_task=True, cand=CAND, cxxdefs={'PCAP': 6, 'MH_CAP': 6},
             instances=[MSG('msg6_2o_td_td', 0, 1, 1, 1, 1, 1, npre=2, tiers=T, unwind=7, timeout_s=600, mem_gb=6),
                        MSG('msg6_2o_td_td_toakafa', 1, 1, 1, 1, 1, 1, npre=2, tiers=T, unwind=7, timeout_s=600, mem_gb=6)]),
    ],
    bounds=[
        'single steps from an arbitrary valid pre-state (no histories): one received trust message or one manual decision, checked against a reference model of XEP-0450 written in the harness',
        'universe: 2 accounts (own "o", contact "c") x 2 key ids each (A,B / C,D) + one key id X unknown to the storage (usable as sender key only); key ids are globally unique (a key id belongs to one account); one encryption protocol',
        B_PRE, B_MSG,
        'message shape fixed per instance: 1 or 2 key owners with <= 1 trusted and <= 1 distrusted key each (values symbolic); manual decision: <= 1 key to authenticate and <= 1 key to distrust',
        'security policy fixed per instance: none or TOAKAFA',
        'cascade of postponed decisions: up to 3 nested authenticate rounds (2 pre-state entries can fire one after the other); real-code loops and recursion unwound 5 times with unwinding assertions',
        'container capacities: hash containers 4 entries, lists 6, postponed-decision table 4 (exceeding one is flagged inconclusive, never silently dropped); thorough group atm6: hash containers and postponed-decision table 6 entries, unwind 7 (largest message shape from a pre-state with 2 postponed decisions)',
    ],
    assumptions=[
        'the trust storage INTERFACE (QXmppTrustStorage / QXmppAtmTrustStorage) is a model (class Store in h.cpp) written from the documented contract of QXmppTrustStorage.cpp / QXmppAtmTrustStorage.cpp: array-backed over the universe, every call answers with an already finished task; the behaviour of the real memory storages is covered by the repo tests tst_qxmpptrustmemorystorage / tst_qxmppatmtrustmemorystorage and is NOT re-checked here; the encryption namespace argument is ignored (one protocol); setTrustLevel reports no modified keys (only the trustLevelsChanged signal would use them)',
        'QMultiHash<QString,QByteArray>, QHash<bool,...>, QHash<TrustLevel,...>, QHash<QString,QMultiHash<...>> are class-level models (c18_containers.h: value semantics, duplicates kept, iteration in slot order, keys restricted to empty / 1-unit strings, anything else flagged); QList<QByteArray|QString|QXmppTrustMessageKeyOwner> block management (append, detach, copy, +=) is a class-level model (c18_env.c), the rest of QList is real code over the shared QListData model; QtPrivate::RefCount::ref/deref are one-step models of the inline atomics',
        'QXmppTask/QXmppPromise shadow (contract discharged by C13); the manager object is raw storage with only m_client / m_trustStorage set (QObject part never touched); trustLevelsChanged (moc code) is a counter',
        'QXmppClient is environment: configuration().jidBare()/jid() answer the own bare JID "o" / full JID "o/1", extensions() is empty (no carbon manager); QXmppMessage::trustMessageElement() answers the element built by the harness through the real QXmppTrustMessageElement / KeyOwner setters; from() and e2eeMetadata() are the real QXmppStanza code on a stanza object',
        'dynamic_cast<QXmppAtmTrustStorage*> of the storage pointer yields the registered Store object',
        'pre-state invariants: at most one postponed entry per (sender key, key) [storage contract]; a postponed decision sent with a key of the contact concerns a key of the contact [it was in scope when it was stored]',
        'sendTrustMessage is a recorder (outgoing trust messages are outside the claim); std::sort / std::unique over the contact JIDs of such a message are cut (only their arguments to sendTrustMessage depend on them)',
    ],
    outside=[
        'sequences of more than one event (the inductive step from an arbitrary valid pre-state carries the property); larger universes, more keys per owner in one message, more than 2 pre-state postponed decisions',
        'two different senders having postponed the SAME decision (same key, same direction): the manager retires both when the first one fires (removal by key id), the property text does not say which is right; excluded from the pre-states',
        'key ids shared between accounts: postponed decisions are stored under the sender KEY ID only (storage API), so authenticating (contact, K) would also fire decisions postponed for a sender key K seen on another account; the universe keeps key ids unique',
        'manual decisions about keys of the OWN account (the follow-up trust messages to every contact with authenticated keys make symbolic execution exceed the budget: > 50 M variables); the private makeTrustDecisions / authenticate / distrust they end in are the ones exercised by the other instances',
        'messages without e2ee metadata (empty sender key), trust message elements with a foreign usage namespace, persistent storages, asynchronous storages (continuations running later), content and recipients of outgoing trust messages (sendTrustMessage is recorded only), the trustLevelsChanged signal arguments',
    ],
)
