// C18 extension (topic "ext"): scenario entries over the SAME world, storage model and XEP-0450 reference as h.cpp.
//   h_ext_authmsg : one message from a sender whose key IS authenticated while the storage holds one postponed decision
//                   (any sender key, any subject): only what the property allows may happen - in particular a message that
//                   lists nothing but already-authenticated keys must leave every other sender's postponed decisions alone
//   h_ext_two     : compositions of 2-3 events from an arbitrary pre-state: message from an unauthenticated sender S (held
//                   back), then a message that authenticates S's key (exactly the held-back decisions take effect), or one
//                   that distrusts S's key (discarded) followed by a later authentication of S's key (not applied any more)
//   h_ext_inert   : messages that must change nothing: no e2ee metadata (empty sender key), foreign usage namespace,
//                   no trust message element at all
//   h_ext_lists   : list shapes: one owner with TWO trusted or TWO distrusted keys (values symbolic, may be equal, may be the
//                   sender key), plus a second owner entry naming the same or the other account
// Everything symbolic goes through vp_u8 / vp_bool; structure (who sends, how many list entries) is fixed per instance (C18_CFG).
#include "h.cpp"

struct ExtMsg {
    bool sOwn;            // sender account: own / contact
    bool res1;            // resource "1" = this device (echo), "2" = another device
    unsigned senderKey;   // 'A'..'D', KEY_X, or 0 = no e2ee metadata
    int usage;            // 0 = ATM namespace, 1 = foreign usage namespace, 2 = no trust message element
    int nOwners;
    unsigned oAcct[2];
    int nT[2], nD[2];
    unsigned tq[2][2], dq[2][2];
};

static void extClear(ExtMsg &m)
{
    m.sOwn = false; m.res1 = false; m.senderKey = KEY_X; m.usage = 0; m.nOwners = 0;
    for (int i = 0; i < 2; i++) { m.oAcct[i] = 'o'; m.nT[i] = 0; m.nD[i] = 0; for (int j = 0; j < 2; j++) { m.tq[i][j] = 0; m.dq[i][j] = 0; } }
}

// delivers the message to the REAL QXmppAtmManager::handleMessage
static void extDeliver(World &w, const ExtMsg &m)
{
    QString from; vp_c18_str3(&from, (unsigned short)(m.sOwn ? 'o' : 'c'), '/', m.res1 ? '1' : '2');
    QXmppTrustMessageElement tme;
    if (m.usage == 1) { QString u; vp_c18_str1(&u, 'u'); tme.setUsage(u); } else tme.setUsage(ns_atm.toString());
    tme.setEncryption(g_enc);
    for (int i = 0; i < 2; i++) {
        if (i >= m.nOwners) continue;
        QXmppTrustMessageKeyOwner ko;
        ko.setJid(str1(m.oAcct[i]));
        if (m.nT[i] == 1) ko.setTrustedKeys({ key1('A' + m.tq[i][0]) });
        if (m.nT[i] == 2) ko.setTrustedKeys({ key1('A' + m.tq[i][0]), key1('A' + m.tq[i][1]) });
        if (m.nD[i] == 1) ko.setDistrustedKeys({ key1('A' + m.dq[i][0]) });
        if (m.nD[i] == 2) ko.setDistrustedKeys({ key1('A' + m.dq[i][0]), key1('A' + m.dq[i][1]) });
        tme.addKeyOwner(ko);
    }
    if (m.usage == 2) g_tme = std::nullopt; else g_tme = tme;

    MsgU msg;
    new (&msg.s) FakeStanza();
    msg.s.setFrom(from);
    if (m.senderKey != 0) {
        QXmppE2eeMetadata md;
        md.setSenderKey(key1(m.senderKey));
        msg.s.setE2eeMetadata(md);
    }
    auto task = w->handleMessage(reinterpret_cast<const QXmppMessage &>(msg.s));
    vp_assert(task.isFinished(), "C18 handleMessage completes (storage answers synchronously)");
}

// reference transition for one message (property text / XEP-0450), same structure as in h_msg
static void extRef(TrustState &ref, const ExtMsg &m)
{
    if (m.usage != 0) return;             // not an ATM trust message
    if (m.sOwn && m.res1) return;         // echo of this device
    bool auth = m.senderKey >= 'A' && m.senderKey <= 'D' && ref.L[m.senderKey - 'A'] == LvAuthenticated
        && ownerOf(m.senderKey - 'A') == (m.sOwn ? 'o' : 'c');
    unsigned A = 0, D = 0;
    for (int i = 0; i < 2; i++) {
        if (i >= m.nOwners) continue;
        bool qualified = m.sOwn || m.oAcct[i] == 'c';
        if (!qualified) continue;
        for (int j = 0; j < 2; j++) {
            if (j >= m.nT[i]) continue;
            if (auth) A |= 1u << m.tq[i][j]; else stAddPostponed(ref, m.senderKey ? m.senderKey : KEY_NONE, m.tq[i][j], true, false);
        }
        for (int j = 0; j < 2; j++) {
            if (j >= m.nD[i]) continue;
            if (auth) D |= 1u << m.dq[i][j]; else stAddPostponed(ref, m.senderKey ? m.senderKey : KEY_NONE, m.dq[i][j], false, false);
        }
    }
    refApply<3>(ref, g_policy, A, D);
}

static void extAssertRef(const TrustState &ref)
{
    vp_assert(sameLevels(g_st, ref), "C18 trust levels equal the XEP-0450 reference (authenticated sender, scope, echo, cascade)");
    vp_assert(subsetPostponed(g_st, ref), "C18 every postponed decision kept by the storage is one the reference keeps");
    vp_assert(subsetPostponed(ref, g_st), "C18 every postponed decision of the reference is still held back");
}

static unsigned extLevel() { unsigned x = vp_u8(); vp_assume(x < 6); return 1u << x; }
static unsigned extLevelNotAuth() { unsigned x = vp_u8(); vp_assume(x < 5); return 1u << x; }
// sender key code for the postponed table of a pre-state: A..D or X
static unsigned extSenderCode() { unsigned s = vp_u8(); vp_assume(s < 5); return s == 4 ? KEY_X : 'A' + s; }
static void extNoPostponed(TrustState &st) { for (int i = 0; i < PCAP; i++) { st.P[i].used = false; st.P[i].s = 'A'; st.P[i].q = 0; st.P[i].t = false; } }
// invariant (3) of h.cpp's symState on a whole table: no two senders hold back the SAME decision
static bool extNoSameDecisionTwice(const TrustState &st)
{
    bool ok = true;
    for (int i = 0; i < PCAP; i++) {
        for (int j = 0; j < PCAP; j++) { if (i < j && st.P[i].used && st.P[j].used && st.P[i].q == st.P[j].q && st.P[i].t == st.P[j].t && st.P[i].s != st.P[j].s) ok = false; }
    }
    return ok;
}

// ------------------------------------------------------------------------------------------------ authenticated sender, one postponed decision present
// C18_CFG: bit 0 sender is another own device (key A) / a device of the contact (key C); bit 1 direction of the postponed decision
// held in the pre-state; bit 2 / bit 3 the message lists one trusted / one distrusted key; bit 4 the key owner named in the message
// is the contact (else the own account).  Sender key is Authenticated; other levels, the sender key and subject of the postponed
// decision and the listed key ids are symbolic.
extern "C" void h_ext_authmsg()
{
    World w;
    unsigned cfg = vp_c18_cfg();
    ExtMsg m; extClear(m);
    m.sOwn = cfg & 1; m.res1 = false; m.senderKey = m.sOwn ? 'A' : 'C';
    bool ownerContact = cfg & 16;
    for (int q = 0; q < NQ; q++) g_st.L[q] = (unsigned char)extLevel();
    g_st.L[m.senderKey - 'A'] = LvAuthenticated;
    extNoPostponed(g_st);
    unsigned ps = extSenderCode(), pq = vp_u8(); vp_assume(pq < NQ);
    vp_assume(!((ps == 'C' || ps == 'D') && pq < 2));   // invariant (2) of symState: a contact's decision was in scope when it was held back
    g_st.P[0].used = true; g_st.P[0].s = (unsigned char)ps; g_st.P[0].q = (unsigned char)pq; g_st.P[0].t = (cfg & 2) != 0;
    TrustState ref = g_st;
    const TrustState pre = g_st;

    m.nOwners = 1; m.oAcct[0] = ownerContact ? 'c' : 'o';
    unsigned base = ownerContact ? 2 : 0;
    if (cfg & 4) { m.nT[0] = 1; m.tq[0][0] = base + (vp_bool() ? 1 : 0); }
    if (cfg & 8) { m.nD[0] = 1; m.dq[0][0] = base + (vp_bool() ? 1 : 0); }
    extDeliver(w, m);
    extRef(ref, m);

    // frame condition spelled out: when everything the message lists already has the requested level and the listed keys are not
    // the sender key of the held-back decision, NOTHING changes (no level, no postponed decision applied or dropped)
    bool inScope = m.sOwn || ownerContact;
    bool noop = !inScope
        || ((!(cfg & 4) || (pre.L[m.tq[0][0]] == LvAuthenticated && ps != 'A' + m.tq[0][0]))
            && (!(cfg & 8) || (pre.L[m.dq[0][0]] == LvManDistrusted && ps != 'A' + m.dq[0][0])));
    // (under TOAKAFA re-authenticating a key may still demote automatically trusted keys of its owner: levels compared for policy none)
    vp_assert(!noop || ((g_policy == 1 || sameLevels(g_st, pre)) && subsetPostponed(pre, g_st) && subsetPostponed(g_st, pre)),
              "C18 a message that only repeats decisions already in force leaves levels and every other sender's held-back decisions untouched");
    bool psAuth = ps != KEY_X && pre.L[ps - 'A'] == LvAuthenticated;
    bool psListedT = (cfg & 4) && inScope && ps == 'A' + m.tq[0][0];
    vp_assert(psAuth || psListedT || (g_st.L[pq] == pre.L[pq] || ((cfg & 4) && inScope && pq == m.tq[0][0]) || ((cfg & 8) && inScope && pq == m.dq[0][0])
                                      || (g_policy == 1 && pre.L[pq] == LvAutoTrusted && g_st.L[pq] == LvAutoDistrusted)),
              "C18 a held-back decision takes effect only when its sender's key becomes authenticated");
    extAssertRef(ref);
}

// ------------------------------------------------------------------------------------------------ two / three events
// C18_CFG: bit 0: 0 = second message AUTHENTICATES S's key, 1 = second message DISTRUSTS S's key and a third one authenticates it;
// bit 1 direction of the decision in S's message (1 = trust); bit 2: S is the contact's key C (deciding about a key of the contact)
// / 0: S is the own account's second key B (deciding about a key of the contact: cross-account, allowed for own devices);
// bits 8-9 postponed-decision slots of the pre-state (symState of h.cpp).  The deciding messages 2 and 3 come from another own
// device whose key A is Authenticated.  Symbolic: all other levels (S's level: any but Authenticated), which key S decides about,
// the pre-state postponed decisions.
extern "C" void h_ext_two()
{
    World w;
    unsigned cfg = vp_c18_cfg();
    bool kindDistrust = cfg & 1, dirTrust = cfg & 2, sContact = cfg & 4;
    unsigned S = sContact ? 'C' : 'B';
    symState(g_st, (cfg >> 8) & 3);
    g_st.L[0] = LvAuthenticated;
    g_st.L[S - 'A'] = (unsigned char)extLevelNotAuth();
    TrustState ref = g_st;
    const TrustState pre = g_st;

    // event 1: S's device sends a decision about a key K1 of the contact
    ExtMsg m1; extClear(m1);
    m1.sOwn = !sContact; m1.senderKey = S; m1.nOwners = 1; m1.oAcct[0] = 'c';
    unsigned K1 = 2 + (vp_bool() ? 1 : 0);
    if (dirTrust) { m1.nT[0] = 1; m1.tq[0][0] = K1; } else { m1.nD[0] = 1; m1.dq[0][0] = K1; }
    extDeliver(w, m1);
    extRef(ref, m1);
    vp_assert(sameLevels(g_st, pre), "C18 decisions of a sender whose key is not authenticated change no trust level");
    extAssertRef(ref);
    vp_assume(extNoSameDecisionTwice(ref));   // bound (3) of symState must also hold for the state the next event starts from
    const TrustState mid = g_st;

    // event 2: own device with authenticated key A decides about S's key
    ExtMsg m2; extClear(m2);
    m2.sOwn = true; m2.senderKey = 'A'; m2.nOwners = 1; m2.oAcct[0] = sContact ? 'c' : 'o';
    if (kindDistrust) { m2.nD[0] = 1; m2.dq[0][0] = S - 'A'; } else { m2.nT[0] = 1; m2.tq[0][0] = S - 'A'; }
    extDeliver(w, m2);
    extRef(ref, m2);
    extAssertRef(ref);
    bool heldBack = false;   // S's decision about K1 is gone from the table in both cases
    for (int i = 0; i < PCAP; i++) { if (g_st.P[i].used && g_st.P[i].s == S) heldBack = true; }
    vp_assert(!heldBack, "C18 decisions held back for S are retired when S's key is authenticated or distrusted");
    if (!kindDistrust) {
        if (((cfg >> 8) & 3) == 0 && K1 != S - 'A')
            vp_assert(g_st.L[K1] == (dirTrust ? LvAuthenticated : LvManDistrusted), "C18 the held-back decision takes effect when the sender's key becomes authenticated");
        return;
    }
    // event 3: S's key is authenticated after all - the discarded decision must not come back
    ExtMsg m3; extClear(m3);
    m3.sOwn = true; m3.senderKey = 'A'; m3.nOwners = 1; m3.oAcct[0] = sContact ? 'c' : 'o';
    m3.nT[0] = 1; m3.tq[0][0] = S - 'A';
    const TrustState before3 = g_st;
    extDeliver(w, m3);
    extRef(ref, m3);
    extAssertRef(ref);
    if (((cfg >> 8) & 3) == 0 && K1 != S - 'A')
        vp_assert(g_st.L[K1] == before3.L[K1] || (g_policy == 1 && before3.L[K1] == LvAutoTrusted && g_st.L[K1] == LvAutoDistrusted),
                  "C18 a decision discarded because its sender's key was distrusted is never applied, even if that key is authenticated later");
}

// ------------------------------------------------------------------------------------------------ messages that must change nothing
// C18_CFG: bits 0-1: 0 = no e2ee metadata (empty sender key), 1 = foreign usage namespace, 2 = no trust message element;
// bit 2 / 3: one trusted / one distrusted key listed; bits 8-9 pre-state postponed slots.  Sender account, resource, owner account,
// key ids, pre-state symbolic; in cases 1 and 2 the sender key is symbolic as well (may be an Authenticated one).
extern "C" void h_ext_inert()
{
    World w;
    unsigned cfg = vp_c18_cfg();
    unsigned kind = cfg & 3;
    symState(g_st, (cfg >> 8) & 3);
    TrustState ref = g_st;
    const TrustState pre = g_st;
    ExtMsg m; extClear(m);
    m.sOwn = vp_bool(); m.res1 = vp_bool();
    m.usage = kind == 0 ? 0 : (int)kind;
    if (kind == 0) m.senderKey = 0;
    else { unsigned sk = vp_u8(); vp_assume(sk < 3); m.senderKey = sk == 2 ? KEY_X : (m.sOwn ? 'A' : 'C') + sk; }
    m.nOwners = 1;
    bool own = vp_bool(); m.oAcct[0] = own ? 'o' : 'c';
    if (cfg & 4) { m.nT[0] = 1; m.tq[0][0] = (own ? 0 : 2) + (vp_bool() ? 1 : 0); }
    if (cfg & 8) { m.nD[0] = 1; m.dq[0][0] = (own ? 0 : 2) + (vp_bool() ? 1 : 0); }
    extDeliver(w, m);
    extRef(ref, m);
    vp_assert(sameLevels(g_st, pre), "C18 a message without sender key / not an ATM trust message changes no trust level");
    if (kind != 0) vp_assert(subsetPostponed(g_st, pre) && subsetPostponed(pre, g_st), "C18 a message that is not an ATM trust message holds nothing back either");
    vp_assert(subsetPostponed(pre, g_st), "C18 a message without sender key fires or discards no held-back decision");
    extAssertRef(ref);
}

// ------------------------------------------------------------------------------------------------ list shapes
// C18_CFG: bit 0: the first owner lists 2 TRUSTED keys / 1: 2 DISTRUSTED keys; bit 1: a second owner entry with one key of the
// opposite kind follows (its account symbolic: same owner twice, or the other account - the own account among a contact's list);
// bits 8-9 pre-state postponed slots.  Sender account / resource / key, owner accounts and all key ids symbolic (keys may coincide
// with each other and with the sender key).  Needs MAX_KEYS=2 (group cxxdefs).
extern "C" void h_ext_lists()
{
    World w;
    unsigned cfg = vp_c18_cfg();
    symState(g_st, (cfg >> 8) & 3);
    TrustState ref = g_st;
    const TrustState pre = g_st;
    ExtMsg m; extClear(m);
    m.sOwn = vp_bool(); m.res1 = vp_bool();
    unsigned sk = vp_u8(); vp_assume(sk < 3); m.senderKey = sk == 2 ? KEY_X : (m.sOwn ? 'A' : 'C') + sk;
    m.nOwners = (cfg & 2) ? 2 : 1;
    bool own0 = vp_bool(); m.oAcct[0] = own0 ? 'o' : 'c';
    unsigned b0 = own0 ? 0 : 2;
    if (cfg & 1) { m.nD[0] = 2; m.dq[0][0] = b0 + (vp_bool() ? 1 : 0); m.dq[0][1] = b0 + (vp_bool() ? 1 : 0); }
    else { m.nT[0] = 2; m.tq[0][0] = b0 + (vp_bool() ? 1 : 0); m.tq[0][1] = b0 + (vp_bool() ? 1 : 0); }
    if (cfg & 2) {
        bool own1 = vp_bool(); m.oAcct[1] = own1 ? 'o' : 'c';
        unsigned b1 = own1 ? 0 : 2;
        if (cfg & 1) { m.nT[1] = 1; m.tq[1][0] = b1 + (vp_bool() ? 1 : 0); } else { m.nD[1] = 1; m.dq[1][0] = b1 + (vp_bool() ? 1 : 0); }
    }
    extDeliver(w, m);
    extRef(ref, m);
    bool echo = m.sOwn && m.res1;
    bool senderAuth = m.senderKey != KEY_X && pre.L[m.senderKey - 'A'] == LvAuthenticated;
    vp_assert(!(echo || !senderAuth) || sameLevels(g_st, pre), "C18 no trust level changes unless the sender's own key is authenticated and the message is not an echo of this device");
    vp_assert(m.sOwn || (g_st.L[0] == pre.L[0] && g_st.L[1] == pre.L[1]), "C18 a contact's trust message changes no key of another account");
    vp_assert(!echo || (subsetPostponed(g_st, pre) && subsetPostponed(pre, g_st)), "C18 an echo of this device's own trust message is ignored (nothing held back either)");
    extAssertRef(ref);
}
