/* C18: property-specific environment (C side).  Included after g.c, base.h, qt_core.c, qt_list.c. */
void vp_c18_limit(uint8_t ok) { ASSERT(ok, "C18 model limit (container capacity / key universe) exceeded"); ASSUME(ok); }
uint8_t vp_c18_false(void) { return 0; }
#ifndef C18_POLICY
#define C18_POLICY 2
#endif
/* security policy of the storage: constant per instance (0 none, 1 TOAKAFA) or symbolic (2) */
uint32_t vp_c18_policy(void) {
#if C18_POLICY == 2
  return vp_bool();
#else
  return C18_POLICY;
#endif
}
#ifndef C18_CFG
#define C18_CFG 0
#endif
uint32_t vp_c18_cfg(void) { return C18_CFG; }

/* ---- universe strings: one fresh block per string, 1 or 3 units, content may be symbolic; blocks are immutable ("static":
   reference count -1, so reference counting is read-only and nobody modifies them in place) ---- */
void vp_c18_str1(char *out, uint16_t c) { QAD *d = qs_new(1, 1); SD(d)[0] = c; qs_seal(d, 0); REF(d) = (uint32_t)-1; *(QAD**)out = d; }
void vp_c18_str3(char *out, uint16_t c0, uint16_t c1, uint16_t c2) { QAD *d = qs_new(3, 3); SD(d)[0] = c0; SD(d)[1] = c1; SD(d)[2] = c2; qs_seal(d, 0); REF(d) = (uint32_t)-1; *(QAD**)out = d; }
void vp_c18_bytes1(char *out, uint8_t c) { QAD *d = qb_new(1, 1); BD(d)[0] = c; BD(d)[1] = 0; REF(d) = (uint32_t)-1; *(QAD**)out = d; }
/* universe constants: one immutable block per account / key id, created once (vp_c18_init); a symbolic universe element is a
   choice between these few blocks (cbmc's value sets are per object, so few long-lived blocks beat many fresh ones) */
static QAD *c18_uo[2], *c18_uk[5];
static QAD *c18_mk16(uint16_t c) { QAD *d = qs_new(1, 1); SD(d)[0] = c; qs_seal(d, 0); REF(d) = (uint32_t)-1; return d; }
static QAD *c18_mk8(uint8_t c) { QAD *d = qb_new(1, 1); BD(d)[0] = c; BD(d)[1] = 0; REF(d) = (uint32_t)-1; return d; }
void vp_c18_owner_str(char *out, uint32_t code) { ASSUME(code == 'o' || code == 'c'); *(QAD**)out = code == 'o' ? c18_uo[0] : c18_uo[1]; }
void vp_c18_key_str(char *out, uint32_t code) { ASSUME(code == 'X' || (code >= 'A' && code <= 'D'));
  *(QAD**)out = code == 'A' ? c18_uk[0] : code == 'B' ? c18_uk[1] : code == 'C' ? c18_uk[2] : code == 'D' ? c18_uk[3] : c18_uk[4]; }
/* code of a 1-unit string / 1-byte array (0 for anything else) */
/* code of a string: 0 = empty, the unit of a 1-unit MODEL block, C18_UNKNOWN for anything else (longer strings, static literals):
   callers flag a model limit (the containers / the storage of this harness only ever see universe elements or empty strings) */
#define C18_UNKNOWN 0xFFFFFFFFu
/* cbmc's value sets are per object, not per field: a pointer loaded from a slot that holds strings may, as far as symex knows,
   also denote a byte-array block stored elsewhere in the same object (and vice versa).  Such alternatives are infeasible; they get
   code 0 here instead of a generic comparison over a mistyped block, and an assertion makes sure they really are infeasible. */
static uint32_t c18_code16(QAD *d) { if (d->f1 == 0) return 0; if (d->f3 == QS_OFF) return d->f1 == 1 ? SD(d)[0] : C18_UNKNOWN;
  if (d->f3 == QB_OFF) { ASSERT(0, "C18: byte-array block where a string is expected"); return 0; } return C18_UNKNOWN; }
static uint32_t c18_code8(QAD *d) { if (d->f1 == 0) return 0; if (d->f3 == QB_OFF) return d->f1 == 1 ? BD(d)[0] : C18_UNKNOWN;
  if (d->f3 == QS_OFF) { ASSERT(0, "C18: string block where a byte array is expected"); return 0; } return C18_UNKNOWN; }
uint32_t vp_c18_jid_code(char *s) { return c18_code16(*(QAD**)s); }
uint32_t vp_c18_key_code(char *s) { return c18_code8(*(QAD**)s); }

/* ---- QList<QByteArray> / QList<QString> readers for the storage model (elements are stored in place: array[j] = d pointer) ---- */
#ifdef HAVE_T_struct_QListData__Data
uint32_t vp_c18_list_len(char *l) { struct ld *d = LD(l); return d->end - d->begin; }
uint8_t vp_c18_list_has_key(char *l, uint32_t code) { struct ld *d = LD(l); uint8_t r = 0;
  for (uint32_t j = 0; j < LIST_CAP; j++) { if (j < d->end) { uint32_t c = c18_code8((QAD*)d->array[j]); ASSERT(c != C18_UNKNOWN, "C18: key id that was not built by the string model"); if (c == code) r = 1; } } return r; }
uint8_t vp_c18_list_has_jid(char *l, uint32_t code) { struct ld *d = LD(l); uint8_t r = 0;
  for (uint32_t j = 0; j < LIST_CAP; j++) { if (j < d->end) { uint32_t c = c18_code16((QAD*)d->array[j]); ASSERT(c != C18_UNKNOWN, "C18: JID that was not built by the string model"); if (c == code) r = 1; } } return r; }
uint32_t vp_c18_list_key(char *l, uint32_t j) { struct ld *d = LD(l); ASSUME(j < LIST_CAP); return j < d->end ? c18_code8((QAD*)d->array[j]) : 0; }   /* C18_UNKNOWN is rejected by Store::addOne */

/* ---- class-level model of QList<T> block management for the three in-place element types of this property
   (QByteArray, QString: one QArrayData pointer per node; QXmppTrustMessageKeyOwner: one QSharedDataPointer per node).
   Overridden inline members: append(const T&), detach_helper(int), detach_helper(), detach_helper_grow, QList(const QList&),
   operator+=(const QList&) (QString), dealloc.  The rest of QList<T> (iterators, at, size, isEmpty, erase, swap, ...) is real code
   over the QListData model of qt_list.c.
   Why: (1) typed stores `blk->array[end] = x` (a store through the raw node pointer returned by QListData::append is a byte-level
   update of the whole block once `end` is symbolic); (2) every slot of every block always holds a VALID element of the list's own
   element type (a filler beyond `end`): loops over a list of symbolic length read slots under guards symex cannot refute, and an
   uninitialised slot would be a pointer to an unknown object there; (3) the static null block is recognised by ADDRESS so that
   the first append takes one path.  Blocks and elements are never freed; reference counts of elements are over-approximated. ---- */
#ifdef HAVE_G__ZN9QListData11shared_nullE
#define C18_IS_NULL_LIST(d) ((char*)(d) == (char*)&G__ZN9QListData11shared_nullE)
#else
#define C18_IS_NULL_LIST(d) 0
#endif
static QAD *c18_empty_qb, *c18_empty_qs;   /* fillers: empty MODEL blocks; their length hint is 1 like that of the universe strings, so that loop bounds
   of the string model stay constant when a pointer is a merge of universe strings and fillers */
void vp_c18_empty_str(char *out) { *(QAD**)out = c18_empty_qs; }
void vp_c18_empty_bytes(char *out) { *(QAD**)out = c18_empty_qb; }
static char *c18_dummy_owner;              /* filler: d pointer of a default-constructed QXmppTrustMessageKeyOwner */
void vp_c18_set_dummy_owner(char *o) { c18_dummy_owner = *(char**)o; }
char* vp_c18_list_owner(char *l, uint32_t j) { struct ld *d = LD(l); ASSUME(j < LIST_CAP); return (char*)&d->array[j]; }
enum { C18_B, C18_S, C18_K };
static char *c18_filler(int kind) { return kind == C18_B ? (char*)c18_empty_qb : kind == C18_S ? (char*)c18_empty_qs : c18_dummy_owner; }
static char *c18_elem_ref(int kind, char *e) { if (kind == C18_K) (*(int32_t*)e)++; else qad_ref((QAD*)e); return e; }
static struct ld *c18_list_fresh(int kind) { struct ld *t = malloc(sizeof(struct ld)); ASSUME(t != 0); t->ref = 1; t->alloc = LIST_CAP; t->begin = 0; t->end = 0;
  for (uint32_t j = 0; j < LIST_CAP; j++) t->array[j] = c18_filler(kind); return t; }
static void c18_list_copy_elems(int kind, struct ld *t, struct ld *d) { uint32_t n = d->end - d->begin; ASSERT(n <= LIST_CAP, "QList capacity of the model exceeded"); ASSUME(n <= LIST_CAP);
  for (uint32_t j = 0; j < LIST_CAP; j++) { if (j < n) t->array[j] = c18_elem_ref(kind, d->array[d->begin + j]); } t->end = n; }
/* private, appendable block for the list object */
static void c18_list_detach(int kind, char *self, int force) { struct ld *d = LD(self);
  if (C18_IS_NULL_LIST(d)) { LD(self) = c18_list_fresh(kind); return; }
  if (force || d->ref != 1) { struct ld *t = c18_list_fresh(kind); c18_list_copy_elems(kind, t, d); if (d->ref != (uint32_t)-1 && d->ref != 0) d->ref--; LD(self) = t; } }
static void c18_list_append_d(int kind, char *self, char *x) { c18_list_detach(kind, self, 0); struct ld *d = LD(self); uint32_t e = d->end;
  ASSERT(e < LIST_CAP, "QList capacity of the model exceeded"); ASSUME(e < LIST_CAP); d->array[e] = c18_elem_ref(kind, x); d->end = e + 1; }
void vp_c18_init(void) { c18_uo[0] = c18_mk16('o'); c18_uo[1] = c18_mk16('c'); c18_uk[0] = c18_mk8('A'); c18_uk[1] = c18_mk8('B'); c18_uk[2] = c18_mk8('C'); c18_uk[3] = c18_mk8('D'); c18_uk[4] = c18_mk8('X');
  c18_empty_qb = qb_new(0, 1); REF(c18_empty_qb) = (uint32_t)-1; c18_empty_qs = qs_new(0, 1); qs_seal(c18_empty_qs, 0); REF(c18_empty_qs) = (uint32_t)-1; }
void _ZN5QListI10QByteArrayE6appendERKS0_(char *self, char *t) { c18_list_append_d(C18_B, self, *(char**)t); }
void _ZN5QListI10QByteArrayE13detach_helperEi(char *self, uint32_t alloc) { c18_list_detach(C18_B, self, 1); }
void _ZN5QListI10QByteArrayE13detach_helperEv(char *self) { c18_list_detach(C18_B, self, 1); }
char* _ZN5QListI10QByteArrayE18detach_helper_growEii(char *self, uint32_t i, uint32_t c) { ASSERT(0, "C18: QList<T>::detach_helper_grow is not modelled (insert / prepend on shared lists)"); ASSUME(0); return 0; }
void _ZN5QListI10QByteArrayEC2ERKS1_(char *self, char *o) { struct ld *d = LD(o); if (d->ref != (uint32_t)-1 && d->ref != 0) d->ref++; LD(self) = d; }
void _ZN5QListI10QByteArrayE7deallocEPN9QListData4DataE(char *self, char *d) { }
void _ZN5QListI7QStringE6appendERKS0_(char *self, char *t) { c18_list_append_d(C18_S, self, *(char**)t); }
void _ZN5QListI7QStringE13detach_helperEi(char *self, uint32_t alloc) { c18_list_detach(C18_S, self, 1); }
void _ZN5QListI7QStringE13detach_helperEv(char *self) { c18_list_detach(C18_S, self, 1); }
char* _ZN5QListI7QStringE18detach_helper_growEii(char *self, uint32_t i, uint32_t c) { ASSERT(0, "C18: QList<T>::detach_helper_grow is not modelled (insert / prepend on shared lists)"); ASSUME(0); return 0; }
void _ZN5QListI7QStringEC2ERKS1_(char *self, char *o) { struct ld *d = LD(o); if (d->ref != (uint32_t)-1 && d->ref != 0) d->ref++; LD(self) = d; }
void _ZN5QListI7QStringE7deallocEPN9QListData4DataE(char *self, char *d) { }
void _ZN5QListI25QXmppTrustMessageKeyOwnerE6appendERKS0_(char *self, char *t) { c18_list_append_d(C18_K, self, *(char**)t); }
void _ZN5QListI25QXmppTrustMessageKeyOwnerE13detach_helperEi(char *self, uint32_t alloc) { c18_list_detach(C18_K, self, 1); }
void _ZN5QListI25QXmppTrustMessageKeyOwnerE13detach_helperEv(char *self) { c18_list_detach(C18_K, self, 1); }
char* _ZN5QListI25QXmppTrustMessageKeyOwnerE18detach_helper_growEii(char *self, uint32_t i, uint32_t c) { ASSERT(0, "C18: QList<T>::detach_helper_grow is not modelled (insert / prepend on shared lists)"); ASSUME(0); return 0; }
void _ZN5QListI25QXmppTrustMessageKeyOwnerEC2ERKS1_(char *self, char *o) { struct ld *d = LD(o); if (d->ref != (uint32_t)-1 && d->ref != 0) d->ref++; LD(self) = d; }
void _ZN5QListI25QXmppTrustMessageKeyOwnerE7deallocEPN9QListData4DataE(char *self, char *d) { }
char* _ZN5QListI7QStringEpLERKS1_(char *self, char *l) { struct ld *s = LD(l); uint32_t n = s->end - s->begin;
  for (uint32_t j = 0; j < LIST_CAP; j++) { if (j < n) c18_list_append_d(C18_S, self, s->array[s->begin + j]); } return self; }
/* QtPrivate::RefCount::ref / deref (inline Qt code over std::atomic): same semantics, one step */
uint8_t _ZN9QtPrivate8RefCount3refEv(char *self) { int32_t c = *(int32_t*)self; if (c == 0) return 0; if (c != -1) *(int32_t*)self = c + 1; return 1; }
uint8_t _ZN9QtPrivate8RefCount5derefEv(char *self) { int32_t c = *(int32_t*)self; if (c == 0) return 0; if (c == -1) return 1; *(int32_t*)self = c - 1; return c - 1 != 0; }
#endif

/* ---- dynamic_cast<QXmppAtmTrustStorage*>(QXmppTrustStorage*) in QXmppAtmManager::trustStorage(): the only storage object of a
   harness is the Store model; the harness registers the address of its QXmppAtmTrustStorage subobject ---- */
static char *c18_atm_storage;
void vp_c18_set_atm_storage(char *p) { c18_atm_storage = p; }
char* __dynamic_cast(char *src, char *st, char *dt, uint64_t hint) { return src ? c18_atm_storage : 0; }

/* ---- QXmppAtmManager::sendTrustMessage (builds a QXmppMessage and hands it to QXmppClient::sendSensitive): outside the claim,
   replaced by a recorder; the returned task is built by a harness hook (nobody waits for it) ---- */
uint32_t vp_c18_nsend;
uint32_t vp_c18_sends(void) { return vp_c18_nsend; }
void F_vp_c18_send_hook(char *ret);
void _ZN15QXmppAtmManager16sendTrustMessageERK7QStringRK5QListI25QXmppTrustMessageKeyOwnerES2_(char *ret, char *self, char *enc, char *owners, char *to) { vp_c18_nsend++; F_vp_c18_send_hook(ret); }

/* QDateTime member of QXmppE2eeMetadataPrivate: opaque word */
void _ZN9QDateTimeC1Ev(char *self) { *(char**)self = 0; }
void _ZN9QDateTimeC1ERKS_(char *self, char *o) { *(char**)self = *(char**)o; }
void _ZN9QDateTimeC1EOS_(char *self, char *o) { *(char**)self = *(char**)o; }
void _ZN9QDateTimeD1Ev(char *self) { }
char* _ZN9QDateTimeaSERKS_(char *self, char *o) { *(char**)self = *(char**)o; return self; }
/* manual decisions about own keys: the contact JIDs of the follow-up trust message are sorted and de-duplicated with std::sort /
   std::unique (libstdc++ introsort over QList<QString>::iterator).  Only the ARGUMENTS of sendTrustMessage depend on it (outside
   the claim, see the recorder above): both are cut (list left as is, nothing reported as duplicate). */
void _ZSt4sortIN5QListI7QStringE8iteratorEEvT_S4_(char *first, char *last) { }
void _ZSt6uniqueIN5QListI7QStringE8iteratorEET_S4_S4_(char *ret, char *first, char *last) { *(char**)ret = *(char**)last; }
