/* C18: property-specific environment (C side).  Included after g.c, base.h, qt_core.c, qt_list.c. */
void vp_c18_limit(uint8_t ok) { ASSERT(ok, "C18 model limit (container capacity / key universe) exceeded"); ASSUME(ok); }
uint8_t vp_c18_false(void) { return 0; }
#ifndef C18_POLICY
#define C18_POLICY 2
#endif
/* security policy of the storage: constant per instance (0 none, 1 TOAKAFA) or symbolic (2) */
uint32_t vp_c18_policy(void) {
#if C18_POLICY == 2
  return vp_bool();
#else
  return C18_POLICY;
#endif
}
#ifndef C18_CFG
#define C18_CFG 0
#endif
uint32_t vp_c18_cfg(void) { return C18_CFG; }

/* ---- universe strings: one fresh block per string, 1 or 3 units, content may be symbolic; blocks are immutable ("static":
   reference count -1, so reference counting is read-only and nobody modifies them in place) ---- */
void vp_c18_str1(char *out, uint16_t c) { QAD *d = qs_new(1, 1); SD(d)[0] = c; qs_seal(d, 0); REF(d) = (uint32_t)-1; *(QAD**)out = d; }
void vp_c18_str3(char *out, uint16_t c0, uint16_t c1, uint16_t c2) { QAD *d = qs_new(3, 3); SD(d)[0] = c0; SD(d)[1] = c1; SD(d)[2] = c2; qs_seal(d, 0); REF(d) = (uint32_t)-1; *(QAD**)out = d; }
void vp_c18_bytes1(char *out, uint8_t c) { QAD *d = qb_new(1, 1); BD(d)[0] = c; BD(d)[1] = 0; REF(d) = (uint32_t)-1; *(QAD**)out = d; }
/* universe constants: one immutable block per account / key id, created once (vp_c18_init); a symbolic universe element is a
   choice between these few blocks (cbmc's value sets are per object, so few long-lived blocks beat many fresh ones) */
static QAD *c18_uo[2], *c18_uk[5];
static QAD *c18_mk16(uint16_t c) { QAD *d = qs_new(1, 1); SD(d)[0] = c; qs_seal(d, 0); REF(d) = (uint32_t)-1; return d; }
static QAD *c18_mk8(uint8_t c) { QAD *d = qb_new(1, 1); BD(d)[0] = c; BD(d)[1] = 0; REF(d) = (uint32_t)-1; return d; }
void vp_c18_owner_str(char *out, uint32_t code) { ASSUME(code == 'o' || code == 'c'); *(QAD**)out = code == 'o' ? c18_uo[0] : c18_uo[1]; }
void vp_c18_key_str(char *out, uint32_t code) { ASSUME(code == 'X' || (code >= 'A' && code <= 'D'));
  *(QAD**)out = code == 'A' ? c18_uk[0] : code == 'B' ? c18_uk[1] : code == 'C' ? c18_uk[2] : code == 'D' ? c18_uk[3] : c18_uk[4]; }
/* code of a 1-unit string / 1-byte array (0 for anything else) */
/* only MODEL blocks carry a code (static literals and foreign blocks are "unknown" = 0: callers fall back to the generic comparison or flag a model limit) */
static uint32_t c18_code16(QAD *d) { if (d->f3 != QS_OFF || d->f1 != 1) return 0; return SD(d)[0]; }
static uint32_t c18_code8(QAD *d) { if (d->f3 != QB_OFF || d->f1 != 1) return 0; return BD(d)[0]; }
uint32_t vp_c18_jid_code(char *s) { return c18_code16(*(QAD**)s); }
uint32_t vp_c18_key_code(char *s) { return c18_code8(*(QAD**)s); }

/* ---- QList<QByteArray> / QList<QString> readers for the storage model (elements are stored in place: array[j] = d pointer) ---- */
#ifdef HAVE_T_struct_QListData__Data
uint32_t vp_c18_list_len(char *l) { struct ld *d = LD(l); return d->end - d->begin; }
uint8_t vp_c18_list_has_key(char *l, uint32_t code) { struct ld *d = LD(l); uint8_t r = 0;
  for (uint32_t j = 0; j < LIST_CAP; j++) { if (j < d->end && c18_code8((QAD*)d->array[j]) == code) r = 1; } return r; }
uint8_t vp_c18_list_has_jid(char *l, uint32_t code) { struct ld *d = LD(l); uint8_t r = 0;
  for (uint32_t j = 0; j < LIST_CAP; j++) { if (j < d->end && c18_code16((QAD*)d->array[j]) == code) r = 1; } return r; }
uint32_t vp_c18_list_key(char *l, uint32_t j) { struct ld *d = LD(l); ASSUME(j < LIST_CAP); return j < d->end ? c18_code8((QAD*)d->array[j]) : 0; }

/* class-level overrides of QList<T>::append(const T&) for in-place element types (QByteArray, QString: one d pointer per node):
   typed store at array[end] (a store through the raw node pointer returned by QListData::append would be a byte-level update
   of the whole block once `end` is symbolic).  A shared / static-null block is replaced by a private copy first. */
static char *c18_dummy_owner;   /* d pointer of a default-constructed QXmppTrustMessageKeyOwner: filler of unused QList<QXmppTrustMessageKeyOwner> slots */
void vp_c18_set_dummy_owner(char *o) { c18_dummy_owner = *(char**)o; }
char* vp_c18_list_owner(char *l, uint32_t j) { struct ld *d = LD(l); ASSUME(j < LIST_CAP); return (char*)&d->array[j]; }
#ifdef HAVE_G__ZN9QListData11shared_nullE
#define C18_IS_NULL_LIST(d) ((char*)(d) == (char*)&G__ZN9QListData11shared_nullE)
#else
#define C18_IS_NULL_LIST(d) 0
#endif
static struct ld *c18_list_fresh(char *filler) { struct ld *t = malloc(sizeof(struct ld)); ASSUME(t != 0); t->ref = 1; t->alloc = LIST_CAP; t->begin = 0; t->end = 0;
  for (uint32_t j = 0; j < LIST_CAP; j++) t->array[j] = filler; return t; }
/* makes the list's block private and appendable; the common case (first append to a default-constructed list: the static null
   block, recognised by ADDRESS so that symex takes one path only) allocates a block whose unused slots hold `filler` */
static void c18_list_own(char *self, char *filler) { struct ld *d = LD(self);
  if (C18_IS_NULL_LIST(d)) { LD(self) = c18_list_fresh(filler); return; }
  if (d->ref != 1) { struct ld *t = c18_list_fresh(filler); t->end = d->end - d->begin;
    for (uint32_t j = 0; j < LIST_CAP; j++) { if (j < t->end) { QAD *e = (QAD*)d->array[d->begin + j]; qad_ref(e); t->array[j] = (char*)e; } }
    if (d->ref != (uint32_t)-1 && d->ref != 0) d->ref--;
    LD(self) = t; } }
/* fillers of unused list slots: empty MODEL blocks of the element's own block type (typed reads of every merge alternative fold) */
static QAD *c18_empty_qb, *c18_empty_qs;
void vp_c18_init(void) { c18_uo[0] = c18_mk16('o'); c18_uo[1] = c18_mk16('c'); c18_uk[0] = c18_mk8('A'); c18_uk[1] = c18_mk8('B'); c18_uk[2] = c18_mk8('C'); c18_uk[3] = c18_mk8('D'); c18_uk[4] = c18_mk8('X');
  c18_empty_qb = qb_new(0, 0); REF(c18_empty_qb) = (uint32_t)-1; c18_empty_qs = qs_new(0, 0); qs_seal(c18_empty_qs, 0); REF(c18_empty_qs) = (uint32_t)-1; }
static void c18_list_append(char *self, char *t, char *filler) { c18_list_own(self, filler); struct ld *d = LD(self); uint32_t e = d->end; ASSERT(e < LIST_CAP, "QList capacity of the model exceeded"); ASSUME(e < LIST_CAP);
  QAD *x = *(QAD**)t; qad_ref(x); d->array[e] = (char*)x; d->end = e + 1; }
void _ZN5QListI10QByteArrayE6appendERKS0_(char *self, char *t) { c18_list_append(self, t, (char*)c18_empty_qb); }
void _ZN5QListI7QStringE6appendERKS0_(char *self, char *t) { c18_list_append(self, t, (char*)c18_empty_qs); }
/* QList<QXmppTrustMessageKeyOwner> (one QSharedDataPointer per node; reference count = first word of the private object) */
void _ZN5QListI25QXmppTrustMessageKeyOwnerE6appendERKS0_(char *self, char *t) { struct ld *d = LD(self);
  ASSERT(C18_IS_NULL_LIST(d) || d->ref == 1, "C18: append to a shared non-empty QList<QXmppTrustMessageKeyOwner>"); if (C18_IS_NULL_LIST(d)) LD(self) = c18_list_fresh(c18_dummy_owner); d = LD(self);
  uint32_t e = d->end; ASSERT(e < LIST_CAP, "QList capacity of the model exceeded"); ASSUME(e < LIST_CAP);
  char *x = *(char**)t; (*(int32_t*)x)++; d->array[e] = x; d->end = e + 1; }
void _ZN5QListI25QXmppTrustMessageKeyOwnerE7deallocEPN9QListData4DataE(char *self, char *d) { }
/* QtPrivate::RefCount::ref / deref (inline Qt code over std::atomic): same semantics, one step */
uint8_t _ZN9QtPrivate8RefCount3refEv(char *self) { int32_t c = *(int32_t*)self; if (c == 0) return 0; if (c != -1) *(int32_t*)self = c + 1; return 1; }
uint8_t _ZN9QtPrivate8RefCount5derefEv(char *self) { int32_t c = *(int32_t*)self; if (c == 0) return 0; if (c == -1) return 1; *(int32_t*)self = c - 1; return c - 1 != 0; }
/* element destruction of dying list blocks: blocks and strings are never recycled by the models, reference counts of the elements
   stay over-approximated (forces copies where Qt would modify in place; values unchanged) */
void _ZN5QListI10QByteArrayE7deallocEPN9QListData4DataE(char *self, char *d) { }
void _ZN5QListI7QStringE7deallocEPN9QListData4DataE(char *self, char *d) { }
#endif

/* ---- dynamic_cast<QXmppAtmTrustStorage*>(QXmppTrustStorage*) in QXmppAtmManager::trustStorage(): the only storage object of a
   harness is the Store model; the harness registers the address of its QXmppAtmTrustStorage subobject ---- */
static char *c18_atm_storage;
void vp_c18_set_atm_storage(char *p) { c18_atm_storage = p; }
char* __dynamic_cast(char *src, char *st, char *dt, uint64_t hint) { return src ? c18_atm_storage : 0; }

/* ---- QXmppAtmManager::sendTrustMessage (builds a QXmppMessage and hands it to QXmppClient::sendSensitive): outside the claim,
   replaced by a recorder; the returned task is built by a harness hook (nobody waits for it) ---- */
uint32_t vp_c18_nsend;
uint32_t vp_c18_sends(void) { return vp_c18_nsend; }
void F_vp_c18_send_hook(char *ret);
void _ZN15QXmppAtmManager16sendTrustMessageERK7QStringRK5QListI25QXmppTrustMessageKeyOwnerES2_(char *ret, char *self, char *enc, char *owners, char *to) { vp_c18_nsend++; F_vp_c18_send_hook(ret); }

/* QDateTime member of QXmppE2eeMetadataPrivate: opaque word */
void _ZN9QDateTimeC1Ev(char *self) { *(char**)self = 0; }
void _ZN9QDateTimeC1ERKS_(char *self, char *o) { *(char**)self = *(char**)o; }
void _ZN9QDateTimeC1EOS_(char *self, char *o) { *(char**)self = *(char**)o; }
void _ZN9QDateTimeD1Ev(char *self) { }
char* _ZN9QDateTimeaSERKS_(char *self, char *o) { *(char**)self = *(char**)o; return self; }
