// C18: class-level models of the hash containers QXmppAtmManager / QXmppTrustManager pass around (DESIGN 2.3 "class-level
// containers"), installed as full C++ specialisations BEFORE the qxmpp code that uses them is compiled, so the REAL manager
// code is compiled against them unchanged.
//
//   QMultiHash<QString, QByteArray>                         key owner JID -> key id        (VpMHBlk, MH_CAP slots)
//   QHash<bool, QMultiHash<QString, QByteArray>>            postponed decisions by trust   (2 fixed slots)
//   QHash<QXmpp::TrustLevel, QMultiHash<QString,QByteArray>> keys by trust level           (2 fixed slots: ManuallyDistrusted, Authenticated)
//   QHash<QString, QMultiHash<QString, QByteArray>>         "modified keys" of setTrustLevel (always empty: see Store)
//
// Value semantics as implemented by Qt's implicit sharing: an object is a pointer to an IMMUTABLE block; copying copies the
// pointer, every mutation builds a new block (copy + change).  Every access is at a literal slot index (a mutation under a
// symbolic condition merges two block pointers, never produces a symbolic index).  Duplicates are kept (multi-hash).
// Iteration (const iterators, find, range-for) in slot order (Qt's order is unspecified).  Exceeding the capacity is a MODEL failure (inconclusive).
// Blocks are never freed.
#pragma once
#include <QString>
#include <QByteArray>
#include <QList>
#include <QHash>
#include "QXmppTrustLevel.h"
extern "C" void vp_c18_limit(bool ok);   // c18_env.c: ASSERT(ok, "..."), ASSUME(ok)

extern "C" unsigned vp_c18_jid_code(const QString *s);      // 0 = empty, unit of a 1-unit model string, C18_UNKNOWN otherwise
extern "C" unsigned vp_c18_key_code(const QByteArray *s);   // same for byte arrays
#define C18_UNKNOWN 0xFFFFFFFFu
extern "C" void vp_c18_empty_str(QString *out);
extern "C" void vp_c18_empty_bytes(QByteArray *out);
// equality of keys / values through their codes: exact for empty and 1-unit strings; anything else in these containers is a model
// limit (flagged, inconclusive).  The generic operator== of the string model is avoided on purpose: symex also evaluates it on the
// infeasible alternatives of merged pointers, where it walks mistyped blocks up to the model loop bound.
static inline bool vpEqS(const QString &a, const QString &b)
{
    unsigned x = vp_c18_jid_code(&a), y = vp_c18_jid_code(&b);
    vp_c18_limit(x != C18_UNKNOWN && y != C18_UNKNOWN);   // keys of these containers are universe elements (1 unit) or empty
    return x == y;
}
static inline bool vpEqB(const QByteArray &a, const QByteArray &b)
{
    unsigned x = vp_c18_key_code(&a), y = vp_c18_key_code(&b);
    vp_c18_limit(x != C18_UNKNOWN && y != C18_UNKNOWN);
    return x == y;
}
#ifndef MH_CAP
#define MH_CAP 4
#endif
struct VpMHBlk {
    bool used[MH_CAP];
    QString k[MH_CAP];
    QByteArray v[MH_CAP];
    VpMHBlk() { for (int i = 0; i < MH_CAP; i++) { used[i] = false; vp_c18_empty_str(&k[i]); vp_c18_empty_bytes(&v[i]); } }   // unused slots: empty MODEL strings
    VpMHBlk(const VpMHBlk &o) { for (int i = 0; i < MH_CAP; i++) { used[i] = o.used[i]; k[i] = o.k[i]; v[i] = o.v[i]; } }
};
extern VpMHBlk *vp_c18_mh_empty;   // shared empty block (created by c18Init())

template<> class QMultiHash<QString, QByteArray>
{
public:
    VpMHBlk *b;
    QMultiHash() : b(vp_c18_mh_empty) { }
    QMultiHash(const QMultiHash &o) : b(o.b) { }
    QMultiHash(QMultiHash &&o) : b(o.b) { }
    QMultiHash &operator=(const QMultiHash &o) { b = o.b; return *this; }
    QMultiHash &operator=(QMultiHash &&o) { b = o.b; return *this; }
    ~QMultiHash() { }

    bool isEmpty() const { for (int i = 0; i < MH_CAP; i++) { if (b->used[i]) return false; } return true; }
    int size() const { int n = 0; for (int i = 0; i < MH_CAP; i++) { if (b->used[i]) n++; } return n; }
    int count() const { return size(); }
    void insert(const QString &key, const QByteArray &value)
    {
        VpMHBlk *n = new VpMHBlk(*b);
        bool done = false;
        for (int i = 0; i < MH_CAP; i++) { if (!done && !n->used[i]) { n->k[i] = key; n->v[i] = value; n->used[i] = true; done = true; } }
        vp_c18_limit(done);
        b = n;
    }
    int remove(const QString &key)
    {
        VpMHBlk *n = new VpMHBlk(*b);
        int r = 0;
        for (int i = 0; i < MH_CAP; i++) { bool eq = vpEqS(n->k[i], key); r += (eq && n->used[i]) ? 1 : 0; n->used[i] = n->used[i] && !eq; }   // boolean form: folds when the comparison is constant
        b = n;
        return r;
    }
    bool contains(const QString &key, const QByteArray &value) const
    {
        bool r = false;
        for (int i = 0; i < MH_CAP; i++) { bool hit = vpEqS(b->k[i], key) && vpEqB(b->v[i], value) && b->used[i]; r = r || hit; }
        return r;
    }
    bool contains(const QString &key) const
    {
        bool r = false;
        for (int i = 0; i < MH_CAP; i++) { bool hit = vpEqS(b->k[i], key) && b->used[i]; r = r || hit; }
        return r;
    }
    QList<QByteArray> values() const { QList<QByteArray> r; for (int i = 0; i < MH_CAP; i++) { if (b->used[i]) r.append(b->v[i]); } return r; }
    QList<QByteArray> values(const QString &key) const { QList<QByteArray> r; for (int i = 0; i < MH_CAP; i++) { bool hit = vpEqS(b->k[i], key) && b->used[i]; if (hit) r.append(b->v[i]); } return r; }
    QList<QString> uniqueKeys() const
    {
        QList<QString> r;
        for (int i = 0; i < MH_CAP; i++) {
            if (!b->used[i]) continue;
            bool dup = false;
            for (int j = 0; j < i; j++) { if (b->used[j] && vpEqS(b->k[j], b->k[i])) dup = true; }
            if (!dup) r.append(b->k[i]);
        }
        return r;
    }
    // iterators: a position is a slot index; begin() / ++ move to the next slot in use (MH_CAP = end).  Under symbolic `used`
    // flags the index is a small symbolic number; key() / value() select the slot by an if-then-else over literal indices.
    // Read-only (the manager never writes through an iterator).
    class const_iterator
    {
    public:
        const VpMHBlk *b;
        int i;
        const_iterator() : b(nullptr), i(MH_CAP) { }
        const_iterator(const VpMHBlk *blk, int idx) : b(blk), i(idx) { }
        static int nextUsed(const VpMHBlk *blk, int after)   // smallest used slot index > after, else MH_CAP
        {
            int n = MH_CAP;
            for (int j = MH_CAP - 1; j >= 0; j--) { if (j > after && blk->used[j]) n = j; }
            return n;
        }
        const QString &key() const { const QString *r = &b->k[0]; for (int j = 1; j < MH_CAP; j++) { if (i == j) r = &b->k[j]; } vp_c18_limit(i >= 0 && i < MH_CAP); return *r; }
        const QByteArray &value() const { const QByteArray *r = &b->v[0]; for (int j = 1; j < MH_CAP; j++) { if (i == j) r = &b->v[j]; } vp_c18_limit(i >= 0 && i < MH_CAP); return *r; }
        const QByteArray &operator*() const { return value(); }
        const QByteArray *operator->() const { return &value(); }
        const_iterator &operator++() { i = nextUsed(b, i); return *this; }
        const_iterator operator++(int) { const_iterator r = *this; i = nextUsed(b, i); return r; }
        bool operator==(const const_iterator &o) const { return i == o.i; }
        bool operator!=(const const_iterator &o) const { return i != o.i; }
    };
    using iterator = const_iterator;
    using ConstIterator = const_iterator;
    using Iterator = const_iterator;
    const_iterator begin() const { return const_iterator(b, const_iterator::nextUsed(b, -1)); }
    const_iterator end() const { return const_iterator(b, MH_CAP); }
    const_iterator cbegin() const { return begin(); }
    const_iterator cend() const { return end(); }
    const_iterator constBegin() const { return begin(); }
    const_iterator constEnd() const { return end(); }
    const_iterator find(const QString &key) const
    {
        int n = MH_CAP;
        for (int j = MH_CAP - 1; j >= 0; j--) { bool hit = vpEqS(b->k[j], key) && b->used[j]; if (hit) n = j; }
        return const_iterator(b, n);
    }
    const_iterator find(const QString &key, const QByteArray &value) const
    {
        int n = MH_CAP;
        for (int j = MH_CAP - 1; j >= 0; j--) { bool hit = vpEqS(b->k[j], key) && vpEqB(b->v[j], value) && b->used[j]; if (hit) n = j; }
        return const_iterator(b, n);
    }
    const_iterator constFind(const QString &key) const { return find(key); }
    const_iterator constFind(const QString &key, const QByteArray &value) const { return find(key, value); }
    int count(const QString &key) const { int n = 0; for (int i = 0; i < MH_CAP; i++) { bool hit = vpEqS(b->k[i], key) && b->used[i]; n += hit ? 1 : 0; } return n; }
    int count(const QString &key, const QByteArray &value) const { int n = 0; for (int i = 0; i < MH_CAP; i++) { bool hit = vpEqS(b->k[i], key) && vpEqB(b->v[i], value) && b->used[i]; n += hit ? 1 : 0; } return n; }
    QList<QString> keys() const { QList<QString> r; for (int i = 0; i < MH_CAP; i++) { if (b->used[i]) r.append(b->k[i]); } return r; }
    QByteArray value(const QString &key) const { QByteArray r; for (int i = MH_CAP - 1; i >= 0; i--) { bool hit = vpEqS(b->k[i], key) && b->used[i]; if (hit) r = b->v[i]; } return r; }
    int remove(const QString &key, const QByteArray &value)
    {
        VpMHBlk *n = new VpMHBlk(*b);
        int r = 0;
        for (int i = 0; i < MH_CAP; i++) { bool eq = vpEqS(n->k[i], key) && vpEqB(n->v[i], value); r += (eq && n->used[i]) ? 1 : 0; n->used[i] = n->used[i] && !eq; }
        b = n;
        return r;
    }
    void clear() { b = vp_c18_mh_empty; }
    // model internals (the storage model plants entries at literal slots)
    void plant(int i, bool u, const QString &key, const QByteArray &value)
    {
        VpMHBlk *n = new VpMHBlk(*b);
        n->used[i] = u; n->k[i] = key; n->v[i] = value;
        b = n;
    }
};
using VpMH = QMultiHash<QString, QByteArray>;

template<> class QHash<bool, VpMH>
{
public:
    VpMH s[2];
    const VpMH value(const bool &key) const { return key ? s[1] : s[0]; }
    VpMH &operator[](const bool &key) { return key ? s[1] : s[0]; }
    bool isEmpty() const { return s[0].isEmpty() && s[1].isEmpty(); }
    bool contains(const bool &key) const { return key ? !s[1].isEmpty() : !s[0].isEmpty(); }
};

// only the two levels the manager asks for (Authenticated | ManuallyDistrusted) have a slot; any other level is a model limit
static inline int vpLevelSlot(QXmpp::TrustLevel l)
{
    int v = int(l);
    vp_c18_limit(v == 4 || v == 32);
    return v == 4 ? 0 : 1;
}
template<> class QHash<QXmpp::TrustLevel, VpMH>
{
public:
    VpMH s[2];
    const VpMH value(const QXmpp::TrustLevel &key) const { return vpLevelSlot(key) == 0 ? s[0] : s[1]; }
    VpMH &operator[](const QXmpp::TrustLevel &key) { return vpLevelSlot(key) == 0 ? s[0] : s[1]; }
    bool contains(const QXmpp::TrustLevel &key) const { return vpLevelSlot(key) == 0 ? !s[0].isEmpty() : !s[1].isEmpty(); }
    bool isEmpty() const { return s[0].isEmpty() && s[1].isEmpty(); }
};

template<> class QHash<QString, VpMH>
{
public:
    bool isEmpty() const { return true; }
};
