// C08 (copy of harness/C07/vp_iqmap.h, the C07 agent's model, unchanged apart from names): class-level model of  std::unordered_map<QString, QXmpp::Private::IqState>  (the request table of OutgoingIqManager).
// Installed at source level as an explicit specialisation (same idea as the Task/Promise shadow): the REAL manager code is compiled
// against it unchanged.  Array-backed, capacity VP_MAP_CAP slots, entries are constructed / destroyed with the real
// std::pair<const QString, IqState> constructors, iteration order = slot order, iterators stay valid until their entry is erased
// (node-based semantics of the real container).  Exceeding the capacity is a MODEL failure (inconclusive), never a pass.
#pragma once
#include <unordered_map>
#include <utility>
#include <new>
#include <QString>
#ifndef VP_MAP_CAP
#define VP_MAP_CAP 3
#endif
extern "C" { void vp_model_assert_cap(bool ok); void vp_assert(bool, const char *); bool vp_bool(); }
namespace QXmpp::Private { struct IqState; }
template<>
class std::unordered_map<QString, QXmpp::Private::IqState, std::hash<QString>, std::equal_to<QString>, std::allocator<std::pair<const QString, QXmpp::Private::IqState>>>
{
public:
    using key_type = QString;
    using mapped_type = QXmpp::Private::IqState;
    using value_type = std::pair<const QString, QXmpp::Private::IqState>;
    using size_type = std::size_t;
    struct iterator {
        const unordered_map *m;
        unsigned i;
        inline value_type &operator*() const;
        inline value_type *operator->() const;
        inline iterator &operator++();
        iterator operator++(int) { iterator r = *this; ++*this; return r; }
        bool operator==(const iterator &o) const { return i == o.i; }
        bool operator!=(const iterator &o) const { return i != o.i; }
    };
    using const_iterator = iterator;

    inline unordered_map();
    unordered_map(const unordered_map &) = delete;
    unordered_map &operator=(const unordered_map &) = delete;
    inline unordered_map(unordered_map &&o);                 // takes o's elements, o becomes empty
    inline unordered_map &operator=(unordered_map &&o);
    void swap(unordered_map &o) { Tbl *x = t; t = o.t; o.t = x; }
    inline ~unordered_map();

    iterator end() const { return iterator { this, VP_MAP_CAP }; }
    inline iterator begin() const;
    iterator cbegin() const { return begin(); }
    iterator cend() const { return end(); }
    inline iterator find(const QString &k) const;
    size_type count(const QString &k) const { return find(k) != end() ? 1 : 0; }
    bool contains(const QString &k) const { return find(k) != end(); }
    inline size_type size() const;
    bool empty() const { return size() == 0; }
    template<typename... A> std::pair<iterator, bool> emplace(A &&...a);
    template<typename... A> std::pair<iterator, bool> try_emplace(const QString &k, A &&...a);
    inline std::pair<iterator, bool> insert(value_type &&v);
    inline std::pair<iterator, bool> insert_or_assign(const QString &k, mapped_type &&v);
    inline mapped_type &operator[](const QString &k);
    inline mapped_type &at(const QString &k);
    inline iterator erase(iterator it);
    inline size_type erase(const QString &k);
    inline void clear();

    // model internals (public: the harness plants pre-states and inspects post-states through them)
    inline value_type *slot(unsigned i) const;
    inline bool used(unsigned i) const;
    inline int freeSlot() const;
    struct Tbl;      // { bool used[CAP]; union { value_type v; } s[CAP]; } - typed storage, defined once IqState is complete
    Tbl *t;
};
