// C08 - every incoming IQ request is answered exactly once; responses are never answered.
// Group "mgr": (1) the typed request helper QXmpp::handleIqRequests<...> / Private::checkIsIqRequest / Private::sendIqReply
// (QXmppIqHandling.h/.cpp) and (3) handleStanza of the five bundled managers named in the property (vCard, roster, discovery,
// version, entity time), each on one arbitrary IQ element.  The composition with the extension chain and the fallback error
// reply of the client is the subject of group "client" (h_client.cpp); its mock extensions obey exactly the contract proved
// here for the real managers:  handleStanza()==true for a get/set  =>  exactly one result/error reply with the same id to the
// sender;  handleStanza()==false  =>  nothing was sent;  result/error/invalid type  =>  nothing is ever sent.
// Environment: QXmppClient is raw storage; QXmppClient::reply / sendPacket serialise the stanza with its REAL toXml into the
// writer tree model (wire log); configuration().jidBare() is a harness-chosen string; signals go to the ghost log of qt_object.c.
#include <QString>
#include <QMap>
#include <QList>
#include <QDomElement>
#include <QXmlStreamWriter>
#include <variant>
#include <optional>
#include <memory>
#include <any>
#include <functional>
#include <QObject>
#include <QSet>
#include <QStringList>
#include <QSharedDataPointer>
#include <QDateTime>
#include <QNetworkProxy>
#include <QSslError>
#include <QAbstractSocket>
#include <QFuture>
#include <QCoreApplication>
#include <QSysInfo>
#include <QTimeZone>
#include "QXmppDiscoveryIq.h"
#include "QXmppExtension.h"
#include "QXmppLogger.h"
#include "QXmppVCardIq.h"
#include "QXmppRosterIq.h"
#include "QXmppVersionIq.h"
#include "QXmppEntityTimeIq.h"
#include "QXmppPresence.h"
#include "QXmppDataForm.h"
#include "QXmppTask.h"
#include "QXmppPromise.h"
#include "QXmppError.h"
#include "QXmppE2eeMetadata.h"
#include "QXmppSendStanzaParams.h"
#include "c08_common.h"

#define private public
#define protected public
#include "QXmppClientExtension.h"
#include "QXmppClient.h"
#include "QXmppConfiguration.h"
#include "QXmppIqHandling.h"
#include "client/QXmppVCardManager.cpp"
#include "client/QXmppRosterManager.cpp"
#include "client/QXmppDiscoveryManager.cpp"
#undef private
#undef protected
// the real moc output of the build (signal bodies, staticMetaObject)
#include "QXmppQt5_autogen/7EM65HM6UG/moc_QXmppVCardManager.cpp"
#include "QXmppQt5_autogen/7EM65HM6UG/moc_QXmppRosterManager.cpp"
#include "QXmppQt5_autogen/7EM65HM6UG/moc_QXmppDiscoveryManager.cpp"

#include "c08_mgr_env.h"

static constexpr unsigned DISCO_SHAPES[8] = { SH_DISCO_INFO, SH_NONE, SH_PING, SH_DISCO_ITEMS, SH_QUERY_NONS, SH_PING_IN_DISCO_NS, SH_PING_THEN_DISCO, SH_DISCO_INFO };
template<unsigned TY, unsigned K> static void discoCase()
{
    if (TY >= TY_RESULT && K >= RESP_SHAPES) return;
    Raw<QXmppDiscoveryManager> m;
    auto *d = new QXmppDiscoveryManagerPrivate; d->clientCapabilitiesNode = L("c");
    m.setD(d);
    SymIq q; symIq(q, TY, DISCO_SHAPES[K], C08_HASFROM);
    // node attribute of the query: absent (K 0), below the client's capabilities node (K 3), unknown node -> item-not-found error (K 7)
    { QDomElement c; vp_c08_dom_child(&c, &q.iq, 0); if (K == 3) attr(c, L("node"), L("c1")); if (K == 7) attr(c, L("node"), L("zz")); }
    const bool r = m->QXmppDiscoveryManager::handleStanza(q.iq);
    checkContract(q, r);
    if (q.isRequest() && r && g_nsent == 1) vp_assert(replyIsError(0) == (K == 7), "C08 discovery: known node answered with a result, unknown node with an error");
    if (q.isRequest()) vp_assert(r == (q.firstIs(TAG_QUERY, NS_DISCO_INFO) || q.firstIs(TAG_QUERY, NS_DISCO_ITEMS)), "C08 the discovery manager claims exactly the disco#info / disco#items requests");
}
ENTRIES(disco, discoCase)
static constexpr unsigned VCARD_SHAPES[8] = { SH_VCARD, SH_NONE, SH_PING, SH_ROSTER, SH_QUERY_NONS, SH_TIME_IN_VCARD_NS, SH_PING_THEN_VCARD, SH_VCARD_IN_VERSION_NS };
template<unsigned TY, unsigned K> static void vcardCase()
{
    if (TY >= TY_RESULT && K >= RESP_SHAPES) return;
    Raw<QXmppVCardManager> m;
    m.setD(new QXmppVCardManagerPrivate);
    SymIq q; symIq(q, TY, VCARD_SHAPES[K], C08_HASFROM);
#if defined(KF_vcard_request_swallowed) && !defined(C08_DEMO)
    if (q.isRequest() && q.firstIs(TAG_VCARD, NS_VCARD)) return;    // known finding: demonstrated by the kf_vcard_request instance
#endif
    const bool r = m->QXmppVCardManager::handleStanza(q.iq);
    checkContract(q, r);
}
ENTRIES(vcard, vcardCase)
static constexpr unsigned ROSTER_SHAPES[8] = { SH_ROSTER, SH_NONE, SH_PING, SH_VCARD, SH_QUERY_NONS, SH_PING_IN_ROSTER_NS, SH_PING_THEN_ROSTER, SH_DISCO_ITEMS };
template<unsigned TY, unsigned K> static void rosterCase()
{
    if (TY >= TY_RESULT && K >= RESP_SHAPES) return;
    Raw<QXmppRosterManager> m;     // private data stays raw: roster IQs without <item/> never touch it (items are C12's subject)
    SymIq q; symIq(q, TY, ROSTER_SHAPES[K], C08_HASFROM);
#if defined(KF_roster_get_swallowed) && !defined(C08_DEMO)
    if (q.ty == TY_GET && q.firstIs(TAG_QUERY, NS_ROSTER)) return;  // known finding: demonstrated by the kf_roster_get instance
#endif
#if defined(KF_roster_ack_to_missing) && !defined(C08_DEMO)
    // known finding (kf_roster_ack_to): a push whose 'from' is a full JID of the own account is acknowledged without 'to'
    if (q.ty == TY_SET && q.firstIs(TAG_QUERY, NS_ROSTER)) vp_assume(q.from.isEmpty() || q.from == g_ownBare || QXmppUtils::jidToBareJid(q.from) != g_ownBare);
#endif
    const bool r = m->QXmppRosterManager::handleStanza(q.iq);
    checkContract(q, r);
}
ENTRIES(roster, rosterCase)

// ------------------------------------------------------------------------------------------------ known findings (demonstrations)
// Each entry runs exactly the input class that the corresponding KF_ define excludes above; registered with known_finding=<key>.
extern "C" void h_kf_vcard_request() { symOwnJid(); if (vp_bool()) vcardCase<TY_GET, 0>(); else vcardCase<TY_SET, 0>(); }
extern "C" void h_kf_roster_get() { symOwnJid(); rosterCase<TY_GET, 0>(); }
extern "C" void h_kf_roster_ack_to() { symOwnJid(); rosterCase<TY_SET, 0>(); }
