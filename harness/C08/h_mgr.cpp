// C08 - every incoming IQ request is answered exactly once; responses are never answered.
// Group "mgr": (1) the typed request helper QXmpp::handleIqRequests<...> / Private::checkIsIqRequest / Private::sendIqReply
// (QXmppIqHandling.h/.cpp) and (3) handleStanza of the five bundled managers named in the property (vCard, roster, discovery,
// version, entity time), each on one arbitrary IQ element.  The composition with the extension chain and the fallback error
// reply of the client is the subject of group "client" (h_client.cpp); its mock extensions obey exactly the contract proved
// here for the real managers:  handleStanza()==true for a get/set  =>  exactly one result/error reply with the same id to the
// sender;  handleStanza()==false  =>  nothing was sent;  result/error/invalid type  =>  nothing is ever sent.
// Environment: QXmppClient is raw storage; QXmppClient::reply / sendPacket serialise the stanza with its REAL toXml into the
// writer tree model (wire log); configuration().jidBare() is a harness-chosen string; signals go to the ghost log of qt_object.c.
#include <QString>
#include <QMap>
#include <QList>
#include <QDomElement>
#include <QXmlStreamWriter>
#include <variant>
#include <optional>
#include <memory>
#include <any>
#include <functional>
#include <QObject>
#include <QSet>
#include <QStringList>
#include <QSharedDataPointer>
#include <QDateTime>
#include <QNetworkProxy>
#include <QSslError>
#include <QAbstractSocket>
#include <QFuture>
#include <QCoreApplication>
#include <QSysInfo>
#include <QTimeZone>
#include "QXmppDiscoveryIq.h"
#include "QXmppExtension.h"
#include "QXmppLogger.h"
#include "QXmppVCardIq.h"
#include "QXmppRosterIq.h"
#include "QXmppVersionIq.h"
#include "QXmppEntityTimeIq.h"
#include "QXmppPresence.h"
#include "QXmppDataForm.h"
#include "QXmppTask.h"
#include "QXmppPromise.h"
#include "QXmppError.h"
#include "QXmppE2eeMetadata.h"
#include "QXmppSendStanzaParams.h"
#include "c08_common.h"

#define private public
#define protected public
#include "QXmppClientExtension.h"
#include "QXmppClient.h"
#include "QXmppConfiguration.h"
#include "QXmppIqHandling.h"
#include "client/QXmppVCardManager.cpp"
#include "client/QXmppRosterManager.cpp"
#include "client/QXmppDiscoveryManager.cpp"
#include "client/QXmppVersionManager.cpp"
#include "client/QXmppEntityTimeManager.cpp"
#undef private
#undef protected
// the real moc output of the build (signal bodies, staticMetaObject)
#include "QXmppQt5_autogen/7EM65HM6UG/moc_QXmppVCardManager.cpp"
#include "QXmppQt5_autogen/7EM65HM6UG/moc_QXmppRosterManager.cpp"
#include "QXmppQt5_autogen/7EM65HM6UG/moc_QXmppDiscoveryManager.cpp"
#include "QXmppQt5_autogen/7EM65HM6UG/moc_QXmppVersionManager.cpp"
#include "QXmppQt5_autogen/7EM65HM6UG/moc_QXmppEntityTimeManager.cpp"

// ------------------------------------------------------------------------------------------------ environment
static QString g_ownBare;
static char g_cfgRaw[16];
static char g_clientRaw[64];
static QXmppClient *theClient() { return reinterpret_cast<QXmppClient *>(g_clientRaw); }
static int g_nreplyCalls, g_nsendPacketCalls;
static bool g_replyHadMeta;

QXmppConfiguration &QXmppClient::configuration() { return *reinterpret_cast<QXmppConfiguration *>(g_cfgRaw); }
QString QXmppConfiguration::jidBare() const { return g_ownBare; }
bool QXmppClient::sendPacket(const QXmppNonza &p)
{
    g_nsendPacketCalls++;
    wireLog(p);
    return vp_bool();   // sending may fail; whether a reply is owed does not depend on it
}
QXmppTask<QXmpp::SendResult> QXmppClient::reply(QXmppStanza &&stanza, const std::optional<QXmppE2eeMetadata> &e2ee, const std::optional<QXmppSendStanzaParams> &)
{
    g_nreplyCalls++;
    g_replyHadMeta = e2ee.has_value();
    wireLog(stanza);
    QXmppPromise<QXmpp::SendResult> p;
    return p.task();
}
// QXmppDiscoveryManager::capabilities() (feature list of all extensions; content is C20's subject) is cut: see c08_mgr.c
extern "C" void vp_c08_empty_disco(QXmppDiscoveryIq *out) { new (out) QXmppDiscoveryIq; }
static void keepHooks() { if (vp_c08_false()) vp_c08_empty_disco(nullptr); }

#ifndef C08_HASFROM
#define C08_HASFROM true
#endif
static void symOwnJid()
{
    internAttrs();
    keepHooks();
    g_ownBare = vpSymStringNonEmpty(2);
    for (int i = 0; i < 2; i++) { if (i < g_ownBare.size()) vp_assume(g_ownBare.at(i) != QChar(u'/')); }   // a bare JID has no resource part
}

// ------------------------------------------------------------------------------------------------ (1) typed request helper
static constexpr unsigned IQH_SHAPES[8] = { SH_NONE, SH_PING, SH_VERSION, SH_TIME, SH_QUERY_NONS, SH_VCARD_IN_VERSION_NS, SH_QUERY_IN_TIME_NS, SH_PING_THEN_VERSION };
// checkIsIqRequest: request <=> <iq> with type get or set; reports tag and namespace of the FIRST child element
template<bool IS_IQ> struct CheckCase {
    template<unsigned TY, unsigned K> static void run()
    {
        SymIq q;
        symIq(q, TY, IQH_SHAPES[K], true, IS_IQ ? L("iq") : L("message"));
        auto [isRequest, tagName, xmlns] = QXmpp::Private::checkIsIqRequest(q.iq);
        vp_assert(isRequest == (IS_IQ && q.isRequest()), "C08 checkIsIqRequest: a request is exactly an <iq/> of type get or set");
        if (isRequest) {
            QString t, n;
            if (q.nch >= 1) { vp_c08_pick_tag(&t, q.tag[0]); vp_c08_pick_ns(&n, q.effNs(0)); }
            vp_assert(tagName == t && xmlns == n, "C08 checkIsIqRequest reports tag and namespace of the first child element (empty if none)");
        }
        vp_assert(g_nsent == 0, "C08 checkIsIqRequest sends nothing");
    }
};
extern "C" void h_iqh_check() { internAttrs(); keepHooks(); if (vp_bool()) { DISPATCH_REQ(CheckCase<true>::template run); } else { DISPATCH_RESP(CheckCase<true>::template run); } }
extern "C" void h_iqh_check_noiq() { internAttrs(); keepHooks(); if (vp_bool()) { DISPATCH_REQ(CheckCase<false>::template run); } else { DISPATCH_RESP(CheckCase<false>::template run); } }
// sendIqReply: exactly one stanza, to = requester, id = request id, type result unless the handler made it an error
template<unsigned C> static void replyCase()
{
    const unsigned t = C >> 1;   // QXmppIq::Type: Error, Get, Set, Result
    const bool withMeta = (C & 1);
    const QString id = vpSymString(C08_IDLEN), from = vpSymString(C08_FROMLEN);
    QXmppIq iq; iq.setType(QXmppIq::Type(t));
    iq.setId(vpSymString(1)); iq.setTo(vpSymString(1));   // whatever the handler left there
    std::optional<QXmppE2eeMetadata> meta;
    if (withMeta) meta.emplace();
    QXmpp::Private::sendIqReply(theClient(), id, from, meta, std::move(iq));
    vp_assert(g_nreplyCalls == 1 && g_nsent == 1 && g_nsendPacketCalls == 0, "C08 sendIqReply hands exactly one stanza to QXmppClient::reply");
    vp_assert(g_replyHadMeta == withMeta, "C08 sendIqReply passes the e2ee metadata of the request on to QXmppClient::reply");
    const QDomElement &a = g_sent[0];
    vp_assert(a.tagName() == L("iq") && a.attribute(L("id")) == id && a.attribute(L("to")) == from, "C08 sendIqReply: reply is an iq with the request id, addressed to the requester");
    vp_assert(a.attribute(L("type")) == (t == QXmppIq::Error ? L("error") : L("result")), "C08 sendIqReply: type is result unless the handler returned an error iq");
}
extern "C" void h_iqh_reply()
{
    internAttrs(); keepHooks();
    unsigned c = vp_u8(); vp_assume(c < 8);
    switch (c) { case 0: replyCase<0>(); break; case 1: replyCase<1>(); break; case 2: replyCase<2>(); break; case 3: replyCase<3>(); break;
                 case 4: replyCase<4>(); break; case 5: replyCase<5>(); break; case 6: replyCase<6>(); break; default: replyCase<7>(); break; }
}
// handleIqRequests<A, B> with a handler object: variant<Iq, Error> for A, plain Iq for B
struct Handler {
    int calls = 0; int which = 0;
    unsigned outcome;      // 0 result iq (left at the default type 'get' / 'set'), 1 stanza error, 2 iq the handler already marked as error
    std::variant<QXmppVersionIq, QXmppStanza::Error> handleIq(QXmppVersionIq &&)
    {
        calls++; which = 1;
        if (outcome == 1) return QXmppStanza::Error(QXmppStanza::Error::Cancel, QXmppStanza::Error::BadRequest, QString());
        QXmppVersionIq r;
        r.setType(outcome == 2 ? QXmppIq::Error : QXmppIq::Get);   // default-constructed iqs are 'get': must still go out as result
        return r;
    }
    QXmppEntityTimeIq handleIq(QXmppEntityTimeIq &&)
    {
        calls++; which = 2;
        QXmppEntityTimeIq r;
        r.setType(outcome == 2 ? QXmppIq::Error : QXmppIq::Set);
        return r;
    }
};
template<unsigned OUTCOME> struct HandleCase {
    template<unsigned TY, unsigned K> static void run()
    {
        SymIq q; symIq(q, TY, IQH_SHAPES[K], C08_HASFROM);
        Handler h; h.outcome = OUTCOME;
        const bool r = QXmpp::handleIqRequests<QXmppVersionIq, QXmppEntityTimeIq>(q.iq, theClient(), &h);
        const bool isVersion = q.firstIs(TAG_QUERY, NS_VERSION), isTime = q.firstIs(TAG_TIME, NS_TIME);
        const bool expect = q.isRequest() && (isVersion || isTime);
        vp_assert(r == expect, "C08 handleIqRequests accepts exactly the get/set iqs whose first child is one of its payload types");
        vp_assert(h.calls == (expect ? 1 : 0), "C08 handleIqRequests invokes the handler exactly once for an accepted request, never otherwise");
        vp_assert(g_nsent == (expect ? 1 : 0), "C08 handleIqRequests sends exactly one reply iff it returns true");
        if (expect && g_nsent == 1) {
            vp_assert(h.which == (isVersion ? 1 : 2), "C08 handleIqRequests dispatches on the payload type");
            checkReply(0, q);
            vp_assert(replyIsError(0) == (OUTCOME != 0 && !(OUTCOME == 1 && isTime)), "C08 handleIqRequests: error reply iff the handler returned an error");
            vp_assert(!g_replyHadMeta, "C08 an unencrypted request is answered without e2ee metadata");
        }
    }
};
extern "C" void h_iqh_handle_result() { internAttrs(); keepHooks(); DISPATCH_REQ(HandleCase<0>::template run); }
extern "C" void h_iqh_handle_error() { internAttrs(); keepHooks(); DISPATCH_REQ(HandleCase<1>::template run); }
extern "C" void h_iqh_handle_erroriq() { internAttrs(); keepHooks(); DISPATCH_REQ(HandleCase<2>::template run); }
extern "C" void h_iqh_handle_resp() { internAttrs(); keepHooks(); DISPATCH_RESP(HandleCase<0>::template run); }

// ------------------------------------------------------------------------------------------------ (3) real managers
// contract of an extension towards the chain (see h_client.cpp)
static void checkContract(const SymIq &q, bool r)
{
    vp_assert(g_nsent <= 1, "C08 a manager sends at most one stanza for one incoming iq");
    if (!q.isRequest()) {
        vp_assert(g_nsent == 0, "C08 a manager never answers an iq of type result, error or an invalid type");
    } else if (r) {
        vp_assert(g_nsent == 1, "C08 a manager that claims a get/set iq (handleStanza returns true) sends exactly one reply");
        if (g_nsent == 1) checkReply(0, q);
    } else {
        vp_assert(g_nsent == 0, "C08 a manager that passes a get/set iq on (handleStanza returns false) has sent nothing");
    }
}
template<typename M> struct Raw {
    VpRaw<M> raw;
    Raw() { raw->m_client = theClient(); }
    template<typename P> void setD(P *d) { new (const_cast<std::unique_ptr<P> *>(&raw->d)) std::unique_ptr<P>(d); }
    M *operator->() { return raw.p(); }
};
#define ENTRIES(name, fn) \
    extern "C" void h_mgr_##name##_req() { symOwnJid(); DISPATCH_REQ(fn); } \
    extern "C" void h_mgr_##name##_resp() { symOwnJid(); DISPATCH_RESP(fn); }

static constexpr unsigned VERSION_SHAPES[8] = { SH_NONE, SH_PING, SH_VERSION, SH_DISCO_INFO, SH_QUERY_NONS, SH_VCARD_IN_VERSION_NS, SH_PING_THEN_VERSION, SH_TIME };
template<unsigned TY, unsigned K> static void versionCase()
{
    Raw<QXmppVersionManager> m;
    auto *d = new QXmppVersionManagerPrivate; d->clientName = vpSymString(1); d->clientVersion = vpSymString(1); d->clientOs = vpSymString(1);
    m.setD(d);
    SymIq q; symIq(q, TY, VERSION_SHAPES[K], C08_HASFROM);
    const bool r = m->QXmppVersionManager::handleStanza(q.iq);
    checkContract(q, r);
    if (q.isRequest()) vp_assert(r == q.firstIs(TAG_QUERY, NS_VERSION), "C08 the version manager claims exactly the jabber:iq:version requests");
    if (q.isRequest() && r && g_nsent == 1) vp_assert(!replyIsError(0), "C08 a version request is answered with a result");
}
ENTRIES(version, versionCase)
static constexpr unsigned TIME_SHAPES[8] = { SH_NONE, SH_PING, SH_TIME, SH_VERSION, SH_QUERY_NONS, SH_QUERY_IN_TIME_NS, SH_PING_THEN_TIME, SH_TIME_IN_VCARD_NS };
template<unsigned TY, unsigned K> static void timeCase()
{
    Raw<QXmppEntityTimeManager> m;
    SymIq q; symIq(q, TY, TIME_SHAPES[K], C08_HASFROM);
    const bool r = m->QXmppEntityTimeManager::handleStanza(q.iq);
    checkContract(q, r);
    if (q.isRequest()) vp_assert(r == q.firstIs(TAG_TIME, NS_TIME), "C08 the entity time manager claims exactly the urn:xmpp:time requests");
    if (q.isRequest() && r && g_nsent == 1) vp_assert(replyIsError(0) == (q.ty == TY_SET), "C08 entity time: get is answered with a result, set with an error");
}
ENTRIES(time, timeCase)
static constexpr unsigned DISCO_SHAPES[8] = { SH_NONE, SH_PING, SH_DISCO_INFO, SH_DISCO_ITEMS, SH_QUERY_NONS, SH_PING_IN_DISCO_NS, SH_PING_THEN_DISCO, SH_VERSION };
template<unsigned TY, unsigned K> static void discoCase()
{
    Raw<QXmppDiscoveryManager> m;
    auto *d = new QXmppDiscoveryManagerPrivate; d->clientCapabilitiesNode = vpSymString(1);
    m.setD(d);
    SymIq q; symIq(q, TY, DISCO_SHAPES[K], C08_HASFROM);
    // node attribute of the query (decides item-not-found)
    { QDomElement c; vp_c08_dom_child(&c, &q.iq, 0); if (!c.isNull()) attr(c, L("node"), vpSymString(1)); }
    const bool r = m->QXmppDiscoveryManager::handleStanza(q.iq);
    checkContract(q, r);
    if (q.isRequest()) vp_assert(r == (q.firstIs(TAG_QUERY, NS_DISCO_INFO) || q.firstIs(TAG_QUERY, NS_DISCO_ITEMS)), "C08 the discovery manager claims exactly the disco#info / disco#items requests");
}
ENTRIES(disco, discoCase)
static constexpr unsigned VCARD_SHAPES[8] = { SH_NONE, SH_PING, SH_VCARD, SH_ROSTER, SH_QUERY_NONS, SH_TIME_IN_VCARD_NS, SH_PING_THEN_VCARD, SH_VCARD_IN_VERSION_NS };
template<unsigned TY, unsigned K> static void vcardCase()
{
    Raw<QXmppVCardManager> m;
    m.setD(new QXmppVCardManagerPrivate);
    SymIq q; symIq(q, TY, VCARD_SHAPES[K], C08_HASFROM);
#ifdef KF_vcard_request_swallowed
    if (q.isRequest() && q.firstIs(TAG_VCARD, NS_VCARD)) return;
#endif
    const bool r = m->QXmppVCardManager::handleStanza(q.iq);
    checkContract(q, r);
}
ENTRIES(vcard, vcardCase)
static constexpr unsigned ROSTER_SHAPES[8] = { SH_NONE, SH_PING, SH_ROSTER, SH_VCARD, SH_QUERY_NONS, SH_PING_IN_ROSTER_NS, SH_PING_THEN_ROSTER, SH_DISCO_ITEMS };
template<unsigned TY, unsigned K> static void rosterCase()
{
    Raw<QXmppRosterManager> m;     // private data stays raw: roster IQs without <item/> never touch it (items are C12's subject)
    SymIq q; symIq(q, TY, ROSTER_SHAPES[K], C08_HASFROM);
#ifdef KF_roster_get_swallowed
    if (q.ty == TY_GET && q.firstIs(TAG_QUERY, NS_ROSTER)) return;
#endif
    const bool r = m->QXmppRosterManager::handleStanza(q.iq);
    checkContract(q, r);
}
ENTRIES(roster, rosterCase)
