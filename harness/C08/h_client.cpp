// C08 - every incoming IQ request is answered exactly once; responses are never answered.
// Group "client": (2) the extension chain and the fallback error reply - REAL QXmppClient::injectIq, QXmppClient::_q_elementReceived,
// StanzaPipeline::process, MessagePipeline::process (entry), QXmppClient::reply / send / sendSensitive (no e2ee extension),
// QXmppOutgoingClient::handleElement / handleStanza, OutgoingIqManager::handleStanza, StreamAckManager::handleStanza.
// Extensions are <= 2 mock extensions with nondeterministic verdicts for both handleStanza overloads; a mock obeys exactly the
// contract that group "mgr" proves for the real managers (true for a get/set => it sent exactly one reply through its client;
// false => it sent nothing; never a reply to result / error / invalid types).
// Environment: QXmppClient, QXmppClientPrivate, QXmppOutgoingClient, QXmppOutgoingClientPrivate are raw storage in which only the
// members touched are alive (d pointers, extension list, stream pointer, encryptionExtension = nullptr, stream-ack manager counters,
// empty table of pending own requests).  What reaches the wire: QXmppPacket(const QXmppNonza &) runs the stanza's REAL toXml into the
// writer tree model; StreamAckManager::send / sendPacketCompat (stream management accounting is C09's subject) log that tree.
// The signal QXmppOutgoingClient::elementReceived is connected to QXmppClient::_q_elementReceived in QXmppClient's constructor
// (QXmppClient.cpp:304, direct connection): modelled as a direct call.
#include <QString>
#include <QMap>
#include <QList>
#include <QDomElement>
#include <QXmlStreamWriter>
#include <variant>
#include <optional>
#include <memory>
#include <any>
#include <functional>
#include <unordered_map>
#include <chrono>
#include <QObject>
#include <QSet>
#include <QStringList>
#include <QSharedDataPointer>
#include <QDateTime>
#include <QNetworkProxy>
#include <QSslError>
#include <QSslSocket>
#include <QAbstractSocket>
#include <QFuture>
#include <QTimer>
#include <QDnsLookup>
#include <QHostAddress>
#include <QUrl>
#include "QXmppDiscoveryIq.h"
#include "QXmppExtension.h"
#include "QXmppLogger.h"
#include "QXmppPresence.h"
#include "QXmppElement.h"
#include "QXmppMessage.h"
#include "QXmppTask.h"
#include "QXmppPromise.h"
#include "QXmppError.h"
#include "QXmppE2eeMetadata.h"
#include "QXmppSendStanzaParams.h"
#include "QXmppStreamFeatures.h"
#include "QXmppConfiguration.h"
#include "c08_common.h"
#include "c08_iqmap.h"     // class-level model of the table of pending own requests; must precede the first use of that unordered_map

#define private public
#define protected public
#include "QXmppClientExtension.h"
#include "QXmppClient.h"
#include "QXmppClient_p.h"
#include "QXmppStreamManagement_p.h"
#include "QXmppPacket_p.h"
// the REAL QXmppOutgoingClient.cpp is compiled as part of this file (not as a separate TU) so that OutgoingIqManager is built against the
// request-table model, as in harness/C07
#include "client/QXmppOutgoingClient.cpp"
#undef private
#undef protected
#include "c08_iqmap_impl.h"
using namespace QXmpp::Private;

// ------------------------------------------------------------------------------------------------ wire
// slots of the wire log by sender: 0/1 = mock extension 0 (new / old overload), 2/3 = mock extension 1, 4 = the client itself
enum { SRC_CLIENT = 4, NSRC = 5 };
static int g_src = SRC_CLIENT;
static bool g_has[NSRC];
static QDomElement g_wire[NSRC];
static int g_extra;                 // sends beyond one per sender
static QDomElement g_pending; static bool g_havePending;
QXmppPacket::QXmppPacket(const QXmppNonza &nonza, QXmppPromise<QXmpp::SendResult> p)
    : m_promise(std::move(p)), m_isXmppStanza(nonza.isXmppStanza())
{
    VpWriter w;
    nonza.toXml(w.writer());
    g_pending = w.root(); g_havePending = true;
}
QXmppTask<QXmpp::SendResult> QXmppPacket::task() { return m_promise.task(); }
static void wireSend()
{
    vp_c08_model_limit(g_havePending);
    if (g_has[g_src]) g_extra++;
    g_has[g_src] = true; g_wire[g_src] = g_pending; g_havePending = false;
}
// hooks called by the C models of StreamAckManager::send / sendPacketCompat (c08_client.c)
extern "C" void vp_c08_sm_send(QXmppTask<QXmpp::SendResult> *ret, QXmppPacket *p) { wireSend(); new (ret) QXmppTask<QXmpp::SendResult>(p->task()); }
extern "C" bool vp_c08_sm_send_compat(QXmppPacket *) { wireSend(); return vp_bool(); }
extern "C" void vp_c08_set_link(unsigned mode, bool encrypted);
extern "C" void vp_c08_elem_default(QXmppElement *self) { new (self) QXmppElement(); }
static void keepHooks() { if (vp_c08_false()) { vp_c08_sm_send(nullptr, nullptr); vp_c08_sm_send_compat(nullptr); vp_c08_elem_default(nullptr); } }
static int nsent() { int n = g_extra; for (int i = 0; i < NSRC; i++) { if (g_has[i]) n++; } return n; }

// ------------------------------------------------------------------------------------------------ world
static int g_niqReceived;
static QXmppClient *g_client;
// signal bodies (moc output in the real build)
void QXmppOutgoingClient::elementReceived(const QDomElement &e, bool &handled) { g_client->_q_elementReceived(e, handled); }   // connection of QXmppClient.cpp:304
void QXmppOutgoingClient::iqReceived(const QXmppIq &) { g_niqReceived++; }
void QXmppOutgoingClient::presenceReceived(const QXmppPresence &) { }
void QXmppOutgoingClient::messageReceived(const QXmppMessage &) { }

struct MockExt final : QXmppClientExtension {
    int idx = 0; bool verdictNew = false, verdictOld = false; int callsNew = 0, callsOld = 0; bool sawMeta = false;
    const SymIq *q = nullptr;
    // contract of an extension (proved for the real managers in group "mgr")
    bool act(bool verdict, int src, const std::optional<QXmppE2eeMetadata> &meta)
    {
        // the reply of a conforming extension is a ghost event (its form is the extension's business, proved for the real managers in
        // groups "iqh"/"mgr"); only the client's own replies are real stanzas here
        if (verdict && q->isRequest()) { if (g_has[src]) g_extra++; g_has[src] = true; }
        return verdict;
    }
    bool handleStanza(const QDomElement &) override { callsOld++; return act(verdictOld, idx * 2 + 1, std::nullopt); }
    bool handleStanza(const QDomElement &, const std::optional<QXmppE2eeMetadata> &meta) override { callsNew++; sawMeta = meta.has_value(); return act(verdictNew, idx * 2, meta); }
};

struct World {
    VpRaw<QXmppClient> cbuf; VpRaw<QXmppClientPrivate> cdbuf;
    VpRaw<QXmppOutgoingClient> sbuf; VpRaw<QXmppOutgoingClientPrivate> sdbuf;
    QXmppClient *client; QXmppClientPrivate *cd; QXmppOutgoingClient *stream; QXmppOutgoingClientPrivate *sd;
    MockExt *ext[2]; unsigned next;
    unsigned lastIn0;
    bool pendUsed = false; QString pendId, pendJid;
    World(unsigned nExt, const SymIq &q, bool withPending = false)
        : client(cbuf.p()), cd(cdbuf.p()), stream(sbuf.p()), sd(sdbuf.p()), next(nExt)
    {
        g_client = client;
        new (const_cast<std::unique_ptr<QXmppClientPrivate> *>(&client->d)) std::unique_ptr<QXmppClientPrivate>(cd);
        new (const_cast<std::unique_ptr<QXmppOutgoingClientPrivate> *>(&stream->d)) std::unique_ptr<QXmppOutgoingClientPrivate>(sd);
        new (&cd->extensions) QList<QXmppClientExtension *>();
        cd->stream = stream;
        cd->encryptionExtension = nullptr;           // no end-to-end encryption extension registered (outside: e2ee path)
        // a CONNECTED client: with TLS required the session only exists on an encrypted link (before that, nothing - not even an
        // error reply - is sent: C04's subject)
        const unsigned mode = vp_u8(); const bool enc = vp_bool();
        vp_assume(mode <= QXmppConfiguration::TLSRequired && !(mode == QXmppConfiguration::TLSRequired && !enc));
        vp_c08_set_link(mode, enc);
        lastIn0 = vp_u32(); vp_assume(lastIn0 < 0x7fffffff);
        sd->streamAckManager.m_lastIncomingSequenceNumber = lastIn0;
        sd->streamAckManager.m_enabled = vp_bool();
        // table of the client's own requests in flight: 0..1 pending request with an ARBITRARY id and addressee (so the incoming iq's id / from
        // may coincide with it) where withPending, else empty.  How responses are matched to requests is C07's subject; here the table
        // is there because OutgoingIqManager::handleStanza sees every incoming iq before the extension chain and the fallback do.
        VpIqMap *map = new (&sd->iqManager.m_requests) VpIqMap();
        if (withPending) {
            pendId = vpSymString(C08_IDLEN); pendJid = vpSymString(C08_FROMLEN); pendUsed = vp_bool();
            new (map->slot(0)) VpIqMap::value_type(pendId, IqState { {}, pendJid });
            map->t->s[0]->used = pendUsed;
        }
        for (unsigned i = 0; i < 2; i++) {
            ext[i] = nullptr;
            if (i >= nExt) continue;
            ext[i] = new MockExt; ext[i]->idx = int(i); ext[i]->q = &q; ext[i]->m_client = client;
            ext[i]->verdictNew = vp_bool(); ext[i]->verdictOld = vp_bool();
            cd->extensions.append(ext[i]);
        }
    }
    // index (0..3) of the first handleStanza call in chain order that returns true, or -1; `unencrypted`: old overloads are consulted
    int owner(bool unencrypted) const
    {
        for (unsigned i = 0; i < 2; i++) {
            if (i >= next) break;
            if (ext[i]->verdictNew) return int(i * 2);
            if (unencrypted && ext[i]->verdictOld) return int(i * 2 + 1);
        }
        return -1;
    }
    // the chain stops at the owner: every overload is consulted at most once, in order, and none after the owner
    void checkChain(bool unencrypted, bool consulted) const
    {
        const int own = owner(unencrypted);
        for (unsigned i = 0; i < 2; i++) {
            if (i >= next) break;
            const int kn = int(i * 2), ko = int(i * 2 + 1);
            const bool expNew = consulted && (own < 0 || kn <= own), expOld = consulted && unencrypted && (own < 0 || ko <= own);
            vp_assert(ext[i]->callsNew == (expNew ? 1 : 0), "C08 extension chain: each extension is consulted once, in order, until the first one returns true");
            vp_assert(ext[i]->callsOld == (expOld ? 1 : 0), "C08 extension chain: the legacy overload is consulted once after the new one declined, only for unencrypted stanzas, never after an owner");
        }
    }
};
// per-branch cases: K = (number of mock extensions, child shape)
#define CLI_CASES 3
static constexpr unsigned CLI_NEXT[8] = { 0, 2, 1, 0, 0, 0, 0, 0 };
static constexpr unsigned CLI_SHAPE[8] = { SH_NONE, SH_PING, SH_VERSION, SH_NONE, SH_NONE, SH_NONE, SH_NONE, SH_NONE };

static void checkRequestAnswered(const World &w, const SymIq &q, int own)
{
    vp_assert(nsent() == 1, "C08 a get/set iq is answered exactly once");
    if (own >= 0) {
        bool ownerReplied = false;
        for (int k = 0; k < SRC_CLIENT; k++) { if (k == own && g_has[k]) ownerReplied = true; }
        vp_assert(ownerReplied && !g_has[SRC_CLIENT], "C08 the only reply to a claimed get/set iq is the one of the extension that returned true");
    } else {
        vp_assert(g_has[SRC_CLIENT], "C08 a get/set iq that no extension handles is answered by the client itself");
        if (g_has[SRC_CLIENT]) {
            g_nsent = 0; logTree(g_wire[SRC_CLIENT]); checkReply(0, q);
            vp_assert(replyIsError(0), "C08 the fallback reply is an error");
            vp_assert(replyHasCondition(0, L("feature-not-implemented"), L("service-unavailable")), "C08 the fallback error is feature-not-implemented or service-unavailable");
        }
    }
}

// ---- (2a) QXmppClient::injectIq (decrypted iqs re-enter here; also the documented entry for extensions) --------------------------
template<bool META> struct InjectCase {
    template<unsigned TY, unsigned K> static void run()
    {
        if (K >= CLI_CASES || (TY >= TY_RESULT && K != 1) || (META && K == 2)) return;   // responses: the 2-extension chain only
        SymIq q; symIq(q, TY, CLI_SHAPE[K], true);
        World w(CLI_NEXT[K], q);
        std::optional<QXmppE2eeMetadata> meta;
        if (META) meta.emplace();
        w.client->injectIq(q.iq, meta);
        w.checkChain(!META, true);
        const int own = w.owner(!META);
        if (q.isRequest()) checkRequestAnswered(w, q, own);
        else vp_assert(nsent() == 0, "C08 an iq of type result, error or an invalid type is never answered");
        for (unsigned i = 0; i < 2; i++) { if (i < w.next && w.ext[i]->callsNew) vp_assert(w.ext[i]->sawMeta == META, "C08 the e2ee metadata is passed on to the extensions"); }
    }
};
extern "C" void h_cli_inject_req() { internAttrs(); keepHooks(); DISPATCH_REQ(InjectCase<false>::template run); }
extern "C" void h_cli_inject_resp() { internAttrs(); keepHooks(); DISPATCH_RESP(InjectCase<false>::template run); }
extern "C" void h_cli_inject_e2ee_req() { internAttrs(); keepHooks(); DISPATCH_REQ(InjectCase<true>::template run); }
extern "C" void h_cli_inject_e2ee_resp() { internAttrs(); keepHooks(); DISPATCH_RESP(InjectCase<true>::template run); }
// injectIq of something that is not an <iq/>: nothing happens
template<unsigned TY, unsigned K> static void injectNoIqCase()
{
    if (K != 1) return;
    SymIq q; symIq(q, TY, CLI_SHAPE[K], true, L("message"));
    World w(CLI_NEXT[K], q);
    w.client->injectIq(q.iq, std::nullopt);
    w.checkChain(true, false);
    vp_assert(nsent() == 0, "C08 injectIq ignores elements that are not iq stanzas");
}
extern "C" void h_cli_inject_noiq() { internAttrs(); keepHooks(); DISPATCH_REQ(injectNoIqCase); }

// ---- (2b) the whole receive path of a connected client: QXmppOutgoingClient::handleElement ---------------------------------------
template<unsigned TY, unsigned K> static void streamCase()
{
    if (K >= CLI_CASES || (TY >= TY_RESULT && K == 2)) return;
    SymIq q; symIq(q, TY, CLI_SHAPE[K], true);
    World w(CLI_NEXT[K], q, TY < TY_RESULT);      // requests: an own request may be in flight, possibly with the same id and peer
    const HandleElementResult res = w.stream->handleElement(q.iq);
    const bool isResponse = (q.ty == TY_RESULT || q.ty == TY_ERROR);
    w.checkChain(true, true);
    const int own = w.owner(true);
    if (q.isRequest()) {
        checkRequestAnswered(w, q, own);
        vp_assert(res == Accepted, "C08 a get/set iq is accepted by the stream");
    } else {
        vp_assert(nsent() == 0, "C08 an iq of type result, error or an invalid type is never answered");
        if (isResponse) vp_assert(res == Accepted, "C08 result/error iqs are accepted silently");
    }
    vp_assert(g_niqReceived == ((isResponse && own < 0) ? 1 : 0), "C08 an unclaimed result/error iq is handed to the application (iqReceived), a request never is");
    vp_assert(w.sd->streamAckManager.m_lastIncomingSequenceNumber == w.lastIn0 + 1, "C08 the incoming iq is counted once for stream management");
}
extern "C" void h_cli_stream_req() { internAttrs(); keepHooks(); DISPATCH_REQ(streamCase); }
extern "C" void h_cli_stream_resp() { internAttrs(); keepHooks(); DISPATCH_RESP(streamCase); }

// ---- (2c) the fallback alone: QXmppOutgoingClient::handleStanza --------------------------------------------------------------------
template<unsigned TY, unsigned K> static void fallbackCase()
{
    if (K != 1 && K != 2) return;    // (no child, from present) and (foreign payload, from absent)
    SymIq q; symIq(q, TY, (K & 2) ? SH_PING : SH_NONE, K & 1);
    World w(0, q);
    const bool r = w.stream->handleStanza(q.iq);
    if (q.isRequest()) { checkRequestAnswered(w, q, -1); vp_assert(r, "C08 fallback: a get/set iq counts as handled"); }
    else vp_assert(nsent() == 0, "C08 fallback: no reply to result / error / invalid types");
    vp_assert(g_niqReceived == ((q.ty == TY_RESULT || q.ty == TY_ERROR) ? 1 : 0), "C08 fallback: result/error iqs are emitted as iqReceived");
}
extern "C" void h_cli_fallback_req() { internAttrs(); keepHooks(); DISPATCH_REQ(fallbackCase); }
extern "C" void h_cli_fallback_resp() { internAttrs(); keepHooks(); DISPATCH_RESP(fallbackCase); }
