/* C08: property-specific environment (C side).  Needs qt_core.c, qt_list.c, qt_dom.c, qt_object.c before it (one translation unit). */
void vp_c08_model_limit(uint8_t ok) { ASSERT(ok, "C08 environment: log capacity exceeded"); ASSUME(ok); }
uint8_t vp_c08_false(void) { return 0; }
/* logging: QXmppLoggable::logMessage is a Qt signal (moc code); nobody listens (DESIGN 2.5) */
void _ZN13QXmppLoggable10logMessageEN11QXmppLogger11MessageTypeERK7QString(char *self, uint32_t type, char *msg) { }
/* ---- symbolic names: a FRESH block per string whose content is selected from a constant table by an index that may be symbolic
   (pointers stay concrete, only characters and length are symbolic); same idea as harness/C11/c11_env.c ---- */
#define C08_NAMELEN 38
#define C08_NTAG 5
#define C08_NNS 9
static const uint8_t c08_tags[C08_NTAG][8] = { "query", "vCard", "time", "ping", "" };
static const uint8_t c08_taglen[C08_NTAG] = { 5, 5, 4, 4, 0 };
static const uint8_t c08_nss[C08_NNS][C08_NAMELEN + 1] = { "vcard-temp", "jabber:iq:roster", "http://jabber.org/protocol/disco#info", "http://jabber.org/protocol/disco#items",
  "jabber:iq:version", "urn:xmpp:time", "urn:xmpp:ping", "jabber:client", "" };
static const uint8_t c08_nslen[C08_NNS] = { 10, 16, 37, 38, 17, 13, 13, 13, 0 };
void vp_c08_pick_tag(char *out, uint32_t idx) { ASSUME(idx < C08_NTAG); QAD *d = qs_new(c08_taglen[idx], 5); for (uint32_t i = 0; i < 5; i++) SD(d)[i] = c08_tags[idx][i]; *(QAD**)out = d; }
void vp_c08_pick_ns(char *out, uint32_t idx) { ASSUME(idx < C08_NNS); QAD *d = qs_new(c08_nslen[idx], C08_NAMELEN); for (uint32_t i = 0; i < C08_NAMELEN; i++) SD(d)[i] = c08_nss[idx][i]; *(QAD**)out = d; }
/* IQ type attribute: 0 get, 1 set, 2 result, 3 error, 4 empty (= absent for QDomElement::attribute), 5 garbage = 1..6 arbitrary units
   that spell none of the four (the harness assumes that) */
static const uint8_t c08_types[6][7] = { "get", "set", "result", "error", "", "" };
static const uint8_t c08_typelen[6] = { 3, 3, 6, 5, 0, 0 };
void vp_c08_pick_type(char *out, uint32_t idx) { ASSUME(idx < 6); uint32_t glen = vp_u32(); uint16_t g0 = vp_u16(), g1 = vp_u16(), g2 = vp_u16(), g3 = vp_u16(), g4 = vp_u16(), g5 = vp_u16();
  ASSUME(glen >= 1 && glen <= 6); QAD *d = qs_new(idx == 5 ? glen : c08_typelen[idx], 6); uint16_t g[6] = { g0, g1, g2, g3, g4, g5 };
  for (uint32_t i = 0; i < 6; i++) SD(d)[i] = idx == 5 ? g[i] : c08_types[idx][i]; *(QAD**)out = d; }
/* ---- DOM helpers ---- */
uint32_t vp_c08_dom_nchildren(char *el) { struct dnode *n = DN(el); return n ? n->nch : 0; }
void vp_c08_dom_child(char *out, char *el, uint32_t i) { struct dnode *n = DN(el); DN(out) = (n && i < n->nch && i < DOM_MAXCH) ? n->ch[i] : 0; }
/* keep only the first n children (children are appended at concrete indices, the count may be symbolic) */
void vp_c08_dom_truncate(char *el, uint32_t n) { struct dnode *d = DN(el); ASSUME(n <= d->nch); for (uint32_t i = d->nch; i < DOM_MAXCH; i++) d->ch[i] = 0; d->nch = n; }
/* ---- QDateTime / QTimeZone (libQt5Core) as opaque words: 0 = null/invalid; the clock is arbitrary.  Text conversions of dates are cut
   (QXmppUtils::datetimeFromString/ToString, timezoneOffsetFromString/ToString): date syntax is not C08's subject. ---- */
void _ZN9QDateTimeC1Ev(char *self) { *(char**)self = 0; }
void _ZN9QDateTimeC1ERKS_(char *self, char *o) { *(char**)self = *(char**)o; }
void _ZN9QDateTimeC1EOS_(char *self, char *o) { *(char**)self = *(char**)o; }
void _ZN9QDateTimeD1Ev(char *self) { }
char* _ZN9QDateTimeaSERKS_(char *self, char *o) { *(char**)self = *(char**)o; return self; }
char* _ZN9QDateTimeaSEOS_(char *self, char *o) { *(char**)self = *(char**)o; return self; }
uint8_t _ZNK9QDateTime6isNullEv(char *self) { return *(char**)self == 0; }
uint8_t _ZNK9QDateTime7isValidEv(char *self) { return *(char**)self != 0; }
void _ZN9QDateTime15currentDateTimeEv(char *ret) { *(uint64_t*)ret = 1; }
void _ZNK9QDateTime5toUTCEv(char *ret, char *self) { *(char**)ret = *(char**)self; }
void _ZN9QDateTime11setTimeZoneERK9QTimeZone(char *self, char *tz) { }
uint64_t _ZNK9QDateTime6secsToERKS_(char *self, char *o) { uint32_t v = vp_u32(); ASSUME(v < 200000); return (uint64_t)v - 100000; }
void _ZN9QTimeZoneC1Ei(char *self, uint32_t off) { *(char**)self = 0; }
void _ZN9QTimeZoneD1Ev(char *self) { }
void _ZN10QXmppUtils18datetimeFromStringERK7QString(char *ret, char *s) { *(char**)ret = 0; }
void _ZN10QXmppUtils18datetimeFromStringE11QStringView(char *ret, uint64_t n, char *p) { *(char**)ret = 0; }
void _ZN10QXmppUtils16datetimeToStringERK9QDateTime(char *ret, char *dt) { *(QAD**)ret = SHARED_NULL; }
uint32_t _ZN10QXmppUtils24timezoneOffsetFromStringERK7QString(char *s) { return 0; }
void _ZN10QXmppUtils22timezoneOffsetToStringEi(char *ret, uint32_t secs) { *(QAD**)ret = SHARED_NULL; }
/* QString::startsWith / endsWith (QString overloads; libQt5Core) in terms of the QStringView models of qt_core.c */
uint8_t _ZNK7QString10startsWithERKS_N2Qt15CaseSensitivityE(char *self, char *o, uint32_t cs) { QAD *a = *(QAD**)self, *b = *(QAD**)o;
  return _ZN9QtPrivate10startsWithE11QStringViewS0_N2Qt15CaseSensitivityE(a->f1, (char*)qs_chars(a), b->f1, (char*)qs_chars(b), cs); }
/* log-message formatting: identity on the format string */
void _ZNK7QString3argERKS_i5QChar(char *ret, char *self, char *a, uint32_t w, uint16_t fill) { *(QAD**)ret = qad_ref(*(QAD**)self); }
void _ZN7QString23toLatin1_helper_inplaceERS_(char *ret, char *self) { QAD *s = *(QAD**)self; to8(ret, qs_chars(s), s->f1, 0x100); }
/* QDate::fromString(text, format) (vCard BDAY): date syntax is Qt's; the null date */
uint64_t _ZN5QDate10fromStringERK7QStringS2_(char *s, char *fmt) { return 0x8000000000000000ULL; }
/* QMap<K,V>: only the shared empty representation (static reference count -1) is needed: maps are default-constructed and destroyed, never
   filled (QXmppElementPrivate::attributes of the empty payload element); any real tree operation is left unmodelled (flagged if reached) */
#ifdef HAVE_G__ZN12QMapDataBase11shared_nullE
GT__ZN12QMapDataBase11shared_nullE G__ZN12QMapDataBase11shared_nullE = { {{{{ (uint32_t)-1 }}}}, 0, { 0, 0, 0 }, 0 };
#endif
/* log-message formatting with several arguments (QString::arg(a, b, c)): text is irrelevant, empty string */
void _ZN9QtPrivate12argToQStringE11QStringViewmPPKNS_7ArgBaseE(char *ret, uint64_t n, char *p, uint64_t nargs, char *args) { *(QAD**)ret = SHARED_NULL; }
