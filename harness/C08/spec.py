# C08 - every incoming IQ request is answered exactly once; responses are never answered
BASE = ['src/base/QXmppIq.cpp', 'src/base/QXmppStanza.cpp', 'src/base/QXmppUtils.cpp', 'src/base/QXmppElement.cpp', 'src/base/QXmppNonza.cpp']
IQH_TUS = BASE + ['src/client/QXmppIqHandling.cpp', 'src/client/QXmppClientExtension.cpp', 'src/base/QXmppVersionIq.cpp', 'src/base/QXmppEntityTimeIq.cpp']
MGR_TUS = BASE + ['src/client/QXmppIqHandling.cpp', 'src/client/QXmppClientExtension.cpp', 'src/base/QXmppVCardIq.cpp', 'src/base/QXmppRosterIq.cpp',
                  'src/base/QXmppDiscoveryIq.cpp', 'src/base/QXmppDataForm.cpp']
CLI_TUS = BASE + ['src/client/QXmppClient.cpp', 'src/client/QXmppClientExtension.cpp', 'src/base/QXmppStreamManagement.cpp', 'src/base/QXmppStreamFeatures.cpp']
MODELS = ['qt_core.c', 'qt_list.c', 'qt_dom.c', 'qt_object.c', 'c08_models.c']
BOUND = {
    'iqh_check': 'checkIsIqRequest on <iq/> (and <message/>: noiq) x 6 type keywords x 8 (requests) / 3 (others) payload shapes; id <= 2, from <= 3 arbitrary units',
    'iqh_reply': 'sendIqReply for handler IQ type in {error, get, set, result} x e2ee metadata absent/present; request id <= 2, from <= 3, stale id/to of the handler IQ <= 1 arbitrary units',
    'iqh_handle': 'handleIqRequests<QXmppVersionIq, QXmppEntityTimeIq> with a handler object (variant<Iq,Error> for one payload, plain Iq for the other); handler outcome result / stanza error / error-typed iq; types x shapes as above',
    'mgr': 'REAL manager handleStanza on one IQ: requests get/set x 8 payload shapes, responses/invalid types {result, error, empty, garbage} x 3 shapes; id <= 2, from <= 3, own bare JID 1..2 arbitrary units',
    'cli_inject': 'QXmppClient::injectIq, chain of 0 / 2 / 1 mock extensions with symbolic verdicts (both overloads), payload none / foreign / version; requests get/set, others: 4 type classes on the 2-extension chain',
    'cli_stream': 'QXmppOutgoingClient::handleElement -> (signal) QXmppClient::_q_elementReceived -> chain -> QXmppOutgoingClient::handleStanza; chains and payloads as for inject; requests: 0..1 own request in flight with arbitrary id <= 2 / addressee <= 3 units (may equal id / from of the incoming iq); TLS mode / encryption arbitrary within "session established"',
    'cli_fallback': 'QXmppOutgoingClient::handleStanza alone: get/set x {no child + from present, foreign child + from absent}',
    'kf': 'demonstration of a known finding: exactly the excluded input class',
}
def I(name, **kw):
    b = [v for k, v in BOUND.items() if name.startswith(k)]
    d = dict(name=name, entry='h_' + name, unwind=8, timeout_s=300, mem_gb=6, object_bits=12, bound=b[0] if b else ''); d.update(kw); return d
SPEC = dict(
    property='C08',
    groups=[
        dict(name='iqh', harness='h_iqh.cpp', tus=IQH_TUS, models=MODELS, shadow_task=True,
             instances=[I('iqh_' + n) for n in ('check_req', 'check_resp', 'check_noiq', 'reply', 'handle_result', 'handle_error', 'handle_resp')] + [I('iqh_handle_erroriq', tiers=('thorough',))] +
                       [I('mgr_%s_%s' % (m, k)) for m in ('version', 'time') for k in ('req', 'resp')]),
        dict(name='mgr', harness='h_mgr.cpp', tus=MGR_TUS, models=MODELS + ['c08_mgr.c'], shadow_task=True,
             instances=[I('mgr_%s_%s' % (m, k)) for m in ('disco', 'vcard', 'roster') for k in ('req', 'resp')]),
        # demonstrations of known findings: run only while the key is listed in /verif/known_findings.txt
        dict(name='kf', harness='h_mgr.cpp', tus=MGR_TUS, models=MODELS + ['c08_mgr.c'], shadow_task=True, cxxdefs={'C08_DEMO': 1},
             instances=[I('kf_vcard_request', known_finding='vcard_request_swallowed'), I('kf_roster_get', known_finding='roster_get_swallowed'),
                        I('kf_roster_ack_to', known_finding='roster_ack_to_missing')]),
        dict(name='client', harness='h_client.cpp', tus=CLI_TUS, models=MODELS + ['c08_client.c'], shadow_task=True, loop_bounds={r'^_ZNSt6ranges14__copy_or_move': 110},
             instances=[I('cli_' + n) for n in ('inject_req', 'inject_resp', 'inject_e2ee_req', 'inject_noiq', 'stream_resp', 'fallback_req')] + [I('cli_stream_req', mem_gb=8, timeout_s=400)] + [I('cli_inject_e2ee_resp', tiers=('thorough',))]),
    ],
    bounds=[
        'one incoming element per run; its STRUCTURE is case-split inside each instance (one switch branch per combination, all decided by the solver in one query): IQ type keyword in {get, set, result, error, empty (= absent), garbage = 1..6 arbitrary UTF-16 units spelling none of the four}; payload shapes per harness (<= 8) out of: no child, foreign <ping xmlns=urn:xmpp:ping/>, the payloads of the five managers (query@jabber:iq:version, time@urn:xmpp:time, query@disco#info, query@disco#items, vCard@vcard-temp, query@jabber:iq:roster), <query/> without namespace, right namespace under a wrong tag, foreign element FOLLOWED by the payload (2 children)',
        'symbolic per branch: id 0..2 and from 0..3 arbitrary UTF-16 units (present, possibly empty), own bare JID 1..2 units without "/" (vCard/roster managers), e2ee metadata absent / present',
        'requests (get/set) are run against all shapes; responses and invalid types against 3 shapes (own payload, no child, foreign) - they never reach payload-specific code that could send',
        'extension chain (group client): 0, 1 or 2 mock extensions, each with independent nondeterministic verdicts for handleStanza(element, e2ee) and handleStanza(element) (all 16 verdict combinations symbolic in one branch)',
        'payload elements carry no grandchildren (roster items: C12; vCard fields / disco items / data forms: C01/C02); disco query node attribute in {absent, below the capabilities node, unknown}',
    ],
    assumptions=[
        'an absent attribute and an empty attribute are the same for the code under check (QDomElement::attribute(name) returns the empty default: Qt contract); "from absent" is therefore run as "from empty", except in cli_fallback_req where the attribute is really absent',
        'a reply without "to" counts as addressed to the requester iff the request had no/empty from or from == own bare JID (RFC 6120 8.1.1.1 / 10.3.3: a stanza without to is handled by the server on behalf of the own account)',
        'groups iqh/mgr: QXmppClient is raw storage; QXmppClient::reply / sendPacket record type(), id(), to() of the stanza (read through the real getters); configuration().jidBare() is a harness-chosen string; the manager objects are raw storage with live private data and m_client; signals end in QMetaObject::activate (ghost log); QXmppDiscoveryManager::capabilities() is cut to an empty disco#info IQ (feature list: C20); QDateTime/QTimeZone are opaque words, date <-> text conversions of QXmppUtils are cut',
        'group client: QXmppClient / QXmppClientPrivate / QXmppOutgoingClient / QXmppOutgoingClientPrivate are raw storage with only d pointers, extension list, stream pointer, encryptionExtension == nullptr, stream-ack counters and the table of pending own requests alive (class-level std::unordered_map<QString, IqState> model copied from harness/C07, the real QXmppOutgoingClient.cpp is compiled against it): cli_stream_req holds 0..1 pending request with arbitrary id (<= 2 units) and addressee (<= 3 units) so that id/from of the incoming request may coincide with it, the other instances an empty table; QXmppPacket(const QXmppNonza&) runs the REAL toXml into the writer tree model and StreamAckManager::send / sendPacketCompat log that tree (socket and stream-management accounting: C09); signal QXmppOutgoingClient::elementReceived is a direct call of QXmppClient::_q_elementReceived (connection made in the QXmppClient constructor); QXmppElement(const QDomElement&) (generic payload copy handed to iqReceived) is cut to an empty element',
        'connected client = session established: with QXmppConfiguration::TLSRequired the link is encrypted (on a not yet encrypted link the client deliberately sends nothing at all: C04); streamSecurityMode() and QSslSocket::isEncrypted() are harness-controlled under that assumption',
        'a mock extension obeys the contract that the iqh/mgr groups prove for the real managers: handleStanza()==true for a get/set => it sent exactly one reply (ghost event); false => nothing sent; never a reply to result/error/invalid types',
        'QXmppTask/QXmppPromise are the assume-guarantee shadow (models/shadow/task_shadow.h, contract established by C13)',
    ],
    outside=[
        'the other ~25 bundled managers; the end-to-end-encryption send path (QXmppClient::sendSensitive with an encryption extension, encrypted IQ decryption before injectIq)',
        'result/error IQs that arrive while own requests are pending (OutgoingIqManager matching by id/from: C07; incoming get/set with 0..1 pending request ARE covered by cli_stream_req); presence/message stanzas; elements outside jabber:client (rejected as stream errors)',
        'the QXmppTask-returning handler form documented in QXmppIqHandling.h: Private::processHandleIqResult(..., QXmppTask<T>) does not compile for any T (its continuation passes an lvalue to overloads that only take rvalues / forwarding references constrained to non-reference types), so it has no instantiation to check',
        'QXmppRosterManager with <item/> children (item bookkeeping: C12) - the acknowledgement is sent before the items are looked at; content of replies beyond type/id/to (and the error condition of the fallback)',
        'what the serialised reply looks like for the managers\' payload classes (QXmppVersionIq/QXmppEntityTimeIq/QXmppDiscoveryIq::toXml): groups iqh/mgr read the envelope through getters; the wire form is checked for the client\'s own error replies (group client)',
        'extension sets beyond two extensions: by the chain invariant proved here (an extension is consulted only if all earlier ones declined, at most once per overload, nothing is consulted after the owner) longer chains behave alike, but they are not run',
    ],

)
