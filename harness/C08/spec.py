# C08 - every incoming IQ request is answered exactly once; responses are never answered
BASE = ['src/base/QXmppIq.cpp', 'src/base/QXmppStanza.cpp', 'src/base/QXmppUtils.cpp', 'src/base/QXmppElement.cpp', 'src/base/QXmppNonza.cpp']
IQH_TUS = BASE + ['src/client/QXmppIqHandling.cpp', 'src/client/QXmppClientExtension.cpp', 'src/base/QXmppVersionIq.cpp', 'src/base/QXmppEntityTimeIq.cpp']
MGR_TUS = BASE + ['src/client/QXmppIqHandling.cpp', 'src/client/QXmppClientExtension.cpp', 'src/base/QXmppVCardIq.cpp', 'src/base/QXmppRosterIq.cpp',
                  'src/base/QXmppDiscoveryIq.cpp', 'src/base/QXmppDataForm.cpp']
CLI_TUS = BASE + ['src/client/QXmppClient.cpp', 'src/client/QXmppOutgoingClient.cpp', 'src/client/QXmppClientExtension.cpp', 'src/base/QXmppStreamManagement.cpp', 'src/base/QXmppStreamFeatures.cpp']
MODELS = ['qt_core.c', 'qt_list.c', 'qt_dom.c', 'qt_object.c', 'c08_models.c']
def I(name, **kw):
    d = dict(name=name, entry='h_' + name, unwind=8, timeout_s=300, mem_gb=6, object_bits=12, bound=''); d.update(kw); return d
SPEC = dict(
    property='C08',
    groups=[
        dict(name='iqh', harness='h_iqh.cpp', tus=IQH_TUS, models=MODELS, shadow_task=True,
             instances=[I('iqh_' + n) for n in ('check_req', 'check_resp', 'check_noiq', 'reply', 'handle_result', 'handle_error', 'handle_erroriq', 'handle_resp')] +
                       [I('mgr_%s_%s' % (m, k)) for m in ('version', 'time') for k in ('req', 'resp')]),
        dict(name='mgr', harness='h_mgr.cpp', tus=MGR_TUS, models=MODELS + ['c08_mgr.c'], shadow_task=True,
             instances=[I('mgr_%s_%s' % (m, k)) for m in ('disco', 'vcard', 'roster') for k in ('req', 'resp')]),
        # demonstrations of known findings: run only while the key is listed in /verif/known_findings.txt
        dict(name='kf', harness='h_mgr.cpp', tus=MGR_TUS, models=MODELS + ['c08_mgr.c'], shadow_task=True, cxxdefs={'C08_DEMO': 1},
             instances=[I('kf_vcard_request', known_finding='vcard_request_swallowed'), I('kf_roster_get', known_finding='roster_get_swallowed'),
                        I('kf_roster_ack_to', known_finding='roster_ack_to_missing')]),
        dict(name='client', harness='h_client.cpp', tus=CLI_TUS, models=MODELS + ['c08_client.c'], shadow_task=True, loop_bounds={r'^_ZNSt6ranges14__copy_or_move': 110},
             instances=[I('cli_' + n) for n in ('inject_req', 'inject_resp', 'inject_e2ee_req', 'inject_e2ee_resp', 'inject_noiq', 'stream_req', 'stream_resp', 'fallback_req', 'fallback_resp')]),
    ],
    bounds=[], assumptions=[], outside=[],
)
