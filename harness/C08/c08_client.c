/* C08 group "client": environment boundary of the stream */
/* StreamAckManager::send / sendPacketCompat: the packet (already serialised by the QXmppPacket constructor of the harness) goes to the wire
   log; stream-management accounting and the socket are C09's subject */
void _ZN5QXmpp7Private16StreamAckManager4sendEO11QXmppPacket(char *ret, char *self, char *pkt) { F_vp_c08_sm_send(ret, pkt); }
uint8_t _ZN5QXmpp7Private16StreamAckManager16sendPacketCompatEO11QXmppPacket(char *self, char *pkt) { return F_vp_c08_sm_send_compat(pkt); }
/* QXmppLoggable(QObject *parent): QObject part only (the log-forwarding connection to a loggable parent is irrelevant here) */
void _ZN13QXmppLoggableC2EP7QObject(char *self, char *parent) { vp_qobject_init(self, parent); }
/* QXmppElement(const QDomElement &): generic copy of an unknown payload (QMap of attributes, QTextStream dump of the source) that the
   fallback hands to the application with iqReceived(); its content is not C08's subject -> empty element */
void _ZN12QXmppElementC1ERK11QDomElement(char *self, char *el) { F_vp_c08_elem_default(self); }
void _ZN12QXmppElementC2ERK11QDomElement(char *self, char *el) { F_vp_c08_elem_default(self); }
/* link state of the connected client: QXmppConfiguration::streamSecurityMode() and QSslSocket::isEncrypted() are harness-controlled */
static uint32_t c08_secmode; static uint8_t c08_encrypted;
void vp_c08_set_link(uint32_t mode, uint8_t enc) { c08_secmode = mode; c08_encrypted = enc; }
uint32_t _ZNK18QXmppConfiguration18streamSecurityModeEv(char *self) { return c08_secmode; }
uint8_t _ZNK10QSslSocket11isEncryptedEv(char *self) { return c08_encrypted; }
/* branches of QXmppOutgoingClient::handleElement that an <iq xmlns='jabber:client'/> cannot take (stream features, stream errors): flagged if reached */
void _ZN19QXmppStreamFeatures5parseERK11QDomElement(char *self, char *el) { ASSERT(0, "C08: stream features parsed for an iq element"); }
void _ZN19QXmppOutgoingClient20handleStreamFeaturesERK19QXmppStreamFeatures(char *self, char *f) { ASSERT(0, "C08: handleStreamFeatures reached for an iq element"); }
/* request-table model (c08_iqmap.h): capacity guard and index -> one of four concrete addresses */
void vp_model_assert_cap(uint8_t ok) { ASSERT(ok, "C08 request-table model: capacity (3 entries) exceeded"); ASSUME(ok); }
char* vp_pick4(uint32_t i, char *a, char *b, char *c, char *d) { return i == 0 ? a : i == 1 ? b : i == 2 ? c : d; }
