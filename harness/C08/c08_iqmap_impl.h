// second half of the request-table model: member definitions, need the complete IqState (include after QXmppOutgoingClient_p.h)
#pragma once
#include "c08_iqmap.h"
using VpIqMap = std::unordered_map<QString, QXmpp::Private::IqState>;
// Each slot is its own heap object { used, entry }; the last one is the end() sentinel: a constructed dummy, so that even on paths the
// solver has not yet excluded a dereference of end() reads well-formed objects.
// Access with a solver-chosen index goes through vp_pick4 (a C model function: i==0 ? a : i==1 ? b : ...): for symbolic execution
// that is an if-then-else over DISTINCT objects at offset 0, never pointer arithmetic with a symbolic offset (which makes cbmc treat
// the whole table as one opaque byte array and mixes up all pointers stored in it).
struct VpIqMap::Tbl {
    struct Slot {
        bool used = false;
        bool skip = false;     // inserted while an iteration was running and (solver's choice) not reached by it: the real container's
                               // iteration order is unspecified, a new element may land before or after the cursor
        union U { value_type v; U() { } ~U() { } } u;
    };
    Slot *s[VP_MAP_CAP + 1];
};
static_assert(VP_MAP_CAP == 3, "vp_pick4");
extern "C" void *vp_pick4(unsigned i, void *a, void *b, void *c, void *d);
static inline VpIqMap::Tbl::Slot *vpSlot(VpIqMap::Tbl *t, unsigned i) { return static_cast<VpIqMap::Tbl::Slot *>(vp_pick4(i, t->s[0], t->s[1], t->s[2], t->s[3])); }
inline VpIqMap::unordered_map() : t(new Tbl)
{
    for (unsigned i = 0; i <= VP_MAP_CAP; i++) t->s[i] = new Tbl::Slot;
    new (&t->s[VP_MAP_CAP]->u.v) value_type(QString(), mapped_type {});
}
inline VpIqMap::unordered_map(unordered_map &&o) : unordered_map() { swap(o); }
inline VpIqMap &VpIqMap::operator=(unordered_map &&o) { clear(); swap(o); return *this; }
inline VpIqMap::value_type *VpIqMap::slot(unsigned i) const { return &vpSlot(t, i)->u.v; }
inline bool VpIqMap::used(unsigned i) const { return vpSlot(t, i)->used; }
inline int VpIqMap::freeSlot() const { for (int i = VP_MAP_CAP - 1; i >= 0; i--) if (!t->s[i]->used) return i; return -1; }
inline VpIqMap::size_type VpIqMap::size() const { size_type n = 0; for (unsigned i = 0; i < VP_MAP_CAP; i++) if (t->s[i]->used) n++; return n; }
inline VpIqMap::iterator VpIqMap::begin() const
{
    for (unsigned k = 0; k < VP_MAP_CAP; k++) t->s[k]->skip = false;     // a new iteration sees every element
    iterator it { this, 0 };
    if (!t->s[0]->used) ++it;
    return it;
}
inline VpIqMap::value_type &VpIqMap::iterator::operator*() const { return *m->slot(i); }
inline VpIqMap::value_type *VpIqMap::iterator::operator->() const { return m->slot(i); }
inline VpIqMap::iterator &VpIqMap::iterator::operator++()
{
    unsigned n = VP_MAP_CAP;
    for (unsigned k = VP_MAP_CAP; k-- > 0;) if (k > i && m->t->s[k]->used && !m->t->s[k]->skip) n = k;
    i = n;
    return *this;
}
inline VpIqMap::~unordered_map() { clear(); }
inline VpIqMap::iterator VpIqMap::find(const QString &k) const
{
    unsigned r = VP_MAP_CAP;
    for (unsigned j = VP_MAP_CAP; j-- > 0;) if (t->s[j]->used && t->s[j]->u.v.first == k) r = j;
    return iterator { this, r };
}
template<typename... A> std::pair<VpIqMap::iterator, bool> VpIqMap::emplace(A &&...a)
{
    // like the real container: construct the element first, then look the key up
    int f = freeSlot();
    vp_model_assert_cap(f >= 0);
    new (slot(f)) value_type(std::forward<A>(a)...);
    iterator it = find(slot(f)->first);
    if (it != end()) { slot(f)->~value_type(); return { it, false }; }
    vpSlot(t, unsigned(f))->used = true;
    vpSlot(t, unsigned(f))->skip = vp_bool();
    return { iterator { this, unsigned(f) }, true };
}
template<typename... A> std::pair<VpIqMap::iterator, bool> VpIqMap::try_emplace(const QString &k, A &&...a)
{
    iterator it = find(k);
    if (it != end()) return { it, false };
    return emplace(std::piecewise_construct, std::forward_as_tuple(k), std::forward_as_tuple(std::forward<A>(a)...));
}
inline std::pair<VpIqMap::iterator, bool> VpIqMap::insert(value_type &&v) { return emplace(std::move(v)); }
inline std::pair<VpIqMap::iterator, bool> VpIqMap::insert_or_assign(const QString &k, mapped_type &&v)
{
    iterator it = find(k);
    if (it != end()) { it->second = std::move(v); return { it, false }; }
    return emplace(k, std::move(v));
}
inline VpIqMap::mapped_type &VpIqMap::operator[](const QString &k) { return try_emplace(k).first->second; }
inline VpIqMap::mapped_type &VpIqMap::at(const QString &k) { iterator it = find(k); vp_assert(it != end(), "C08 request table: at() with a missing key throws"); return it->second; }
inline VpIqMap::iterator VpIqMap::erase(iterator it)
{
    bool valid = it.i < VP_MAP_CAP && used(it.i);
    vp_assert(valid, "C08 request table: erase() of end() or of an already erased entry (undefined behaviour)");
    if (!valid) return end();
    iterator nx = it; ++nx;
    slot(it.i)->~value_type();
    vpSlot(t, it.i)->used = false;
    return nx;
}
inline VpIqMap::size_type VpIqMap::erase(const QString &k) { iterator it = find(k); if (it == end()) return 0; erase(it); return 1; }
inline void VpIqMap::clear()
{
    for (unsigned j = 0; j < VP_MAP_CAP; j++) if (t->s[j]->used) { t->s[j]->u.v.~value_type(); t->s[j]->used = false; }
}
