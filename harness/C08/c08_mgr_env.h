// C08 - environment shared by the groups "iqh" and "mgr": QXmppClient as seen by a manager, contract oracle
#pragma once
// ------------------------------------------------------------------------------------------------ environment
static QString g_ownBare;
static char g_cfgRaw[16];
static char g_clientRaw[64];
static QXmppClient *theClient() { return reinterpret_cast<QXmppClient *>(g_clientRaw); }
static int g_nreplyCalls, g_nsendPacketCalls;
static bool g_replyHadMeta;

QXmppConfiguration &QXmppClient::configuration() { return *reinterpret_cast<QXmppConfiguration *>(g_cfgRaw); }
QString QXmppConfiguration::jidBare() const { return g_ownBare; }
bool QXmppClient::sendPacket(const QXmppNonza &p)
{
    g_nsendPacketCalls++;
    logIq(static_cast<const QXmppIq &>(p));   // the managers under check only ever pass iq stanzas here (QXmppIq / QXmppVCardIq / ... objects)
    return vp_bool();   // sending may fail; whether a reply is owed does not depend on it
}
QXmppTask<QXmpp::SendResult> QXmppClient::reply(QXmppStanza &&stanza, const std::optional<QXmppE2eeMetadata> &e2ee, const std::optional<QXmppSendStanzaParams> &)
{
    g_nreplyCalls++;
    g_replyHadMeta = e2ee.has_value();
    logIq(static_cast<const QXmppIq &>(stanza));   // callers: sendIqReply(QXmppIq &&)
    QXmppPromise<QXmpp::SendResult> p;
    return p.task();
}
// QXmppDiscoveryManager::capabilities() (feature list of all extensions; content is C20's subject) is cut: see c08_mgr.c
#ifndef C08_NO_DISCO
extern "C" void vp_c08_empty_disco(QXmppDiscoveryIq *out) { new (out) QXmppDiscoveryIq; }
static void keepHooks() { if (vp_c08_false()) vp_c08_empty_disco(nullptr); }
#else
static void keepHooks() { }
#endif

#ifndef C08_HASFROM
#define C08_HASFROM true
#endif
static void symOwnJid()
{
    internAttrs();
    keepHooks();
    g_ownBare = vpSymStringNonEmpty(2);
    for (int i = 0; i < 2; i++) { if (i < g_ownBare.size()) vp_assume(g_ownBare.at(i) != QChar(u'/')); }
    g_ownAccount = g_ownBare;   // a bare JID has no resource part
}

// ------------------------------------------------------------------------------------------------ (3) real managers
// contract of an extension towards the chain (see h_client.cpp)
static void checkContract(const SymIq &q, bool r)
{
    vp_assert(g_nsent <= 1, "C08 a manager sends at most one stanza for one incoming iq");
    if (!q.isRequest()) {
        vp_assert(g_nsent == 0, "C08 a manager never answers an iq of type result, error or an invalid type");
    } else if (r) {
        vp_assert(g_nsent == 1, "C08 a manager that claims a get/set iq (handleStanza returns true) sends exactly one reply");
        if (g_nsent == 1) checkReply(0, q);
    } else {
        vp_assert(g_nsent == 0, "C08 a manager that passes a get/set iq on (handleStanza returns false) has sent nothing");
    }
}
template<typename M> struct Raw {
    VpRaw<M> raw;
    Raw() { raw->m_client = theClient(); }
    template<typename P> void setD(P *d) { new (const_cast<std::unique_ptr<P> *>(&raw->d)) std::unique_ptr<P>(d); }
    M *operator->() { return raw.p(); }
};
// shape lists: [0] own payload, [1] no child, [2] foreign payload, [3..7] look-alikes / other managers' payloads (requests only)
#define RESP_SHAPES 3
#define ENTRIES(name, fn) \
    extern "C" void h_mgr_##name##_req() { symOwnJid(); DISPATCH_REQ(fn); } \
    extern "C" void h_mgr_##name##_resp() { symOwnJid(); DISPATCH_RESP(fn); }

