// C08 - common part of the harnesses: symbolic IQ element, wire log of what the client sends, oracle.
#pragma once
#include "vp_harness.h"
#include "vp_dom.h"
#include "vp_object.h"
extern "C" {
void vp_c08_model_limit(bool ok);
bool vp_c08_false();
void vp_c08_pick_tag(QString *out, unsigned idx);    // 0 query, 1 vCard, 2 time, 3 ping (foreign), 4 "" (never used for an element)
void vp_c08_pick_ns(QString *out, unsigned idx);     // 0 vcard-temp, 1 jabber:iq:roster, 2 disco#info, 3 disco#items, 4 jabber:iq:version, 5 urn:xmpp:time, 6 urn:xmpp:ping (foreign), 7 jabber:client, 8 none (inherits)
void vp_c08_pick_type(QString *out, unsigned idx);   // 0 get, 1 set, 2 result, 3 error, 4 empty/absent, 5 garbage (1..6 arbitrary units)
unsigned vp_c08_dom_nchildren(const QDomElement *);
void vp_c08_dom_child(QDomElement *out, const QDomElement *el, unsigned i);
void vp_c08_dom_truncate(QDomElement *el, unsigned n);
}
#define L(x) QStringLiteral(x)
enum { TY_GET, TY_SET, TY_RESULT, TY_ERROR, TY_EMPTY, TY_GARBAGE, NTY };
enum { TAG_QUERY, TAG_VCARD, TAG_TIME, TAG_PING, NTAG };
enum { NS_VCARD, NS_ROSTER, NS_DISCO_INFO, NS_DISCO_ITEMS, NS_VERSION, NS_TIME, NS_PING, NS_CLIENT, NS_NONE, NNS };

// ------------------------------------------------------------------------------------------------ wire log
// Everything the code under check hands to the stream (QXmppClient::reply / sendPacket / send, or the stream's packet layer in
// the client group) is serialised by its REAL toXml into the writer tree model and kept here.
#define C08_LOGCAP 3
static int g_nsent;
static QDomElement g_sent[C08_LOGCAP];
static void wireLog(const QXmppNonza &p)
{
    VpWriter w;
    p.toXml(w.writer());
    vp_c08_model_limit(g_nsent < C08_LOGCAP);
    g_sent[g_nsent] = w.root();
    g_nsent++;
}

// ------------------------------------------------------------------------------------------------ symbolic IQ
static QDomElement el(const QString &tag, const QString &ns) { QDomElement e; vp_dom_new(&e, &tag, &ns); return e; }
static void attr(QDomElement &e, const QString &n, const QString &v) { vp_dom_set_attr(&e, &n, &v); }
// The DOM model keeps attributes in slots interned by name; interning every name used by the parsers/serialisers up
// front (unconditionally) keeps the slot table constant during symbolic execution.
// see gen_literals.py: every u"..."_s literal of the linked sources is initialised here, on the concrete prefix of the harness
#include "StringLiterals.h"
static void warmLiterals()
{
    // literals used on more than one path of the code under check (QXmppStanza::parse, QXmppIq::parse, checkIsIqRequest, payload parsers)
    (void)u"type"_s; (void)u"from"_s; (void)u"to"_s; (void)u"id"_s; (void)u"lang"_s; (void)u"query"_s; (void)u"name"_s; (void)u"os"_s; (void)u"version"_s; (void)u"node"_s;
}
static void internAttrs()
{
    warmLiterals();
    QDomElement e = el(L("x"), QString());
    const QString v;
    attr(e, L("type"), v); attr(e, L("id"), v); attr(e, L("from"), v); attr(e, L("to"), v); attr(e, L("xml:lang"), v); attr(e, L("lang"), v);
    attr(e, L("node"), v); attr(e, L("by"), v); attr(e, L("code"), v); attr(e, L("ver"), v); attr(e, L("jid"), v); attr(e, L("xmlns"), v);
}

#ifndef C08_IDLEN
#define C08_IDLEN 2
#endif
#ifndef C08_FROMLEN
#define C08_FROMLEN 3
#endif
// <iq type id from?> with 0..2 child elements; child i = <tag xmlns=ns/> with tag/ns picked from the tables
struct SymIq {
    QDomElement iq;
    unsigned ty; QString type, id, from; bool hasFrom;
    unsigned nch, tag[2], ns[2];
    bool isRequest() const { return ty == TY_GET || ty == TY_SET; }
    // effective namespace of child i (own declaration or inherited jabber:client)
    unsigned effNs(int i) const { return ns[i] == NS_NONE ? unsigned(NS_CLIENT) : ns[i]; }
    bool firstIs(unsigned t, unsigned n) const { return nch >= 1 && tag[0] == t && effNs(0) == n; }
};
// ty: TY_GET / TY_SET are fixed by the caller (one switch branch each, see DISPATCH); ty >= TY_RESULT means "no request" and is
// chosen here among result / error / empty / garbage (string content symbolic, one block).  hasFrom: attribute present (possibly empty).
static void symIq(SymIq &q, unsigned ty, bool hasFrom, unsigned maxChildren, const QString &iqTag = L("iq"))
{
    q.iq = el(iqTag, L("jabber:client"));
    if (ty >= TY_RESULT) { ty = vp_u8(); vp_assume(ty >= TY_RESULT && ty < NTY); }   // all types that are no request share one branch: symbolic content
    q.ty = ty;
    vp_c08_pick_type(&q.type, q.ty);
    if (q.ty == TY_GARBAGE) vp_assume(!(q.type == L("get")) && !(q.type == L("set")) && !(q.type == L("result")) && !(q.type == L("error")));
    attr(q.iq, L("type"), q.type);
    q.id = vpSymString(C08_IDLEN); attr(q.iq, L("id"), q.id);
    q.hasFrom = hasFrom;
    q.from = vpSymString(C08_FROMLEN);
    if (hasFrom) attr(q.iq, L("from"), q.from); else q.from = QString();
    for (unsigned i = 0; i < 2; i++) {
        if (i >= maxChildren) { q.tag[i] = NTAG; q.ns[i] = NNS; continue; }
        q.tag[i] = vp_u8(); vp_assume(q.tag[i] < NTAG);
        q.ns[i] = vp_u8(); vp_assume(q.ns[i] < NNS);
        QString t, n; vp_c08_pick_tag(&t, q.tag[i]); vp_c08_pick_ns(&n, q.ns[i]);
        QDomElement c = el(t, n);
        vp_dom_append(&q.iq, &c);
    }
    q.nch = vp_u8(); vp_assume(q.nch <= maxChildren);
    vp_c08_dom_truncate(&q.iq, q.nch);
}

// ------------------------------------------------------------------------------------------------ oracle
// reply i is <iq type='result'|'error' id=ID to=FROM/>
static void checkReply(int i, const SymIq &q)
{
    const QDomElement &a = g_sent[i];
    vp_assert(a.tagName() == L("iq"), "C08 the reply is an iq stanza");
    const QString t = a.attribute(L("type"));
    vp_assert(t == L("result") || t == L("error"), "C08 the reply to a get/set has type result or error");
    vp_assert(a.attribute(L("id")) == q.id, "C08 the reply carries the id of the request");
    vp_assert(a.attribute(L("to")) == q.from, "C08 the reply is addressed to the sender of the request");
}
static bool replyIsError(int i) { return g_sent[i].attribute(L("type")) == L("error"); }
// first child of <error/> in reply i is <cond xmlns='urn:ietf:params:xml:ns:xmpp-stanzas'/>
static bool replyHasCondition(int i, const QString &c1, const QString &c2)
{
    const QDomElement &a = g_sent[i];
    QDomElement e = a.firstChildElement(L("error"));
    if (e.isNull()) return false;
    QDomElement c = e.firstChildElement();
    if (c.isNull() || !(c.namespaceURI() == L("urn:ietf:params:xml:ns:xmpp-stanzas"))) return false;
    return c.tagName() == c1 || c.tagName() == c2;
}
