// C08 - common part of the harnesses: symbolic IQ element, wire log of what the client sends, oracle.
#pragma once
#include "vp_harness.h"
#include "vp_dom.h"
#include "vp_object.h"
#include "QXmppIq.h"
extern "C" {
void vp_c08_model_limit(bool ok);
bool vp_c08_false();
void vp_c08_pick_tag(QString *out, unsigned idx);    // 0 query, 1 vCard, 2 time, 3 ping (foreign), 4 "" (never used for an element)
void vp_c08_pick_ns(QString *out, unsigned idx);     // 0 vcard-temp, 1 jabber:iq:roster, 2 disco#info, 3 disco#items, 4 jabber:iq:version, 5 urn:xmpp:time, 6 urn:xmpp:ping (foreign), 7 jabber:client, 8 none (inherits)
void vp_c08_pick_type(QString *out, unsigned idx);   // 0 get, 1 set, 2 result, 3 error, 4 empty/absent, 5 garbage (1..6 arbitrary units)
unsigned vp_c08_dom_nchildren(const QDomElement *);
void vp_c08_dom_child(QDomElement *out, const QDomElement *el, unsigned i);
void vp_c08_dom_truncate(QDomElement *el, unsigned n);
}
#define L(x) QStringLiteral(x)
enum { TY_GET, TY_SET, TY_RESULT, TY_ERROR, TY_EMPTY, TY_GARBAGE, NTY };
enum { TAG_QUERY, TAG_VCARD, TAG_TIME, TAG_PING, NTAG };
enum { NS_VCARD, NS_ROSTER, NS_DISCO_INFO, NS_DISCO_ITEMS, NS_VERSION, NS_TIME, NS_PING, NS_CLIENT, NS_NONE, NNS };

// ------------------------------------------------------------------------------------------------ log of what is sent
// Every stanza the code under check hands to the stream is recorded, either as the wire form (the stanza's REAL toXml run into the
// writer tree model: group "client") or by its envelope fields read through the real getters type()/id()/to() (groups "iqh", "mgr":
// the payload serialisers of the managers' IQ classes are C01's subject).
#define C08_LOGCAP 3
struct Sent { bool isTree; QDomElement tree; int type; QString id, to; };
static int g_nsent;
static Sent g_sent[C08_LOGCAP];
static void logTree(const QDomElement &root)
{
    vp_c08_model_limit(g_nsent < C08_LOGCAP);
    g_sent[g_nsent].isTree = true; g_sent[g_nsent].tree = root;
    g_nsent++;
}
static void logIq(const QXmppIq &iq)
{
    vp_c08_model_limit(g_nsent < C08_LOGCAP);
    Sent &r = g_sent[g_nsent];
    r.isTree = false; r.type = int(iq.type()); r.id = iq.id(); r.to = iq.to();
    g_nsent++;
}
static bool sentIsIq(int i) { return !g_sent[i].isTree || g_sent[i].tree.tagName() == L("iq"); }
static bool sentTypeIs(int i, QXmppIq::Type t, const QString &keyword) { return g_sent[i].isTree ? g_sent[i].tree.attribute(L("type")) == keyword : g_sent[i].type == int(t); }
static QString sentId(int i) { return g_sent[i].isTree ? g_sent[i].tree.attribute(L("id")) : g_sent[i].id; }
static QString sentTo(int i) { return g_sent[i].isTree ? g_sent[i].tree.attribute(L("to")) : g_sent[i].to; }

// ------------------------------------------------------------------------------------------------ symbolic IQ
static QDomElement el(const QString &tag, const QString &ns) { QDomElement e; vp_dom_new(&e, &tag, &ns); return e; }
static void attr(QDomElement &e, const QString &n, const QString &v) { vp_dom_set_attr(&e, &n, &v); }
// The DOM model keeps attributes in slots interned by name; interning every name used by the parsers/serialisers up
// front (unconditionally) keeps the slot table constant during symbolic execution.
// see gen_literals.py: every u"..."_s literal of the linked sources is initialised here, on the concrete prefix of the harness
#include "StringLiterals.h"
static void warmLiterals()
{
    // literals used on more than one path of the code under check (QXmppStanza::parse, QXmppIq::parse, checkIsIqRequest, payload parsers)
    (void)u"type"_s; (void)u"from"_s; (void)u"to"_s; (void)u"id"_s; (void)u"lang"_s; (void)u"query"_s; (void)u"name"_s; (void)u"os"_s; (void)u"version"_s; (void)u"node"_s;
}
static void internAttrs()
{
    warmLiterals();
    QDomElement e = el(L("x"), QString());
    const QString v;
    attr(e, L("type"), v); attr(e, L("id"), v); attr(e, L("from"), v); attr(e, L("to"), v); attr(e, L("xml:lang"), v); attr(e, L("lang"), v);
    attr(e, L("node"), v); attr(e, L("by"), v); attr(e, L("code"), v); attr(e, L("ver"), v); attr(e, L("jid"), v); attr(e, L("xmlns"), v);
}

#ifndef C08_IDLEN
#define C08_IDLEN 2
#endif
#ifndef C08_FROMLEN
#define C08_FROMLEN 3
#endif
// child-element shapes of the incoming iq (payload = first child; "IQs must have only one child element", but a second one may follow)
struct Shape { unsigned nch, tag0, ns0, tag1, ns1; };
enum { SH_NONE, SH_PING, SH_VERSION, SH_TIME, SH_DISCO_INFO, SH_DISCO_ITEMS, SH_VCARD, SH_ROSTER,
       SH_QUERY_NONS,                 // <query/> without own namespace (inherits jabber:client)
       SH_VCARD_IN_VERSION_NS, SH_TIME_IN_VCARD_NS, SH_QUERY_IN_TIME_NS, SH_PING_IN_DISCO_NS, SH_PING_IN_ROSTER_NS,   // right namespace, wrong tag
       SH_PING_THEN_VERSION, SH_PING_THEN_TIME, SH_PING_THEN_DISCO, SH_PING_THEN_VCARD, SH_PING_THEN_ROSTER,         // payload only in second place
       NSHAPE };
static constexpr Shape SHAPES[NSHAPE] = {
    { 0, NTAG, NNS, NTAG, NNS }, { 1, TAG_PING, NS_PING, NTAG, NNS }, { 1, TAG_QUERY, NS_VERSION, NTAG, NNS }, { 1, TAG_TIME, NS_TIME, NTAG, NNS },
    { 1, TAG_QUERY, NS_DISCO_INFO, NTAG, NNS }, { 1, TAG_QUERY, NS_DISCO_ITEMS, NTAG, NNS }, { 1, TAG_VCARD, NS_VCARD, NTAG, NNS }, { 1, TAG_QUERY, NS_ROSTER, NTAG, NNS },
    { 1, TAG_QUERY, NS_NONE, NTAG, NNS },
    { 1, TAG_VCARD, NS_VERSION, NTAG, NNS }, { 1, TAG_TIME, NS_VCARD, NTAG, NNS }, { 1, TAG_QUERY, NS_TIME, NTAG, NNS }, { 1, TAG_PING, NS_DISCO_INFO, NTAG, NNS }, { 1, TAG_PING, NS_ROSTER, NTAG, NNS },
    { 2, TAG_PING, NS_PING, TAG_QUERY, NS_VERSION }, { 2, TAG_PING, NS_PING, TAG_TIME, NS_TIME }, { 2, TAG_PING, NS_PING, TAG_QUERY, NS_DISCO_INFO },
    { 2, TAG_PING, NS_PING, TAG_VCARD, NS_VCARD }, { 2, TAG_PING, NS_PING, TAG_QUERY, NS_ROSTER },
};
// <iq type id from?> with 0..2 child elements
struct SymIq {
    QDomElement iq;
    unsigned ty; QString type, id, from; bool hasFrom;
    unsigned nch, tag[2], ns[2];
    bool isRequest() const { return ty == TY_GET || ty == TY_SET; }
    // effective namespace of child i (own declaration or inherited jabber:client)
    unsigned effNs(int i) const { return ns[i] == NS_NONE ? unsigned(NS_CLIENT) : ns[i]; }
    bool firstIs(unsigned t, unsigned n) const { return nch >= 1 && tag[0] == t && effNs(0) == n; }
};
// Structure (IQ type class, child shape, from present) is fixed by the caller: one switch branch per combination (see DISPATCH),
// so that element names, namespaces and the type keyword are constants for symbolic execution inside a branch.  Symbolic per
// branch: id, from, and for TY_GARBAGE the 1..6 arbitrary units of the type attribute.
static void symIq(SymIq &q, unsigned ty, unsigned shape, bool hasFrom, const QString &iqTag = L("iq"))
{
    const Shape &sh = SHAPES[shape];
    q.iq = el(iqTag, L("jabber:client"));
    q.ty = ty;
    vp_c08_pick_type(&q.type, q.ty);
    if (q.ty == TY_GARBAGE) vp_assume(!(q.type == L("get")) && !(q.type == L("set")) && !(q.type == L("result")) && !(q.type == L("error")));
    attr(q.iq, L("type"), q.type);
    q.id = vpSymString(C08_IDLEN); attr(q.iq, L("id"), q.id);
    q.hasFrom = hasFrom;
    if (hasFrom) { q.from = vpSymString(C08_FROMLEN); attr(q.iq, L("from"), q.from); }
    q.nch = sh.nch; q.tag[0] = sh.tag0; q.ns[0] = sh.ns0; q.tag[1] = sh.tag1; q.ns[1] = sh.ns1;
    for (unsigned i = 0; i < 2; i++) {
        if (i >= q.nch) break;
        QString t, n; vp_c08_pick_tag(&t, q.tag[i]); vp_c08_pick_ns(&n, q.ns[i]);
        QDomElement c = el(t, n);
        vp_dom_append(&q.iq, &c);
    }
}
// dispatch over 6 type classes x 8 shapes (K = index into a per-harness shape list): every combination is its own template
// instance (the optimiser must not merge the calls into one with a variable argument) on its own branch of one switch over a
// nondeterministic selector; the solver decides all branches in one query.
#define C08_SH8(f, t) case t * 8 + 0: f<t, 0>(); break; case t * 8 + 1: f<t, 1>(); break; case t * 8 + 2: f<t, 2>(); break; case t * 8 + 3: f<t, 3>(); break; \
                      case t * 8 + 4: f<t, 4>(); break; case t * 8 + 5: f<t, 5>(); break; case t * 8 + 6: f<t, 6>(); break; case t * 8 + 7: f<t, 7>(); break;
// a harness that uses fewer than 8 shapes lets the surplus cases return at once (K >= its count)
#define DISPATCH_REQ(f) do { unsigned c_ = vp_u8(); vp_assume(c_ < 16); switch (c_) { C08_SH8(f, 0) C08_SH8(f, 1) default: break; } } while (0)
#define DISPATCH_RESP(f) do { unsigned c_ = vp_u8(); vp_assume(c_ >= 16 && c_ < 48); switch (c_) { C08_SH8(f, 2) C08_SH8(f, 3) C08_SH8(f, 4) C08_SH8(f, 5) default: break; } } while (0)

// ------------------------------------------------------------------------------------------------ oracle
static QString g_ownAccount;   // bare JID of the own account where the harness configures one (else null: only to == from counts)
// reply i is <iq type='result'|'error' id=ID to=FROM/>
static bool replyIsError(int i) { return sentTypeIs(i, QXmppIq::Error, L("error")); }
static void checkReply(int i, const SymIq &q)
{
    vp_assert(sentIsIq(i), "C08 the reply is an iq stanza");
    vp_assert(replyIsError(i) || sentTypeIs(i, QXmppIq::Result, L("result")), "C08 the reply to a get/set has type result or error");
    vp_assert(sentId(i) == q.id, "C08 the reply carries the id of the request");
    // an iq without 'to' is addressed to the sender's own account (RFC 6120 8.1.1.1 / 10.3.3): that reaches a requester whose
    // 'from' was absent/empty (the server acting for the account) or the own bare JID
    const QString to = sentTo(i);
    vp_assert(to == q.from || (to.isEmpty() && q.from == g_ownAccount), "C08 the reply is addressed to the sender of the request");
}
// wire form only: first child of <error/> in reply i is <cond xmlns='urn:ietf:params:xml:ns:xmpp-stanzas'/>
static bool replyHasCondition(int i, const QString &c1, const QString &c2)
{
    const QDomElement &a = g_sent[i].tree;
    QDomElement e = a.firstChildElement(L("error"));
    if (e.isNull()) return false;
    QDomElement c = e.firstChildElement();
    if (c.isNull() || !(c.namespaceURI() == L("urn:ietf:params:xml:ns:xmpp-stanzas"))) return false;
    return c.tagName() == c1 || c.tagName() == c2;
}
