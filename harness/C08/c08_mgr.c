/* C08 group "mgr": cuts that only make sense where the real QXmppDiscoveryManager is linked */
/* QXmppDiscoveryManager::capabilities(): the feature/identity list over all registered extensions (its content is C20's subject and it
   would need the whole QXmppClient); the reply keeps its real envelope (type/id/to set by sendIqReply) around an empty disco#info query */
void _ZN21QXmppDiscoveryManager12capabilitiesEv(char *ret, char *self) { F_vp_c08_empty_disco(ret); }
