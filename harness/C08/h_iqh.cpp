// C08 - every incoming IQ request is answered exactly once; responses are never answered.
// Group "mgr": (1) the typed request helper QXmpp::handleIqRequests<...> / Private::checkIsIqRequest / Private::sendIqReply
// (QXmppIqHandling.h/.cpp) and (3) handleStanza of the five bundled managers named in the property (vCard, roster, discovery,
// version, entity time), each on one arbitrary IQ element.  The composition with the extension chain and the fallback error
// reply of the client is the subject of group "client" (h_client.cpp); its mock extensions obey exactly the contract proved
// here for the real managers:  handleStanza()==true for a get/set  =>  exactly one result/error reply with the same id to the
// sender;  handleStanza()==false  =>  nothing was sent;  result/error/invalid type  =>  nothing is ever sent.
// Environment: QXmppClient is raw storage; QXmppClient::reply / sendPacket serialise the stanza with its REAL toXml into the
// writer tree model (wire log); configuration().jidBare() is a harness-chosen string; signals go to the ghost log of qt_object.c.
#include <QString>
#include <QMap>
#include <QList>
#include <QDomElement>
#include <QXmlStreamWriter>
#include <variant>
#include <optional>
#include <memory>
#include <any>
#include <functional>
#include <QObject>
#include <QSet>
#include <QStringList>
#include <QSharedDataPointer>
#include <QDateTime>
#include <QNetworkProxy>
#include <QSslError>
#include <QAbstractSocket>
#include <QFuture>
#include <QCoreApplication>
#include <QSysInfo>
#include <QTimeZone>
#include "QXmppDiscoveryIq.h"
#include "QXmppExtension.h"
#include "QXmppLogger.h"
#include "QXmppVCardIq.h"
#include "QXmppRosterIq.h"
#include "QXmppVersionIq.h"
#include "QXmppEntityTimeIq.h"
#include "QXmppPresence.h"
#include "QXmppDataForm.h"
#include "QXmppTask.h"
#include "QXmppPromise.h"
#include "QXmppError.h"
#include "QXmppE2eeMetadata.h"
#include "QXmppSendStanzaParams.h"
#include "c08_common.h"

#define private public
#define protected public
#include "QXmppClientExtension.h"
#include "QXmppClient.h"
#include "QXmppConfiguration.h"
#include "QXmppIqHandling.h"
#include "client/QXmppVersionManager.cpp"
#include "client/QXmppEntityTimeManager.cpp"
#undef private
#undef protected
// the real moc output of the build (signal bodies, staticMetaObject)
#include "QXmppQt5_autogen/7EM65HM6UG/moc_QXmppVersionManager.cpp"
#include "QXmppQt5_autogen/7EM65HM6UG/moc_QXmppEntityTimeManager.cpp"

#define C08_NO_DISCO 1
#include "c08_mgr_env.h"

// ------------------------------------------------------------------------------------------------ (1) typed request helper
static constexpr unsigned IQH_SHAPES[8] = { SH_VERSION, SH_NONE, SH_PING, SH_TIME, SH_QUERY_NONS, SH_VCARD_IN_VERSION_NS, SH_QUERY_IN_TIME_NS, SH_PING_THEN_VERSION };
// checkIsIqRequest: request <=> <iq> with type get or set; reports tag and namespace of the FIRST child element
template<bool IS_IQ> struct CheckCase {
    template<unsigned TY, unsigned K> static void run()
    {
        if (TY >= TY_RESULT && K >= RESP_SHAPES) return;
        SymIq q;
        symIq(q, TY, IQH_SHAPES[K], true, IS_IQ ? L("iq") : L("message"));
        auto [isRequest, tagName, xmlns] = QXmpp::Private::checkIsIqRequest(q.iq);
        vp_assert(isRequest == (IS_IQ && q.isRequest()), "C08 checkIsIqRequest: a request is exactly an <iq/> of type get or set");
        if (isRequest) {
            QString t, n;
            if (q.nch >= 1) { vp_c08_pick_tag(&t, q.tag[0]); vp_c08_pick_ns(&n, q.effNs(0)); }
            vp_assert(tagName == t && xmlns == n, "C08 checkIsIqRequest reports tag and namespace of the first child element (empty if none)");
        }
        vp_assert(g_nsent == 0, "C08 checkIsIqRequest sends nothing");
    }
};
extern "C" void h_iqh_check_req() { internAttrs(); keepHooks(); DISPATCH_REQ(CheckCase<true>::template run); }
extern "C" void h_iqh_check_resp() { internAttrs(); keepHooks(); DISPATCH_RESP(CheckCase<true>::template run); }
extern "C" void h_iqh_check_noiq() { internAttrs(); keepHooks(); DISPATCH_REQ(CheckCase<false>::template run); }
// sendIqReply: exactly one stanza, to = requester, id = request id, type result unless the handler made it an error
template<unsigned C> static void replyCase()
{
    const unsigned t = C >> 1;   // QXmppIq::Type: Error, Get, Set, Result
    const bool withMeta = (C & 1);
    const QString id = vpSymString(C08_IDLEN), from = vpSymString(C08_FROMLEN);
    QXmppIq iq; iq.setType(QXmppIq::Type(t));
    iq.setId(vpSymString(1)); iq.setTo(vpSymString(1));   // whatever the handler left there
    std::optional<QXmppE2eeMetadata> meta;
    if (withMeta) meta.emplace();
    QXmpp::Private::sendIqReply(theClient(), id, from, meta, std::move(iq));
    vp_assert(g_nreplyCalls == 1 && g_nsent == 1 && g_nsendPacketCalls == 0, "C08 sendIqReply hands exactly one stanza to QXmppClient::reply");
    vp_assert(g_replyHadMeta == withMeta, "C08 sendIqReply passes the e2ee metadata of the request on to QXmppClient::reply");
    vp_assert(sentId(0) == id && sentTo(0) == from, "C08 sendIqReply: the reply carries the request id and is addressed to the requester");
    vp_assert(t == QXmppIq::Error ? replyIsError(0) : sentTypeIs(0, QXmppIq::Result, L("result")), "C08 sendIqReply: type is result unless the handler returned an error iq");
}
extern "C" void h_iqh_reply()
{
    internAttrs(); keepHooks();
    unsigned c = vp_u8(); vp_assume(c < 8);
    switch (c) { case 0: replyCase<0>(); break; case 1: replyCase<1>(); break; case 2: replyCase<2>(); break; case 3: replyCase<3>(); break;
                 case 4: replyCase<4>(); break; case 5: replyCase<5>(); break; case 6: replyCase<6>(); break; default: replyCase<7>(); break; }
}
// handleIqRequests<A, B> with a handler object: variant<Iq, Error> for A, plain Iq for B
struct Handler {
    int calls = 0; int which = 0;
    unsigned outcome;      // 0 result iq (left at the default type 'get' / 'set'), 1 stanza error, 2 iq the handler already marked as error
    std::variant<QXmppVersionIq, QXmppStanza::Error> handleIq(QXmppVersionIq &&)
    {
        calls++; which = 1;
        if (outcome == 1) return QXmppStanza::Error(QXmppStanza::Error::Cancel, QXmppStanza::Error::BadRequest, QString());
        QXmppVersionIq r;
        r.setType(outcome == 2 ? QXmppIq::Error : QXmppIq::Get);   // default-constructed iqs are 'get': must still go out as result
        return r;
    }
    QXmppEntityTimeIq handleIq(QXmppEntityTimeIq &&)
    {
        calls++; which = 2;
        QXmppEntityTimeIq r;
        r.setType(outcome == 2 ? QXmppIq::Error : QXmppIq::Set);
        return r;
    }
};
template<unsigned OUTCOME> struct HandleCase {
    template<unsigned TY, unsigned K> static void run()
    {
        if (TY >= TY_RESULT && K >= RESP_SHAPES) return;
        SymIq q; symIq(q, TY, IQH_SHAPES[K], C08_HASFROM);
        Handler h; h.outcome = OUTCOME;
        const bool r = QXmpp::handleIqRequests<QXmppVersionIq, QXmppEntityTimeIq>(q.iq, theClient(), &h);
        const bool isVersion = q.firstIs(TAG_QUERY, NS_VERSION), isTime = q.firstIs(TAG_TIME, NS_TIME);
        const bool expect = q.isRequest() && (isVersion || isTime);
        vp_assert(r == expect, "C08 handleIqRequests accepts exactly the get/set iqs whose first child is one of its payload types");
        vp_assert(h.calls == (expect ? 1 : 0), "C08 handleIqRequests invokes the handler exactly once for an accepted request, never otherwise");
        vp_assert(g_nsent == (expect ? 1 : 0), "C08 handleIqRequests sends exactly one reply iff it returns true");
        if (expect && g_nsent == 1) {
            vp_assert(h.which == (isVersion ? 1 : 2), "C08 handleIqRequests dispatches on the payload type");
            checkReply(0, q);
            vp_assert(replyIsError(0) == (OUTCOME != 0 && !(OUTCOME == 1 && isTime)), "C08 handleIqRequests: error reply iff the handler returned an error");
            vp_assert(!g_replyHadMeta, "C08 an unencrypted request is answered without e2ee metadata");
        }
    }
};
extern "C" void h_iqh_handle_result() { internAttrs(); keepHooks(); DISPATCH_REQ(HandleCase<0>::template run); }
extern "C" void h_iqh_handle_error() { internAttrs(); keepHooks(); DISPATCH_REQ(HandleCase<1>::template run); }
extern "C" void h_iqh_handle_erroriq() { internAttrs(); keepHooks(); DISPATCH_REQ(HandleCase<2>::template run); }
extern "C" void h_iqh_handle_resp() { internAttrs(); keepHooks(); DISPATCH_RESP(HandleCase<0>::template run); }

static constexpr unsigned VERSION_SHAPES[8] = { SH_VERSION, SH_NONE, SH_PING, SH_DISCO_INFO, SH_QUERY_NONS, SH_VCARD_IN_VERSION_NS, SH_PING_THEN_VERSION, SH_TIME };
template<unsigned TY, unsigned K> static void versionCase()
{
    if (TY >= TY_RESULT && K >= RESP_SHAPES) return;
    Raw<QXmppVersionManager> m;
    auto *d = new QXmppVersionManagerPrivate; d->clientName = vpSymString(1); d->clientVersion = vpSymString(1); d->clientOs = vpSymString(1);
    m.setD(d);
    SymIq q; symIq(q, TY, VERSION_SHAPES[K], C08_HASFROM);
    const bool r = m->QXmppVersionManager::handleStanza(q.iq);
    checkContract(q, r);
    if (q.isRequest()) vp_assert(r == q.firstIs(TAG_QUERY, NS_VERSION), "C08 the version manager claims exactly the jabber:iq:version requests");
    if (q.isRequest() && r && g_nsent == 1) vp_assert(!replyIsError(0), "C08 a version request is answered with a result");
}
ENTRIES(version, versionCase)
static constexpr unsigned TIME_SHAPES[8] = { SH_TIME, SH_NONE, SH_PING, SH_VERSION, SH_QUERY_NONS, SH_QUERY_IN_TIME_NS, SH_PING_THEN_TIME, SH_TIME_IN_VCARD_NS };
template<unsigned TY, unsigned K> static void timeCase()
{
    if (TY >= TY_RESULT && K >= RESP_SHAPES) return;
    Raw<QXmppEntityTimeManager> m;
    SymIq q; symIq(q, TY, TIME_SHAPES[K], C08_HASFROM);
    const bool r = m->QXmppEntityTimeManager::handleStanza(q.iq);
    checkContract(q, r);
    if (q.isRequest()) vp_assert(r == q.firstIs(TAG_TIME, NS_TIME), "C08 the entity time manager claims exactly the urn:xmpp:time requests");
    if (q.isRequest() && r && g_nsent == 1) vp_assert(replyIsError(0) == (q.ty == TY_SET), "C08 entity time: get is answered with a result, set with an error");
}
ENTRIES(time, timeCase)
