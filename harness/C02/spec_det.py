# C02 determinism twin (det_*) and the large parsers with concrete shapes (see det_*.cpp). Fragment merged into harness/C02/spec.py by the driver.
import importlib.util, os
_sp = importlib.util.spec_from_file_location('c02_spec_base', os.path.join(os.path.dirname(os.path.abspath(__file__)), 'spec.py')); _b = importlib.util.module_from_spec(_sp); _sp.loader.exec_module(_b)
I, DOMLOOPS, iqcase = _b.I, _b.DOMLOOPS, _b.iqcase
DET_MODELS = ['det_pre.c', 'qt_core.c', 'qt_list.c', 'c02_dom.c', 'c02_env.c', 'det_post.c']
# VP_NATIVE_ALLOC_DEFINED + vp_native_alloc(n): native replay takes the phase-controlled allocator of det_post.c (zero fill for twin 0, 0xA5 for twin 1)
DET = {'VP_UTF8_LATIN1': 1, 'C02_DET': 1, 'VP_NATIVE_ALLOC_DEFINED': 1, 'vp_native_alloc(n)': '({ extern char *vp_det_alloc(unsigned long); vp_det_alloc(n); })'}
def D(name, entry, case, bound, dom=8, **kw):
    cd = dict(DET); cd['VP_CASE'] = case; cd.update(kw.pop('cdefs', {})); kw.setdefault('mem_gb', 4)
    return I(name, entry=entry, dom=dom, cdefs=cd, bound=bound, **kw)
ERR_SHAPES = ['ftl', 'ftl_nochild', 'retry', 'ftl_misplaced', 'ftl_dup', 'cond']
ERR_BOUND = '<error/> of shape %s (det_stanza.cpp ERR_SHAPES); root namespace, symbolic names where the shape says so, attribute presence/values and every text symbolic (free text <= 3 units | abstract number | enum word)'
IQ_BOUND = 'generic IQ of shape %s (spec.py iqcase); attribute presence/values and text symbolic'
# presence shapes without base64 / hex payloads (caps ver, vCard photo hash: the decoding model answers untagged text with a fresh arbitrary value per call)
PRES_DET = ['empty', 'basic', 'basic_dup', 'muc', 'mucuser', 'mucuser_dup', 'moved_idle_mix', 'addresses', 'addresses_foreign', 'error', 'ext', 'lang']
DF_DET = ['empty', 'props', 'field', 'field_novalue', 'options', 'media', 'nested']
F_SHAPES = ['core', 'misc', 'sasl2', 'foreign', 'empty']
S_SHAPES = ['two', 'text_twice', 'foreign', 'root']
GROUPS = [
    dict(name='det_stanza', harness='det_stanza.cpp', tus=_b.STANZA_TUS, models=DET_MODELS,
         instances=[D('det_error_' + n, 'h_det_error', k, ERR_BOUND % n) for k, n in enumerate(ERR_SHAPES)]
                   + [D('detfix_error_' + n, 'h_detfix_error', k, ERR_BOUND % n, tiers=(('thorough',) if n == 'ftl' else ('manual',))) for k, n in enumerate(ERR_SHAPES)]   # only ftl was measured (231 s / 3.1 GB)
                   + [D('det_iq_' + k, 'h_det_iq', v, IQ_BOUND % k, dom=6) for k, v in _b.IQ_SHAPES.items()]
                   + [D('det_iq_' + k, 'h_det_iq', v, IQ_BOUND % k, dom=6) for k, v in _b.IQ_ERR_SHAPES.items()]
                   + [D('det_iqa_' + k, 'h_det_iqa', v, IQ_BOUND % k, dom=6) for k, v in list(_b.IQA_SHAPES.items()) + list(_b.IQA_VALID_SHAPES.items()) + list(_b.IQA_ERR_SHAPES.items())]
                   + [D('det_bindiq_jid', 'h_det_bind_iq', iqcase(1, (_b.T_BIND, _b.N_BIND, (_b.T_JID, _b.N_NONE))), IQ_BOUND % 'jid', dom=6),
                      D('det_pingiq_ping', 'h_det_ping_iq', iqcase(1, (_b.T_PING, _b.N_PING)), IQ_BOUND % 'ping', dom=6)]),
    dict(name='det_presence', harness='det_presence.cpp', tus=_b.PRES_TUS, models=DET_MODELS,
         instances=[I('det_pres_' + n, entry='h_det_presence', dom=10, cdefs=dict(DET, VP_CASE=_b.PRES_SHAPES.index(n), DOM_MAXATTR=32, DOM_MAXCH=10), mem_gb=6, timeout_s=400,
                      bound='presence of shape %s (h_presence.cpp SHAPES); root namespace, attribute presence/values and text symbolic' % n) for n in PRES_DET]),
    dict(name='det_dataform', harness='det_dataform.cpp', tus=_b.DF_TUS, models=DET_MODELS,
         instances=[I('det_df_' + n, entry='h_det_dataform', dom=10, cdefs=dict(DET, VP_CASE=_b.DF_SHAPES.index(n), DOM_MAXCH=10), mem_gb=6, timeout_s=400,
                      bound='data form of shape %s (h_dataform.cpp SHAPES); attribute presence/values and text symbolic' % n) for n in DF_DET]),
    dict(name='det_stream', harness='det_stream.cpp', tus=_b.STANZA_TUS, models=DET_MODELS,
         instances=[I('det_features_' + n, entry='h_det_features', dom=12, cdefs=dict(DET, VP_CASE=k, DOM_MAXCH=12), mem_gb=6, timeout_s=400,
                      bound='stream features of shape %s (det_stream.cpp F_SHAPES); root namespace, attribute presence/values and text symbolic' % n) for k, n in enumerate(F_SHAPES)]
                   + [I('fix_features_' + n, entry='h_fix_features', dom=12, cdefs=dict(DET, VP_CASE=k, DOM_MAXCH=12), mem_gb=6, timeout_s=400,
                      bound='stream features of shape %s (det_stream.cpp F_SHAPES); root namespace, attribute presence/values and text symbolic' % n) for k, n in enumerate(F_SHAPES)]
                   + [I('det_stream_error_' + n, entry='h_det_stream_error', dom=6, cdefs=dict(DET, VP_CASE=k, QS_CAP=64, C02_COPYCAP=64), model_loop_bound=70, mem_gb=6, timeout_s=400,   # error texts of QXmppError: 46 units
                      bound='stream error of shape %s (det_stream.cpp S_SHAPES); symbolic names where the shape says so, attribute presence/values and text symbolic' % n) for k, n in enumerate(S_SHAPES)]),
    dict(name='det_sm', harness='det_sm.cpp', tus=_b.SM_TUS, models=DET_MODELS,
         instances=[I('det_' + e, cdefs=DET, mem_gb=3) for e in ['sm_enable', 'sm_enabled', 'sm_resume', 'sm_resumed', 'sm_ack', 'sm_failed']]),
    dict(name='det_sasl', harness='det_sasl.cpp', tus=_b.SASL_TUS, models=DET_MODELS,
         instances=[I('det_' + e, dom=_b.SASL[e], cdefs=DET, mem_gb=3) for e in ['sasl_failure', 'sasl2_failure', 'sasl2_abort', 'bind2_feature', 'bind2_request', 'bind2_bound', 'fast_feature', 'fast_token_request', 'fast_request']]),
]
BOUNDS = ['det_*: determinism twin - the same tree is parsed twice into two separately allocated objects, both serializations must be equal documents (element order, attributes, text); '
          'arbitrary environment answers (number / date-time / host grammar applied to free text) are drawn once per text (-DC02_DET: c02_env.c vp_c02_value, det_pre.c / det_post.c)',
          'det_error_* / detfix_error_*: <error/> of a concrete shape (6 shapes, det_stanza.cpp ERR_SHAPES: file-too-large with/without/misplaced/duplicated max-file-size, retry, foreign namespaces, two children of symbolic name and namespace)',
          'det_iq_* / det_iqa_* / det_bindiq_* / det_pingiq_*: the IQ shapes of spec.py (iqcase) incl. the <error/> shapes whose two-pass run gives no verdict',
          'det_sm_* / det_sasl_* / det_sasl2_* / det_bind2_* / det_fast_*: fully symbolic bounded tree of the corresponding fix-point instance (same vocabulary and tree size)',
          'det_features_* / fix_features_*: QXmppStreamFeatures on 5 concrete shapes (det_stream.cpp F_SHAPES: <= 8 children/grandchildren with concrete names and namespaces - unexpected order, duplicates, known names in foreign namespaces, SASL2 <authentication/> with <inline/>; shape "empty": two children of symbolic name/namespace), text and attributes symbolic; fix_*: two passes T1 == T2',
          'det_stream_error_*: StreamErrorElement::fromDom on 4 concrete shapes (det_stream.cpp S_SHAPES); no serializer exists, the twin compares the parsed values (acceptance, kind of condition, condition, host/port, text)',
          'det_pres_* / det_df_*: QXmppPresence / QXmppDataForm twin + first half on the concrete shapes of h_presence.cpp / h_dataform.cpp']
ASSUMPTIONS = ['det_*: operator new returns storage with arbitrary content, independent per allocation (cbmc: fresh malloc object). Native replay: the harness marks the two twins (vp_det_phase) and det_post.c fills fresh storage with 0x00 for the first and 0xA5 for the second twin '
               '(installed through the instance cdefs VP_NATIVE_ALLOC_DEFINED + vp_native_alloc(n); the shared per-allocation pattern is never zero, so an unwritten bool would read true in both twins)',
               'det_*: the interpretation Qt gives a free text as a number / date-time / host address is arbitrary but a FUNCTION of the text (drawn when the text is created); rows of the value tables (enum words) are not numbers']
OUTSIDE = ['determinism twin for parsers with base64 / hex payloads (Sasl::Auth/Challenge/Response/Success, Sasl2::*, presence caps ver and vCard photo hash): the decoding model answers untagged text with a fresh arbitrary value per call, the twins would differ legitimately',
           'QXmppMessage: not brought to a verdict. The real QXmppMessage.cpp links against the C02 environment with the stand-ins of harness/C17/c17_env.h, but needs further models (QVector<QStringView> allocation in QArrayData::allocate, QDateTime::fromString(QString, QString), QTimeZone, QString::trimmed/replace); no instance is registered',
           'QXmppPresence / QXmppDataForm: two passes only for the shapes that passed (pres_empty, df_f_empty in quick; the other pres_* / df_* two-pass shapes are thorough-tier and were not re-measured here); the twin of the shapes with several optional output children (basic, basic_dup, moved_idle_mix, field, options, media) gave no verdict in 400 s on a loaded machine: tier "manual"',
           'QXmppStreamFeatures with children of SYMBOLIC name (shape empty) and StreamErrorElement with two children of symbolic name (shapes two, text_twice): no verdict in 600 s: tier "manual"',
           'members read only by getters (e.g. QXmppStanza::Error::maxFileSize() of an error without <file-too-large/>): the twin compares serializations, which is what the property speaks about']
# ---- tiers: quick = a representative subset measured cheap (the whole quick tier of C02 must end within 300 s alone); everything else thorough ----
DET_QUICK = ('det_error_ftl', 'det_error_ftl_misplaced', 'det_iq_bind', 'det_iqa_addresses_valid', 'det_pingiq_ping',
             'det_bind2_request', 'det_fast_request', 'det_sasl2_abort',   # nonzas: the det_sasl group only (one group build less in the quick tier; det_sm_* thorough)
             'det_features_core', 'fix_features_core', 'det_stream_error_root', 'det_pres_empty', 'det_df_empty', 'det_df_props')
# no verdict within 400-600 s on a loaded machine (see OUTSIDE): kept, not run
DET_MANUAL = ('det_features_empty', 'fix_features_empty', 'det_stream_error_two', 'det_stream_error_text_twice', 'det_pres_basic', 'det_pres_basic_dup', 'det_pres_moved_idle_mix',
              'det_df_field', 'det_df_field_novalue', 'det_df_options', 'det_df_media', 'det_df_nested')
for _g in GROUPS:
    for _i in _g['instances']:
        _i['tiers'] = ('manual',) if _i['name'] in DET_MANUAL else (('quick', 'thorough') if _i['name'] in DET_QUICK else ('thorough',))
# (session 3, last) only detfix_error_ftl was measured (231 s / 3.1 GB); the other two-pass error shapes are kept but not run
for _g in GROUPS:
    for _i in _g['instances']:
        if _i['name'].startswith('detfix_error_') and _i['name'] != 'detfix_error_ftl': _i['tiers'] = ('manual',)
