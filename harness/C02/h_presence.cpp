// C02: QXmppPresence::parse (no type check) on trees of concrete SHAPE (one instance per row of SHAPES) with symbolic attribute presence/values, text and root
// namespace: safety of the real parser, well-formed output, parse/serialize fix point.
#include "QXmppPresence.h"
#include "c02_tree.h"
#include "c02_literals.h"

enum { T_PRESENCE, T_SHOW, T_STATUS, T_PRIORITY, T_X, T_C, T_ITEM, T_ACTOR, T_REASON, T_PASSWORD, T_PHOTO, T_MOVED, T_OLDJID, T_IDLE, T_MIX, T_JID, T_NICK, T_ADDRESSES, T_ADDRESS, T_ERROR, T_INF, T_ZZ };
static const char TAGS[][C02_L] = { "presence", "show", "status", "priority", "x", "c", "item", "actor", "reason", "password", "photo", "moved", "old-jid", "idle", "mix", "jid", "nick", "addresses", "address", "error", "item-not-found", "zz" };
enum { N_NONE, N_CLIENT, N_MUC, N_MUCUSER, N_CAPS, N_VCARD, N_MOVED, N_IDLE, N_MIXP, N_ADDR, N_STANZA, N_XY };
static const char NSS[][C02_L] = { "", "jabber:client", "http://jabber.org/protocol/muc", "http://jabber.org/protocol/muc#user", "http://jabber.org/protocol/caps", "vcard-temp:x:update", "urn:xmpp:moved:1",
                                   "urn:xmpp:idle:1", "urn:xmpp:presence:0", "http://jabber.org/protocol/address", "urn:ietf:params:xml:ns:xmpp-stanzas", "x:y" };
enum { A_TYPE, A_ID, A_TO, A_FROM, A_LANG, A_CODE, A_NODE, A_VER, A_HASH, A_EXT, A_AFFILIATION, A_ROLE, A_JID, A_NICK, A_SINCE, A_DESC, A_ZZ, A_XMLLANG };
static const char ATTRS[][C02_A] = { "type", "id", "to", "from", "lang", "code", "node", "ver", "hash", "ext", "affiliation", "role", "jid", "nick", "since", "desc", "zz", "xml:lang" };
static const char VALS[][C02_A] = { "unavailable", "subscribe", "error", "probe", "away", "xa", "dnd", "invisible", "owner", "OWNER", "none", "moderator", "visitor", "sha-1", "cancel", "to" };
C02_VOCAB(V, TAGS, NSS, ATTRS, VALS)
#define B(a) (1u << (a))
// GENUINE DEFECT (stanza language): QXmppStanza::parse reads the attribute `lang`, QXmppPresence/QXmppMessage::toXml write `xml:lang` - an unprefixed lang= is turned into
// xml:lang= by the first pass and dropped by the second (no fix point), and a real xml:lang= is never parsed. Only shape LANG offers the unprefixed attribute.
#define M_ROOT (B(A_TYPE) | B(A_ID) | B(A_TO) | B(A_FROM) | B(A_XMLLANG) | B(A_ZZ))
#define M_ROOT_LANG (M_ROOT | B(A_LANG))
#define M_ITEM (B(A_AFFILIATION) | B(A_ROLE) | B(A_JID) | B(A_NICK) | B(A_ZZ))
#define M_CAPS (B(A_NODE) | B(A_VER) | B(A_HASH) | B(A_EXT) | B(A_ZZ))
#define M_CODE (B(A_CODE) | B(A_ZZ))
#define M_IDLE (B(A_SINCE) | B(A_ZZ))
#define M_ADDR (B(A_TYPE) | B(A_JID) | B(A_DESC))
#define M_JID (B(A_JID))
#define M_ERR (B(A_TYPE) | B(A_CODE))
#define M_ZZ (B(A_ZZ) | B(A_TYPE))
#define ROOT { -1, T_PRESENCE, 255, M_ROOT, 255, 0, 255, 0, 0 }
#define N(parent, tag, ns, mask) { parent, tag, ns, mask, 255, 0, 255, 0, 0 }
#define NT(parent, tag, ns, mask, ft) { parent, tag, ns, mask, 255, 0, 255, 0, ft }
#define NFT(parent, tag, ns, mask, fa1, fl1, fa2, fl2, ft) { parent, tag, ns, mask, fa1, fl1, fa2, fl2, ft }
#define NF(parent, tag, ns, mask, fa1, fl1, fa2, fl2) { parent, tag, ns, mask, fa1, fl1, fa2, fl2, 0 }
enum { S_EMPTY, S_BASIC, S_BASIC_DUP, S_MUC, S_MUCUSER, S_MUCUSER_DUP, S_CAPS, S_CAPS_VALID, S_VCARD, S_VCARD_NOPHOTO, S_MOVED_IDLE_MIX, S_ADDRESSES, S_ADDRESSES_FOREIGN, S_ERROR, S_EXT, S_LANG, F_BASIC, F_MUC, F_MUCUSER, F_CAPS, F_VCARD, F_MOVED_MIX, F_IDLE, F_ADDRESSES, F_EXT, S_COUNT };
static const C02ShapeNode SHAPES[S_COUNT][C02_MAXNODES] = {
    /* EMPTY */ { ROOT, C02_END },
    /* BASIC */ { ROOT, N(0, T_SHOW, N_NONE, M_ZZ), N(0, T_STATUS, N_NONE, M_ZZ), N(0, T_PRIORITY, N_NONE, M_ZZ), C02_END },
    /* BASIC_DUP */ { ROOT, N(0, T_SHOW, N_NONE, M_ZZ), N(0, T_PRIORITY, N_XY, M_ZZ), N(0, T_SHOW, N_NONE, M_ZZ), N(0, T_PRIORITY, N_NONE, M_ZZ), N(0, T_STATUS, N_NONE, M_ZZ), C02_END },
    /* MUC */ { ROOT, N(0, T_X, N_MUC, M_ZZ), N(1, T_PASSWORD, N_NONE, M_ZZ), C02_END },
    /* MUCUSER */ { ROOT, N(0, T_X, N_MUCUSER, M_ZZ), N(1, T_ITEM, N_NONE, M_ITEM), N(2, T_ACTOR, N_NONE, M_JID), N(2, T_REASON, N_NONE, M_ZZ), N(1, T_STATUS, N_NONE, M_CODE), N(1, T_STATUS, N_NONE, M_CODE), C02_END },
    /* MUCUSER_DUP */ { ROOT, N(0, T_X, N_MUCUSER, M_ZZ), N(1, T_STATUS, N_NONE, M_CODE), N(0, T_X, N_MUCUSER, M_ZZ), N(3, T_ITEM, N_NONE, M_ITEM), N(3, T_ITEM, N_NONE, M_ITEM), C02_END },
    /* CAPS */ { ROOT, N(0, T_C, N_CAPS, M_CAPS), C02_END },
    /* CAPS_VALID */ { ROOT, NF(0, T_C, N_CAPS, M_CAPS, A_NODE, 2, A_HASH, 3), N(0, T_C, N_CAPS, M_CAPS), C02_END },
    /* VCARD */ { ROOT, N(0, T_X, N_VCARD, M_ZZ), N(1, T_PHOTO, N_NONE, M_ZZ), C02_END },
    /* VCARD_NOPHOTO */ { ROOT, N(0, T_ZZ, N_VCARD, M_ZZ), N(1, T_ZZ, N_NONE, M_ZZ), C02_END },
    /* MOVED_IDLE_MIX */ { ROOT, N(0, T_MOVED, N_MOVED, M_ZZ), N(1, T_OLDJID, N_NONE, M_ZZ), N(0, T_IDLE, N_IDLE, M_IDLE), N(0, T_MIX, N_MIXP, M_ZZ), N(4, T_JID, N_NONE, M_ZZ), N(4, T_NICK, N_NONE, M_ZZ), C02_END },
    /* ADDRESSES */ { ROOT, N(0, T_ADDRESSES, N_ADDR, M_ZZ), NF(1, T_ADDRESS, N_NONE, M_ADDR, A_TYPE, 2, A_JID, 3), N(0, T_ZZ, N_XY, M_ZZ), C02_END },
    /* ADDRESSES_FOREIGN */ { ROOT, N(0, T_ADDRESSES, N_XY, M_ZZ), NF(1, T_ADDRESS, N_NONE, M_ADDR, A_TYPE, 2, A_JID, 3), C02_END },
    /* ERROR */ { ROOT, N(0, T_ERROR, N_NONE, M_ERR), N(1, T_INF, N_STANZA, M_ZZ), C02_END },
    /* EXT */ { ROOT, N(0, T_ZZ, N_XY, M_ZZ), N(1, T_ZZ, N_NONE, M_ZZ), N(0, T_X, N_XY, M_ZZ), C02_END },
    /* LANG */ { { -1, T_PRESENCE, 255, M_ROOT_LANG, 255, 0, 255, 0, 0 }, C02_END },
    // F_*: shapes for the two-pass run. Fields whose EMPTINESS decides whether toXml writes an element carry text/attributes of fixed length (arbitrary units), so that the
    // serialized tree has a concrete structure except for at most one optional trailing element; everything else stays symbolic
    /* F_BASIC */ { ROOT, NT(0, T_SHOW, N_NONE, M_ZZ, 1), NT(0, T_STATUS, N_NONE, M_ZZ, 2), N(0, T_PRIORITY, N_NONE, M_ZZ), C02_END },
    /* F_MUC */ { ROOT, N(0, T_X, N_MUC, M_ZZ), NT(1, T_PASSWORD, N_NONE, M_ZZ, 2), C02_END },
    /* F_MUCUSER */ { ROOT, N(0, T_X, N_MUCUSER, M_ZZ), NF(1, T_ITEM, N_NONE, M_ITEM, A_JID, 3, A_NICK, 2), NF(2, T_ACTOR, N_NONE, M_JID, A_JID, 2, 255, 0), NT(2, T_REASON, N_NONE, M_ZZ, 2), N(1, T_STATUS, N_NONE, M_CODE), C02_END },
    /* F_CAPS */ { ROOT, NF(0, T_C, N_CAPS, M_CAPS, A_NODE, 2, A_HASH, 3), C02_END },
    /* F_VCARD */ { ROOT, N(0, T_X, N_VCARD, M_ZZ), N(1, T_PHOTO, N_NONE, M_ZZ), C02_END },
    /* F_MOVED_MIX */ { ROOT, N(0, T_MOVED, N_MOVED, M_ZZ), NT(1, T_OLDJID, N_NONE, M_ZZ, 2), N(0, T_MIX, N_MIXP, M_ZZ), NT(3, T_JID, N_NONE, M_ZZ, 3), NT(3, T_NICK, N_NONE, M_ZZ, 1), C02_END },
    /* F_IDLE */ { ROOT, N(0, T_IDLE, N_IDLE, M_IDLE), C02_END },
    /* F_ADDRESSES */ { ROOT, N(0, T_ADDRESSES, N_ADDR, M_ZZ), NF(1, T_ADDRESS, N_NONE, M_ADDR, A_TYPE, 2, A_JID, 3), N(0, T_ADDRESSES, N_XY, M_ZZ), C02_END },
    /* F_EXT */ { ROOT, N(0, T_ZZ, N_XY, M_ZZ), N(1, T_ZZ, N_NONE, M_ZZ), N(0, T_X, N_XY, M_ZZ), C02_END },
};
#define WARM() vp_c02_init(); c02_warm_QXmppStanza(); c02_warm_QXmppPresence(); c02_warm_QXmppMucIq();
static void build(C02Node *nodes) { unsigned si = vp_case_u(0, 256); vp_assume(si < S_COUNT); c02BuildShape(V, SHAPES, si, nodes); }

extern "C" void h_presence_safe()
{
    WARM() C02Node nodes[C02_MAXNODES]; build(nodes);
    QXmppPresence x; x.parse(nodes[0].el);
    VpWriter w1; x.toXml(w1.writer()); QDomElement t1 = w1.root();
    vp_assert(!t1.isNull(), "C02 QXmppPresence: a parsed presence serializes to one complete element");
}
extern "C" void h_presence_fix()
{
    WARM() C02Node nodes[C02_MAXNODES]; build(nodes);
    QXmppPresence x; x.parse(nodes[0].el);
    VpWriter w1; x.toXml(w1.writer()); QDomElement t1 = w1.root();
    QXmppPresence y; y.parse(t1);
    VpWriter w2; y.toXml(w2.writer()); QDomElement t2 = w2.root();
    vp_assert(vp_dom_equal(&t1, &t2), "C02 QXmppPresence: parse/serialize is a fix point (second pass gives the same document)");
}
