/* C02 environment: construction of an ARBITRARY bounded DOM tree for the parsers under test (on top of models/qt_core.c and
   models/qt_dom.c, same translation unit).
   - names: a FRESH string block per element whose content is row `idx` of a constant table (symbolic idx): pointers stay concrete,
     only length and characters are symbolic (harness/C11 idiom; a symbolic choice between literal objects is 100x slower)
   - values (attribute values, text): one fresh block that is, by a symbolic kind, either 0..C02_VLEN arbitrary UTF-16 units (covers
     "", "0", "1", "-1", "true", foreign text), an ABSTRACT NUMBER with arbitrary sign and 64-bit magnitude (covers "0", "1", "-1",
     "4294967296", ... as numbers: models/qt_core.c keeps numeric strings abstract), or a row of a parser specific constant table
     (enum strings such as "result", "cancel")
   - attributes: the NAME is concrete (slot of the DOM model stays concrete), PRESENCE and value are symbolic
   - children are appended at concrete indices; vp_dom_truncate makes the child COUNT symbolic */
void vp_c02_pick(char *out, char *tab, uint32_t stride, uint32_t n, uint32_t idx) {
  ASSUME(idx < n); ASSERT(stride <= QS_CAP && n <= 40, "C02 env: name table too large");
  QAD *d = qs_new(0, stride); struct qs *q = (struct qs*)d;
  /* every candidate row is written on its own guarded path with CONSTANT content, so length, characters and the content id (sid) of the
     block are if-then-else terms over constants. The rows are 8-bit literals of the translated harness, i.e. they take part in the
     driver's offline injectivity check of the id hash (report.json literals16), which is what `exact` asserts. */
  for (uint32_t k = 0; k < n; k++) { if (k == idx) { uint32_t l = 0; for (; l < stride; l++) { uint8_t c = ((uint8_t*)tab)[k * stride + l]; if (!c) break; q->data[l] = c; }
      d->f1 = l; q->sid = l <= 3 ? SID_PACK(q->data, l) : vpl_hash16(q->data, l); } }
  REF(d) = (uint32_t)-1;   /* immortal, see c02_dom.c (4) */
  q->lit = 1; q->exact = 1;   /* unconditional: the flags must stay constants for symex */
  *(QAD**)out = d; }
/* kind 0: free text (0..3 arbitrary units), 1: abstract number, 2: row of the table (only if n > 0).
   Every value block carries a valid content id: <= 3 units pack injectively (SID_PACK), table rows are literals of the harness (offline
   injectivity check); for an abstract number the id is never consulted (qt_core.c compares numbers by value before looking at ids). */
void vp_c02_value(char *out, char *tab, uint32_t stride, uint32_t n) {
  uint8_t kind = vp_u8(); uint32_t len = vp_u32(); uint64_t mag = vp_u64(); uint8_t neg = vp_bool(); uint32_t idx = vp_u32();
  uint16_t c0 = vp_u16(), c1 = vp_u16(), c2 = vp_u16();
  ASSUME(kind < (n > 0 ? 3 : 2)); ASSUME(len <= 3); ASSERT(stride <= QS_CAP && n <= 40, "C02 env: value table too large");
  uint32_t hint = n > 0 && stride > 3 ? stride : 3;
  QAD *d = qs_new(len, hint); struct qs *q = (struct qs*)d; REF(d) = (uint32_t)-1;
  q->data[0] = c0; q->data[1] = c1; q->data[2] = c2; q->lit = 0; q->exact = 1; q->sid = SID_PACK(q->data, len);
  if (kind == 1) { d->f1 = 1; q->data[0] = '#'; q->isnum = 1; q->neg = neg && mag != 0; q->mag = mag; }
  if (kind == 2) { ASSUME(idx < n);
    for (uint32_t k = 0; k < n; k++) { if (k == idx) { uint32_t l = 0; for (; l < stride; l++) { uint8_t c = ((uint8_t*)tab)[k * stride + l]; if (!c) break; q->data[l] = c; }
        d->f1 = l; q->lit = 1; q->sid = l <= 3 ? SID_PACK(q->data, l) : vpl_hash16(q->data, l); } } }
#ifdef C02_DET
  /* determinism twin (det_*): what Qt's number / date-time grammar makes of a FREE text is drawn ONCE, here, and kept in the block (ghost fields of a
     non-number block: neg = 0x80 memo present | 0x40 "is a number" | 1 negative, mag = magnitude / instant), so that every later toInt()/toLongLong()/
     QDateTime::fromString() of this text - by either twin - gets the same answer (det_post.c). Rows of the value table are words: not numbers. */
  { uint8_t dk = vp_bool(), dn = vp_bool(); uint64_t dm = vp_u64();
    if (kind == 0) { q->neg = (uint8_t)(0x80 | (dk ? 0x40 : 0) | ((dn && dm != 0) ? 1 : 0)); q->mag = dm; }
    if (kind == 2) { q->neg = 0x80; } }
#endif
  *(QAD**)out = d; }
/* fresh element; `ns` is the namespace IN EFFECT (the harness resolves inheritance, so the pointer never becomes a choice) */
void vp_c02_init(void) { c02_nonode_init(); }
void vp_c02_new(char *out, char *tag, char *ns, char *text) { struct dnode *n = dn_new(); n->tag = qad_ref(*(QAD**)tag); n->ns = qad_ref(*(QAD**)ns); n->text = qad_ref(*(QAD**)text); DN(out) = n; }
void vp_c02_append(char *parent, char *child) { dn_append(DN(parent), DN(child)); }
/* attribute with a concrete name: the slot is reserved unconditionally, presence is symbolic */
void vp_c02_attr(char *el, char *name, char *val, uint8_t present) { struct dnode *n = DN(el); int s = vpl_attr_slot(*(QAD**)name, 1);
  if (present) { ASSERT(!n->has[s], "C02 env: attribute set twice"); n->has[s] = 1; n->nattr++; n->av[s] = qad_ref(*(QAD**)val); } }
void vp_c02_reserve_attr(char *name) { vpl_attr_slot(*(QAD**)name, 1); }
uint32_t vp_c02_nattr(char *el) { return DN(el)->nattr; }
/* keep only the first n children (C11 idiom) */
void vp_dom_truncate(char *el, uint32_t n) { struct dnode *d = DN(el); ASSUME(n <= d->nch); for (uint32_t i = d->nch; i < DOM_MAXCH; i++) d->ch[i] = &c02_nonode; d->nch = n; }
/* has the writer produced a document element at all? (QXmppStanza::Error::toXml of an empty error writes nothing) */
uint8_t vp_c02_writer_has_root(char *w) { return WR(w)->root != 0; }
/* same multiset of children? tree equality modulo sibling order is not needed so far (the model keeps order, which is stricter) */
/* QXmpp::Private::StaticStringData<N>::StaticStringData(const char16_t (&)[N]) (StringLiterals.h, Qt 5 branch of operator""_s): the real
   constructor copies through std::ranges::copy (30 symex steps per character); same effect with a plain typed copy */
#define C02_SSD(N) void _ZN5QXmpp7Private16StaticStringDataILm##N##EEC2ERA##N##_KDs(char *self, char *str) { QAD *h = (QAD*)self; REF(h) = (uint32_t)-1; h->f1 = N - 1; h->f2 = 0; h->f3 = 24; \
  uint16_t *dst = (uint16_t*)(self + 24); const uint16_t *src = (const uint16_t*)str; for (uint32_t i = 0; i < N; i++) dst[i] = src[i]; }
// MODEL: _ZN5QXmpp7Private16StaticStringDataILm1EEC2ERA1_KDs
C02_SSD(1)
// MODEL: _ZN5QXmpp7Private16StaticStringDataILm2EEC2ERA2_KDs
C02_SSD(2)
// MODEL: _ZN5QXmpp7Private16StaticStringDataILm3EEC2ERA3_KDs
C02_SSD(3)
// MODEL: _ZN5QXmpp7Private16StaticStringDataILm4EEC2ERA4_KDs
C02_SSD(4)
// MODEL: _ZN5QXmpp7Private16StaticStringDataILm5EEC2ERA5_KDs
C02_SSD(5)
// MODEL: _ZN5QXmpp7Private16StaticStringDataILm6EEC2ERA6_KDs
C02_SSD(6)
// MODEL: _ZN5QXmpp7Private16StaticStringDataILm7EEC2ERA7_KDs
C02_SSD(7)
// MODEL: _ZN5QXmpp7Private16StaticStringDataILm8EEC2ERA8_KDs
C02_SSD(8)
// MODEL: _ZN5QXmpp7Private16StaticStringDataILm9EEC2ERA9_KDs
C02_SSD(9)
// MODEL: _ZN5QXmpp7Private16StaticStringDataILm10EEC2ERA10_KDs
C02_SSD(10)
// MODEL: _ZN5QXmpp7Private16StaticStringDataILm11EEC2ERA11_KDs
C02_SSD(11)
// MODEL: _ZN5QXmpp7Private16StaticStringDataILm12EEC2ERA12_KDs
C02_SSD(12)
// MODEL: _ZN5QXmpp7Private16StaticStringDataILm13EEC2ERA13_KDs
C02_SSD(13)
// MODEL: _ZN5QXmpp7Private16StaticStringDataILm14EEC2ERA14_KDs
C02_SSD(14)
// MODEL: _ZN5QXmpp7Private16StaticStringDataILm15EEC2ERA15_KDs
C02_SSD(15)
// MODEL: _ZN5QXmpp7Private16StaticStringDataILm16EEC2ERA16_KDs
C02_SSD(16)
// MODEL: _ZN5QXmpp7Private16StaticStringDataILm17EEC2ERA17_KDs
C02_SSD(17)
// MODEL: _ZN5QXmpp7Private16StaticStringDataILm18EEC2ERA18_KDs
C02_SSD(18)
// MODEL: _ZN5QXmpp7Private16StaticStringDataILm19EEC2ERA19_KDs
C02_SSD(19)
// MODEL: _ZN5QXmpp7Private16StaticStringDataILm20EEC2ERA20_KDs
C02_SSD(20)
// MODEL: _ZN5QXmpp7Private16StaticStringDataILm21EEC2ERA21_KDs
C02_SSD(21)
// MODEL: _ZN5QXmpp7Private16StaticStringDataILm22EEC2ERA22_KDs
C02_SSD(22)
// MODEL: _ZN5QXmpp7Private16StaticStringDataILm23EEC2ERA23_KDs
C02_SSD(23)
// MODEL: _ZN5QXmpp7Private16StaticStringDataILm24EEC2ERA24_KDs
C02_SSD(24)
// MODEL: _ZN5QXmpp7Private16StaticStringDataILm25EEC2ERA25_KDs
C02_SSD(25)
// MODEL: _ZN5QXmpp7Private16StaticStringDataILm26EEC2ERA26_KDs
C02_SSD(26)
// MODEL: _ZN5QXmpp7Private16StaticStringDataILm27EEC2ERA27_KDs
C02_SSD(27)
// MODEL: _ZN5QXmpp7Private16StaticStringDataILm28EEC2ERA28_KDs
C02_SSD(28)
// MODEL: _ZN5QXmpp7Private16StaticStringDataILm29EEC2ERA29_KDs
C02_SSD(29)
// MODEL: _ZN5QXmpp7Private16StaticStringDataILm30EEC2ERA30_KDs
C02_SSD(30)
// MODEL: _ZN5QXmpp7Private16StaticStringDataILm31EEC2ERA31_KDs
C02_SSD(31)
// MODEL: _ZN5QXmpp7Private16StaticStringDataILm32EEC2ERA32_KDs
C02_SSD(32)
// MODEL: _ZN5QXmpp7Private16StaticStringDataILm33EEC2ERA33_KDs
C02_SSD(33)
// MODEL: _ZN5QXmpp7Private16StaticStringDataILm34EEC2ERA34_KDs
C02_SSD(34)
// MODEL: _ZN5QXmpp7Private16StaticStringDataILm35EEC2ERA35_KDs
C02_SSD(35)
// MODEL: _ZN5QXmpp7Private16StaticStringDataILm36EEC2ERA36_KDs
C02_SSD(36)
// MODEL: _ZN5QXmpp7Private16StaticStringDataILm37EEC2ERA37_KDs
C02_SSD(37)
// MODEL: _ZN5QXmpp7Private16StaticStringDataILm38EEC2ERA38_KDs
C02_SSD(38)
// MODEL: _ZN5QXmpp7Private16StaticStringDataILm39EEC2ERA39_KDs
C02_SSD(39)
// MODEL: _ZN5QXmpp7Private16StaticStringDataILm40EEC2ERA40_KDs
C02_SSD(40)
/* operator==(QStringView, QStringView) / operator!= (inline in qstringview.h, all comparisons of the parsers end here): same result as
   the inline code (size check + QtPrivate::equalStrings of models/qt_core.c) with a fast path: a model block carrying a valid content id
   against LITERAL data (non-block pointer at the start of a constant: same criterion as VIEW_LIT of qt_core.c) compares ids; the id of the
   literal is computed in place and folds to a constant. */
static int c02_lit_vs_blk(uint64_t n, const uint16_t *lit, const uint16_t *a) {   /* n > 0, lengths equal */
  struct qs *q = QSBLK(a);
  if (q->isnum || q->b64) return 0;   /* abstract numbers / base64 tags never equal ordinary text */
  /* `whole view` (block length == view length) is left to the solver as a model obligation: symex cannot fold it for a symbolic length
     (zero- vs sign-extended copies of the same field), and exploring the unit-by-unit fallback is exactly the cost to avoid */
  if (q->exact) { ASSERT(q->h.f1 == n, "C02 env: partial view of a block with content id compared"); return q->sid == (n <= 3 ? SID_PACK(lit, n) : vpl_hash16(lit, (uint32_t)n)); }
  return view_eq(n, a, n, lit); }
static int c02_veq(uint64_t na, const uint16_t *a, uint64_t nb, const uint16_t *b) {
  if (na != nb) return 0;   /* abstract numbers / base64 tags are 1-unit placeholders and only equal each other */
  if (na == 0) return 1;
  if (!VP_IS_QS(b) && VP_LITSTART(b) && VP_IS_QS(a)) return c02_lit_vs_blk(nb, b, a);
  if (!VP_IS_QS(a) && VP_LITSTART(a) && VP_IS_QS(b)) return c02_lit_vs_blk(na, a, b);
  return view_eq(na, a, nb, b); }
uint8_t _Zeq11QStringViewS_(uint64_t na, char *a, uint64_t nb, char *b) { return c02_veq(na, (const uint16_t*)a, nb, (const uint16_t*)b); }
uint8_t _Zne11QStringViewS_(uint64_t na, char *a, uint64_t nb, char *b) { return !c02_veq(na, (const uint16_t*)a, nb, (const uint16_t*)b); }
/* QStringView::toString() (inline: QString(data(), size())) and QStringView(const QString&) (inline). The views of this code base are whole
   strings: of a model block (offset 56), of a static QStringData (QStringLiteral / operator""_s: offset 24) or of a raw UTF-16 literal (offset 0).
   toString() of the first gives back the SAME block (obligation: view length == string length, left to the solver), literal data is
   copied into a block with content id. No branch goes through strlen / reference counting, and the view of a null QString keeps shared_null's
   data pointer (not nullptr: QStringView::isNull() is not used by the parsers) so that no NULL alternative enters later pointer terms. */
void _ZNK11QStringView8toStringEv(char *ret, char *self) { uint64_t n = *(uint64_t*)self; uint16_t *p = *(uint16_t**)(self + 8);
  if (!p) { *(QAD**)ret = C02_EMPTY; return; }
  if (n == 0) { *(QAD**)ret = C02_EMPTY; return; }
#ifdef __CPROVER__
  uint64_t off = __CPROVER_POINTER_OFFSET(p);
#else
  uint64_t off = VP_IS_QS(p) ? QS_OFF : 1;   /* native replay: block registry; literal-ness unknown */
#endif
  /* ALWAYS a fresh block (uniform result even when `p` is a select from a constant table of views, e.g. SASL_ERROR_CONDITIONS.at(c), for
     which symex folds neither the offset nor the kind of the source). The copy claims a content id; that this is legitimate (source is
     literal data, or a whole model block that has an id itself, or <= 3 units) is an obligation for the SOLVER, not a symex branch. */
  uint8_t isblk = off == QS_OFF;
#ifdef __CPROVER__   /* natively literal-ness of a pointer is unknown: the copy then carries no id (see below) and is compared unit by unit */
  ASSERT(n <= 3 || off == 0 || off == 24 || (isblk && QSBLK(p)->exact && QSBLK(p)->h.f1 == n), "C02 env: toString() of a view whose content has no content id / partial view");
#endif
  QAD *c = c02_copy16(p, (uint32_t)n, 1); struct qs *q = (struct qs*)c;
  /* ghost fields of a block source (abstract number, base64 tag) travel with the copy */
  q->isnum = isblk ? QSBLK(p)->isnum : 0; q->neg = isblk ? QSBLK(p)->neg : 0; q->mag = isblk ? QSBLK(p)->mag : 0; q->b64 = isblk ? QSBLK(p)->b64 : (QAD*)0;
#ifndef __CPROVER__
  if (!isblk) { q->exact = n <= 3; q->lit = 0; }
#endif
  *(QAD**)ret = c; }
void _ZN11QStringViewC2I7QStringLb1EEERKT_(char *self, char *str) { QAD *d = *(QAD**)str; *(uint64_t*)self = (uint64_t)d->f1; *(uint16_t**)(self + 8) = qs_chars(d); }
void _ZN11QStringViewC1I7QStringLb1EEERKT_(char *self, char *str) { QAD *d = *(QAD**)str; *(uint64_t*)self = (uint64_t)d->f1; *(uint16_t**)(self + 8) = qs_chars(d); }
/* EVERY QString is a model block: QString(QStringDataPtr) (inline; the constructor behind QStringLiteral and operator""_s) copies the static
   data into a block with content id (constant content: folds), QString() (inline) is the static empty block, QString::isNull() (inline) is
   true for it. Reason: a QString selected by a switch over a symbolic enum value (conditionToString, IQ_TYPES.at(type).toString(), ...) is an
   if-then-else over its alternatives; over model blocks of one type that is a cheap typed field read, over Qt's static QStringData objects
   of 24 different struct types every character read becomes a byte_extract of each whole object (measured: 10 MB per SSA step). */
void _ZN7QStringC2E14QStringDataPtr(char *self, char *ptr) { QAD *d = (QAD*)ptr; if (d->f3 == QS_OFF) { *(QAD**)self = d; return; } if (d->f1 == 0) { *(QAD**)self = C02_EMPTY; return; } *(QAD**)self = c02_copy16(qs_chars(d), d->f1, 1); }
void _ZN7QStringC1E14QStringDataPtr(char *self, char *ptr) { _ZN7QStringC2E14QStringDataPtr(self, ptr); }
void _ZN7QStringC2Ev(char *self) { *(QAD**)self = C02_EMPTY; }
void _ZN7QStringC1Ev(char *self) { *(QAD**)self = C02_EMPTY; }
uint8_t _ZNK7QString6isNullEv(char *self) { QAD *d = *(QAD**)self; return d == C02_EMPTY || d == SHARED_NULL; }
/* std::vector<QString>::_M_realloc_insert (libstdc++, inline): the growth path of push_back/emplace_back. The real one allocates n*8 untyped bytes
   and relocates the elements through them, which loses the identity of the QString d-pointers for symex (every later string operation then
   sees an unknown object). Model: ONE typed pointer array of fixed capacity at the first growth (later push_backs take the real inline fast path
   `end != end_of_storage`); elements are relocated bitwise (QString is trivially relocatable), the new element is move-/copy-constructed. */
#ifndef C02_VECCAP
#define C02_VECCAP 8
#endif
static void c02_vec_grow(char *self, char *pos, char *arg, int move) { char **v = (char**)self; char **ob = (char**)v[0], **oe = (char**)v[1]; uint64_t n = (ob == oe) ? 0 : (uint64_t)(oe - ob);
  ASSERT(n < C02_VECCAP, "C02 env: std::vector<QString> capacity of the model exceeded"); ASSERT((char**)pos == oe, "C02 env: only insertion at the end of a vector is modelled");
  char **nb = malloc(sizeof(char*) * C02_VECCAP); ASSUME(nb != 0);
  for (uint32_t i = 0; i < C02_VECCAP; i++) nb[i] = (char*)C02_EMPTY;   /* unused slots: a definite valid string (reads on infeasible iterations must not yield an unknown object) */
  for (uint32_t i = 0; i < C02_VECCAP; i++) { if (i >= n) break; nb[i] = ob[i]; }
  nb[n] = *(char**)arg; if (move) *(char**)arg = (char*)C02_EMPTY;
  v[0] = (char*)nb; v[1] = (char*)(nb + n + 1); v[2] = (char*)(nb + C02_VECCAP); }
void _ZNSt6vectorI7QStringSaIS0_EE17_M_realloc_insertIJS0_EEEvN9__gnu_cxx17__normal_iteratorIPS0_S2_EEDpOT_(char *self, char *pos, char *arg) { c02_vec_grow(self, pos, arg, 1); }
void _ZNSt6vectorI7QStringSaIS0_EE17_M_realloc_insertIJRKS0_EEEvN9__gnu_cxx17__normal_iteratorIPS0_S2_EEDpOT_(char *self, char *pos, char *arg) { c02_vec_grow(self, pos, arg, 0); }
/* std::vector<QString>::vector() (inline): storage of the fixed capacity from the start, so that begin() is never a NULL alternative */
static void c02_vec_init(char *self) { char **v = (char**)self; char **nb = malloc(sizeof(char*) * C02_VECCAP); ASSUME(nb != 0); for (uint32_t i = 0; i < C02_VECCAP; i++) nb[i] = (char*)C02_EMPTY;
  v[0] = (char*)nb; v[1] = (char*)nb; v[2] = (char*)(nb + C02_VECCAP); }
void _ZNSt6vectorI7QStringSaIS0_EEC2Ev(char *self) { c02_vec_init(self); }
void _ZNSt6vectorI7QStringSaIS0_EEC1Ev(char *self) { c02_vec_init(self); }
/* ---- QDateTime (libQt5Core; Qt's date-time parsing/formatting is trusted, DESIGN 2.5): the 8-byte object holds an opaque instant (0 = null/invalid).
   Text form = abstract number string carrying the instant (fromString(toString(t)) == t by contract); any other text parses to an arbitrary instant
   or to an invalid date-time. toUTC()/toTimeSpec keep the instant. ---- */
#define DTW(p) (*(uint64_t*)(p))
void _ZN9QDateTimeC1Ev(char *self) { DTW(self) = 0; }
void _ZN9QDateTimeC2Ev(char *self) { DTW(self) = 0; }
void _ZN9QDateTimeC1ERKS_(char *self, char *o) { DTW(self) = DTW(o); }
void _ZN9QDateTimeC2ERKS_(char *self, char *o) { DTW(self) = DTW(o); }
void _ZN9QDateTimeC1EOS_(char *self, char *o) { DTW(self) = DTW(o); }
void _ZN9QDateTimeD1Ev(char *self) { }
void _ZN9QDateTimeD2Ev(char *self) { }
char* _ZN9QDateTimeaSERKS_(char *self, char *o) { DTW(self) = DTW(o); return self; }
char* _ZN9QDateTimeaSEOS_(char *self, char *o) { DTW(self) = DTW(o); return self; }
uint8_t _ZNK9QDateTime6isNullEv(char *self) { return DTW(self) == 0; }
uint8_t _ZNK9QDateTime7isValidEv(char *self) { return DTW(self) != 0; }
void _ZN9QDateTime10fromStringERK7QStringN2Qt10DateFormatE(char *ret, char *str, uint32_t fmt) { QAD *d = *(QAD**)str; uint64_t any = vp_u64();
  if (d->f1 == 0) { DTW(ret) = 0; return; } if (d->f3 == QS_OFF && ((struct qs*)d)->isnum) { DTW(ret) = ((struct qs*)d)->mag; return; }
  /* C02_DET: the interpretation of a free text was drawn when the text was made (see vp_c02_value) */
  if (d->f3 == QS_OFF && (((struct qs*)d)->neg & 0x80)) { DTW(ret) = (((struct qs*)d)->neg & 0x40) ? ((struct qs*)d)->mag : 0; return; }
  DTW(ret) = any; }
void _ZNK9QDateTime10toTimeSpecEN2Qt8TimeSpecE(char *ret, char *self, uint32_t spec) { DTW(ret) = DTW(self); }
void _ZNK9QDateTime5toUTCEv(char *ret, char *self) { DTW(ret) = DTW(self); }
uint32_t _ZNK9QDateTime4timeEv(char *self) { return (uint32_t)(DTW(self) & 0x3ffffff); }   /* QTime is one int (ms since midnight), returned in a register */
uint32_t _ZNK5QTime4msecEv(char *self) { return *(uint32_t*)self % 1000u; }
void _ZNK9QDateTime8toStringEN2Qt10DateFormatE(char *ret, char *self, uint32_t fmt) { if (DTW(self) == 0) { *(QAD**)ret = C02_EMPTY; return; } *(QAD**)ret = qs_number(DTW(self), 0); }
/* ---- QXmppElement (src/base/QXmppElement.cpp, not an anchored file): class-level cut. The object keeps the DOM node it was constructed from;
   toXml() writes the copy the real class would write: tag, xmlns only if it differs from the parent's, NON-EMPTY attributes (the real toXml uses
   writeOptionalXmlAttribute), text, child elements (two levels below the copied element; deeper is a model limit). ---- */
#define XE(p) (*(struct dnode**)(p))
void _ZN12QXmppElementC1ERK11QDomElement(char *self, char *el) { XE(self) = DN(el); }
void _ZN12QXmppElementC2ERK11QDomElement(char *self, char *el) { XE(self) = DN(el); }
void _ZN12QXmppElementC1ERKS_(char *self, char *o) { XE(self) = XE(o); }
void _ZN12QXmppElementC2ERKS_(char *self, char *o) { XE(self) = XE(o); }
void _ZN12QXmppElementC1Ev(char *self) { XE(self) = 0; }
void _ZN12QXmppElementC2Ev(char *self) { XE(self) = 0; }
void _ZN12QXmppElementD1Ev(char *self) { }
void _ZN12QXmppElementD2Ev(char *self) { }
char* _ZN12QXmppElementaSERKS_(char *self, char *o) { XE(self) = XE(o); return self; }
static struct dnode *c02_emit(struct wr *x, struct dnode *n, QAD *srcParentNs) {
  QAD *ns = (n->ns->f1 != 0 && !d_eq(n->ns, srcParentNs)) ? n->ns : (QAD*)0;
  struct dnode *c = wr_open(x, n->tag, ns);
  for (uint32_t s = 0; s < DOM_MAXATTR; s++) { if (n->has[s]) { if (n->av[s]->f1 != 0) { c->has[s] = 1; c->nattr++; c->av[s] = n->av[s]; } } }
  if (n->text->f1 != 0) c->text = n->text;
  return c; }
void _ZNK12QXmppElement5toXmlEP16QXmlStreamWriter(char *self, char *w) { struct dnode *n = XE(self); if (!n) return; if (n->tag->f1 == 0) return;
  struct wr *x = WR(w); struct dnode *p = n->parent; QAD *pns = C02_EMPTY; if (p) pns = p->ns;
  c02_emit(x, n, pns);
  for (uint32_t i = 0; i < DOM_MAXCH; i++) { if (i >= n->nch) break; struct dnode *c = n->ch[i]; c02_emit(x, c, n->ns);
    for (uint32_t j = 0; j < DOM_MAXCH; j++) { if (j >= c->nch) break; struct dnode *g = c->ch[j]; ASSERT(g->nch == 0, "C02 env: QXmppElement copy deeper than 3 levels"); c02_emit(x, g, c->ns); x->depth--; }
    x->depth--; }
  x->depth--; }
/* QXmpp::Private::parseHostAddress (QXmppUtils.cpp; wraps QUrl, Qt): cut - arbitrary host (0..3 units) and port */
void _ZN5QXmpp7Private16parseHostAddressERK7QString(char *ret, char *addr) { uint32_t port = vp_u32(); uint32_t len = vp_u32(); uint16_t c0 = vp_u16(), c1 = vp_u16(), c2 = vp_u16(); ASSUME(len <= 3);
#ifdef C02_DET   /* determinism twin: host and port are a function of the text's pre-drawn interpretation (see vp_c02_value): arbitrary, but the same for every call on this text */
  { QAD *a = *(QAD**)addr; if (a->f3 == QS_OFF && (((struct qs*)a)->isnum || (((struct qs*)a)->neg & 0x80))) { uint64_t m = ((struct qs*)a)->mag;   /* abstract number text: its value plays the same role */
      len = (uint32_t)(m & 3); port = (uint32_t)(m >> 2); c0 = (uint16_t)(m >> 34); c1 = (uint16_t)(m >> 48); c2 = (uint16_t)(c0 ^ (m >> 20)); } }
#endif
  QAD *d = qs_new(len, 3); struct qs *q = (struct qs*)d; REF(d) = (uint32_t)-1; q->data[0] = c0; q->data[1] = c1; q->data[2] = c2; q->exact = 1; q->sid = SID_PACK(q->data, len);
  *(QAD**)ret = d; *(uint32_t*)(ret + 8) = len == 0 ? (uint32_t)-1 : port; }
/* text of CONCRETE length (1..3) with arbitrary units, and an attribute that is present on every path: used where the emptiness of a value decides the
   length of a list in the parsed object (QXmppExtendedAddress::isValid), so that one instance has a concretely valid entry */
void vp_c02_fixed_text(char *out, uint32_t len) { uint16_t c0 = vp_u16(), c1 = vp_u16(), c2 = vp_u16(); ASSERT(len >= 1 && len <= 3, "C02 env: fixed text length"); QAD *d = qs_new(len, 3); struct qs *q = (struct qs*)d; REF(d) = (uint32_t)-1;
  q->data[0] = c0; q->data[1] = c1; q->data[2] = c2; q->exact = 1; q->sid = SID_PACK(q->data, len);
#ifdef C02_DET
  { uint8_t dk = vp_bool(), dn = vp_bool(); uint64_t dm = vp_u64(); q->neg = (uint8_t)(0x80 | (dk ? 0x40 : 0) | ((dn && dm != 0) ? 1 : 0)); q->mag = dm; }
#endif
  *(QAD**)out = d; }
void vp_c02_force_attr(char *el, char *name, char *val) { struct dnode *n = DN(el); int s = vpl_attr_slot(*(QAD**)name, 1); if (!n->has[s]) n->nattr++; n->has[s] = 1; n->av[s] = *(QAD**)val; }
void vp_c02_force_text(char *el, char *text) { DN(el)->text = *(QAD**)text; }
/* ---- more Qt string/byte helpers (contract models) ---- */
/* QByteArray::toHex / fromHex: abstract injective tagging like base64 in models/qt_core.c (the hex digit arithmetic is Qt's): toHex(raw) is a placeholder carrying
   `raw`, fromHex of it gives `raw` back, fromHex of any other text gives arbitrary <= 3 bytes (Qt skips non-hex characters, it never fails) */
void _ZNK10QByteArray5toHexEv(char *ret, char *self) { _ZNK10QByteArray8toBase64E6QFlagsINS_12Base64OptionEE(ret, self, 0); }
void _ZN10QByteArray7fromHexERKS_(char *ret, char *enc) { uint8_t ok; *(QAD**)ret = b64_decode(*(QAD**)enc, &ok); }
void _ZN7QString23toLatin1_helper_inplaceERS_(char *ret, char *self) { _ZN7QString15toLatin1_helperERKS_(ret, self); }
/* QString::toLower(): a string without 'A'..'Z' and without non-ASCII units is returned as it is (same block, keeps its content id); otherwise a fresh block with
   the ASCII letters lowered (non-ASCII case mapping is Qt's: left unchanged, which is what the comparisons with ASCII literals of the parsers can observe) */
static int vpl_c02_has_upper(QAD *d) { for (uint32_t i = 0; i < QHINT16(d); i++) { if (i >= d->f1) break; uint16_t c = QCH16(d)[i]; if (c >= 'A' && c <= 'Z') return 1; } return 0; }
static QAD *c02_lower(QAD *d) { if (d->f1 == 0) return d; if (d->f3 == QS_OFF && (((struct qs*)d)->isnum || ((struct qs*)d)->b64)) return d; if (!vpl_c02_has_upper(d)) return d;
  uint32_t h = QHINT16(d); QAD *r = qs_new(d->f1, h); struct qs *q = (struct qs*)r; REF(r) = (uint32_t)-1;
  for (uint32_t i = 0; i < h; i++) { if (i >= d->f1) break; uint16_t c = QCH16(d)[i]; q->data[i] = (c >= 'A' && c <= 'Z') ? (uint16_t)(c + 32) : c; }
  q->lit = 0; q->exact = d->f1 <= 3; q->sid = SID_PACK(q->data, d->f1 <= 3 ? d->f1 : 3); return r; }
void _ZN7QString14toLower_helperERS_(char *ret, char *self) { *(QAD**)ret = c02_lower(*(QAD**)self); }
void _ZN7QString14toLower_helperERKS_(char *ret, char *self) { *(QAD**)ret = c02_lower(*(QAD**)self); }
/* QString::split(QChar, behaviour, cs): cut - the result is the EMPTY list. Only QXmppPresence reads it (XEP-0115 legacy `ext`, never serialized again). */
#ifdef HAVE_G__ZN9QListData11shared_nullE
void _ZNK7QString5splitE5QChar6QFlagsIN2Qt18SplitBehaviorFlagsEENS2_15CaseSensitivityE(char *ret, char *self, uint16_t sep, uint32_t beh, uint32_t cs) { *(char**)ret = (char*)&G__ZN9QListData11shared_nullE; }
#endif
void _Z9qBadAllocv(void) { ASSERT(0, "qBadAlloc (allocation failure is out of scope)"); ASSUME(0); }
/* ---- QVariant (libQt5Core), as far as QXmppDataForm uses it: bool, QString, QStringList. 16-byte object: word 0 = payload (bool / string block / list block),
   word 1 = kind (0 invalid, 1 bool, 2 string, 3 string list). Conversions between kinds follow Qt (bool <-> "true"/"false", string -> one-element list is NOT
   modelled: the form code reads a field value with the conversion that matches what parse() stored; a mismatch is a model obligation). ---- */
#ifdef HAVE_T_class_QVariant
/* typed access (a 64-bit store over the uint32 bit-field word + padding would make the whole object opaque for symex); kinds: 0 invalid, 1 false, 4 true, 2 string, 3 list */
#define QV_P(v) (((struct T_class_QVariant*)(v))->f0.f0.f0)
#define QV_K(v) (((struct T_class_QVariant*)(v))->f0.f1)
void _ZN8QVariantC1Ev(char *self) { QV_P(self) = 0; QV_K(self) = 0; }
void _ZN8QVariantC1Eb(char *self, uint8_t b) { QV_P(self) = 0; QV_K(self) = b ? 4 : 1; }
void _ZN8QVariantC1ERK7QString(char *self, char *s) { QV_P(self) = *(char**)s; QV_K(self) = 2; }
void _ZN8QVariantC1ERK11QStringList(char *self, char *l) { struct ld *d = LD(l); if (d->ref != (uint32_t)-1 && d->ref != 0) d->ref++; QV_P(self) = (char*)d; QV_K(self) = 3; }
void _ZN8QVariantC1ERKS_(char *self, char *o) { QV_P(self) = QV_P(o); QV_K(self) = QV_K(o); if (QV_K(o) == 3) { struct ld *d = (struct ld*)QV_P(o); if (d->ref != (uint32_t)-1 && d->ref != 0) d->ref++; } }
void _ZN8QVariantD1Ev(char *self) { }
char* _ZN8QVariantaSERKS_(char *self, char *o) { _ZN8QVariantC1ERKS_(self, o); return self; }
uint8_t _ZNK8QVariant6toBoolEv(char *self) { if (QV_K(self) == 4) return 1; if (QV_K(self) == 1) return 0; ASSERT(QV_K(self) == 0, "C02 env: QVariant::toBool of a non-bool value is not modelled"); return 0; }
void _ZNK8QVariant8toStringEv(char *ret, char *self) { if (QV_K(self) == 2) { *(char**)ret = QV_P(self); return; } ASSERT(QV_K(self) == 0, "C02 env: QVariant::toString of a non-string value is not modelled"); *(QAD**)ret = C02_EMPTY; }
#ifdef HAVE_G__ZN9QListData11shared_nullE
void _ZNK8QVariant12toStringListEv(char *ret, char *self) { if (QV_K(self) == 3) { struct ld *d = (struct ld*)QV_P(self); if (d->ref != (uint32_t)-1 && d->ref != 0) d->ref++; *(char**)ret = (char*)d; return; }
  ASSERT(QV_K(self) == 0, "C02 env: QVariant::toStringList of a non-list value is not modelled"); *(char**)ret = (char*)&G__ZN9QListData11shared_nullE; }
#endif
#endif
/* ---- QMimeDatabase / QMimeType / QUrl (Qt): opaque holders of the string they were made from; EVERY name is a known mime type and QUrl::toString() gives the
   original text back (Qt's normalisation is not modelled). Only reached by <uri/> children of a <media/> element, which the vocabularies do not contain. ---- */
void _ZN13QMimeDatabaseC1Ev(char *self) { }
void _ZN13QMimeDatabaseD1Ev(char *self) { }
void _ZNK13QMimeDatabase15mimeTypeForNameERK7QString(char *ret, char *self, char *name) { *(char**)ret = *(char**)name; }
void _ZN9QMimeTypeC1Ev(char *self) { *(QAD**)self = C02_EMPTY; }
void _ZN9QMimeTypeC1ERKS_(char *self, char *o) { *(char**)self = *(char**)o; }
void _ZN9QMimeTypeD1Ev(char *self) { }
char* _ZN9QMimeTypeaSERKS_(char *self, char *o) { *(char**)self = *(char**)o; return self; }
void _ZNK9QMimeType4nameEv(char *ret, char *self) { *(char**)ret = *(char**)self; }
void _ZN4QUrlC1Ev(char *self) { *(QAD**)self = C02_EMPTY; }
void _ZN4QUrlC1ERK7QStringNS_11ParsingModeE(char *self, char *s, uint32_t mode) { *(char**)self = *(char**)s; }
void _ZN4QUrlC1ERKS_(char *self, char *o) { *(char**)self = *(char**)o; }
void _ZN4QUrlD1Ev(char *self) { }
char* _ZN4QUrlaSERKS_(char *self, char *o) { *(char**)self = *(char**)o; return self; }
void _ZNK4QUrl8toStringE12QUrlTwoFlagsINS_19UrlFormattingOptionENS_25ComponentFormattingOptionEE(char *ret, char *self, uint32_t opt) { *(char**)ret = *(char**)self; }
/* ---- qWarning() << ... : logging is a no-op (DESIGN 2.5). QDebug is one pointer to a stream record; the inline operator<< reads its `space` flag ---- */
static char *c02_dbg_stream[16];
void _ZNK14QMessageLogger7warningEv(char *ret, char *self) { for (uint32_t i = 0; i < 16; i++) c02_dbg_stream[i] = 0; *(char**)ret = (char*)c02_dbg_stream; }
void _ZNK14QMessageLogger5debugEv(char *ret, char *self) { _ZNK14QMessageLogger7warningEv(ret, self); }
void _ZN6QDebugD1Ev(char *self) { }
void _ZN6QDebug9putStringEPK5QCharm(char *self, char *p, uint64_t n) { }
char* _ZN11QTextStreamlsERK7QString(char *self, char *s) { return self; }
char* _ZN11QTextStreamlsEc(char *self, uint8_t c) { return self; }
void _ZN7QString20fromLocal8Bit_helperEPKci(char *ret, char *p, uint32_t n) { _ZN7QString15fromUtf8_helperEPKci(ret, p, n); }
void _ZNSaIcEC2Ev(char *self) { }
void _ZNSaIcEC2ERKS_(char *self, char *o) { }
void _ZNSaIcED2Ev(char *self) { }
void _ZSt19__throw_logic_errorPKc(char *m) { VP_ASSERT(0, "std::logic_error thrown"); ASSUME(0); }
