// C02 determinism twin + safety for QXmppDataForm on the concrete shapes of h_dataform.cpp
#include "h_dataform.cpp"
#include "det_twin.h"
#define DET_MSG(name) "C02 " name ": two parses of the same element into separately allocated objects serialize to the same document (no output depends on an uninitialised member)"
extern "C" void h_det_dataform()
{
    WARM() C02Node nodes[C02_MAXNODES]; build(nodes);
    vp_det_phase(0); QXmppDataForm x; x.parse(nodes[0].el);
    vp_det_phase(1); QXmppDataForm y; y.parse(nodes[0].el);
    VpWriter w1; wrap(x, w1); QDomElement t1 = w1.root();
    VpWriter w2; wrap(y, w2); QDomElement t2 = w2.root();
    vp_assert(!t1.isNull() && !t2.isNull(), "C02 QXmppDataForm: a parsed form serializes to well-formed XML");
    vp_assert(vp_dom_equal(&t1, &t2), DET_MSG("QXmppDataForm"));
}
