// C02 determinism twin (det_*): the SAME tree is parsed twice into two separately allocated objects, both are serialized, the two documents must be equal.
// cbmc gives every fresh heap object (operator new -> malloc) independent nondeterministic content, so an output that depends on a member the parser/constructor
// never wrote differs in some model (natively every allocation gets its own fill pattern, models/base.h). This is what a fix-point comparison cannot see:
// indeterminate content re-parses to itself. Environment answers that are "arbitrary" (number / date-time grammar of free text) are drawn once per text
// (-DC02_DET, det_pre.c/det_post.c), otherwise the twins would differ legitimately.
#include "h_stanza.cpp"
#include "det_twin.h"

// ---- QXmppStanza::Error: concrete SHAPE per instance, names partly symbolic, every attribute presence / value / text symbolic ----
enum { E_ERROR, E_TEXT, E_GONE, E_BADREQ, E_INF, E_FTL, E_MFS, E_RETRY, E_ZZ };
enum { EN_NONE, EN_STANZA, EN_UPLOAD, EN_CLIENT, EN_XY };
enum { EA_CODE, EA_TYPE, EA_BY, EA_STAMP, EA_ZZ };
VOCAB(det_error, ARR("error", "text", "gone", "bad-request", "item-not-found", "file-too-large", "max-file-size", "retry", "zz"),
      ARR("", NS_STANZA, NS_UPLOAD, NS_CLIENT, "x:y"), ARR("code", "type", "by", "stamp", "zz"), ARR("cancel", "modify", "auth", "wait", "continue", "en"))
#define DB(a) (1u << (a))
#define EM_ROOT (DB(EA_CODE) | DB(EA_TYPE) | DB(EA_BY) | DB(EA_ZZ))
#define EM_ZZ (DB(EA_ZZ))
#define EM_STAMP (DB(EA_STAMP) | DB(EA_ZZ))
#define EROOT { -1, E_ERROR, 255, EM_ROOT, 255, 0, 255, 0, 0 }
#define EN(parent, tag, ns, mask) { parent, tag, ns, mask, 255, 0, 255, 0, 0 }
enum { ES_FTL, ES_FTL_NOCHILD, ES_RETRY, ES_FTL_MISPLACED, ES_FTL_DUP, ES_COND, ES_COUNT };
static const C02ShapeNode ERR_SHAPES[ES_COUNT][C02_MAXNODES] = {
    /* FTL: <file-too-large xmlns=upload><max-file-size>?</max-file-size></file-too-large> + one element of symbolic name in the stanza namespace */
    { EROOT, EN(0, E_FTL, EN_UPLOAD, EM_ZZ), EN(1, E_MFS, EN_NONE, EM_ZZ), EN(0, 255, EN_STANZA, EM_ZZ), C02_END },
    /* FTL_NOCHILD: <file-too-large/> without <max-file-size/>, after <text/> and before the condition (unexpected order) */
    { EROOT, EN(0, E_TEXT, EN_STANZA, EM_ZZ), EN(0, E_FTL, EN_UPLOAD, EM_ZZ), EN(0, E_GONE, EN_STANZA, EM_ZZ), C02_END },
    /* RETRY: <retry stamp=?/> (date-time grammar), <file-too-large/> in a FOREIGN namespace with a <max-file-size/>, condition last */
    { EROOT, EN(0, E_RETRY, EN_UPLOAD, EM_STAMP), EN(0, E_FTL, EN_XY, EM_ZZ), EN(2, E_MFS, EN_NONE, EM_ZZ), EN(0, E_INF, EN_STANZA, EM_ZZ), C02_END },
    /* FTL_MISPLACED: <max-file-size/> directly under <error/>; inside <file-too-large/> a foreign child first and the <max-file-size/> in a foreign namespace */
    { EROOT, EN(0, E_MFS, EN_UPLOAD, EM_ZZ), EN(0, E_FTL, EN_UPLOAD, EM_ZZ), EN(2, E_ZZ, EN_NONE, EM_ZZ), EN(2, E_MFS, EN_XY, EM_ZZ), EN(0, E_BADREQ, EN_STANZA, EM_ZZ), C02_END },
    /* FTL_DUP: <file-too-large/> twice (with and without size) and a <retry/>, then an element of symbolic name */
    { EROOT, EN(0, E_FTL, EN_UPLOAD, EM_ZZ), EN(1, E_MFS, EN_NONE, EM_ZZ), EN(0, E_FTL, EN_UPLOAD, EM_ZZ), EN(0, E_RETRY, EN_UPLOAD, EM_STAMP), EN(0, 255, EN_STANZA, EM_ZZ), C02_END },
    /* COND: two children, names AND namespaces symbolic */
    { EROOT, EN(0, 255, 255, EM_ZZ), EN(0, 255, 255, EM_ZZ), C02_END },
};
#define DET_MSG(name) "C02 " name ": two parses of the same element into separately allocated objects serialize to the same document (no output depends on an uninitialised member)"
static void detBuildError(C02Node *nodes) { unsigned si = vp_case_u(0, 256); vp_assume(si < ES_COUNT); c02BuildShape(det_error_v, ERR_SHAPES, si, nodes); }
extern "C" void h_det_error()
{
    WARM()
    C02Node nodes[C02_MAXNODES]; detBuildError(nodes);
    vp_det_phase(0); QXmppStanza::Error a; a.parse(nodes[0].el);
    vp_det_phase(1); QXmppStanza::Error b; b.parse(nodes[0].el);
    VpWriter w1; wrapError(a, w1); QDomElement t1 = w1.root();
    VpWriter w2; wrapError(b, w2); QDomElement t2 = w2.root();
    vp_assert(vp_dom_equal(&t1, &t2), DET_MSG("QXmppStanza::Error"));
}
// twin + second pass on the first twin's output: T1 == T1' (determinism) and T1 == T2 (fix point)
extern "C" void h_detfix_error()
{
    WARM()
    C02Node nodes[C02_MAXNODES]; detBuildError(nodes);
    vp_det_phase(0); QXmppStanza::Error a; a.parse(nodes[0].el);
    vp_det_phase(1); QXmppStanza::Error b; b.parse(nodes[0].el);
    VpWriter w1; wrapError(a, w1); QDomElement t1 = w1.root();
    VpWriter w2; wrapError(b, w2); QDomElement t2 = w2.root();
    vp_assert(vp_dom_equal(&t1, &t2), DET_MSG("QXmppStanza::Error"));
    QXmppStanza::Error c; c.parse(t1.firstChildElement());
    VpWriter w3; wrapError(c, w3); QDomElement t3 = w3.root();
    vp_assert(vp_dom_equal(&t1, &t3), "C02 QXmppStanza::Error: parse/serialize is a fix point (second pass gives the same document)");
}

// ---- generic QXmppIq / QXmppBindIq / QXmppPingIq: shapes of spec.py (iqcase), twin instead of second pass ----
template<class T> static void detTwinStanza(const QDomElement &t)
{
    vp_det_phase(0); T x; x.parse(t);
    vp_det_phase(1); T y; y.parse(t);
    VpWriter w1; x.toXml(w1.writer()); QDomElement t1 = w1.root();
    VpWriter w2; y.toXml(w2.writer()); QDomElement t2 = w2.root();
    vp_assert(vp_dom_equal(&t1, &t2), DET_MSG("stanza"));
}
static void detBuildIq(const Vocab &v, int rootTag, C02Node &root, C02Node *c, C02Node *g)
{
    root.make(v, nullptr, rootTag, -1);
    unsigned n1 = vp_case_u(0, 4); if (n1 > 2) n1 = 2;
    for (unsigned i = 0; i < 2; i++) {
        if (i >= n1) break;
        unsigned b = 2 + 13 * i;
        c[i].make(v, &root, int(vp_case_u(b, 8) % v.nTags), int(vp_case_u(b + 3, 8) % v.nNss)); vp_c02_append(&root.el, &c[i].el);
        if (vp_case_bool(b + 6)) { g[i].make(v, &c[i], int(vp_case_u(b + 7, 8) % v.nTags), int(vp_case_u(b + 10, 8) % v.nNss)); vp_c02_append(&c[i].el, &g[i].el); if (vp_case_bool(28 + i)) forceValidAddress(g[i].el); }
    }
}
extern "C" void h_det_iq() { WARM() C02Node root, c[2], g[2]; detBuildIq(h_iq_v, 0, root, c, g); detTwinStanza<QXmppIq>(root.el); }
extern "C" void h_det_iqa() { WARM() C02Node root, c[2], g[2]; detBuildIq(h_iqa_v, 0, root, c, g); detTwinStanza<QXmppIq>(root.el); }
extern "C" void h_det_bind_iq() { WARM() C02Node root, c[2], g[2]; detBuildIq(h_iq_v, 0, root, c, g); bool adm = QXmppBindIq::isBindIq(root.el); if (adm) detTwinStanza<QXmppBindIq>(root.el); vp_assume(adm); }
extern "C" void h_det_ping_iq() { WARM() C02Node root, c[2], g[2]; detBuildIq(h_iq_v, 0, root, c, g); bool adm = QXmppPingIq::isPingIq(root.el); if (adm) detTwinStanza<QXmppPingIq>(root.el); vp_assume(adm); }
