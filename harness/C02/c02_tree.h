// C02: arbitrary bounded DOM tree + the parse -> toXml -> parse -> toXml fix-point scheme (C++ side of c02_env.c)
#pragma once
#include <QDomElement>
#include <QXmlStreamWriter>
#include <QString>
#include "vp_harness.h"
#include "vp_dom.h"
extern "C" {
void vp_c02_pick(QString *out, const char *tab, unsigned stride, unsigned n, unsigned idx);
void vp_c02_value(QString *out, const char *tab, unsigned stride, unsigned n);
void vp_c02_new(QDomElement *out, const QString *tag, const QString *nsInEffect, const QString *text);
void vp_c02_append(QDomElement *parent, const QDomElement *child);
void vp_c02_attr(QDomElement *el, const QString *name, const QString *value, bool present);
void vp_c02_reserve_attr(const QString *name);
unsigned vp_c02_nattr(const QDomElement *el);
void vp_dom_truncate(QDomElement *el, unsigned n);
bool vp_c02_writer_has_root(void *w);
void vp_c02_fixed_text(QString *out, unsigned len);
void vp_c02_force_attr(QDomElement *el, const QString *name, const QString *value);
void vp_c02_init();   // call first in every entry
}
#define C02_L 40   // longest name/namespace of the vocabularies (http://jabber.org/features/iq-register = 38)
#define C02_A 12   // longest attribute name / enum value
// vocabulary of one parser: the names it compares against + foreign ones; row 0 of `nss` must be "" (= no own declaration: inherit)
struct Vocab {
    const char (*tags)[C02_L]; unsigned nTags;
    const char (*nss)[C02_L]; unsigned nNss;
    const char (*attrs)[C02_A]; unsigned nAttrs;
    const char (*vals)[C02_A]; unsigned nVals;     // enum-like attribute/text values (may be 0 rows)
};
#define C02_N(a) (sizeof(a) / sizeof(a[0]))
#define C02_VOCAB(name, TAGS, NSS, ATTRS, VALS) static const Vocab name = { TAGS, C02_N(TAGS), NSS, C02_N(NSS), ATTRS, C02_N(ATTRS), VALS, C02_N(VALS) };

#ifndef C02_N1
#define C02_N1 3
#endif
#ifndef C02_N2
#define C02_N2 2
#endif
struct C02Node {
    unsigned tag, ns, eff;
    QDomElement el;
    // tagFixed/nsFixed >= 0: concrete row (used for the root of "admitted" instances), else symbolic row
    // attrMask: bit a set = attribute row a of the vocabulary may be present on this element (0 = every attribute)
    void make(const Vocab &v, const C02Node *parent, int tagFixed = -1, int nsFixed = -1, bool withText = true, unsigned attrMask = 0)
    {
        if (tagFixed >= 0) { tag = unsigned(tagFixed); } else { tag = vp_u8(); vp_assume(tag < v.nTags); }
        if (nsFixed >= 0) { ns = unsigned(nsFixed); } else { ns = vp_u8(); vp_assume(ns < v.nNss); }
        eff = (ns == 0 && parent) ? parent->eff : ns;      // namespace in effect: own declaration or the parent's
        QString t, n, text;
        vp_c02_pick(&t, &v.tags[0][0], C02_L, v.nTags, tag);
        vp_c02_pick(&n, &v.nss[0][0], C02_L, v.nNss, eff);
        if (withText) vp_c02_value(&text, v.nVals ? &v.vals[0][0] : nullptr, C02_A, v.nVals);
        vp_c02_new(&el, &t, &n, &text);
        for (unsigned a = 0; a < v.nAttrs; a++) {
            if (attrMask && !((attrMask >> a) & 1u)) continue;
            QString name, val; vp_c02_pick(&name, &v.attrs[0][0], C02_A, v.nAttrs, a);
            vp_c02_value(&val, v.nVals ? &v.vals[0][0] : nullptr, C02_A, v.nVals);
            vp_c02_attr(&el, &name, &val, vp_bool());
        }
    }
};
// root + <= N1 children + <= N2 grandchildren each; every child count symbolic (0..max)
template<int N1, int N2>
struct C02Tree {
    C02Node root, c[N1 ? N1 : 1], g[N1 ? N1 : 1][N2 ? N2 : 1];
    void build(const Vocab &v, int rootTag = -1, int rootNs = -1)
    {
        root.make(v, nullptr, rootTag, rootNs);
        for (int i = 0; i < N1; i++) {
            c[i].make(v, &root); vp_c02_append(&root.el, &c[i].el);
            for (int j = 0; j < N2; j++) { g[i][j].make(v, &c[i]); vp_c02_append(&c[i].el, &g[i][j].el); }
        }
        if (N1) { unsigned n1 = vp_u8(); vp_assume(n1 <= N1); vp_dom_truncate(&root.el, n1); }
        for (int i = 0; i < N1; i++) if (N2) { unsigned n2 = vp_u8(); vp_assume(n2 <= N2); vp_dom_truncate(&c[i].el, n2); }
    }
};

// ---- concrete SHAPE tables (stanza-level parsers): one instance per shape (VP_CASE = row of the table), everything else symbolic ----
// a node: parent index (-1 = root, -2 = end of shape), tag / namespace row (255 = symbolic), attribute mask, up to two attributes forced to be present with a
// text of fixed length 1..3 and arbitrary units (fa = attribute row, 255 = none), ft = fixed length of the element text (0 = symbolic value)
struct C02ShapeNode { signed char parent; unsigned char tag, ns; unsigned attrMask; unsigned char fa1, fl1, fa2, fl2, ft; };
#define C02_MAXNODES 10
#define C02_END { -2, 0, 0, 0, 255, 0, 255, 0, 0 }
extern "C" void vp_c02_force_text(QDomElement *el, const QString *text);
// len 1..3: text of that length with arbitrary units; 0x80 | r: row r of the vocabulary's value table (concrete)
static void c02ForceAttr(QDomElement &el, const Vocab &v, unsigned a, unsigned len) { QString name, val; vp_c02_pick(&name, &v.attrs[0][0], C02_A, v.nAttrs, a);
    if (len & 0x80) vp_c02_pick(&val, &v.vals[0][0], C02_A, v.nVals, len & 0x7f); else vp_c02_fixed_text(&val, len);
    vp_c02_force_attr(&el, &name, &val); }
// builds shape `si` of `shapes` into nodes[]; returns the root element in nodes[0]
static void c02BuildShape(const Vocab &v, const C02ShapeNode (*shapes)[C02_MAXNODES], unsigned si, C02Node *nodes)
{
    for (unsigned k = 0; k < C02_MAXNODES; k++) {
        const C02ShapeNode &sn = shapes[si][k];
        if (sn.parent == -2) break;
        nodes[k].make(v, sn.parent >= 0 ? &nodes[sn.parent] : nullptr, sn.tag == 255 ? -1 : int(sn.tag), sn.ns == 255 ? -1 : int(sn.ns), true, sn.attrMask);
        if (sn.parent >= 0) vp_c02_append(&nodes[sn.parent].el, &nodes[k].el);
        if (sn.fa1 != 255) c02ForceAttr(nodes[k].el, v, sn.fa1, sn.fl1);
        if (sn.fa2 != 255) c02ForceAttr(nodes[k].el, v, sn.fa2, sn.fl2);
        if (sn.ft) { QString t; vp_c02_fixed_text(&t, sn.ft); vp_c02_force_text(&nodes[k].el, &t); }
    }
}
// P(t) -> x -> toXml -> T1 -> P(T1) -> y -> toXml -> T2 ; T1 == T2.  `admitted` reports whether P accepted t.
#define C02_FIXPOINT_OPT(T, t, admitted) \
    { auto x = T::fromDom(t); admitted = x.has_value(); \
      if (x) { VpWriter w1; x->toXml(w1.writer()); QDomElement t1 = w1.root(); \
        auto y = T::fromDom(t1); vp_assert(y.has_value(), "C02 " #T ": the serialization of a parsed object is accepted by the same parser"); \
        if (y) { VpWriter w2; y->toXml(w2.writer()); QDomElement t2 = w2.root(); \
          vp_assert(vp_dom_equal(&t1, &t2), "C02 " #T ": parse/serialize is a fix point (second pass gives the same document)"); } } }

// first half only: P(t) -> x -> toXml must be well-formed (writer model assertions) and memory safe
#define C02_SAFE_OPT(T, t, admitted) \
    { auto x = T::fromDom(t); admitted = x.has_value(); \
      if (x) { VpWriter w1; x->toXml(w1.writer()); QDomElement t1 = w1.root(); vp_assert(!t1.isNull(), "C02 " #T ": a parsed object serializes to one complete element"); } }
