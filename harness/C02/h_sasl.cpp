// C02: SASL / SASL2 / bind2 / FAST nonza parsers on an arbitrary bounded tree: safety of the real parser code, well-formed output,
// parse/serialize fix point. One vocabulary per parser: the names it compares against + foreign / near-miss names.
#include "QXmppSasl_p.h"
#include "QXmppStreamManagement_p.h"
#include "c02_tree.h"
#include "c02_literals.h"
using namespace QXmpp::Private;

#define NS_SASL "urn:ietf:params:xml:ns:xmpp-sasl"
#define NS_SASL2 "urn:xmpp:sasl:2"
#define NS_BIND2 "urn:xmpp:bind:0"
#define NS_FAST "urn:xmpp:fast:0"
#define NS_SM "urn:xmpp:sm:3"
#define NS_CSI "urn:xmpp:csi:0"
#define NS_CARBONS "urn:xmpp:carbons:2"
#define NS_STANZA "urn:ietf:params:xml:ns:xmpp-stanzas"
#define ARR(...) { __VA_ARGS__ }
// FIX = 1: two passes (fix point); FIX = 0: first half only (safety + well-formed output)
#define ENTRY(fn, T, N1, N2, FIX, TAGS_, NSS_, ATTRS_, VALS_) \
    static const char fn##_tags[][C02_L] = TAGS_; static const char fn##_nss[][C02_L] = NSS_; static const char fn##_attrs[][C02_A] = ATTRS_; static const char fn##_vals[][C02_A] = VALS_; \
    C02_VOCAB(fn##_v, fn##_tags, fn##_nss, fn##_attrs, fn##_vals) \
    extern "C" void fn() { vp_c02_init(); c02_warm_QXmppSasl(); c02_warm_QXmppStreamManagement(); c02_warm_QXmppStanza(); bool admitted = false; \
      { C02Tree<N1, N2> t; t.build(fn##_v); if (FIX) C02_FIXPOINT_OPT(T, t.root.el, admitted) else C02_SAFE_OPT(T, t.root.el, admitted) } \
      vp_assume(admitted); /* the harness end (witness) is reachable only through the admitted path */ }

ENTRY(h_sasl_auth, Sasl::Auth, 1, 0, 1, ARR("auth", "zz", "success"), ARR("", NS_SASL, NS_SASL2, "x:y"), ARR("mechanism", "zz"), ARR("PLAIN", "="))
ENTRY(h_sasl_challenge, Sasl::Challenge, 1, 0, 1, ARR("challenge", "zz"), ARR("", NS_SASL, NS_SASL2, "x:y"), ARR("zz"), ARR("="))
ENTRY(h_sasl_response, Sasl::Response, 1, 0, 1, ARR("response", "zz"), ARR("", NS_SASL, NS_SASL2, "x:y"), ARR("zz"), ARR("="))
ENTRY(h_sasl_success, Sasl::Success, 1, 0, 1, ARR("success", "zz"), ARR("", NS_SASL, NS_SASL2, "x:y"), ARR("zz"), ARR("="))
ENTRY(h_sasl_failure, Sasl::Failure, 3, 0, 1, ARR("failure", "text", "not-authorized", "aborted", "bad-auth", "temporary-auth-failure", "account-disabled", "zz"),
      ARR("", NS_SASL, NS_SASL2, "x:y"), ARR("xml:lang", "zz"), ARR("en"))
ENTRY(h_sasl2_challenge, Sasl2::Challenge, 1, 0, 1, ARR("challenge", "zz"), ARR("", NS_SASL2, NS_SASL, "x:y"), ARR("zz"), ARR("="))
ENTRY(h_sasl2_response, Sasl2::Response, 1, 0, 1, ARR("response", "zz"), ARR("", NS_SASL2, NS_SASL, "x:y"), ARR("zz"), ARR("="))
ENTRY(h_sasl2_failure, Sasl2::Failure, 3, 0, 1, ARR("failure", "text", "not-authorized", "aborted", "bad-auth", "malformed-request", "zz"),
      ARR("", NS_SASL2, NS_SASL, "x:y"), ARR("zz"), ARR("en"))
ENTRY(h_sasl2_abort, Sasl2::Abort, 2, 0, 1, ARR("abort", "text", "zz"), ARR("", NS_SASL2, NS_SASL, "x:y"), ARR("zz"), ARR("en"))
ENTRY(h_sasl2_continue, Sasl2::Continue, 2, 2, 1, ARR("continue", "additional-data", "tasks", "task", "text", "zz"), ARR("", NS_SASL2, NS_SASL, "x:y"), ARR("zz"), ARR("="))
// no <token xmlns='urn:xmpp:fast:0'/> child: FastToken carries a QDateTime (Qt's date-time parser, outside)
ENTRY(h_sasl2_success, Sasl2::Success, 2, 1, 1, ARR("success", "additional-data", "authorization-identifier", "bound", "resumed", "failed", "enabled", "zz"),
      ARR("", NS_SASL2, NS_BIND2, NS_SM, NS_FAST, "x:y"), ARR("h", "previd", "resume", "id", "max", "zz"), ARR("true"))
ENTRY(h_sasl2_feature, Sasl2::StreamFeature, 2, 2, 1, ARR("authentication", "mechanism", "inline", "bind", "fast", "sm", "zz"),
      ARR("", NS_SASL2, NS_BIND2, NS_FAST, NS_SM, "x:y"), ARR("tls-0rtt", "zz"), ARR("true", "false"))
// no <user-agent/> child: UserAgent carries a QUuid (Qt, outside)
ENTRY(h_sasl2_authenticate, Sasl2::Authenticate, 3, 2, 1, ARR("authenticate", "initial-response", "bind", "resume", "request-token", "fast", "tag", "inactive", "enable", "zz"),
      ARR("", NS_SASL2, NS_BIND2, NS_SM, NS_FAST, NS_CSI, NS_CARBONS, "x:y"), ARR("mechanism", "h", "previd", "count", "invalidate", "resume", "max"), ARR("true", "false"))
ENTRY(h_bind2_feature, Bind2Feature, 2, 2, 1, ARR("bind", "inline", "feature", "zz"), ARR("", NS_BIND2, NS_SASL2, "x:y"), ARR("var", "zz"), ARR("urn:x"))
ENTRY(h_bind2_request, Bind2Request, 3, 0, 1, ARR("bind", "tag", "inactive", "enable", "zz"), ARR("", NS_BIND2, NS_CSI, NS_CARBONS, NS_SM, "x:y"), ARR("resume", "max", "zz"), ARR("true", "false"))
ENTRY(h_bind2_bound, Bind2Bound, 3, 2, 1, ARR("bound", "failed", "enabled", "item-not-found", "unexpected-request", "zz"), ARR("", NS_BIND2, NS_SM, NS_STANZA, "x:y"),
      ARR("resume", "id", "max", "location", "zz"), ARR("true", "false"))
ENTRY(h_fast_feature, FastFeature, 3, 0, 1, ARR("fast", "mechanism", "zz"), ARR("", NS_FAST, NS_SASL2, "x:y"), ARR("tls-0rtt", "zz"), ARR("true", "false"))
ENTRY(h_fast_token_request, FastTokenRequest, 1, 0, 1, ARR("request-token", "zz"), ARR("", NS_FAST, NS_SASL2, "x:y"), ARR("mechanism", "zz"), ARR("HT-SHA-256"))
ENTRY(h_fast_request, FastRequest, 1, 0, 1, ARR("fast", "zz"), ARR("", NS_FAST, NS_SASL2, "x:y"), ARR("count", "invalidate", "zz"), ARR("true", "false"))

// first half only (safety + well-formed output) on the larger tree, for the parsers whose two-pass run is expensive
ENTRY(h_sasl2_success_safe, Sasl2::Success, 3, 2, 0, ARR("success", "additional-data", "authorization-identifier", "bound", "resumed", "failed", "enabled", "zz"),
      ARR("", NS_SASL2, NS_BIND2, NS_SM, NS_FAST, "x:y"), ARR("h", "previd", "resume", "id", "max", "zz"), ARR("true"))
ENTRY(h_sasl2_continue_safe, Sasl2::Continue, 2, 2, 0, ARR("continue", "additional-data", "tasks", "task", "text", "zz"), ARR("", NS_SASL2, NS_SASL, "x:y"), ARR("zz"), ARR("="))
ENTRY(h_sasl2_feature_safe, Sasl2::StreamFeature, 3, 2, 0, ARR("authentication", "mechanism", "inline", "bind", "fast", "sm", "zz"),
      ARR("", NS_SASL2, NS_BIND2, NS_FAST, NS_SM, "x:y"), ARR("tls-0rtt", "zz"), ARR("true", "false"))
