// C02 determinism twin + safety for QXmppPresence on the concrete shapes of h_presence.cpp (SHAPES): the same tree is parsed into two separately allocated
// objects (QXmppPresencePrivate / QXmppStanzaPrivate on the heap), both serializations must be equal documents. Includes the first half of the property
// (safe parse, one complete well-formed element).
#include "h_presence.cpp"
#include "det_twin.h"
#define DET_MSG(name) "C02 " name ": two parses of the same element into separately allocated objects serialize to the same document (no output depends on an uninitialised member)"
extern "C" void h_det_presence()
{
    WARM() C02Node nodes[C02_MAXNODES]; build(nodes);
    vp_det_phase(0); QXmppPresence x; x.parse(nodes[0].el);
    vp_det_phase(1); QXmppPresence y; y.parse(nodes[0].el);
    VpWriter w1; x.toXml(w1.writer()); QDomElement t1 = w1.root();
    VpWriter w2; y.toXml(w2.writer()); QDomElement t2 = w2.root();
    vp_assert(!t1.isNull() && !t2.isNull(), "C02 QXmppPresence: a parsed presence serializes to one complete element");
    vp_assert(vp_dom_equal(&t1, &t2), DET_MSG("QXmppPresence"));
}
