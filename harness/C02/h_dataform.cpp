// C02: QXmppDataForm::parse (no type check) on trees of concrete SHAPE with symbolic attribute presence/values and text: safety, well-formed output, fix point.
// toXml() of a form without (known) type writes nothing, so both passes are wrapped into <w/>.
#include "QXmppDataForm.h"
#include "c02_tree.h"
#include "c02_literals.h"

enum { T_X, T_TITLE, T_INSTRUCTIONS, T_FIELD, T_VALUE, T_OPTION, T_MEDIA, T_DESCRIPTION, T_REQUIRED, T_REPORTED, T_ITEM, T_ZZ };
static const char TAGS[][C02_L] = { "x", "title", "instructions", "field", "value", "option", "media", "description", "required", "reported", "item", "zz" };
enum { N_NONE, N_DATA, N_MEDIA, N_XY };
static const char NSS[][C02_L] = { "", "jabber:x:data", "urn:xmpp:media-element", "x:y" };
enum { A_TYPE, A_LABEL, A_VAR, A_HEIGHT, A_WIDTH, A_ZZ };
static const char ATTRS[][C02_A] = { "type", "label", "var", "height", "width", "zz" };
enum { V_FORM, V_SUBMIT, V_RESULT, V_CANCEL, V_BOOLEAN, V_LIST_MULTI, V_LIST_SINGLE, V_TEXT_MULTI, V_JID_MULTI, V_HIDDEN, V_FIXED, V_TEXT_SINGLE, V_TRUE };
static const char VALS[][C02_A] = { "form", "submit", "result", "cancel", "boolean", "list-multi", "list-single", "text-multi", "jid-multi", "hidden", "fixed", "text-single", "true" };
C02_VOCAB(V, TAGS, NSS, ATTRS, VALS)
#define B(a) (1u << (a))
#define M_ROOT (B(A_TYPE) | B(A_ZZ))
#define M_FIELD (B(A_TYPE) | B(A_LABEL) | B(A_VAR) | B(A_ZZ))
#define M_FIELD_NOTYPE (B(A_LABEL) | B(A_VAR) | B(A_ZZ))
#define M_OPTION (B(A_LABEL) | B(A_ZZ))
#define M_MEDIA (B(A_HEIGHT) | B(A_WIDTH) | B(A_ZZ))
#define M_ZZ (B(A_ZZ))
#define ROWV(r) (0x80 | (r))        // forced attribute value = row r of VALS (concrete) instead of a text of fixed length
#define ROOT { -1, T_X, 255, M_ROOT, 255, 0, 255, 0, 0 }
#define ROOTT(r) { -1, T_X, 255, M_ROOT, A_TYPE, ROWV(r), 255, 0, 0 }
#define N(parent, tag, ns, mask) { parent, tag, ns, mask, 255, 0, 255, 0, 0 }
#define NT(parent, tag, ns, mask, ft) { parent, tag, ns, mask, 255, 0, 255, 0, ft }
#define NF(parent, tag, ns, mask, fa1, fl1, ft) { parent, tag, ns, mask, fa1, fl1, 255, 0, ft }
enum { S_EMPTY, S_PROPS, S_FIELD, S_FIELD_NOVALUE, S_OPTIONS, S_MEDIA, S_NESTED,
       F_EMPTY, F_PROPS, F_TEXT, F_BOOL, F_MULTI, F_LIST, S_COUNT };
static const C02ShapeNode SHAPES[S_COUNT][C02_MAXNODES] = {
    // S_*: every value symbolic; the form type (except EMPTY: symbolic, incl. unknown/absent) and the TYPE of a <field/> are concrete per shape (a row of VALS, an unknown 2-unit text, or no type attribute): a symbolic
    // field type makes the lengths of the value/option lists symbolic, and the unrolled list loops then run on unconstrained slots (no verdict in 15 min)
    /* EMPTY */ { ROOT, C02_END },
    /* PROPS */ { ROOTT(V_FORM), N(0, T_TITLE, N_NONE, M_ZZ), N(0, T_INSTRUCTIONS, N_NONE, M_ZZ), N(0, T_TITLE, N_XY, M_ZZ), N(0, T_REPORTED, N_NONE, M_ZZ), N(4, T_FIELD, N_NONE, M_FIELD), N(0, T_ITEM, N_NONE, M_ZZ), N(6, T_FIELD, N_NONE, M_FIELD), N(7, T_VALUE, N_NONE, M_ZZ), C02_END },
    /* FIELD */ { ROOTT(V_FORM), NF(0, T_FIELD, N_NONE, M_FIELD, A_TYPE, ROWV(V_TEXT_MULTI), 0), N(1, T_VALUE, N_NONE, M_ZZ), N(1, T_VALUE, N_NONE, M_ZZ), N(1, T_DESCRIPTION, N_NONE, M_ZZ), N(1, T_REQUIRED, N_NONE, M_ZZ), C02_END },
    /* FIELD_NOVALUE */ { ROOTT(V_FORM), N(0, T_FIELD, N_NONE, M_FIELD_NOTYPE), NF(0, T_FIELD, N_XY, M_FIELD, A_TYPE, 2, 0), N(2, T_VALUE, N_NONE, M_ZZ), N(2, T_VALUE, N_NONE, M_ZZ), C02_END },
    /* OPTIONS */ { ROOTT(V_FORM), NF(0, T_FIELD, N_NONE, M_FIELD, A_TYPE, ROWV(V_LIST_MULTI), 0), N(1, T_OPTION, N_NONE, M_OPTION), N(2, T_VALUE, N_NONE, M_ZZ), N(1, T_OPTION, N_NONE, M_OPTION), N(1, T_VALUE, N_NONE, M_ZZ), C02_END },
    /* MEDIA */ { ROOTT(V_FORM), NF(0, T_FIELD, N_NONE, M_FIELD, A_TYPE, ROWV(V_HIDDEN), 0), N(1, T_MEDIA, N_MEDIA, M_MEDIA), N(2, T_ZZ, N_NONE, M_ZZ), N(1, T_VALUE, N_NONE, M_ZZ), N(1, T_MEDIA, N_NONE, M_MEDIA), C02_END },
    /* NESTED */ { ROOTT(V_FORM), NF(0, T_FIELD, N_NONE, M_FIELD, A_TYPE, ROWV(V_BOOLEAN), 0), N(1, T_FIELD, N_NONE, M_FIELD), N(2, T_VALUE, N_NONE, M_ZZ), N(0, T_ITEM, N_NONE, M_ZZ), N(4, T_FIELD, N_NONE, M_FIELD), N(1, T_VALUE, N_NONE, M_ZZ), C02_END },
    // F_*: concrete form/field types (row of VALS) and fixed-length text where emptiness gates an element: concrete structure of the serialized form
    /* F_EMPTY */ { ROOTT(V_RESULT), C02_END },
    /* F_PROPS */ { ROOTT(V_FORM), NT(0, T_TITLE, N_NONE, M_ZZ, 2), NT(0, T_INSTRUCTIONS, N_NONE, M_ZZ, 3), C02_END },
    /* F_TEXT */ { ROOTT(V_SUBMIT), NF(0, T_FIELD, N_NONE, M_FIELD, A_TYPE, ROWV(V_HIDDEN), 0), NT(1, T_VALUE, N_NONE, M_ZZ, 2), NT(1, T_DESCRIPTION, N_NONE, M_ZZ, 1), N(1, T_REQUIRED, N_NONE, M_ZZ), N(0, T_FIELD, N_NONE, B(A_LABEL) | B(A_VAR)), NT(5, T_VALUE, N_NONE, M_ZZ, 3), C02_END },
    /* F_BOOL */ { ROOTT(V_FORM), NF(0, T_FIELD, N_NONE, M_FIELD, A_TYPE, ROWV(V_BOOLEAN), 0), N(1, T_VALUE, N_NONE, M_ZZ), C02_END },
    /* F_MULTI */ { ROOTT(V_FORM), NF(0, T_FIELD, N_NONE, M_FIELD, A_TYPE, ROWV(V_TEXT_MULTI), 0), N(1, T_VALUE, N_NONE, M_ZZ), N(1, T_VALUE, N_NONE, M_ZZ), C02_END },
    /* F_LIST */ { ROOTT(V_FORM), NF(0, T_FIELD, N_NONE, M_FIELD, A_TYPE, ROWV(V_LIST_SINGLE), 0), N(1, T_OPTION, N_NONE, M_OPTION), N(2, T_VALUE, N_NONE, M_ZZ), N(1, T_OPTION, N_NONE, M_OPTION), NT(1, T_VALUE, N_NONE, M_ZZ, 2), C02_END },
};
#define WARM() vp_c02_init(); c02_warm_QXmppDataForm();
static void build(C02Node *nodes) { unsigned si = vp_case_u(0, 256); vp_assume(si < S_COUNT); c02BuildShape(V, SHAPES, si, nodes); }
static void wrap(const QXmppDataForm &f, VpWriter &w) { w.writer()->writeStartElement(QStringLiteral("w")); f.toXml(w.writer()); w.writer()->writeEndElement(); }

extern "C" void h_dataform_safe()
{
    WARM() C02Node nodes[C02_MAXNODES]; build(nodes);
    QXmppDataForm x; x.parse(nodes[0].el);
    VpWriter w1; wrap(x, w1); QDomElement t1 = w1.root();
    vp_assert(!t1.isNull(), "C02 QXmppDataForm: a parsed form serializes to well-formed XML");
}
extern "C" void h_dataform_fix()
{
    WARM() C02Node nodes[C02_MAXNODES]; build(nodes);
    QXmppDataForm x; x.parse(nodes[0].el);
    VpWriter w1; wrap(x, w1); QDomElement t1 = w1.root();
    QXmppDataForm y; y.parse(t1.firstChildElement());      // null element if nothing was written
    VpWriter w2; wrap(y, w2); QDomElement t2 = w2.root();
    vp_assert(vp_dom_equal(&t1, &t2), "C02 QXmppDataForm: parse/serialize is a fix point (second pass gives the same document)");
}
