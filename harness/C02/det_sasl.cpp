// C02 determinism twin for the SASL / SASL2 / bind2 / FAST nonzas WITHOUT a base64 payload (the model answers base64 decoding of untagged text with a fresh arbitrary
// value per call: the twins of Auth/Challenge/Response/Success would differ legitimately). Vocabularies of h_sasl.cpp.
#include "h_sasl.cpp"
#include "det_twin.h"
#define TWIN(fn, T, N1, N2, src) extern "C" void fn() { vp_c02_init(); c02_warm_QXmppSasl(); c02_warm_QXmppStreamManagement(); c02_warm_QXmppStanza(); bool admitted = false; \
      { C02Tree<N1, N2> t; t.build(src##_v); C02_TWIN_OPT(T, t.root.el, admitted) } vp_assume(admitted); }
TWIN(h_det_sasl_failure, Sasl::Failure, 3, 0, h_sasl_failure)
TWIN(h_det_sasl2_failure, Sasl2::Failure, 3, 0, h_sasl2_failure)
TWIN(h_det_sasl2_abort, Sasl2::Abort, 2, 0, h_sasl2_abort)
TWIN(h_det_bind2_feature, Bind2Feature, 2, 2, h_bind2_feature)
TWIN(h_det_bind2_request, Bind2Request, 3, 0, h_bind2_request)
TWIN(h_det_bind2_bound, Bind2Bound, 3, 2, h_bind2_bound)
TWIN(h_det_fast_feature, FastFeature, 3, 0, h_fast_feature)
TWIN(h_det_fast_token_request, FastTokenRequest, 1, 0, h_fast_token_request)
TWIN(h_det_fast_request, FastRequest, 1, 0, h_fast_request)
