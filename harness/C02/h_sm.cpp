// C02: the 7 stream-management nonza parsers on an arbitrary bounded tree: safety of the real parser code + parse/serialize fix point
#include "QXmppStreamManagement_p.h"
#include "c02_tree.h"
#include "c02_literals.h"
using namespace QXmpp::Private;

static const char TAGS[][C02_L] = { "enable", "enabled", "resume", "resumed", "failed", "a", "r", "item-not-found", "unexpected-request", "text", "zz", "enabl" };
static const char NSS[][C02_L] = { "", "urn:xmpp:sm:3", "urn:ietf:params:xml:ns:xmpp-stanzas", "urn:xmpp:sm:2", "x:y" };
static const char ATTRS[][C02_A] = { "resume", "max", "id", "location", "h", "previd", "zz" };
static const char VALS[][C02_A] = { "true", "false", "zzzz" };
C02_VOCAB(V, TAGS, NSS, ATTRS, VALS)

#define SM_ENTRY(fn, T, N1, N2, WARM) extern "C" void fn() { vp_c02_init(); c02_warm_QXmppStreamManagement(); WARM; bool admitted = false; { C02Tree<N1, N2> t; t.build(V); C02_FIXPOINT_OPT(T, t.root.el, admitted) } \
    vp_assume(admitted); /* the harness end (witness) is reachable only through the admitted path: the fix-point part is not vacuous */ }
SM_ENTRY(h_sm_enable, SmEnable, 1, 0, (void)0)
SM_ENTRY(h_sm_enabled, SmEnabled, 1, 0, (void)0)
SM_ENTRY(h_sm_resume, SmResume, 1, 0, (void)0)
SM_ENTRY(h_sm_resumed, SmResumed, 1, 0, (void)0)
SM_ENTRY(h_sm_ack, SmAck, 1, 0, (void)0)
SM_ENTRY(h_sm_request, SmRequest, 1, 0, (void)0)
SM_ENTRY(h_sm_failed, SmFailed, 3, 1, c02_warm_QXmppStanza())

#define SM_SAFE(fn, T, N1, N2, WARM) extern "C" void fn() { vp_c02_init(); c02_warm_QXmppStreamManagement(); WARM; bool admitted = false; { C02Tree<N1, N2> t; t.build(V); C02_SAFE_OPT(T, t.root.el, admitted) } \
    vp_assume(admitted); }
SM_SAFE(h_sm_failed_safe, SmFailed, 3, 1, c02_warm_QXmppStanza())
