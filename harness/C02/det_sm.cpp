// C02 determinism twin for the stream-management nonzas (vocabulary and tree of h_sm.cpp)
#include "h_sm.cpp"
#include "det_twin.h"
#define SM_TWIN(fn, T, N1, N2, WARM) extern "C" void fn() { vp_c02_init(); c02_warm_QXmppStreamManagement(); WARM; bool admitted = false; { C02Tree<N1, N2> t; t.build(V); C02_TWIN_OPT(T, t.root.el, admitted) } \
    vp_assume(admitted); }
SM_TWIN(h_det_sm_enable, SmEnable, 1, 0, (void)0)
SM_TWIN(h_det_sm_enabled, SmEnabled, 1, 0, (void)0)
SM_TWIN(h_det_sm_resume, SmResume, 1, 0, (void)0)
SM_TWIN(h_det_sm_resumed, SmResumed, 1, 0, (void)0)
SM_TWIN(h_det_sm_ack, SmAck, 1, 0, (void)0)
SM_TWIN(h_det_sm_failed, SmFailed, 3, 1, c02_warm_QXmppStanza())
