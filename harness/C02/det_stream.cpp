// C02 (stream level, large parsers): QXmppStreamFeatures and StreamErrorElement on trees of concrete SHAPE (which children exist, their names/namespaces: rows of the
// vocabularies of h_stream.cpp, partly symbolic) with every attribute presence, attribute value and text symbolic. Per shape: safe parse, well-formed output,
// the parser accepts its own output, T1 == T2 (two passes) and the determinism twin (two separately allocated objects serialize identically).
#include "h_stream.cpp"
#include "det_twin.h"
enum { FT_FEATURES, FT_BIND, FT_SESSION, FT_AUTH, FT_STARTTLS, FT_SM, FT_CSI, FT_REGISTER, FT_SUB, FT_VER, FT_COMPRESSION, FT_METHOD, FT_MECHANISMS, FT_MECHANISM, FT_AUTHENTICATION, FT_REQUIRED, FT_INLINE, FT_FAST, FT_ZZ };
enum { FN_NONE, FN_BIND, FN_SESSION, FN_IQAUTH, FN_TLS, FN_SM, FN_CSI, FN_REGISTER, FN_PREAPP, FN_ROSTERVER, FN_COMPRESS, FN_SASL, FN_SASL2, FN_BIND2, FN_FAST, FN_STREAM, FN_XY };
#define FROOT { -1, FT_FEATURES, 255, 0, 255, 0, 255, 0, 0 }
#define FN_(parent, tag, ns) { parent, tag, ns, 0, 255, 0, 255, 0, 0 }
enum { FS_CORE, FS_MISC, FS_SASL2, FS_FOREIGN, FS_EMPTY, FS_COUNT };
static const C02ShapeNode F_SHAPES[FS_COUNT][C02_MAXNODES] = {
    /* CORE: <mechanisms/> first (unexpected order) with two mechanisms, <bind><required/></bind> and a second <bind/> without, <session/> in a foreign namespace, <starttls/> */
    { FROOT, FN_(0, FT_MECHANISMS, FN_SASL), FN_(1, FT_MECHANISM, FN_NONE), FN_(1, FT_MECHANISM, FN_NONE), FN_(0, FT_BIND, FN_BIND), FN_(4, FT_REQUIRED, FN_NONE), FN_(0, FT_BIND, FN_BIND), FN_(0, FT_SESSION, FN_XY), FN_(0, FT_STARTTLS, FN_TLS), C02_END },
    /* MISC: compression with two methods, <sm><required xmlns=foreign/></sm>, register, sub, ver, non-SASL auth */
    { FROOT, FN_(0, FT_COMPRESSION, FN_COMPRESS), FN_(1, FT_METHOD, FN_NONE), FN_(1, FT_METHOD, FN_NONE), FN_(0, FT_SM, FN_SM), FN_(4, FT_REQUIRED, FN_XY), FN_(0, FT_REGISTER, FN_REGISTER), FN_(0, FT_SUB, FN_PREAPP), FN_(0, FT_VER, FN_ROSTERVER), C02_END },
    /* SASL2: <authentication> with mechanism, <inline><sm/><fast tls-0rtt=?/></inline>, mechanism AFTER inline; non-SASL <auth/>; <mechanisms/> in a foreign namespace */
    { FROOT, FN_(0, FT_AUTHENTICATION, FN_SASL2), FN_(1, FT_MECHANISM, FN_NONE), FN_(1, FT_INLINE, FN_NONE), FN_(3, FT_SM, FN_SM), FN_(3, FT_FAST, FN_FAST), FN_(1, FT_MECHANISM, FN_NONE), FN_(0, FT_AUTH, FN_IQAUTH), FN_(0, FT_MECHANISMS, FN_XY), C02_END },
    /* FOREIGN: known names in wrong namespaces, <starttls/> inheriting the root namespace, empty <compression/>, <mechanisms/> with a foreign child only, swapped sub/ver namespaces */
    { FROOT, FN_(0, FT_BIND, FN_XY), FN_(0, FT_STARTTLS, FN_NONE), FN_(0, FT_COMPRESSION, FN_COMPRESS), FN_(0, FT_MECHANISMS, FN_SASL), FN_(4, FT_ZZ, FN_NONE), FN_(0, FT_SUB, FN_ROSTERVER), FN_(0, FT_VER, FN_PREAPP), FN_(0, FT_SM, FN_SM), C02_END },
    /* EMPTY: two children with symbolic name and namespace */
    { FROOT, FN_(0, 255, 255), FN_(0, 255, 255), C02_END },
};
#define FWARM() vp_c02_init(); c02_warm_QXmppStanza(); c02_warm_QXmppSasl(); c02_warm_QXmppStreamFeatures(); c02_warm_QXmppStreamManagement();
static void buildF(C02Node *nodes) { unsigned si = vp_case_u(0, 256); vp_assume(si < FS_COUNT); c02BuildShape(h_features_v, F_SHAPES, si, nodes); }
extern "C" void h_det_features()    // twin + first half
{
    FWARM() C02Node nodes[C02_MAXNODES]; buildF(nodes);
    vp_det_phase(0); QXmppStreamFeatures x; x.parse(nodes[0].el);
    vp_det_phase(1); QXmppStreamFeatures y; y.parse(nodes[0].el);
    VpWriter w1; x.toXml(w1.writer()); QDomElement t1 = w1.root();
    VpWriter w2; y.toXml(w2.writer()); QDomElement t2 = w2.root();
    vp_assert(!t1.isNull() && !t2.isNull(), "C02 QXmppStreamFeatures: a parsed object serializes to one complete element");
    vp_assert(vp_dom_equal(&t1, &t2), "C02 QXmppStreamFeatures: two parses of the same element into separately allocated objects serialize to the same document (no output depends on an uninitialised member)");
}
extern "C" void h_fix_features()    // two passes
{
    FWARM() C02Node nodes[C02_MAXNODES]; buildF(nodes);
    QXmppStreamFeatures x; x.parse(nodes[0].el);
    VpWriter w1; x.toXml(w1.writer()); QDomElement t1 = w1.root();
    vp_assert(!t1.isNull(), "C02 QXmppStreamFeatures: a parsed object serializes to one complete element");
    QXmppStreamFeatures y; y.parse(t1);
    VpWriter w2; y.toXml(w2.writer()); QDomElement t2 = w2.root();
    vp_assert(vp_dom_equal(&t1, &t2), "C02 QXmppStreamFeatures: parse/serialize is a fix point (second pass gives the same document)");
}
// ---- StreamErrorElement::fromDom (no serializer): safety (incl. modelled exceptions of the enum table lookups) + twin on the parsed value ----
enum { ST_ERROR, ST_TEXT, ST_SOH, ST_CONFLICT, ST_HOSTUNKNOWN, ST_UNSUPVER, ST_NOTAUTH, ST_ZZ };
enum { SN_NONE, SN_STREAM, SN_STREAMERR, SN_STANZA, SN_XY };
#define SROOT { -1, ST_ERROR, SN_STREAM, 0, 255, 0, 255, 0, 0 }
enum { SS_TWO, SS_TEXT_TWICE, SS_FOREIGN, SS_ROOT, SS_COUNT };
static const C02ShapeNode S_SHAPES[SS_COUNT][C02_MAXNODES] = {
    /* TWO: two children of symbolic name in the stream-error namespace (condition twice, condition + text, see-other-host, unknown) */
    { SROOT, FN_(0, 255, SN_STREAMERR), FN_(0, 255, SN_STREAMERR), C02_END },
    /* TEXT_TWICE: <text/> before and after an element of symbolic name and namespace */
    { SROOT, FN_(0, ST_TEXT, SN_STREAMERR), FN_(0, 255, 255), FN_(0, ST_TEXT, SN_STREAMERR), C02_END },
    /* FOREIGN: a condition name in the stanza namespace, an element inheriting the root namespace, <see-other-host/> last */
    { SROOT, FN_(0, ST_CONFLICT, SN_STANZA), FN_(0, 255, SN_NONE), FN_(0, ST_SOH, SN_STREAMERR), C02_END },
    /* ROOT: root of symbolic name and namespace (rejected unless <error xmlns=streams>) */
    { { -1, 255, 255, 0, 255, 0, 255, 0, 0 }, FN_(0, ST_CONFLICT, SN_STREAMERR), C02_END },
};
extern "C" void h_det_stream_error()
{
    vp_c02_init(); c02_warm_Stream(); c02_warm_QXmppStanza();
    C02Node nodes[C02_MAXNODES]; unsigned si = vp_case_u(0, 256); vp_assume(si < SS_COUNT); c02BuildShape(h_stream_error_v, S_SHAPES, si, nodes);
    vp_det_phase(0); auto r = StreamErrorElement::fromDom(nodes[0].el);
    vp_det_phase(1); auto s = StreamErrorElement::fromDom(nodes[0].el);
    auto *e = std::get_if<StreamErrorElement>(&r); auto *f = std::get_if<StreamErrorElement>(&s);
    vp_assert((e != nullptr) == (f != nullptr), "C02 StreamErrorElement: two parses of the same element agree on acceptance");
    if (e && f) {
        auto *c = std::get_if<QXmpp::StreamError>(&e->condition); auto *d = std::get_if<QXmpp::StreamError>(&f->condition);
        vp_assert((c != nullptr) == (d != nullptr), "C02 StreamErrorElement: two parses of the same element give the same kind of condition");
        if (c) { QString n = StreamErrorElement::streamErrorToString(*c); vp_assert(!n.isEmpty(), "C02 StreamErrorElement: the parsed condition is a valid enum value"); }
        if (c && d) vp_assert(*c == *d, "C02 StreamErrorElement: two parses of the same element give the same condition");
        auto *h = std::get_if<StreamErrorElement::SeeOtherHost>(&e->condition); auto *k = std::get_if<StreamErrorElement::SeeOtherHost>(&f->condition);
        if (h && k) vp_assert(h->host == k->host && h->port == k->port, "C02 StreamErrorElement: two parses of the same element give the same host");
        vp_assert(e->text == f->text, "C02 StreamErrorElement: two parses of the same element give the same text");
    }
}
