// C02 (stream level): QXmppStreamFeatures::parse and StreamErrorElement::fromDom. Split from h_stanza.cpp: std::variant/std::any of fromDom double the translated program.
// C02: parsers WITHOUT a type check (QXmppStanza::Error, generic QXmppIq, QXmppStreamFeatures) and stanza-level parsers behind their own type check
// (QXmppBindIq, QXmppPingIq, StreamErrorElement) on an arbitrary bounded tree.
#include "QXmppStanza.h"
#include "QXmppIq.h"
#include "QXmppBindIq.h"
#include "QXmppPingIq.h"
#include "QXmppStreamFeatures.h"
#include "QXmppStreamError_p.h"
#include "QXmppUtils_p.h"
#include "c02_tree.h"
#include "c02_literals.h"
using namespace QXmpp::Private;

#define NS_STANZA "urn:ietf:params:xml:ns:xmpp-stanzas"
#define NS_UPLOAD "urn:xmpp:http:upload:0"
#define NS_CLIENT "jabber:client"
#define NS_BIND "urn:ietf:params:xml:ns:xmpp-bind"
#define NS_PING "urn:xmpp:ping"
#define NS_STREAM "http://etherx.jabber.org/streams"
#define NS_STREAMERR "urn:ietf:params:xml:ns:xmpp-streams"
#define ARR(...) { __VA_ARGS__ }
#define VOCAB(fn, TAGS_, NSS_, ATTRS_, VALS_) \
    static const char fn##_tags[][C02_L] = TAGS_; static const char fn##_nss[][C02_L] = NSS_; static const char fn##_attrs[][C02_A] = ATTRS_; static const char fn##_vals[][C02_A] = VALS_; \
    C02_VOCAB(fn##_v, fn##_tags, fn##_nss, fn##_attrs, fn##_vals)
#define WARM() vp_c02_init(); c02_warm_QXmppStanza(); c02_warm_QXmppIq(); c02_warm_QXmppUtils_dom();
static void c02_warm_QXmppUtils_dom() {}

// ---- QXmppStreamFeatures::parse (no type check): first half (safety + well-formed output) on a fully symbolic tree ----
VOCAB(h_features, ARR("features", "bind", "session", "auth", "starttls", "sm", "csi", "register", "sub", "ver", "compression", "method", "mechanisms", "mechanism", "authentication", "required", "inline", "fast", "zz"),
      ARR("", "urn:ietf:params:xml:ns:xmpp-bind", "urn:ietf:params:xml:ns:xmpp-session", "http://jabber.org/features/iq-auth", "urn:ietf:params:xml:ns:xmpp-tls", "urn:xmpp:sm:3", "urn:xmpp:csi:0",
          "http://jabber.org/features/iq-register", "urn:xmpp:features:pre-approval", "urn:xmpp:features:rosterver", "http://jabber.org/features/compress", "urn:ietf:params:xml:ns:xmpp-sasl",
          "urn:xmpp:sasl:2", "urn:xmpp:bind:0", "urn:xmpp:fast:0", NS_STREAM, "x:y"),
      ARR("tls-0rtt", "zz"), ARR("true", "PLAIN", "zlib"))
extern "C" void h_features()
{
    vp_c02_init(); c02_warm_QXmppStanza(); c02_warm_QXmppSasl(); c02_warm_QXmppStreamFeatures(); c02_warm_QXmppStreamManagement();
    C02Tree<3, 2> t; t.build(h_features_v);
    QXmppStreamFeatures f; f.parse(t.root.el);
    VpWriter w1; f.toXml(w1.writer()); QDomElement t1 = w1.root();
    vp_assert(!t1.isNull(), "C02 QXmppStreamFeatures: a parsed object serializes to one complete element");
}
// ---- StreamErrorElement::fromDom (no serializer): safety only. parseHostAddress (QUrl, Qt) is cut: arbitrary host/port ----
VOCAB(h_stream_error, ARR("error", "text", "see-other-host", "conflict", "host-unknown", "unsupported-version", "not-authorized", "zz"),
      ARR("", NS_STREAM, NS_STREAMERR, NS_STANZA, "x:y"), ARR("zz"), ARR("en"))
extern "C" void h_stream_error()
{
    vp_c02_init(); c02_warm_Stream(); c02_warm_QXmppStanza();
    C02Tree<3, 0> t; t.build(h_stream_error_v);
    auto r = StreamErrorElement::fromDom(t.root.el);
    if (auto *e = std::get_if<StreamErrorElement>(&r)) {
        // the condition is one of the two alternatives and a plain stream error is within the enum (STREAM_ERROR_CONDITIONS.at(e) must not throw)
        if (auto *c = std::get_if<QXmpp::StreamError>(&e->condition)) { QString s = StreamErrorElement::streamErrorToString(*c); vp_assert(!s.isEmpty(), "C02 StreamErrorElement: the parsed condition is a valid enum value"); }
    }
}
