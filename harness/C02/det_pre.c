/* C02 determinism twin, part 1 (listed BEFORE qt_core.c): the number parsers of models/qt_core.c answer a free text with a FRESH arbitrary (value, ok) on
   every call. Two parses of the same tree would then legitimately differ. The shared definitions are renamed here and wrapped in det_post.c. */
#define _ZNK7QString11toULongLongEPbi vp_nd_QString_toULongLong
#define _ZNK7QString10toLongLongEPbi vp_nd_QString_toLongLong
#define _ZNK7QString6toUIntEPbi vp_nd_QString_toUInt
#define _ZNK7QString5toIntEPbi vp_nd_QString_toInt
#define _ZNK7QString8toUShortEPbi vp_nd_QString_toUShort
#define _ZNK7QString7toShortEPbi vp_nd_QString_toShort
