# ll2c block order: the weak-topological order (engine default since 2026-09-26) costs the fully symbolic trees of group `sasl` 3x time and 4x memory
# (bind2_bound / bind2_feature / fast_feature / sasl_failure: 145-175 s, 4.5-5.3 GB instead of 50 s, 1.3 GB; out of the 4 GB cap) and gains nothing measurable on the
# shaped instances, so C02 keeps the LLVM layout unless the caller sets LL2C_ORDER explicitly (ll2c runs as a child process of the driver and inherits it).
# (the driver's per-group default is the LLVM layout; nothing to set here)
def DOMLOOPS(n):
    """sibling walks of the real DOM helpers: <= n-1 children per element (checked by the unwinding assertions)"""
    return {r'^_ZN5QXmpp7Private17firstChildElementERK11QDomElement11QStringView': n, r'^_ZN5QXmpp7Private18nextSiblingElementERK11QDomElement11QStringView': n,
            r'^_ZN7C02Node4make': 34, r'c02BuildShape': 12}   # harness loops: attributes of the vocabulary, nodes of a shape
def I(name, entry=None, dom=8, **kw):
    d = dict(loop_bounds=DOMLOOPS(dom), name=name, entry=entry or 'h_' + name, unwind=10, timeout_s=300, mem_gb=4, safety_is_property=True, object_bits=12, cdefs={'VP_UTF8_LATIN1': 1}, bound='arbitrary bounded tree over the vocabulary of the parser under test (SPEC bounds)'); d.update(kw); return d
SM_TUS = ['src/base/QXmppStreamManagement.cpp', 'src/base/QXmppUtils.cpp', 'src/base/QXmppStanza.cpp']
SASL_TUS = ['src/base/QXmppSasl.cpp', 'src/base/QXmppStreamManagement.cpp', 'src/base/QXmppUtils.cpp', 'src/base/QXmppStanza.cpp']
# instance -> bound of the sibling walks (max children of the input tree and of the serialized tree + 2)
SASL = dict(sasl_auth=4, sasl_challenge=4, sasl_response=4, sasl_success=4, sasl_failure=5, sasl2_challenge=4, sasl2_response=4, sasl2_failure=5, sasl2_abort=4, sasl2_continue=5, sasl2_success=8,
            sasl2_feature=6, sasl2_authenticate=8, bind2_feature=5, bind2_request=6, bind2_bound=5, fast_feature=5, fast_token_request=4, fast_request=4, sasl2_success_safe=8, sasl2_continue_safe=5, sasl2_feature_safe=6)
STANZA_TUS = ['src/base/QXmppStanza.cpp', 'src/base/QXmppIq.cpp', 'src/base/QXmppBindIq.cpp', 'src/base/QXmppPingIq.cpp', 'src/base/QXmppStreamFeatures.cpp', 'src/base/QXmppSasl.cpp',
              'src/base/QXmppStreamManagement.cpp', 'src/base/QXmppUtils.cpp', 'src/base/Stream.cpp', 'src/base/QXmppNonza.cpp']
# two passes through these three give no verdict (the serialized tree has up to 6 optional children at symbolic positions): first half in the quick tier (*_safe), the
# fix point of these types follows from C01's field-wise round trip P(W(x)) == x; Sasl2::StreamFeature (QList<QString>) runs out of memory even in the first half
SASL_KW = dict(sasl2_success=dict(tiers=('manual',)), sasl2_continue=dict(tiers=('manual',)), sasl2_feature=dict(tiers=('manual',)), sasl2_feature_safe=dict(tiers=('manual',)),
               sasl2_authenticate=dict(tiers=('thorough',), timeout_s=600, mem_gb=8), sasl2_continue_safe=dict(mem_gb=8), sasl2_success_safe=dict(mem_gb=6), sasl_auth=dict(mem_gb=3), sasl_challenge=dict(mem_gb=3), sasl_response=dict(mem_gb=3), sasl_success=dict(mem_gb=3),
               sasl2_challenge=dict(mem_gb=3), sasl2_response=dict(mem_gb=3), sasl2_abort=dict(mem_gb=3), fast_token_request=dict(mem_gb=3), fast_request=dict(mem_gb=3))
SASL_COST = dict(sasl2_continue_safe=90, sasl2_success_safe=55, bind2_feature=40, bind2_bound=40, fast_feature=36, sasl2_failure=28, sasl_failure=24, bind2_request=21)
MODELS = ['qt_core.c', 'qt_list.c', 'c02_dom.c', 'c02_env.c']
def iqcase(n1, *children):
    """children: (tag, ns[, (gtag, gns)]) with indices into the vocabulary of h_stanza.cpp: tags iq,error,bind,ping,text,item-not-found,zz,jid; ns '',client,stanzas,bind,ping"""
    m = n1
    for i, ch in enumerate(children):
        b = 2 + 13 * i; m |= ch[0] << b; m |= ch[1] << (b + 3)
        if len(ch) > 2: m |= 1 << (b + 6); m |= ch[2][0] << (b + 7); m |= ch[2][1] << (b + 10)
    return m
T_IQ, T_ERROR, T_BIND, T_PING, T_TEXT, T_INF, T_ZZ, T_JID = range(8); N_NONE, N_CLIENT, N_STANZA, N_BIND, N_PING = range(5)
IQ_SHAPES = dict(empty=iqcase(0), bind=iqcase(1, (T_BIND, N_BIND, (T_ZZ, N_NONE))), two_ext=iqcase(2, (T_PING, N_PING, (T_ZZ, N_NONE)), (T_ZZ, N_CLIENT, (T_TEXT, N_STANZA))),
                 bind_dup=iqcase(2, (T_BIND, N_BIND, (T_JID, N_NONE)), (T_BIND, N_NONE)))
# an <error/> child: QXmppStanza::parse + Error::parse inside the stanza gave no verdict in 10 min even with a concrete shape; Error::parse alone is the instance `error`
IQ_ERR_SHAPES = dict(error_cond=iqcase(1, (T_ERROR, N_NONE, (T_INF, N_STANZA))), ext_error=iqcase(2, (T_ZZ, N_PING), (T_ERROR, N_NONE, (T_TEXT, N_STANZA))))
def IQI(prefix, entry, shapes, **kw):
    kw.setdefault('mem_gb', 4)
    return [I(prefix + k, entry=entry, dom=6, cdefs={'VP_UTF8_LATIN1': 1, 'VP_CASE': v}, bound='shape %s (VP_CASE=%d); attribute presence/values and text symbolic' % (k, v), **kw) for k, v in shapes.items()]
def _kf_listed(key):
    import re, os
    try: return any(re.match(r'^known: property=C02 key=%s ' % key, l) for l in open(os.path.join(os.path.dirname(os.path.dirname(os.path.dirname(os.path.abspath(__file__)))), 'known_findings.txt')))
    except Exception: return False
# GENUINE DEFECT D3 (duplicated <error/>): generic QXmppIq::parse keeps the <error/> child as extension AND in error(); toXml writes both, so every pass adds one <error/>.
# iqx_error_cond finds it on the unfixed tree (VIOLATION, replayed) and holds once QXmppIq::parseElementFromChild skips the error child. If the defect is recorded instead of
# repaired (known_findings.txt: `known: property=C02 key=iq_error_dup ...`), the instance becomes the demonstration of that finding.
IQX_KW = dict(known_finding='iq_error_dup') if _kf_listed('iq_error_dup') else {}
# vocabulary h_iqa of h_stanza.cpp (names QXmppStanza::parse itself compares against): tags iq,error,addresses,address,bind,zz,item-not-found,text; ns '',client,stanzas,address,bind
A_IQ, A_ERROR, A_ADDRESSES, A_ADDRESS, A_BIND, A_ZZ, A_INF, A_TEXT = range(8); AN_NONE, AN_CLIENT, AN_STANZA, AN_ADDR, AN_BIND = range(5)
IQA_SHAPES = dict(addresses=iqcase(1, (A_ADDRESSES, AN_ADDR, (A_ADDRESS, AN_NONE))), ext_addresses=iqcase(2, (A_ZZ, AN_CLIENT, (A_ADDRESS, AN_NONE)), (A_ADDRESSES, AN_NONE, (A_ADDRESS, AN_NONE))))
# + bit 28/29: the <address/> grandchild of child 0/1 is concretely valid (non-empty type and jid of fixed length, arbitrary units): the list of extended addresses then has a concrete length
IQA_VALID_SHAPES = dict(addresses_valid=IQA_SHAPES['addresses'] | (1 << 28), ext_addresses_valid=IQA_SHAPES['ext_addresses'] | (1 << 29))
IQA_ERR_SHAPES = dict(addresses_error=iqcase(2, (A_ADDRESSES, AN_ADDR, (A_ADDRESS, AN_NONE)), (A_ERROR, AN_NONE, (A_INF, AN_STANZA))))
TH = dict(tiers=('thorough',), timeout_s=500, mem_gb=6)
# quick: the real two-pass comparison with a concretely valid <address/> + the extension-count condition with fully symbolic address attributes (incl. empty/absent type and jid).
# The two-pass run with fully symbolic validity (iqa_addresses) holds in 43 s on the unchanged tree but does not terminate when <addresses/> is serialized twice (list of symbolic length): thorough tier
IQ_CASES = (IQI('iqa_', 'h_iqa', {k: IQA_VALID_SHAPES[k] for k in ['addresses_valid']}, mem_gb=4) + IQI('iqax_', 'h_iqa_extcount', {k: IQA_SHAPES[k] for k in ['addresses']}, mem_gb=4) + IQI('iqa_', 'h_iqa', {k: IQA_SHAPES[k] for k in ['addresses']}, **TH)
            + IQI('iqa_', 'h_iqa', {'ext_addresses': IQA_SHAPES['ext_addresses'], 'ext_addresses_valid': IQA_VALID_SHAPES['ext_addresses_valid']}, **TH)
            + IQI('iqax_', 'h_iqa_extcount', {'ext_addresses': IQA_SHAPES['ext_addresses']}, **TH) + IQI('iqax_', 'h_iqa_extcount', IQA_VALID_SHAPES, **TH)
            + IQI('iqax_', 'h_iqa_extcount', IQA_ERR_SHAPES, tiers=('manual',))     # <addresses/> next to <error/>: out of memory (5.5 GB)
            + IQI('bindiqa_', 'h_bindiqa', dict(bind_addresses_valid=iqcase(2, (A_BIND, AN_BIND), (A_ADDRESSES, AN_NONE, (A_ADDRESS, AN_NONE))) | (1 << 29)), **TH) + IQI('iqx_', 'h_iq_extcount', {'error_cond': IQ_ERR_SHAPES['error_cond']}, timeout_s=500, mem_gb=6, **IQX_KW) + IQI('iqx_', 'h_iq_extcount', {'ext_error': IQ_ERR_SHAPES['ext_error']}, tiers=('manual',)) + IQI('iq_', 'h_iq', {k: v for k, v in IQ_SHAPES.items() if k not in ('bind_dup', 'two_ext')}) + IQI('iq_', 'h_iq', {k: IQ_SHAPES[k] for k in ('bind_dup', 'two_ext')}, tiers=('thorough',)) + IQI('iq_', 'h_iq', IQ_ERR_SHAPES, tiers=('manual',))
            + IQI('bindiq_', 'h_bind_iq', dict(jid=iqcase(1, (T_BIND, N_BIND, (T_JID, N_NONE))))) + IQI('bindiq_', 'h_bind_iq', dict(bind_ext=iqcase(2, (T_BIND, N_BIND), (T_ZZ, N_CLIENT, (T_BIND, N_BIND)))), tiers=('thorough',))
            + IQI('pingiq_', 'h_ping_iq', dict(ping=iqcase(1, (T_PING, N_PING)))) + IQI('pingiq_', 'h_ping_iq', dict(ping_ext=iqcase(2, (T_PING, N_PING, (T_ZZ, N_NONE)), (T_BIND, N_BIND))), tiers=('thorough',)))
PRES_TUS = ['src/base/QXmppPresence.cpp', 'src/base/QXmppStanza.cpp', 'src/base/QXmppMucIq.cpp', 'src/base/QXmppIq.cpp', 'src/base/QXmppUtils.cpp']
PRES_SHAPES = ['empty', 'basic', 'basic_dup', 'muc', 'mucuser', 'mucuser_dup', 'caps', 'caps_valid', 'vcard', 'vcard_nophoto', 'moved_idle_mix', 'addresses', 'addresses_foreign', 'error', 'ext', 'lang', 'f_basic', 'f_muc', 'f_mucuser', 'f_caps', 'f_vcard', 'f_moved_mix', 'f_idle', 'f_addresses', 'f_ext']
# TIERS (re-tiered: the whole quick tier of C02 must end within 300 s alone with 10 jobs): quick keeps the cheapest presence / data form shapes, everything else is thorough.
# pres_lang / press_lang expose the GENUINE DEFECT "stanza language" (h_presence.cpp): kept, tiers=() so that they do not run.
PRES_QUICK = ('press_basic', 'press_mucuser', 'pres_empty'); PRES_OFF = ('pres_lang', 'press_lang')
DF_QUICK = ('dfs_props', 'df_f_empty')
# thorough keeps only the two-pass shapes that have been MEASURED to reach a verdict (acceptance-run log of 2026-09-26 and this session's runs); the remaining presence /
# data-form two-pass shapes got no verdict within their caps when tried (QList copy loops over symbolic child positions) and are tier 'manual' (kept, not run, outside the claim)
MEASURED_OK = ('df_empty', 'df_props', 'df_f_props', 'dfs_f_empty', 'press_caps_valid', 'pres_f_addresses', 'press_f_moved_mix', 'df_f_empty')
def _tier(name, quick, off=()): return () if name in off else (('quick', 'thorough') if name in quick else (('thorough',) if name in MEASURED_OK else ('manual',)))
def PRES(prefix, entry, names, **kw):
    kw.setdefault('mem_gb', 6); kw.setdefault('timeout_s', 400)
    return [I(prefix + n, entry=entry, dom=10, cdefs={'VP_UTF8_LATIN1': 1, 'VP_CASE': PRES_SHAPES.index(n), 'DOM_MAXATTR': 32, 'DOM_MAXCH': 10}, bound='shape %s; root namespace, attribute presence/values and text symbolic' % n,
              tiers=_tier(prefix + n, PRES_QUICK, PRES_OFF), **kw) for n in names]
DF_TUS = ['src/base/QXmppDataForm.cpp', 'src/base/QXmppUtils.cpp']
DF_SHAPES = ['empty', 'props', 'field', 'field_novalue', 'options', 'media', 'nested', 'f_empty', 'f_props', 'f_text', 'f_bool', 'f_multi', 'f_list']
def DF(prefix, entry, names, **kw):
    kw.setdefault('mem_gb', 6); kw.setdefault('timeout_s', 400)
    return [I(prefix + n, entry=entry, dom=10, cdefs={'VP_UTF8_LATIN1': 1, 'VP_CASE': DF_SHAPES.index(n), 'DOM_MAXCH': 10}, bound='shape %s; attribute presence/values and text symbolic' % n, tiers=_tier(prefix + n, DF_QUICK), **kw) for n in names]
SPEC = dict(
    property='C02',
    groups=[
        dict(name='dataform', harness='h_dataform.cpp', tus=DF_TUS, models=MODELS,
             instances=DF('df_', 'h_dataform_fix', DF_SHAPES) + DF('dfs_', 'h_dataform_safe', DF_SHAPES)),
        dict(name='presence', harness='h_presence.cpp', tus=PRES_TUS, models=MODELS,
             instances=PRES('pres_', 'h_presence_fix', PRES_SHAPES) + PRES('press_', 'h_presence_safe', PRES_SHAPES)),
        dict(name='stanza', harness='h_stanza.cpp', tus=STANZA_TUS, models=MODELS,
             instances=[I('error', dom=6, timeout_s=600, mem_gb=8, tiers=('thorough',)), I('error_safe', dom=6, mem_gb=6)] + IQ_CASES),
        dict(name='sasl', harness='h_sasl.cpp', tus=SASL_TUS, models=MODELS, 
             instances=[I(e, dom=SASL[e], **SASL_KW.get(e, {})) for e in sorted(SASL, key=lambda e: -SASL_COST.get(e, 10))]),   # expensive instances are started first
        dict(name='sm', harness='h_sm.cpp', tus=SM_TUS, models=MODELS,
             instances=[I(e, mem_gb=3) for e in ['sm_enable', 'sm_enabled', 'sm_resume', 'sm_resumed', 'sm_ack', 'sm_request', 'sm_failed']] + [I('sm_failed_safe', mem_gb=3, tiers=('thorough',))]),
        dict(name='stream', harness='h_stream.cpp', tus=STANZA_TUS, models=MODELS,
             instances=[I('features', dom=15, cdefs={'VP_UTF8_LATIN1': 1, 'DOM_MAXCH': 14}, mem_gb=8, timeout_s=600, tiers=('manual',)), I('stream_error', dom=5, timeout_s=600, tiers=('manual',))]),
    ],
    bounds=['input = ARBITRARY bounded DOM tree: root + <= 3 children + <= 2 grandchildren each (per instance: see C02Tree<N1,N2> in the harness; attribute-only parsers use root + 1 child), every child count symbolic 0..max',
            'every element name / namespace = symbolic index into the vocabulary of the parser under test (all names and namespaces the parser compares against + foreign and near-miss names + "no own namespace = inherit")',
            'every attribute of the vocabulary independently present or absent on EVERY element (names concrete, presence and value symbolic)',
            'every attribute value and every element text = one of: 0..3 arbitrary UTF-16 units (covers "", "0", "1", "-1", markup characters, non-ASCII), an ABSTRACT NUMBER of arbitrary sign and 64-bit magnitude (covers 0, 1, -1, 4294967296, 2^64-1 as numeric strings), or an enum-like string of the parser (true, false, cancel, result, ...)',
            'two passes: t -> P -> x -> toXml -> T1 -> P -> y -> toXml -> T2, assert P accepts T1 and T1 == T2 (element order significant); *_safe instances: first half only (P(t) safe, toXml(x) one complete well-formed element)',
            'generic QXmppIq / QXmppBindIq / QXmppPingIq: shape (child count <= 2, one optional grandchild each, their tags/namespaces) concrete per instance (VP_CASE), attribute presence/values and text symbolic; two vocabularies: payload names (bind, ping, ...) and the names QXmppStanza::parse itself looks at (error, addresses/address with type, jid, desc, delivered); *_valid shapes: the <address/> has non-empty type and jid of fixed length (arbitrary units), so the parsed list of extended addresses has a concrete length',
            'real-code loops: unwind 10, sibling walks of firstChildElement/nextSiblingElement bounded per instance (max children + 2); all bounds are checked by unwinding assertions'],
    assumptions=['Qt is environment: QDomElement/QXmlStreamWriter are the shared bounded tree model (serialize -> parse never goes through text: Qt tokenising/escaping trusted); numeric strings are abstract (toUInt... of non-numeric text returns an arbitrary (value, ok)); base64 is an abstract tagging, base64 decoding of untagged text gives arbitrary <= 3 bytes or "invalid"',
                 'harness-local DOM fork c02_dom.c: getters of a null element / absent attribute return an empty string that is not isNull(); the tree does no reference counting (model blocks are never recycled)',
                 'harness-local string rules c02_env.c: every QString is a model block (QStringLiteral / operator""_s data is copied into one on construction, QString() is the static empty block); QStringView::toString() copies; operator==(QStringView,QStringView) compares content ids against literals (injectivity of the id hash on all literals of the program incl. the vocabularies is checked offline by the driver on every run); model obligations (MODEL:) assert that only whole-string views are compared/copied',
                 'std::vector<QString> growth is modelled (fixed capacity 8, typed slots); QDateTime is an opaque instant with fromString(toString(t)) == t; QXmppElement (not an anchored file) is cut at class level: it keeps the DOM node and toXml() writes tag, xmlns if different from the parent, NON-EMPTY attributes, text and children',
                 'operator""_s literals are evaluated once before the symbolic part (their function-local static would otherwise be initialised under a symbolic path condition); this only affects cost',
                 'a first-half instance plus C01 (field-wise round trip P(W(x)) == x for arbitrary objects x of the same type) implies the fix point for Sasl2::Success / Sasl2::Continue'],
    outside=['generic QXmppIq with an <error/> child: the full two-pass tree comparison gave no verdict within 15 min even with a concrete shape (iq_error_cond / iq_ext_error: tier "manual"); covered instead by iqx_error_cond = both parses and the first serialization with the necessary condition "same number of extension elements after re-parsing" (this is what exposes the duplicated <error/>); d3_iq_error_replay.json is a hand-made native replay of the same defect on the full two-pass harness',
             'two passes for Sasl2::Success, Sasl2::Continue, Sasl2::StreamFeature (no verdict: the serialized tree has many optional children at symbolic positions); Sasl2::StreamFeature and QXmppStreamFeatures::parse even in the first half (QList<QString> + 12 optional children: out of memory / no verdict in 12 min); StreamErrorElement::fromDom (std::variant<..., QXmppError{std::any}>: no verdict in 12 min) - instances kept as tier "manual"',
             'QXmppStanza::Error two passes only in the thorough tier (185 s, 4.6 GB); quick tier: first half',
             'FastToken (QDateTime attribute) and Sasl2::UserAgent (QUuid): the vocabularies of Success / Authenticate do not contain <token/> / <user-agent/>',
             'QXmppMessage, QXmppPresence, QXmppDataForm, Jingle, PubSub events; the dispatch through QXmppClient / QXmppOutgoingClient; text-level well-formedness and resource use (Qt); trees deeper than 3 levels, more than 3 children, strings longer than 3 free units',
             'sibling order is significant in the tree comparison (stricter than the property); no parser needed order-insensitive comparison'],
)
