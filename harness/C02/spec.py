def DOMLOOPS(n):
    """sibling walks of the real DOM helpers: <= n-1 children per element (checked by the unwinding assertions)"""
    return {r'^_ZN5QXmpp7Private17firstChildElementERK11QDomElement11QStringView': n, r'^_ZN5QXmpp7Private18nextSiblingElementERK11QDomElement11QStringView': n}
def I(name, entry=None, dom=8, **kw):
    d = dict(loop_bounds=DOMLOOPS(dom), name=name, entry=entry or 'h_' + name, unwind=10, timeout_s=300, mem_gb=6, safety_is_property=True, object_bits=12, cdefs={'VP_UTF8_LATIN1': 1}, bound=''); d.update(kw); return d
def DOMLOOPS(n):
    """sibling walks of the real DOM helpers: <= n-1 children per element (checked by the unwinding assertions)"""
    return {r'^_ZN5QXmpp7Private17firstChildElementERK11QDomElement11QStringView': n, r'^_ZN5QXmpp7Private18nextSiblingElementERK11QDomElement11QStringView': n}
SM_TUS = ['src/base/QXmppStreamManagement.cpp', 'src/base/QXmppUtils.cpp', 'src/base/QXmppStanza.cpp']
SASL_TUS = ['src/base/QXmppSasl.cpp', 'src/base/QXmppStreamManagement.cpp', 'src/base/QXmppUtils.cpp', 'src/base/QXmppStanza.cpp']
# instance -> bound of the sibling walks (max children of the input tree and of the serialized tree + 2)
SASL = dict(sasl_auth=4, sasl_challenge=4, sasl_response=4, sasl_success=4, sasl_failure=5, sasl2_challenge=4, sasl2_response=4, sasl2_failure=5, sasl2_abort=4, sasl2_continue=5, sasl2_success=8,
            sasl2_feature=6, sasl2_authenticate=8, bind2_feature=5, bind2_request=6, bind2_bound=5, fast_feature=5, fast_token_request=4, fast_request=4, sasl2_success_safe=8)
STANZA_TUS = ['src/base/QXmppStanza.cpp', 'src/base/QXmppIq.cpp', 'src/base/QXmppBindIq.cpp', 'src/base/QXmppPingIq.cpp', 'src/base/QXmppStreamFeatures.cpp', 'src/base/QXmppSasl.cpp',
              'src/base/QXmppStreamManagement.cpp', 'src/base/QXmppUtils.cpp', 'src/base/Stream.cpp', 'src/base/QXmppNonza.cpp']
MODELS = ['qt_core.c', 'qt_list.c', 'c02_dom.c', 'c02_env.c']
SPEC = dict(
    property='C02',
    groups=[
        dict(name='sm', harness='h_sm.cpp', tus=SM_TUS, models=MODELS, loop_bounds=DOMLOOPS(5),
             instances=[I(e) for e in ['sm_enable', 'sm_enabled', 'sm_resume', 'sm_resumed', 'sm_ack', 'sm_request', 'sm_failed', 'sm_failed_safe']]),
        dict(name='sasl', harness='h_sasl.cpp', tus=SASL_TUS, models=MODELS, loop_bounds=DOMLOOPS(8),
             instances=[I(e, dom=SASL[e]) for e in SASL]),
        dict(name='stanza', harness='h_stanza.cpp', tus=STANZA_TUS, models=MODELS,
             instances=[I('error', dom=6), I('iq', dom=6)]),
    ],
    bounds=[], assumptions=[], outside=[],
)
