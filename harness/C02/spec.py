def I(name, entry=None, **kw):
    d = dict(name=name, entry=entry or 'h_' + name, unwind=10, timeout_s=300, mem_gb=6, safety_is_property=True, cdefs={'VP_UTF8_LATIN1': 1}, bound=''); d.update(kw); return d
def DOMLOOPS(n):
    """sibling walks of the real DOM helpers: <= n-1 children per element (checked by the unwinding assertions)"""
    return {r'^_ZN5QXmpp7Private17firstChildElementERK11QDomElement11QStringView': n, r'^_ZN5QXmpp7Private18nextSiblingElementERK11QDomElement11QStringView': n}
SM_TUS = ['src/base/QXmppStreamManagement.cpp', 'src/base/QXmppUtils.cpp', 'src/base/QXmppStanza.cpp']
MODELS = ['qt_core.c', 'qt_list.c', 'c02_dom.c', 'c02_env.c']
SPEC = dict(
    property='C02',
    groups=[
        dict(name='sm', harness='h_sm.cpp', tus=SM_TUS, models=MODELS, loop_bounds=DOMLOOPS(5),
             instances=[I(e) for e in ['sm_enable', 'sm_enabled', 'sm_resume', 'sm_resumed', 'sm_ack', 'sm_request', 'sm_failed', 'sm_failed_safe']]),
    ],
    bounds=[], assumptions=[], outside=[],
)
