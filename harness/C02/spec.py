def I(name, entry=None, **kw):
    d = dict(name=name, entry=entry or 'h_' + name, unwind=10, timeout_s=300, mem_gb=6, safety_is_property=True, object_bits=12, cdefs={'VP_UTF8_LATIN1': 1}, bound=''); d.update(kw); return d
def DOMLOOPS(n):
    """sibling walks of the real DOM helpers: <= n-1 children per element (checked by the unwinding assertions)"""
    return {r'^_ZN5QXmpp7Private17firstChildElementERK11QDomElement11QStringView': n, r'^_ZN5QXmpp7Private18nextSiblingElementERK11QDomElement11QStringView': n}
SM_TUS = ['src/base/QXmppStreamManagement.cpp', 'src/base/QXmppUtils.cpp', 'src/base/QXmppStanza.cpp']
SASL_TUS = ['src/base/QXmppSasl.cpp', 'src/base/QXmppStreamManagement.cpp', 'src/base/QXmppUtils.cpp', 'src/base/QXmppStanza.cpp']
SASL = ['sasl_auth', 'sasl_challenge', 'sasl_response', 'sasl_success', 'sasl_failure', 'sasl2_challenge', 'sasl2_response', 'sasl2_failure', 'sasl2_abort', 'sasl2_continue', 'sasl2_success',
        'sasl2_feature', 'sasl2_authenticate', 'bind2_feature', 'bind2_request', 'bind2_bound', 'fast_feature', 'fast_token_request', 'fast_request']
MODELS = ['qt_core.c', 'qt_list.c', 'c02_dom.c', 'c02_env.c']
SPEC = dict(
    property='C02',
    groups=[
        dict(name='sm', harness='h_sm.cpp', tus=SM_TUS, models=MODELS, loop_bounds=DOMLOOPS(5),
             instances=[I(e) for e in ['sm_enable', 'sm_enabled', 'sm_resume', 'sm_resumed', 'sm_ack', 'sm_request', 'sm_failed', 'sm_failed_safe']]),
        dict(name='sasl', harness='h_sasl.cpp', tus=SASL_TUS, models=MODELS, loop_bounds=DOMLOOPS(8),
             instances=[I(e) for e in SASL]),
    ],
    bounds=[], assumptions=[], outside=[],
)
