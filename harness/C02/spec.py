def DOMLOOPS(n):
    """sibling walks of the real DOM helpers: <= n-1 children per element (checked by the unwinding assertions)"""
    return {r'^_ZN5QXmpp7Private17firstChildElementERK11QDomElement11QStringView': n, r'^_ZN5QXmpp7Private18nextSiblingElementERK11QDomElement11QStringView': n}
def I(name, entry=None, dom=8, **kw):
    d = dict(loop_bounds=DOMLOOPS(dom), name=name, entry=entry or 'h_' + name, unwind=10, timeout_s=300, mem_gb=6, safety_is_property=True, object_bits=12, cdefs={'VP_UTF8_LATIN1': 1}, bound=''); d.update(kw); return d
def DOMLOOPS(n):
    """sibling walks of the real DOM helpers: <= n-1 children per element (checked by the unwinding assertions)"""
    return {r'^_ZN5QXmpp7Private17firstChildElementERK11QDomElement11QStringView': n, r'^_ZN5QXmpp7Private18nextSiblingElementERK11QDomElement11QStringView': n}
SM_TUS = ['src/base/QXmppStreamManagement.cpp', 'src/base/QXmppUtils.cpp', 'src/base/QXmppStanza.cpp']
SASL_TUS = ['src/base/QXmppSasl.cpp', 'src/base/QXmppStreamManagement.cpp', 'src/base/QXmppUtils.cpp', 'src/base/QXmppStanza.cpp']
# instance -> bound of the sibling walks (max children of the input tree and of the serialized tree + 2)
SASL = dict(sasl_auth=4, sasl_challenge=4, sasl_response=4, sasl_success=4, sasl_failure=5, sasl2_challenge=4, sasl2_response=4, sasl2_failure=5, sasl2_abort=4, sasl2_continue=5, sasl2_success=8,
            sasl2_feature=6, sasl2_authenticate=8, bind2_feature=5, bind2_request=6, bind2_bound=5, fast_feature=5, fast_token_request=4, fast_request=4, sasl2_success_safe=8)
STANZA_TUS = ['src/base/QXmppStanza.cpp', 'src/base/QXmppIq.cpp', 'src/base/QXmppBindIq.cpp', 'src/base/QXmppPingIq.cpp', 'src/base/QXmppStreamFeatures.cpp', 'src/base/QXmppSasl.cpp',
              'src/base/QXmppStreamManagement.cpp', 'src/base/QXmppUtils.cpp', 'src/base/Stream.cpp', 'src/base/QXmppNonza.cpp']
MODELS = ['qt_core.c', 'qt_list.c', 'c02_dom.c', 'c02_env.c']
def iqcase(n1, *children):
    """children: (tag, ns[, (gtag, gns)]) with indices into the vocabulary of h_stanza.cpp: tags iq,error,bind,ping,text,item-not-found,zz; ns '',client,stanzas,bind,x:y"""
    m = n1
    for i, ch in enumerate(children):
        b = 2 + 11 * i; m |= ch[0] << b; m |= ch[1] << (b + 3)
        if len(ch) > 2: m |= 1 << (b + 5); m |= ch[2][0] << (b + 6); m |= ch[2][1] << (b + 9)
    return m
T_IQ, T_ERROR, T_BIND, T_PING, T_TEXT, T_INF, T_ZZ = range(7); N_NONE, N_CLIENT, N_STANZA, N_BIND, N_XY = range(5)
IQ_SHAPES = dict(empty=iqcase(0), error_only=iqcase(1, (T_ERROR, N_NONE)), error_cond=iqcase(1, (T_ERROR, N_NONE, (T_INF, N_STANZA))), bind=iqcase(1, (T_BIND, N_BIND, (T_ZZ, N_NONE))),
                 ext_error=iqcase(2, (T_ZZ, N_XY), (T_ERROR, N_NONE, (T_TEXT, N_STANZA))), error_error=iqcase(2, (T_ERROR, N_NONE, (T_INF, N_STANZA)), (T_ERROR, N_CLIENT)),
                 ping_ext=iqcase(2, (T_PING, N_XY, (T_ZZ, N_XY)), (T_ZZ, N_NONE, (T_ERROR, N_NONE))))
IQ_CASES = [I('iq_' + k, entry='h_iq', dom=6, cdefs={'VP_UTF8_LATIN1': 1, 'VP_CASE': v}, bound='shape %s (VP_CASE=%d); attribute presence/values and text symbolic' % (k, v)) for k, v in IQ_SHAPES.items()]
SPEC = dict(
    property='C02',
    groups=[
        dict(name='sm', harness='h_sm.cpp', tus=SM_TUS, models=MODELS, loop_bounds=DOMLOOPS(5),
             instances=[I(e) for e in ['sm_enable', 'sm_enabled', 'sm_resume', 'sm_resumed', 'sm_ack', 'sm_request', 'sm_failed', 'sm_failed_safe']]),
        dict(name='sasl', harness='h_sasl.cpp', tus=SASL_TUS, models=MODELS, loop_bounds=DOMLOOPS(8),
             instances=[I(e, dom=SASL[e]) for e in SASL]),
        dict(name='stanza', harness='h_stanza.cpp', tus=STANZA_TUS, models=MODELS,
             instances=[I('error', dom=6)] + IQ_CASES),
    ],
    bounds=[], assumptions=[], outside=[],
)
