// C02: parsers WITHOUT a type check (QXmppStanza::Error, generic QXmppIq, QXmppStreamFeatures) and stanza-level parsers behind their own type check
// (QXmppBindIq, QXmppPingIq, StreamErrorElement) on an arbitrary bounded tree.
#include "QXmppStanza.h"
#include "QXmppIq.h"
#include "QXmppBindIq.h"
#include "QXmppPingIq.h"
#include "QXmppStreamFeatures.h"
#include "QXmppStreamError_p.h"
#include "QXmppUtils_p.h"
#include "c02_tree.h"
#include "c02_literals.h"
using namespace QXmpp::Private;

#define NS_STANZA "urn:ietf:params:xml:ns:xmpp-stanzas"
#define NS_UPLOAD "urn:xmpp:http:upload:0"
#define NS_CLIENT "jabber:client"
#define NS_BIND "urn:ietf:params:xml:ns:xmpp-bind"
#define NS_PING "urn:xmpp:ping"
#define NS_STREAM "http://etherx.jabber.org/streams"
#define NS_STREAMERR "urn:ietf:params:xml:ns:xmpp-streams"
#define ARR(...) { __VA_ARGS__ }
#define VOCAB(fn, TAGS_, NSS_, ATTRS_, VALS_) \
    static const char fn##_tags[][C02_L] = TAGS_; static const char fn##_nss[][C02_L] = NSS_; static const char fn##_attrs[][C02_A] = ATTRS_; static const char fn##_vals[][C02_A] = VALS_; \
    C02_VOCAB(fn##_v, fn##_tags, fn##_nss, fn##_attrs, fn##_vals)
#define WARM() vp_c02_init(); c02_warm_QXmppStanza(); c02_warm_QXmppIq(); c02_warm_QXmppUtils_dom();
static void c02_warm_QXmppUtils_dom() {}

// ---- QXmppStanza::Error: toXml() of an error without type and condition writes nothing, so both passes are wrapped into <w/> ----
VOCAB(h_error, ARR("error", "text", "gone", "redirect", "bad-request", "item-not-found", "file-too-large", "max-file-size", "zz"),
      ARR("", NS_STANZA, NS_UPLOAD, NS_CLIENT, "x:y"), ARR("code", "type", "by", "zz"), ARR("cancel", "modify", "auth", "wait", "continue", "en"))
static void wrapError(const QXmppStanza::Error &e, VpWriter &w) { w.writer()->writeStartElement(QStringLiteral("w")); e.toXml(w.writer()); w.writer()->writeEndElement(); }
extern "C" void h_error()
{
    WARM()
    C02Tree<3, 1> t; t.build(h_error_v);
    QXmppStanza::Error e; e.parse(t.root.el);
    VpWriter w1; wrapError(e, w1); QDomElement t1 = w1.root();
    QXmppStanza::Error e2; e2.parse(t1.firstChildElement());       // null element if nothing was written: parse() of a null element must be safe, too
    VpWriter w2; wrapError(e2, w2); QDomElement t2 = w2.root();
    vp_assert(vp_dom_equal(&t1, &t2), "C02 QXmppStanza::Error: parse/serialize is a fix point (second pass gives the same document)");
}

extern "C" void h_error_safe()   // first half on the same tree: safety of Error::parse + well-formed output
{
    WARM()
    C02Tree<3, 1> t; t.build(h_error_v);
    QXmppStanza::Error e; e.parse(t.root.el);
    VpWriter w1; wrapError(e, w1); QDomElement t1 = w1.root();
    vp_assert(!t1.isNull(), "C02 QXmppStanza::Error: a parsed error serializes to well-formed XML");
}
// ---- generic QXmppIq ----
VOCAB(h_iq, ARR("iq", "error", "bind", "ping", "text", "item-not-found", "zz", "jid"), ARR("", NS_CLIENT, NS_STANZA, NS_BIND, NS_PING),
      ARR("id", "type"), ARR("get", "result", "error", "cancel"))
#define STANZA_FIXPOINT(T, name, t) { T x; x.parse(t); VpWriter w1; x.toXml(w1.writer()); QDomElement t1 = w1.root(); \
      T y; y.parse(t1); VpWriter w2; y.toXml(w2.writer()); QDomElement t2 = w2.root(); \
      vp_assert(vp_dom_equal(&t1, &t2), "C02 " name ": parse/serialize is a fix point (second pass gives the same document)"); }
// Shape (child count, tag and namespace of every child and of its optional single grandchild) is chosen by VP_CASE, i.e. concrete per instance;
// attribute presence/values and text stay symbolic. (A fully symbolic tree through QXmppIq + QXmppStanza::parse + Error::parse twice gave no
// verdict in 15 min.)  bits: [0..1] n1 (0..2); per child c at base 2 + 13*c: [0..2] tag, [3..5] ns, [6] has grandchild, [7..9] grandchild tag, [10..12] grandchild ns
#define IQSHAPE(fn, T, ADMIT) static void fn(const Vocab &v, int rootTag, bool &admitted)\
{ \
    C02Node root, c[2], g[2]; \
    root.make(v, nullptr, rootTag, -1); \
    unsigned n1 = vp_case_u(0, 4); if (n1 > 2) n1 = 2; \
    for (unsigned i = 0; i < 2; i++) { \
        if (i >= n1) break; \
        unsigned b = 2 + 13 * i; \
        c[i].make(v, &root, int(vp_case_u(b, 8) % v.nTags), int(vp_case_u(b + 3, 8) % v.nNss)); vp_c02_append(&root.el, &c[i].el); \
        if (vp_case_bool(b + 6)) { g[i].make(v, &c[i], int(vp_case_u(b + 7, 8) % v.nTags), int(vp_case_u(b + 10, 8) % v.nNss)); vp_c02_append(&c[i].el, &g[i].el); if (vp_case_bool(28 + i)) forceValidAddress(g[i].el); } \
    } \
    if (ADMIT) { STANZA_FIXPOINT(T, "stanza", root.el) admitted = true; } \
}
// VP_CASE bit 28 + i: the grandchild of child i carries non-empty type= and jid= (arbitrary units, lengths 2 and 3): a concretely VALID <address/>
static void forceValidAddress(QDomElement &el)
{
    QString nt = QStringLiteral("type"), nj = QStringLiteral("jid"), vt, vj; vp_c02_fixed_text(&vt, 2); vp_c02_fixed_text(&vj, 3);
    vp_c02_force_attr(&el, &nt, &vt); vp_c02_force_attr(&el, &nj, &vj);
}
// necessary condition of the fix point that avoids the second serialization: re-parsing the serialized stanza finds as many extension elements
#define STANZA_EXTCOUNT(T, name, t) { T x; x.parse(t); VpWriter w1; x.toXml(w1.writer()); QDomElement t1 = w1.root(); \
      T y; y.parse(t1); vp_assert(y.extensions().size() == x.extensions().size(), "C02 " name ": re-parsing the serialized stanza finds the same number of extension elements (fix point)"); }
#define IQSHAPE2(fn, T) static void fn(const Vocab &v, int rootTag) \
{ \
    C02Node root, c[2], g[2]; \
    root.make(v, nullptr, rootTag, -1); \
    unsigned n1 = vp_case_u(0, 4); if (n1 > 2) n1 = 2; \
    for (unsigned i = 0; i < 2; i++) { \
        if (i >= n1) break; \
        unsigned b = 2 + 13 * i; \
        c[i].make(v, &root, int(vp_case_u(b, 8) % v.nTags), int(vp_case_u(b + 3, 8) % v.nNss)); vp_c02_append(&root.el, &c[i].el); \
        if (vp_case_bool(b + 6)) { g[i].make(v, &c[i], int(vp_case_u(b + 7, 8) % v.nTags), int(vp_case_u(b + 10, 8) % v.nNss)); vp_c02_append(&c[i].el, &g[i].el); if (vp_case_bool(28 + i)) forceValidAddress(g[i].el); } \
    } \
    STANZA_EXTCOUNT(T, "stanza", root.el) \
}
IQSHAPE2(iqShapeIqExt, QXmppIq)
extern "C" void h_iq_extcount() { WARM() iqShapeIqExt(h_iq_v, 0); }
IQSHAPE(iqShapeIq, QXmppIq, true)
IQSHAPE(iqShapeBind, QXmppBindIq, QXmppBindIq::isBindIq(root.el))
IQSHAPE(iqShapePing, QXmppPingIq, QXmppPingIq::isPingIq(root.el))
// second vocabulary for the generic IQ: the child names the BASE class looks at (QXmppStanza::parse: <error/>, XEP-0033 <addresses/> with <address type= jid= desc=
// delivered=/> children; QXmppExtendedAddress::isValid() needs non-empty type and jid, both symbolic incl. empty/absent)
#define NS_ADDR "http://jabber.org/protocol/address"
VOCAB(h_iqa, ARR("iq", "error", "addresses", "address", "bind", "zz", "item-not-found", "text"), ARR("", NS_CLIENT, NS_STANZA, NS_ADDR, NS_BIND),
      ARR("id", "type", "jid", "desc", "delivered"), ARR("get", "result", "error", "cancel", "true", "to", "cc"))
extern "C" void h_iqa() { WARM() c02_warm_QXmppStanza(); bool admitted = false; iqShapeIq(h_iqa_v, 0, admitted); vp_assume(admitted); }
extern "C" void h_iqa_extcount() { WARM() iqShapeIqExt(h_iqa_v, 0); }
extern "C" void h_bindiqa() { WARM() bool admitted = false; iqShapeBind(h_iqa_v, 0, admitted); vp_assume(admitted); }
extern "C" void h_iq() { WARM() bool admitted = false; iqShapeIq(h_iq_v, 0, admitted); vp_assume(admitted); }
extern "C" void h_bind_iq() { WARM() bool admitted = false; iqShapeBind(h_iq_v, 0, admitted); vp_assume(admitted); }
extern "C" void h_ping_iq() { WARM() bool admitted = false; iqShapePing(h_iq_v, 0, admitted); vp_assume(admitted); }

