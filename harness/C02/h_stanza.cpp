// C02: parsers WITHOUT a type check (QXmppStanza::Error, generic QXmppIq, QXmppStreamFeatures) and stanza-level parsers behind their own type check
// (QXmppBindIq, QXmppPingIq, StreamErrorElement) on an arbitrary bounded tree.
#include "QXmppStanza.h"
#include "QXmppIq.h"
#include "QXmppBindIq.h"
#include "QXmppPingIq.h"
#include "QXmppStreamFeatures.h"
#include "QXmppStreamError_p.h"
#include "QXmppUtils_p.h"
#include "c02_tree.h"
#include "c02_literals.h"
using namespace QXmpp::Private;

#define NS_STANZA "urn:ietf:params:xml:ns:xmpp-stanzas"
#define NS_UPLOAD "urn:xmpp:http:upload:0"
#define NS_CLIENT "jabber:client"
#define NS_BIND "urn:ietf:params:xml:ns:xmpp-bind"
#define NS_PING "urn:xmpp:ping"
#define NS_STREAM "http://etherx.jabber.org/streams"
#define NS_STREAMERR "urn:ietf:params:xml:ns:xmpp-streams"
#define ARR(...) { __VA_ARGS__ }
#define VOCAB(fn, TAGS_, NSS_, ATTRS_, VALS_) \
    static const char fn##_tags[][C02_L] = TAGS_; static const char fn##_nss[][C02_L] = NSS_; static const char fn##_attrs[][C02_A] = ATTRS_; static const char fn##_vals[][C02_A] = VALS_; \
    C02_VOCAB(fn##_v, fn##_tags, fn##_nss, fn##_attrs, fn##_vals)
#define WARM() vp_c02_init(); c02_warm_QXmppStanza(); c02_warm_QXmppIq(); c02_warm_QXmppUtils_dom();
static void c02_warm_QXmppUtils_dom() {}

// ---- QXmppStanza::Error: toXml() of an error without type and condition writes nothing, so both passes are wrapped into <w/> ----
VOCAB(h_error, ARR("error", "text", "gone", "redirect", "bad-request", "item-not-found", "file-too-large", "max-file-size", "zz"),
      ARR("", NS_STANZA, NS_UPLOAD, NS_CLIENT, "x:y"), ARR("code", "type", "by", "zz"), ARR("cancel", "modify", "auth", "wait", "continue", "en"))
static void wrapError(const QXmppStanza::Error &e, VpWriter &w) { w.writer()->writeStartElement(QStringLiteral("w")); e.toXml(w.writer()); w.writer()->writeEndElement(); }
extern "C" void h_error()
{
    WARM()
    C02Tree<3, 1> t; t.build(h_error_v);
    QXmppStanza::Error e; e.parse(t.root.el);
    VpWriter w1; wrapError(e, w1); QDomElement t1 = w1.root();
    QXmppStanza::Error e2; e2.parse(t1.firstChildElement());       // null element if nothing was written: parse() of a null element must be safe, too
    VpWriter w2; wrapError(e2, w2); QDomElement t2 = w2.root();
    vp_assert(vp_dom_equal(&t1, &t2), "C02 QXmppStanza::Error: parse/serialize is a fix point (second pass gives the same document)");
}

// ---- generic QXmppIq ----
VOCAB(h_iq, ARR("iq", "error", "bind", "ping", "text", "item-not-found", "zz"), ARR("", NS_CLIENT, NS_STANZA, NS_BIND, "x:y"),
      ARR("id", "to", "from", "type", "code", "zz"), ARR("get", "set", "result", "error", "cancel", "modify"))
#define STANZA_FIXPOINT(T, name, t) { T x; x.parse(t); VpWriter w1; x.toXml(w1.writer()); QDomElement t1 = w1.root(); \
      T y; y.parse(t1); VpWriter w2; y.toXml(w2.writer()); QDomElement t2 = w2.root(); \
      vp_assert(vp_dom_equal(&t1, &t2), "C02 " name ": parse/serialize is a fix point (second pass gives the same document)"); }
extern "C" void h_iq() { WARM() C02Tree<2, 1> t; t.build(h_iq_v); STANZA_FIXPOINT(QXmppIq, "QXmppIq", t.root.el) }
