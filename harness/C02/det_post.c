/* C02 determinism twin, part 2 (listed AFTER c02_env.c): QString::toInt()... as a FUNCTION of the text. A free text made by vp_c02_value / vp_c02_fixed_text
   under -DC02_DET carries the interpretation Qt's number grammar gives it (ghost fields of the non-number block: neg & 0x80 memo present, neg & 0x40 it is a
   number, neg & 1 negative, mag magnitude): still arbitrary, but drawn once per text. The range check of the target type is applied per call (parse_num of
   qt_core.c with the interpretation as an abstract number), so toInt() and toLongLong() of one text agree. Texts without memo: unchanged shared model. */
#undef _ZNK7QString11toULongLongEPbi
#undef _ZNK7QString10toLongLongEPbi
#undef _ZNK7QString6toUIntEPbi
#undef _ZNK7QString5toIntEPbi
#undef _ZNK7QString8toUShortEPbi
#undef _ZNK7QString7toShortEPbi
#define DET_MEMO(self) QAD *d = *(QAD**)self; uint8_t n = 0; struct qs *q = (struct qs*)d; \
  int memo = d->f1 != 0 && d->f3 == QS_OFF && !q->isnum && (q->neg & 0x80); \
  struct numv i = NONUM; if (memo) { i.isnum = 1; i.neg = (uint8_t)(q->neg & 1); i.mag = q->mag; } \
  if (memo && !(q->neg & 0x40)) { if (ok) *ok = 0; return 0; }
uint64_t _ZNK7QString11toULongLongEPbi(char *self, char *ok, uint32_t base) { DET_MEMO(self) if (!memo) return vp_nd_QString_toULongLong(self, ok, base); return parse_num(i, d->f1, ok, ~0ULL, 0, 0, &n); }
uint64_t _ZNK7QString10toLongLongEPbi(char *self, char *ok, uint32_t base) { DET_MEMO(self) if (!memo) return vp_nd_QString_toLongLong(self, ok, base); uint64_t v = parse_num(i, d->f1, ok, 0x7fffffffffffffffULL, 1, 0x8000000000000000ULL, &n); return SGN(uint64_t, v, n); }
uint32_t _ZNK7QString6toUIntEPbi(char *self, char *ok, uint32_t base) { DET_MEMO(self) if (!memo) return vp_nd_QString_toUInt(self, ok, base); return (uint32_t)parse_num(i, d->f1, ok, 0xffffffffULL, 0, 0, &n); }
uint32_t _ZNK7QString5toIntEPbi(char *self, char *ok, uint32_t base) { DET_MEMO(self) if (!memo) return vp_nd_QString_toInt(self, ok, base); uint64_t v = parse_num(i, d->f1, ok, 0x7fffffffULL, 1, 0x80000000ULL, &n); return SGN(uint32_t, v, n); }
uint16_t _ZNK7QString8toUShortEPbi(char *self, char *ok, uint32_t base) { DET_MEMO(self) if (!memo) return vp_nd_QString_toUShort(self, ok, base); return (uint16_t)parse_num(i, d->f1, ok, 0xffffULL, 0, 0, &n); }
uint16_t _ZNK7QString7toShortEPbi(char *self, char *ok, uint32_t base) { DET_MEMO(self) if (!memo) return vp_nd_QString_toShort(self, ok, base); uint64_t v = parse_num(i, d->f1, ok, 0x7fffULL, 1, 0x8000ULL, &n); return SGN(uint16_t, v, n); }

/* ---- native replay of a twin counterexample: cbmc gives the two heap objects independent arbitrary content; natively the harness marks the two phases and every
   operator new / typed new of phase 0 is zero-filled (like fresh pages), of phase 1 filled with 0xA5 (non-zero, bit 0 set, large as an integer), so that a bool, an
   enum or an integer member that nobody wrote differs between the twins. Installed by the instance cdefs VP_NATIVE_ALLOC_DEFINED + vp_native_alloc(n) (spec_det.py): the
   shared prelude / base.h then take this allocator instead of their per-allocation pattern (which is never zero: an uninitialised bool is `true` in both twins). ---- */
#ifndef __CPROVER__
#include <string.h>
unsigned char vp_det_fill = 0xA5;
char *vp_det_alloc(unsigned long n) { char *p = malloc(n ? n : 1); if (p) memset(p, vp_det_fill, n); return p; }
#endif
void vp_det_phase(uint32_t k) {
#ifndef __CPROVER__
  vp_det_fill = k ? 0xA5 : 0x00;
#endif
}
