// C02 determinism twin for the nonza parsers (std::optional<T> T::fromDom): parse the same tree twice, both results agree on acceptance and serialize identically
#pragma once
#include "c02_tree.h"
extern "C" void vp_det_phase(unsigned k);   // native replay only: fill of fresh heap storage for twin 0 / twin 1 (det_post.c); no-op under cbmc
#define C02_TWIN_OPT(T, t, admitted) \
    { vp_det_phase(0); auto x = T::fromDom(t); vp_det_phase(1); auto y = T::fromDom(t); admitted = x.has_value(); \
      vp_assert(x.has_value() == y.has_value(), "C02 " #T ": two parses of the same element agree on acceptance"); \
      if (x && y) { VpWriter w1; x->toXml(w1.writer()); QDomElement t1 = w1.root(); VpWriter w2; y->toXml(w2.writer()); QDomElement t2 = w2.root(); \
        vp_assert(vp_dom_equal(&t1, &t2), "C02 " #T ": two parses of the same element serialize to the same document (no output depends on an uninitialised member)"); } }
