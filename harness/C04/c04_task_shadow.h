// Assume-guarantee shadow of QXmppTask<T>/QXmppPromise<T> (DESIGN 2.3): same public API, lean implementation.
// Contract (established for the REAL classes by the C13 harnesses): a continuation runs exactly once with the value the
// promise was finished with, whether attached before or after finish(); finish() is called at most once.
// Ghost state: vp_task_completions counts finish() calls across all promises; finishing twice is a property failure.
// The context object is assumed alive (context death is C13's subject).
#ifndef QXMPPTASK_H
#define QXMPPTASK_H
#define QXMPPPROMISE_H
#include "qxmpp_export.h"
#include <optional>
#include <type_traits>
#include <utility>
#include <QFuture>
#include <QPointer>
extern "C" { void vp_assert(bool, const char *); extern int vp_task_completions; extern int vp_task_continuations_run; }
namespace QXmpp::Private {
template<typename T> struct ShadowCont { virtual void call(T &&) = 0; virtual ~ShadowCont() = default; };
template<> struct ShadowCont<void> { virtual void call() = 0; virtual ~ShadowCont() = default; };
template<typename T, typename F> struct ShadowContImpl final : ShadowCont<T> { F f; ShadowContImpl(F &&f) : f(std::move(f)) {} void call(T &&v) override { f(std::move(v)); } };
template<typename F> struct ShadowVoidContImpl final : ShadowCont<void> { F f; ShadowVoidContImpl(F &&f) : f(std::move(f)) {} void call() override { f(); } };
template<typename T> struct ShadowState {
    int refs = 1; bool finished = false; ShadowCont<T> *cont = nullptr;
    std::conditional_t<std::is_void_v<T>, bool, std::optional<T>> value {};
};
template<typename T> struct ShadowRef {
    ShadowState<T> *s;
    ShadowRef() : s(new ShadowState<T>) {}
    ShadowRef(const ShadowRef &o) : s(o.s) { s->refs++; }
    ShadowRef(ShadowRef &&o) : s(o.s) { s->refs++; }
    ShadowRef &operator=(const ShadowRef &o) { o.s->refs++; release(); s = o.s; return *this; }
    ~ShadowRef() { release(); }
    void release() { if (--s->refs == 0) { delete s->cont; delete s; } }
};
}
template<typename T> class QXmppPromise;
template<typename T> class QXmppTask {
public:
    template<typename Continuation> void then(const QObject *, Continuation continuation) {
        using namespace QXmpp::Private;
        auto *s = d.s;
        if (s->finished) {
            if constexpr (std::is_void_v<T>) { vp_task_continuations_run++; continuation(); }
            else if (s->value) { T v = std::move(*s->value); s->value.reset(); vp_task_continuations_run++; continuation(std::move(v)); }
        } else {
            delete s->cont;
            if constexpr (std::is_void_v<T>) s->cont = new ShadowVoidContImpl<Continuation>(std::move(continuation));
            else s->cont = new ShadowContImpl<T, Continuation>(std::move(continuation));
        }
    }
    [[nodiscard]] bool isFinished() const { return d.s->finished; }
    template<typename U = T, std::enable_if_t<(!std::is_void_v<U>)> * = nullptr> [[nodiscard]] bool hasResult() const { return d.s->value.has_value(); }
    template<typename U = T, std::enable_if_t<(!std::is_void_v<U>)> * = nullptr> [[nodiscard]] const U &result() const { return *d.s->value; }
    template<typename U = T, std::enable_if_t<(!std::is_void_v<U>)> * = nullptr> [[nodiscard]] U takeResult() { U r = std::move(*d.s->value); d.s->value.reset(); return r; }
private:
    friend class QXmppPromise<T>;
    explicit QXmppTask(const QXmpp::Private::ShadowRef<T> &r) : d(r) {}
    QXmpp::Private::ShadowRef<T> d;
};
template<typename T> class QXmppPromise {
public:
    QXmppPromise() = default;
    template<typename U, typename TT = T, std::enable_if_t<!std::is_void_v<TT> && std::is_constructible_v<TT, U>> * = nullptr>
    void finish(U &&value) {
        auto *s = d.s;
        vp_assert(!s->finished, "a promise is finished at most once (precondition of QXmppPromise::finish)");
        s->finished = true; vp_task_completions++;
        if (s->cont) { auto *c = s->cont; s->cont = nullptr; T v { std::move(value) }; vp_task_continuations_run++; c->call(std::move(v)); delete c; }
        else s->value.emplace(std::move(value));
    }
    template<typename U = T, std::enable_if_t<std::is_void_v<U>> * = nullptr>
    void finish() {
        auto *s = d.s;
        vp_assert(!s->finished, "a promise is finished at most once (precondition of QXmppPromise::finish)");
        s->finished = true; vp_task_completions++;
        if (s->cont) { auto *c = s->cont; s->cont = nullptr; vp_task_continuations_run++; c->call(); delete c; }
    }
    QXmppTask<T> task() { return QXmppTask<T> { d }; }
private:
    QXmpp::Private::ShadowRef<T> d;
};
#endif
