/* C04 environment (C side): classification-tagged byte blocks, socket ghost log with the property assertion at every write,
   QSslSocket encryption ghost flag, serializeXml<T> overrides (classification by serialiser TYPE), signals of QXmppOutgoingClient,
   timers, logging. Included after qt_core.c / qt_list.c / qt_dom.c / qt_object.c. */
#ifdef HAVE_T_struct_QArrayData
#define T_NONE 0u
#define T_STREAM_OPEN 1u
#define T_STARTTLS 2u
#define T_AUTH 3u
#define T_BIND 4u
#define T_STANZA 5u
#define T_SM_RESUME 6u
#define T_SM_ENABLE 10u
#define T_SM_ACK 7u
#define T_CSI 8u
#define T_NONZA 9u
#ifndef VP_CFG
#define VP_CFG 0
#endif
uint32_t vp_c04_cfg(void) { return VP_CFG; }
uint8_t vp_c04_false(void) { return 0; }

/* ---- byte blocks that reach the socket: {QArrayData header, magic, tag} ------------------------------------------------------- */
struct c04blk { QAD h; uint32_t magic; uint32_t tag; uint8_t data[8]; };
#define C04_MAGIC 0xC04B10C5u
static QAD *c04_blk(uint32_t tag) { struct c04blk *b = malloc(sizeof(struct c04blk)); ASSUME(b != 0);
  REF(&b->h) = 1; b->h.f1 = 1; b->h.f2 = 8; b->h.f3 = offsetof(struct c04blk, data); b->magic = C04_MAGIC; b->tag = tag; b->data[0] = (uint8_t)tag; b->data[1] = 0; return &b->h; }
void vp_c04_tagged(char *out, uint32_t tag) { *(QAD**)out = c04_blk(tag); }

/* ---- environment answers and ghost state ---------------------------------------------------------------------------------------- */
static uint8_t c04_tls_required, c04_encrypted, c04_ssl_local;
static uint32_t c04_start_enc, c04_disconnects, c04_sig_connected, c04_sig_error, c04_sig_other;
void vp_c04_env(uint8_t tlsRequired, uint8_t encrypted, uint8_t sslLocal) { c04_tls_required = tlsRequired; c04_encrypted = encrypted; c04_ssl_local = sslLocal; }
uint8_t vp_c04_encrypted(void) { return c04_encrypted; }
uint32_t vp_c04_start_encryption_calls(void) { return c04_start_enc; }
uint32_t vp_c04_disconnects(void) { return c04_disconnects; }
uint32_t vp_c04_sig_connected(void) { return c04_sig_connected; }
uint32_t vp_c04_sig_error(void) { return c04_sig_error; }
/* QSslSocket (libQt5Network): the encryption state is a ghost flag that only startClientEncryption() sets (handshake, certificate
   validation and the buffering of writes during the handshake are Qt's and outside the claim) */
uint8_t _ZNK10QSslSocket11isEncryptedEv(char *self) { return c04_encrypted; }
void _ZN10QSslSocket21startClientEncryptionEv(char *self) { c04_start_enc++; c04_encrypted = 1; }
uint8_t _ZN10QSslSocket11supportsSslEv(void) { return c04_ssl_local; }

/* ---- socket: XmppSocket::sendData (reached through the harness' FakeSock vtable) ------------------------------------------------- */
#define SENT_CAP 4
static uint32_t sent_n, sent_tag[SENT_CAP];
uint8_t vp_c04_send(char *ba) { QAD *d = *(QAD**)ba; ASSERT(d != SHARED_NULL, "C04 model: empty QByteArray handed to the socket"); ASSUME(d != SHARED_NULL);
  struct c04blk *b = (struct c04blk*)d; ASSERT(b->magic == C04_MAGIC, "C04 model: bytes handed to the socket were not produced by a classified serialiser"); ASSUME(b->magic == C04_MAGIC);
  uint32_t t = b->tag; uint8_t forbidden = (t == T_AUTH || t == T_BIND || t == T_STANZA || t == T_SM_RESUME);
  VP_ASSERT(!(c04_tls_required && !c04_encrypted && forbidden), "C04 credential / authentication exchange / resumption token / resource binding / stanza handed to the socket although TLS is required and the link is not encrypted");
  ASSUME(!(c04_tls_required && !c04_encrypted && forbidden));   /* what happens after a violation is not explored */
  ASSERT(sent_n < SENT_CAP, "C04 model: socket log capacity"); ASSUME(sent_n < SENT_CAP);
  sent_tag[sent_n] = t; sent_n++; return vp_bool(); }
uint32_t vp_c04_sent_n(void) { return sent_n; }
void vp_c04_reset_logs(void) { sent_n = 0; c04_disconnects = 0; c04_sig_connected = 0; c04_sig_error = 0; c04_start_enc = 0; }
uint32_t vp_c04_sent_tag(uint32_t i) { return i < SENT_CAP ? sent_tag[i] : 0; }
/* calls on the member object d->socket are bound statically to XmppSocket::sendData: same ghost log */
uint8_t _ZN5QXmpp7Private10XmppSocket8sendDataERK10QByteArray(char *self, char *ba) { return vp_c04_send(ba); }
void _ZN5QXmpp7Private10XmppSocketC2EP7QObject(char *self, char *parent) { /* QObject part of the socket is never touched */ }
/* XmppSocket::disconnectFromHost: closes the stream and the connection (real: "</stream:stream>" + QSslSocket::disconnectFromHost) */
void _ZN5QXmpp7Private10XmppSocket18disconnectFromHostEv(char *self) { c04_disconnects++; }


/* ---- serializeXml<T> (inline template instantiations, overridden): the produced bytes are the CLASSIFICATION of the serialised type.
   The XML text itself (Qt's writer) is not the subject: what matters is WHICH kind of element is handed to the socket and when. ---- */
void _ZN5QXmpp7Private12serializeXmlINS0_10StreamOpenEEE10QByteArrayRKT_(char *ret, char *pkt) { *(QAD**)ret = c04_blk(T_STREAM_OPEN); }
void _ZN5QXmpp7Private12serializeXmlINS0_15StarttlsRequestEEE10QByteArrayRKT_(char *ret, char *pkt) { *(QAD**)ret = c04_blk(T_STARTTLS); }
void _ZN5QXmpp7Private12serializeXmlI18QXmppNonSASLAuthIqEE10QByteArrayRKT_(char *ret, char *pkt) { *(QAD**)ret = c04_blk(T_AUTH); }
void _ZN5QXmpp7Private12serializeXmlI11QXmppBindIqEE10QByteArrayRKT_(char *ret, char *pkt) { *(QAD**)ret = c04_blk(T_BIND); }
void _ZN5QXmpp7Private12serializeXmlINS0_8SmResumeEEE10QByteArrayRKT_(char *ret, char *pkt) { *(QAD**)ret = c04_blk(T_SM_RESUME); }
void _ZN5QXmpp7Private12serializeXmlINS0_8SmEnableEEE10QByteArrayRKT_(char *ret, char *pkt) { *(QAD**)ret = c04_blk(T_SM_ENABLE); }
void _ZN5QXmpp7Private12serializeXmlINS0_5SmAckEEE10QByteArrayRKT_(char *ret, char *pkt) { *(QAD**)ret = c04_blk(T_SM_ACK); }
void _ZN5QXmpp7Private12serializeXmlINS0_9SmRequestEEE10QByteArrayRKT_(char *ret, char *pkt) { *(QAD**)ret = c04_blk(T_SM_ACK); }
void _ZN5QXmpp7Private12serializeXmlINS0_9CsiActiveEEE10QByteArrayRKT_(char *ret, char *pkt) { *(QAD**)ret = c04_blk(T_CSI); }
void _ZN5QXmpp7Private12serializeXmlINS0_11CsiInactiveEEE10QByteArrayRKT_(char *ret, char *pkt) { *(QAD**)ret = c04_blk(T_CSI); }

/* ---- signals of QXmppOutgoingClient (moc code): counted ------------------------------------------------------------------------------ */
void _ZN19QXmppOutgoingClient9connectedERKN5QXmpp7Private12SessionBeginE(char *self, char *s) { c04_sig_connected++; }
void _ZN19QXmppOutgoingClient13errorOccurredERK7QStringRKSt7variantIJN15QAbstractSocket11SocketErrorEN5QXmpp12TimeoutErrorENS6_11StreamErrorENS6_19AuthenticationErrorENS6_9BindErrorEEEN11QXmppClient5ErrorE(char *self, char *text, char *details, uint32_t old) { c04_sig_error++; }

void _ZN19QXmppOutgoingClient12disconnectedERKN5QXmpp7Private10SessionEndE(char *self, char *s) { c04_sig_other++; }
void _ZN19QXmppOutgoingClient10iqReceivedERK7QXmppIq(char *self, char *iq) { c04_sig_other++; }
/* elementReceived(element, handled&): the hand-over to the extensions of QXmppClient (version, ping, disco, time ... responders), which are
   outside the encoded program and ANSWER requests handed to them. Assume-guarantee at this interface: a jabber:client element must not be
   handed over while TLS is required and the link is not encrypted (defect 24: a version request received before STARTTLS was answered in
   clear). Nobody is connected here, `handled` stays false. */
static int c04_is_client_ns(QAD *s) { static const char lit[] = "jabber:client"; if (s->f1 != 13) return 0; const uint16_t *c = qs_chars(s);
  for (uint32_t i = 0; i < 13; i++) if (c[i] != (uint16_t)lit[i]) return 0; return 1; }
void _ZN19QXmppOutgoingClient15elementReceivedERK11QDomElementRb(char *self, char *el, char *handled) { c04_sig_other++;
  struct dnode *n = DN(el);
  VP_ASSERT(!(c04_tls_required && !c04_encrypted && n != 0 && c04_is_client_ns(n->ns)), "C04 a stanza received over a link that is not encrypted is handed to the client's extensions (which answer requests) although TLS is required"); }

/* ---- Qt value classes that are only default-constructed / copied / destroyed as members (content irrelevant here) -------------------- */
void _ZN13QNetworkProxyC1Ev(char *self) { *(char**)self = 0; }
void _ZN13QNetworkProxyC1ERKS_(char *self, char *o) { *(char**)self = 0; }
void _ZN13QNetworkProxyD1Ev(char *self) { }
void _ZN9QDateTimeC1Ev(char *self) { *(char**)self = 0; }
void _ZN9QDateTimeC1ERKS_(char *self, char *o) { *(char**)self = *(char**)o; }
void _ZN9QDateTimeC1EOS_(char *self, char *o) { *(char**)self = *(char**)o; }
void _ZN9QDateTimeD1Ev(char *self) { }
char* _ZN9QDateTimeaSERKS_(char *self, char *o) { *(char**)self = *(char**)o; return self; }

/* ---- timers, logging -------------------------------------------------------------------------------------------------------------- */
void _ZN6QTimer4stopEv(char *self) { }
void _ZN13QXmppLoggable10logMessageEN11QXmppLogger11MessageTypeERK7QString(char *self, uint32_t type, char *msg) { }
#endif
