// Defect 24 (C04): with TLS required, a stanza received BEFORE the link is encrypted is handed to the client's extensions, which answer it
// in clear (here: the default QXmppVersionManager answers a jabber:iq:version request). Exit 0 = nothing sent in clear, 1 = stanza sent.
// build: sh build.sh <root of a built qxmpp tree>
#include "QXmppClient.h"
#include "QXmppClient_p.h"
#include "QXmppConfiguration.h"
#include "QXmppLogger.h"
#define private public
#include "QXmppOutgoingClient.h"
#undef private
#include <QCoreApplication>
#include <QDomDocument>
#include <cstdio>

class TestClient : public QXmppClient   // QXmppClient befriends a class of this name for its tests
{
public:
    QStringList sent;
    TestClient()
    {
        configuration().setStreamSecurityMode(QXmppConfiguration::TLSRequired);
        configuration().setJid(QStringLiteral("alice@example.org/x"));
        logger()->setLoggingType(QXmppLogger::SignalLogging);
        connect(logger(), &QXmppLogger::message, this, [this](QXmppLogger::MessageType t, const QString &text) {
            if (t == QXmppLogger::SentMessage) sent << text;
        });
    }
    void receive(const QString &xml)
    {
        QDomDocument doc;
        doc.setContent(xml, true);
        d->stream->handlePacketReceived(doc.documentElement());   // the slot the socket's stanzaReceived signal is connected to
        QCoreApplication::processEvents();
    }
};

int main(int argc, char **argv)
{
    QCoreApplication app(argc, argv);
    TestClient c;   // never connected: the socket is not encrypted
    c.receive(QStringLiteral("<iq xmlns='jabber:client' type='get' id='v1' from='example.org'><query xmlns='jabber:iq:version'/></iq>"));
    for (const auto &s : c.sent) std::printf("sent over the unencrypted link: %s\n", qPrintable(s));
    return c.sent.isEmpty() ? 0 : 1;
}
