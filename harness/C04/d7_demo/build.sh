#!/bin/sh
set -e
HERE=$(cd "$(dirname "$0")" && pwd); ROOT=${1:-/repo}
g++ -std=c++20 -fPIC -O1 -I"$ROOT/src/base" -I"$ROOT/src/client" -I"$ROOT/src" -I"$ROOT/_build/src" $(pkg-config --cflags Qt5Core Qt5Network Qt5Xml) \
  "$HERE/demo.cpp" -o /tmp/c04_d7_demo -L"$ROOT/_build/src" -lQXmppQt5 -Wl,-rpath,"$ROOT/_build/src" $(pkg-config --libs Qt5Core Qt5Network Qt5Xml)
