# C04 - with TLS required nothing sensitive leaves before the link is encrypted: single inductive steps (see c04.h / h.cpp)
TUS = ['src/client/QXmppConfiguration.cpp', 'src/base/QXmppStreamFeatures.cpp', 'src/base/QXmppStreamManagement.cpp', 'src/base/Stream.cpp', 'src/base/QXmppUtils.cpp',
       'src/base/QXmppIq.cpp', 'src/base/QXmppStanza.cpp', 'src/base/QXmppNonSASLAuth.cpp', 'src/base/QXmppBindIq.cpp', 'src/base/QXmppSasl.cpp']
MODELS = ['qt_core.c', 'qt_list.c', 'qt_dom.c', 'qt_object.c', 'c04_models.c']
PRE = ('pre-state: ARBITRARY private state with TLS required, link not encrypted, INV (listener = client itself%s, not authenticated): all configuration flags, '
       'user/domain/password/resource <= 2 units, stream id/from/version, session / bind / stream-management / CSI / carbons flags, sequence counters arbitrary; ')
Q = ('quick', 'thorough'); T = ('thorough',)
# VP_CFG bits (c04.h): 1 local TLS support, 2 stored stream version decided by bit 8 (else symbolic), 32..64 STARTTLS offer,
# 128..256 SASL2 offer, 512 pre-state "STARTTLS requested" (StarttlsManager listens), 1024.. event-specific case bits
def I(name, entry, cfg, bound, tiers=Q, st=False, **kw):
    d = dict(name=name, entry='h_' + entry, unwind=5, timeout_s=300, mem_gb=6, cdefs={'VP_CFG': cfg}, tiers=tiers,
             bound=PRE % (' or the STARTTLS step (reached by a real features step)' if st else '') + 'event: ' + bound)
    d.update(kw); return d
LISTENERS = ['client', 'nonsasl', 'bind', 'sm']
TLS = ['absent', 'optional', 'required']
S2 = ['no SASL2', 'SASL2 without bind2', 'SASL2 with bind2 (1 feature)']
QUICK_FEATURES = {(0, 1): 1, (1, 1): 2, (2, 1): 0, (1, 0): 1}      # (tls, local ssl) -> SASL2 case that also runs in the quick tier
INST = (
    [I('start_%s' % LISTENERS[k], 'start', 1 | 16 | k << 10, 'socket started (handleStart); previous listener: ' + LISTENERS[k], tiers=Q if k == 1 else T) for k in range(4)]
    + [I('start_starttls', 'start', 1 | 16 | 512, 'socket started while the STARTTLS step of the previous connection still listens', st=True, tiers=T)]
    + [I('disconnected_%s' % LISTENERS[k], 'disconnected', 1 | 16 | k << 10, 'socket disconnected (_q_socketDisconnected, no further address / redirect); isAuthenticated and listener (%s) arbitrary' % LISTENERS[k],
         tiers=Q if k == 1 else T) for k in range(4)]
    + [I('features_tls%d_ssl%d_s%d' % (t, l, k), 'features', l | 16 | t << 5 | k << 7,
         'handleStreamFeatures(f), f built through the real setters: STARTTLS %s, local TLS support %s, %s, mechanisms 0..1 (<= 2 units), legacy auth / bind / session / sm / csi modes arbitrary' % (TLS[t], bool(l), S2[k]),
         tiers=Q if QUICK_FEATURES.get((t, l)) == k else T) for t in (0, 1, 2) for l in (0, 1) for k in (0, 1, 2)]
    + [I('stream_pre%d_el%d%s' % (pv, ev, '_st' if st else ''), 'stream', 1 | 2 | pv << 3 | st << 9 | (ev | 2 | 4) << 10,
         'handleStream(<stream:stream id from%s/>), values <= 2..3 arbitrary units; stored stream version %s' % (' version' if ev else '', 'non-empty' if pv else 'empty'),
         st=bool(st), tiers=Q if (pv, ev, st) in ((0, 0, 0), (0, 0, 1)) else T) for pv in (0, 1) for ev in (0, 1) for st in (0, 1)]
    + [I('stream_noattr', 'stream', 1 | 2, 'handleStream(<stream:stream/>) without any attribute, nothing stored yet', tiers=T)]
    + [I('packet_starttls_ns%d' % n, 'packet_starttls', 1 | 16 | 512 | n << 10,
         'handlePacketReceived(el), el = arbitrary tag <= 8 units in %s (covers <proceed/>, <failure/>, anything else)' % ('urn:ietf:params:xml:ns:xmpp-tls' if n else 'an arbitrary namespace <= 2 units'),
         st=True, tiers=Q if n else T) for n in (0, 1)]
    + [I('packet_generic_ns%d' % n, 'packet_client', 1 | 16 | (0 | n << 2) << 10,
         'handlePacketReceived(el), el = child-less element, arbitrary tag <= 8 units (except presence/message) in namespace ' + ['http://etherx.jabber.org/streams', 'jabber:client', 'urn:xmpp:sm:3 (with h=<any u32>)', 'arbitrary <= 2 units'][n],
         tiers=Q if n == 0 else T, timeout_s=400) for n in (0, 1, 2, 3)]
    + [I('packet_iq_t%d' % t, 'packet_client', 1 | 16 | (1 | t << 2) << 10,
         'handlePacketReceived(<iq xmlns=jabber:client type=%s id from/>), id/from <= 2 arbitrary units, from present or not' % ['get', 'set', 'result', 'error', '<2 arbitrary units>', '<absent>'][t],
         tiers=Q if t == 0 else T) for t in range(6)]
    + [I('packet_features_tls%d_ssl%d_o%d' % (t, l, o), 'packet_client', l | 16 | (2 | t << 2 | o << 5) << 10,
         'handlePacketReceived(<stream:features>) as a DOM tree parsed by the real QXmppStreamFeatures::parse: starttls %s, local TLS support %s, %s' % (TLS[t], bool(l), 'mechanisms(1 arbitrary) + auth + bind + sm offered' if o else 'nothing else offered'),
         tiers=Q if (t, l, o) in ((0, 1, 7), (2, 1, 7), (1, 0, 7)) else T) for t in (0, 1, 2) for l in (0, 1) for o in (0, 7)]
)
SPEC = dict(
    property='C04',
    groups=[
        dict(name='step', harness='h.cpp', tus=TUS, models=MODELS, shadow_task=True,
             loop_bounds={r'^_ZNSt6ranges14__copy_or_move': 110, r'firstChildElement': 8, r'iterChildElements|ChildElementIterator': 8},
             instances=INST),
    ],
    bounds=[
        'single inductive steps: ONE event of the remote end applied to an ARBITRARY private state of QXmppOutgoingClient that satisfies INV == (TLS required and link not encrypted => listener is the client itself or the STARTTLS step, and the client is not authenticated); every step proves INV again, so the claims hold along every server script, of any length, as long as the link stays unencrypted',
        'events: socket started; socket disconnected; stream header with/without version, id, from (values <= 3 arbitrary UTF-16 units); stream features built through the real setters (STARTTLS absent/optional/required x SASL2 absent / without bind2 / with one bind2 feature x 0..1 SASL mechanism of <= 2 units x arbitrary legacy-auth / bind / session / sm / csi modes) and as a DOM tree through the real parser (starttls absent/present/required, with nothing else or with mechanisms + auth + bind + sm); answer to STARTTLS = arbitrary tag <= 8 units in the TLS or an arbitrary namespace; while the client listens: any child-less element with tag <= 8 units in the stream / client / sm / an arbitrary namespace, IQs of every type with id/from <= 2 units',
        'client configuration: TLSRequired; useSASLAuthentication / useSasl2Authentication / useNonSASLAuthentication / legacy mechanism preference arbitrary; user, domain, password, resource <= 2 arbitrary units; local TLS support (QSslSocket::supportsSsl) both values (case split)',
        'quick tier = 14 of the 60 case combinations (every event class; STARTTLS absent / optional / required with local TLS support, optional without); thorough tier = all 60 combinations',
        'socket log capacity 4 writes per step (asserted as model limit)',
    ],
    assumptions=[
        'QXmppOutgoingClient and QXmppOutgoingClientPrivate live in typed, unconstructed storage and are built field by field (the real constructor creates sockets, timers and DNS look-ups); QXmppConfiguration is the REAL class, set through its public setters; PingManager = two timers of which only stop() (no-op) is called',
        'what reaches the socket is classified by the TYPE of the serialiser that produced it: serializeXml<StreamOpen|StarttlsRequest|QXmppNonSASLAuthIq|QXmppBindIq|SmResume|SmEnable|SmAck|SmRequest|CsiActive|CsiInactive> and QXmppPacket(QXmppNonza) return a byte block that carries the tag (stream header, starttls, AUTH, BIND, SM-RESUME (carries the resumption token), sm enable, sm ack, csi, STANZA / other nonza); AUTH, BIND, STANZA and SM-RESUME are what must not leave before encryption; the XML text (Qt writer) is not looked at. XmppSocket::sendData (also via SendDataInterface) = ghost log + the property assertion at every write, result arbitrary',
        'QSslSocket::isEncrypted() is a ghost flag that only QSslSocket::startClientEncryption() sets: the TLS handshake, certificate validation and Qt buffering writes until the handshake finished are trusted; QSslSocket::supportsSsl() is a per-instance constant',
        'SaslManager::authenticate / Sasl2Manager::authenticate are cut at the entry: they hand one AUTH-classified element to the socket and stay pending (mechanism choice and exchanges: C05/C06); FastTokenManager hooks are empty; XmppSocket::disconnectFromHost is a counter (the real one writes </stream:stream> and closes)',
        'QXmppTask/QXmppPromise are the assume-guarantee shadow (contract established by C13); signals of QXmppOutgoingClient (connected, disconnected, errorOccurred, elementReceived, iqReceived) are counted, nobody is connected to them; logging is a no-op; QNetworkProxy / QDateTime members are opaque words',
        'stream management is not active on a link that has not negotiated TLS yet (StreamAckManager::m_enabled == false in the pre-state; QMap<uint,QXmppPacket> default constructor/destructor modelled as an empty word)',
        'pre-state STARTTLS-requested is produced by running the real handleStreamFeatures on features that require TLS (its continuation is a lambda local to handleStarttls)',
    ],
    outside=[
        'certificate validation, the TLS handshake itself, direct-TLS (LegacySSL / xmpps SRV) connection set-up, DNS look-ups, reconnect paths of _q_socketDisconnected (next SRV address, see-other-host redirect) - they open a NEW connection, for which INV is re-established by the disconnected + start steps',
        'SASL / SASL2 / FAST mechanism internals (C05/C06): reaching authenticate() at all on an unencrypted link is the violation',
        'replies sent by client extensions (QXmppClient managers connected to elementReceived / iqReceived, e.g. version, ping, disco, entity-time responders) to IQs or other elements received BEFORE encryption are NOT covered - only the fallback reply of QXmppOutgoingClient itself (handleStanza: feature-not-implemented error) is; likewise anything the application hands to the stream itself (QXmppClient::send..., sendIq): the encoded program is QXmppOutgoingClient alone',
        'inbound <presence/> and <message/> elements before encryption (QXmppPresence / QXmppMessage parsing; they only emit a signal), the payload of <stream:error/> (conditions, see-other-host: only setError / socket disconnect follow), children of inbound IQs',
        'configurations other than TLSRequired (TLSEnabled may legitimately continue without TLS), states in which the link is already encrypted',
        'strings longer than the stated bounds; more than one SASL mechanism / bind2 feature (content is irrelevant for the branches taken)',
    ],
)
