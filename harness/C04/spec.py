# C04 - with TLS required nothing sensitive leaves before the link is encrypted: single inductive steps (see c04.h)
LOCAL_SHADOW = True   # engine sid-hash false collision between the RTTI names of ShadowContImpl / ShadowContImplV (reported); local copy with one class renamed
TUS = ['src/client/QXmppConfiguration.cpp', 'src/base/QXmppStreamFeatures.cpp', 'src/base/Stream.cpp', 'src/base/QXmppUtils.cpp',
       'src/base/QXmppIq.cpp', 'src/base/QXmppStanza.cpp', 'src/base/QXmppNonSASLAuth.cpp', 'src/base/QXmppBindIq.cpp']
MODELS = ['qt_core.c', 'qt_list.c', 'qt_dom.c', 'qt_object.c', 'c04_models.c']
if not LOCAL_SHADOW: TUS.append('src/base/QXmppStreamManagement.cpp')
def I(name, entry, cfg, bound, **kw):
    d = dict(name=name, entry='h_' + entry, unwind=5, timeout_s=300, mem_gb=6, cdefs={'VP_CFG': cfg}, bound=bound); d.update(kw); return d
SPEC = dict(
    property='C04',
    groups=[
        dict(name='step', harness='h.cpp', tus=TUS, models=MODELS, shadow_task=not LOCAL_SHADOW, cxxdefs=({'VP_LOCAL_SHADOW': 1} if LOCAL_SHADOW else {}),
             instances=[
                 I('start', 'start', 1 | 16, 'arbitrary INV pre-state'),
             ] + [I('features_tls%d_ssl%d' % (t, l), 'features', l | 16 | t << 5, 'arbitrary INV pre-state; arbitrary features') for t in (0, 1, 2) for l in (0, 1)
             ]),
    ],
    bounds=[],
    assumptions=[],
    outside=[],
)
