# C04 - with TLS required nothing sensitive leaves before the link is encrypted: single inductive steps (see c04.h)
TUS = ['src/client/QXmppConfiguration.cpp', 'src/base/QXmppStreamFeatures.cpp', 'src/base/QXmppStreamManagement.cpp', 'src/base/Stream.cpp', 'src/base/QXmppUtils.cpp',
       'src/base/QXmppIq.cpp', 'src/base/QXmppStanza.cpp', 'src/base/QXmppNonSASLAuth.cpp', 'src/base/QXmppBindIq.cpp']
MODELS = ['qt_core.c', 'qt_list.c', 'qt_dom.c', 'qt_object.c', 'c04_models.c']
def I(name, entry, cfg, bound, **kw):
    d = dict(name=name, entry='h_' + entry, unwind=5, timeout_s=300, mem_gb=6, cdefs={'VP_CFG': cfg}, bound=bound); d.update(kw); return d
SPEC = dict(
    property='C04',
    groups=[
        dict(name='step', harness='h.cpp', tus=TUS, models=MODELS, shadow_task=True, loop_bounds={r'^_ZNSt6ranges14__copy_or_move': 110},
             instances=[
                 I('start', 'start', 1 | 16, 'arbitrary INV pre-state'),
             ] + [I('features_tls%d_ssl%d_s%d' % (t, l, k), 'features', l | 16 | t << 5 | k << 7, 'arbitrary INV pre-state; arbitrary features') for t in (0, 1, 2) for l in (0, 1) for k in (0, 1, 2)
             ] + [I('stream_pre%d_el%d%s' % (pv, ev, 'st' if st else ''), 'stream', 1 | 2 | 4 | pv << 3 | st << 9 | (ev | 2 | 4) << 10, '') for pv in (0, 1) for ev in (0, 1) for st in (0, 1)
             ] + [I('packet_starttls_ns%d' % n, 'packet_starttls', 1 | 16 | 512 | n << 10, '') for n in (0, 1)
             ]),
    ],
    bounds=[],
    assumptions=[],
    outside=[],
)
