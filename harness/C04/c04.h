// C04 - with TLS required, no credential / authentication exchange / resource binding / stanza is handed to the socket before the
// link is encrypted; if encryption cannot be negotiated the client gives up and disconnects.
//
// Structure: single inductive steps of the REAL QXmppOutgoingClient (src/client/QXmppOutgoingClient.cpp, #included so that
// QXmppOutgoingClientPrivate and the file-local managers are visible) from an ARBITRARY private state satisfying
//   INV  ==  tlsRequired && !encrypted  =>  listener in {client itself, StarttlsManager}  &&  !isAuthenticated
// under one event of the remote end.  Every step asserts, at the socket (c04_models.c: vp_c04_send), that nothing classified
// AUTH / BIND / STANZA / SM-RESUME is written while TLS is required and the link is not encrypted, and afterwards INV again,
// "no session opened", and the give-up rule.
//
// Environment (see SPEC['assumptions']): the client and its private object live in typed, unconstructed storage and are built field
// by field (the real constructor creates sockets, timers and DNS look-ups); the socket is a FakeSock (ghost log of classification
// TAGS: what was serialised is classified by the TYPE of the serialiser, never by looking at text); QSslSocket::isEncrypted is a
// ghost flag that only startClientEncryption() sets; SASL / SASL2 managers are cut at their entry (authenticate() = one AUTH write).
#pragma once
#include "vp_harness.h"
#include "vp_dom.h"
#include "vp_object.h"
#include <any>
#include <variant>
#include <optional>
#include <memory>
#include <vector>
#include <unordered_map>
#include <functional>
#include <chrono>
#include <QtCore>
#include <QtNetwork>
#include <QtXml>
#define private public
#include "QXmppOutgoingClient.h"
#include "QXmppOutgoingClient_p.h"
#include "QXmppStreamManagement_p.h"
#include "QXmppPacket_p.h"
#include "XmppSocket.h"
#undef private
#include "client/QXmppOutgoingClient.cpp"
#include "QXmppConfiguration.h"
#include "QXmppStreamFeatures.h"
#include <new>

using namespace QXmpp;
using namespace QXmpp::Private;

// classification of what reaches the socket
enum Tag { T_NONE = 0, T_STREAM_OPEN = 1, T_STARTTLS = 2, T_AUTH = 3, T_BIND = 4, T_STANZA = 5, T_SM_RESUME = 6 /* carries the session-resumption token */, T_SM_ACK = 7, T_CSI = 8, T_NONZA = 9, T_SM_ENABLE = 10 };
#define VP_SENT_CAP 4

extern "C" {
void vp_c04_tagged(QByteArray *out, unsigned tag);   // byte block carrying the classification `tag`
bool vp_c04_send(const QByteArray *b);               // socket write: asserts the property, appends the tag to the ghost log
unsigned vp_c04_sent_n();
unsigned vp_c04_sent_tag(unsigned i);
void vp_c04_env(bool tlsRequired, bool encrypted, bool sslLocal);   // what the socket model / QSslSocket::supportsSsl answer
bool vp_c04_encrypted();                             // ghost flag (set only by QSslSocket::startClientEncryption)
unsigned vp_c04_start_encryption_calls();
unsigned vp_c04_disconnects();                       // XmppSocket::disconnectFromHost calls
unsigned vp_c04_sig_connected();                     // QXmppOutgoingClient::connected(SessionBegin) emissions (session opened)
unsigned vp_c04_sig_error();                         // QXmppOutgoingClient::errorOccurred emissions
void vp_c04_reset_logs();                           // socket log, disconnect / signal counters := 0
unsigned vp_c04_cfg();                               // case split of the instance (-DVP_CFG on the C side)
bool vp_c04_false();
}

// ---------------------------------------------------------------- cuts written in C++
// the socket: XmppSocket::sendData is virtual; everything else of the socket object is never touched (constructor modelled empty)
struct FakeSock final : XmppSocket {
    FakeSock() : XmppSocket(nullptr) { }
    bool sendData(const QByteArray &b) override { return vp_c04_send(&b); }
};
static_assert(sizeof(FakeSock) == sizeof(XmppSocket), "FakeSock can be placed where an XmppSocket lives");

static inline QByteArray vpTagged(unsigned tag) { QByteArray b; vp_c04_tagged(&b, tag); return b; }

// QXmppPacket (QXmppPacket.cpp is not linked): the bytes of a packet are its classification - stanza or other nonza
QXmppPacket::QXmppPacket(const QXmppNonza &nonza, QXmppPromise<QXmpp::SendResult> p)
    : m_promise(std::move(p)), m_data(vpTagged(nonza.isXmppStanza() ? T_STANZA : T_NONZA)), m_isXmppStanza(nonza.isXmppStanza()) { }
QXmppPacket::QXmppPacket(const QByteArray &data, bool isXmppStanza, QXmppPromise<QXmpp::SendResult> p)
    : m_promise(std::move(p)), m_data(data), m_isXmppStanza(isXmppStanza) { }
QByteArray QXmppPacket::data() const { return m_data; }
bool QXmppPacket::isXmppStanza() const { return m_isXmppStanza; }
QXmppTask<QXmpp::SendResult> QXmppPacket::task() { return m_promise.task(); }
void QXmppPacket::reportFinished(QXmpp::SendResult &&result) { m_promise.finish(std::move(result)); }

// SASL / SASL2 / FAST (QXmppSaslManager.cpp is not linked; mechanism choice and exchanges are C05/C06): cut at the entry.
// authenticate() = the first authentication element goes to the socket; the result stays pending.
namespace QXmpp::Private {
QXmppTask<SaslManager::AuthResult> SaslManager::authenticate(const QXmppConfiguration &, const QList<QString> &, QXmppLoggable *)
{
    m_socket->sendData(vpTagged(T_AUTH));
    m_promise = QXmppPromise<AuthResult>();
    return m_promise->task();
}
QXmppTask<Sasl2Manager::AuthResult> Sasl2Manager::authenticate(Sasl2::Authenticate &&, const QXmppConfiguration &, const Sasl2::StreamFeature &, QXmppLoggable *)
{
    m_socket->sendData(vpTagged(T_AUTH));
    QXmppPromise<AuthResult> p;
    return p.task();
}
FastTokenManager::FastTokenManager(QXmppConfiguration &config) : config(config) { }
void FastTokenManager::onSasl2Authenticate(Sasl2::Authenticate &, const Sasl2::StreamFeature &) { }
void FastTokenManager::onSasl2Success(const Sasl2::Success &) { }
}  // namespace QXmpp::Private

// ---------------------------------------------------------------- fixture
// typed but unconstructed storage (a union member is not constructed implicitly): keeps pointers stored by the real code as pointers
template<typename T> union VpTyped { T v; VpTyped() { } ~VpTyped() { } T *p() { return &v; } T *operator->() { return &v; } };

// instance configuration bits (cdefs VP_CFG): structural choices are compile-time constants, values stay symbolic
enum { CFG_SSL_LOCAL = 1, CFG_VERSION_CASE = 2 /* stored stream version: empty / non-empty by bit 8 (else symbolic) */, CFG_STREAM_VERSION = 8, CFG_TLS_SHIFT = 5, CFG_S2_SHIFT = 7,
       CFG_PRE_STARTTLS = 512 /* pre-state: STARTTLS requested, StarttlsManager listens (reached through a real features step) */,
       CFG_EL_SHIFT = 10 /* event-specific case bits */ };

struct Fx {
    VpTyped<QXmppOutgoingClientPrivate> priv;
    VpTyped<QXmppOutgoingClient> client;
    alignas(16) char ssl[64];      // stands for the QSslSocket: only its address is used (isEncrypted/startClientEncryption are models)
    alignas(16) char timer[2][32]; // ping / timeout QTimer: only stop() (model, no-op) is called on them
    QXmppOutgoingClient *q;
    QXmppOutgoingClientPrivate *d;
    bool sslLocal;

    // TLS required by configuration, link not encrypted, INV holds, everything else arbitrary
    Fx()
    {
        q = client.p(); d = priv.p();
        vp_qobject_construct(q, nullptr);
        new (const_cast<std::unique_ptr<QXmppOutgoingClientPrivate> *>(&q->d)) std::unique_ptr<QXmppOutgoingClientPrivate>(d);
        // --- configuration: the REAL QXmppConfiguration, set through its public setters
        new (&d->config) QXmppConfiguration();
        d->config.setStreamSecurityMode(QXmppConfiguration::TLSRequired);
        d->config.setUseSASLAuthentication(vp_bool());
        d->config.setUseSasl2Authentication(vp_bool());
        d->config.setUseNonSASLAuthentication(vp_bool());
        d->config.setNonSASLAuthMechanism(vp_bool() ? QXmppConfiguration::NonSASLDigest : QXmppConfiguration::NonSASLPlain);
        d->config.setUser(vpSymString(2));
        d->config.setDomain(vpSymString(2));
        d->config.setPassword(vpSymString(2));
        d->config.setResource(vpSymString(2));
        // --- socket and the environment answers
        sslLocal = (vp_c04_cfg() & CFG_SSL_LOCAL) != 0;
        vp_c04_env(true, false, sslLocal);
        FakeSock *s = new (&d->socket) FakeSock();
        s->m_socket = reinterpret_cast<QSslSocket *>(ssl);
        new (&d->error) std::optional<QXmppOutgoingClientPrivate::Error>();
        // --- stream layer: stream management is not active on a link that has not even negotiated TLS
        new (&d->streamAckManager) StreamAckManager(d->socket);
        d->streamAckManager.m_enabled = false;
        d->streamAckManager.m_lastOutgoingSequenceNumber = vp_u32();
        d->streamAckManager.m_lastIncomingSequenceNumber = vp_u32();
        new (&d->iqManager) OutgoingIqManager(q, d->streamAckManager);
        new (&d->serverAddresses) std::vector<ServerAddress>();
        d->nextServerAddressIndex = 0;
        d->nextAddressState = QXmppOutgoingClientPrivate::Current;
        // --- stream information: arbitrary (each string present or not by case split)
        // id / from: 0..2 units (emptiness symbolic); version: the same, or decided by the case split (it steers handleStream)
        new (&d->streamId) QString(vpSymString(2));
        new (&d->streamFrom) QString(vpSymString(2));
        new (&d->streamVersion) QString(!(vp_c04_cfg() & CFG_VERSION_CASE) ? vpSymString(2) : (vp_c04_cfg() & CFG_STREAM_VERSION) ? vpSymStringNonEmpty(2) : QString());
        new (&d->redirect) std::optional<StreamErrorElement::SeeOtherHost>();
        // --- authentication & session: INV => not authenticated; the rest arbitrary
        d->isAuthenticated = false;
        d->bindModeAvailable = vp_bool();
        d->sessionStarted = vp_bool();
        d->authenticationMethod = vp_bool() ? AuthenticationMethod::Sasl : AuthenticationMethod::NonSasl;
        new (&d->bind2Bound) std::optional<Bind2Bound>();
        new (&d->listener) decltype(d->listener)(q);          // INV: the client itself (StarttlsManager: reached by a features step)
        new (&d->fastTokenManager) FastTokenManager(d->config);
        new (&d->c2sStreamManager) C2sStreamManager(q);
        d->c2sStreamManager.m_smAvailable = vp_bool();
        d->c2sStreamManager.m_canResume = vp_bool();
        d->c2sStreamManager.m_enabled = vp_bool();
        d->c2sStreamManager.m_streamResumed = vp_bool();
        d->c2sStreamManager.m_smId = vpSymString(2);
        new (&d->carbonManager) CarbonManager();
        d->carbonManager.m_enableViaBind2 = vp_bool();
        new (&d->csiManager) CsiManager(q);
        d->csiManager.m_state = vp_bool() ? CsiManager::Active : CsiManager::Inactive;
        d->csiManager.m_synced = vp_bool();
        d->csiManager.m_featureAvailable = vp_bool();
        d->pingManager.q = q;
        d->pingManager.pingTimer = reinterpret_cast<QTimer *>(timer[0]);
        d->pingManager.timeoutTimer = reinterpret_cast<QTimer *>(timer[1]);
        d->q = q;
        if (vp_c04_cfg() & CFG_PRE_STARTTLS) toStarttls();
    }
    // the other listener INV allows: the state handleStarttls() leaves behind (its continuation is a lambda local to that function, so
    // the state is reached by running the REAL step on features that offer STARTTLS); the ghost logs restart afterwards
    void toStarttls()
    {
        QXmppStreamFeatures f;
        f.setTlsMode(QXmppStreamFeatures::Required);   // (Enabled leads to the same state; a fixed value keeps the path concrete)
        q->handleStreamFeatures(f);
        vp_assume(listenerIsStarttls());
        vp_c04_reset_logs();
    }
    bool listenerIsClient() const { return d->listener.index() == 0; }
    bool listenerIsStarttls() const { return d->listener.index() == 1; }
    // what must hold after every step that starts in a state with TLS required and the link not encrypted
    void checkPost()
    {
        // (the socket model asserts AT EVERY WRITE that nothing classified AUTH / BIND / STANZA / SM-RESUME leaves before encryption)
        vp_assert(vp_c04_encrypted() || ((listenerIsClient() || listenerIsStarttls()) && !d->isAuthenticated),
                  "C04 invariant: while TLS is required and the link is not encrypted only the client itself or the STARTTLS step listens, and the client is not authenticated");
        vp_assert(vp_c04_encrypted() || vp_c04_sig_connected() == 0, "C04 no session is opened on a link that is not encrypted");
    }
};
