// C04 step harnesses (see c04.h for the structure and the invariant)
#include "c04.h"

static QXmppStreamFeatures::Mode vpMode()
{
    unsigned m = vp_u32(); vp_assume(m <= 2);
    return m == 0 ? QXmppStreamFeatures::Enabled : m == 1 ? QXmppStreamFeatures::Disabled : QXmppStreamFeatures::Required;
}

// ---- H4: the socket reports "started" (TCP connection established): the client opens the stream ---------------------------------
// pre-listener by case (bits [CFG_EL_SHIFT..]): 0 = as built by the fixture (client itself, or STARTTLS step with CFG_PRE_STARTTLS),
// 1 legacy-auth manager, 2 bind manager, 3 stream-management manager: whatever negotiation step the PREVIOUS connection was in
static void anyListener(Fx &fx)
{
    unsigned k = (vp_c04_cfg() >> CFG_EL_SHIFT) & 3;
    if (k == 1) fx.d->listener = NonSaslAuthManager(&fx.d->socket);
    else if (k == 2) fx.d->listener = BindManager(&fx.d->socket);
    else if (k == 3) fx.d->listener = &fx.d->c2sStreamManager;
}
extern "C" void h_start()
{
    Fx &fx = *new Fx;
    anyListener(fx);
    fx.q->handleStart();
    vp_assert(fx.listenerIsClient(), "C04 a new stream starts with the client itself listening (pending negotiation steps of the previous connection are dropped)");
    vp_assert(!vp_c04_encrypted() && vp_c04_start_encryption_calls() == 0, "C04 encryption only starts after the server said <proceed/>");
    fx.checkPost();
}
// ---- H0: the socket reports "disconnected" (no further address to try, no redirect pending): whatever the state was, the client is not
// authenticated any more - together with H4 this establishes INV for the next connection ---------------------------------------------
extern "C" void h_disconnected()
{
    Fx &fx = *new Fx;
    anyListener(fx);
    fx.d->isAuthenticated = vp_bool();
    fx.q->_q_socketDisconnected();
    vp_assert(!fx.d->isAuthenticated, "C04 after the socket disconnected the client is not authenticated");
}

// ---- H1: <stream:features/> built through the REAL QXmppStreamFeatures setters from arbitrary values ------------------------------
static void buildFeatures(QXmppStreamFeatures &f)
{
    // the server's STARTTLS offer is the case split of the instance (absent / optional / required); everything else is symbolic
    unsigned tls = (vp_c04_cfg() >> CFG_TLS_SHIFT) & 3;
    f.setTlsMode(tls == 0 ? QXmppStreamFeatures::Disabled : tls == 1 ? QXmppStreamFeatures::Enabled : QXmppStreamFeatures::Required);
    f.setNonSaslAuthMode(vpMode());
    f.setBindMode(vpMode());
    f.setSessionMode(vpMode());
    f.setStreamManagementMode(vpMode());
    f.setClientStateIndicationMode(vpMode());
    QStringList mechs;
    if (vp_bool()) mechs << vpSymStringNonEmpty(2);
    f.setAuthMechanisms(mechs);
    // SASL2 offer: absent / without bind2 / with bind2 (one arbitrary feature) - case split of the instance
    unsigned s2k = (vp_c04_cfg() >> CFG_S2_SHIFT) & 3;
    if (s2k >= 1) {
        Sasl2::StreamFeature s2;
        s2.mechanisms << vpSymStringNonEmpty(2);
        if (s2k >= 2) { s2.bind2Feature.emplace(); s2.bind2Feature->features.push_back(vpSymStringNonEmpty(2)); }
        s2.streamResumptionAvailable = vp_bool();
        f.setSasl2Feature(s2);
    }
}
extern "C" void h_features()
{
    Fx &fx = *new Fx;
    QXmppStreamFeatures f;
    buildFeatures(f);
    fx.q->handleStreamFeatures(f);
    fx.checkPost();
    vp_assert(!vp_c04_encrypted() && vp_c04_start_encryption_calls() == 0, "C04 encryption only starts after the server said <proceed/>");
    bool canNegotiate = fx.sslLocal && f.tlsMode() != QXmppStreamFeatures::Disabled;
    // if encryption cannot be negotiated (not offered, or no TLS support locally) the client gives up
    vp_assert(canNegotiate || vp_c04_disconnects() >= 1, "C04 if TLS is required but cannot be negotiated the client gives up and disconnects");
}

// n arbitrary UTF-16 units, length known to symbolic execution (vpSymString's length is solver-chosen)
static QString vpFixString(int n) { QChar b[4]; for (int k = 0; k < n && k < 4; k++) b[k] = QChar(vp_u16()); return QString(b, n); }
static QDomElement vpElement(const QString &tag, const QString &ns) { QDomElement e; vp_dom_new(&e, &tag, &ns); return e; }
static void vpAttr(QDomElement &el, const QString &name, const QString &value) { vp_dom_set_attr(&el, &name, &value); }

// ---- H2: a <stream:stream> header arrives; id / from / version attributes present or absent, values arbitrary ----------------------
enum { EL_VERSION = 1 << CFG_EL_SHIFT, EL_ID = 2 << CFG_EL_SHIFT, EL_FROM = 4 << CFG_EL_SHIFT };
extern "C" void h_stream()
{
    Fx &fx = *new Fx;
    QDomElement el = vpElement(QStringLiteral("stream"), ns_stream.toString());
    if (vp_c04_cfg() & EL_ID) vpAttr(el, QStringLiteral("id"), vpSymStringNonEmpty(2));
    if (vp_c04_cfg() & EL_FROM) vpAttr(el, QStringLiteral("from"), vpSymStringNonEmpty(2));
    if (vp_c04_cfg() & EL_VERSION) vpAttr(el, QStringLiteral("version"), vpSymStringNonEmpty(3));
    bool legacy = !(vp_c04_cfg() & CFG_STREAM_VERSION) && !(vp_c04_cfg() & EL_VERSION) && fx.d->config.useNonSASLAuthentication();
    fx.q->handleStream(el);
    fx.checkPost();
    vp_assert(!vp_c04_encrypted() && vp_c04_start_encryption_calls() == 0, "C04 a stream header does not start encryption");
    // a version-less (pre XMPP 1.0) stream offers no STARTTLS: where the client would fall back to legacy authentication it must give up instead
    vp_assert(!legacy || vp_c04_disconnects() >= 1, "C04 version-less stream with legacy authentication enabled: TLS cannot be negotiated, the client disconnects");
}

// ---- H3a: the STARTTLS step listens and an arbitrary small element arrives ------------------------------------------------------------
enum { EL_NS_TLS = 1 << CFG_EL_SHIFT };
extern "C" void h_packet_starttls()
{
    Fx &fx = *new Fx;     // instance cfg has CFG_PRE_STARTTLS
    QString tag = vpSymStringNonEmpty(8);
    QString ns = (vp_c04_cfg() & EL_NS_TLS) ? ns_tls.toString() : vpSymString(2);
    QDomElement el = vpElement(tag, ns);
    bool proceed = (vp_c04_cfg() & EL_NS_TLS) && tag == QStringLiteral("proceed");
    fx.q->handlePacketReceived(el);
    fx.checkPost();
    vp_assert(proceed || (!vp_c04_encrypted() && vp_c04_start_encryption_calls() == 0), "C04 encryption only starts after the server said <proceed/>");
    vp_assert(proceed || vp_c04_disconnects() >= 1, "C04 anything but <proceed/> (e.g. <failure/>): TLS cannot be negotiated, the client gives up and disconnects");
}

// ---- H3b: the client itself listens (stream negotiation not finished) and an element arrives ------------------------------------------
// element classes (case split, bits [CFG_EL_SHIFT..]): kind 0 generic childless element, 1 IQ, 2 <stream:features/> as a DOM tree
enum { K_GENERIC = 0, K_IQ = 1, K_FEATURES = 2 };
static unsigned elKind() { return (vp_c04_cfg() >> CFG_EL_SHIFT) & 3; }
static unsigned elSub() { return (vp_c04_cfg() >> (CFG_EL_SHIFT + 2)) & 7; }
static unsigned elSub2() { return (vp_c04_cfg() >> (CFG_EL_SHIFT + 5)) & 7; }

extern "C" void h_packet_client()
{
    Fx &fx = *new Fx;
    QDomElement el;
    bool canNegotiate = false, isFeatures = false;
    if (elKind() == K_GENERIC) {
        // arbitrary tag (<= 8 units: covers features, error, iq, a, r, enabled, proceed, failure, ...), namespace by case
        unsigned n = elSub();
        QString ns = n == 0 ? ns_stream.toString() : n == 1 ? ns_client.toString() : n == 2 ? ns_stream_management.toString() : vpSymString(2);
        QString tag = vpSymStringNonEmpty(8);
        // inbound presence / message stanzas are only parsed and announced by a signal (QXmppPresence / QXmppMessage: not encoded)
        vp_assume(tag != QStringLiteral("presence") && tag != QStringLiteral("message"));
        el = vpElement(tag, ns);
        if (n == 2) vpAttr(el, QStringLiteral("h"), QString::number(vp_u32()));
    } else if (elKind() == K_IQ) {
        // <iq type= id= from=/> in jabber:client; type by case: get | set | result | error | 2 arbitrary units | absent
        unsigned t = elSub();
        el = vpElement(QStringLiteral("iq"), ns_client.toString());
        if (t != 5) vpAttr(el, QStringLiteral("type"), t == 0 ? QStringLiteral("get") : t == 1 ? QStringLiteral("set") : t == 2 ? QStringLiteral("result") : t == 3 ? QStringLiteral("error") : vpFixString(2));
        vpAttr(el, QStringLiteral("id"), vpSymString(2));
        if (vp_bool()) vpAttr(el, QStringLiteral("from"), vpSymString(2));
    } else {
        // <stream:features> with children: starttls (absent / present / present with <required/>), mechanisms (one arbitrary mechanism),
        // legacy auth, bind, sm - parsed by the REAL QXmppStreamFeatures::parse
        unsigned tls = elSub(), offer = elSub2();
        isFeatures = true; canNegotiate = fx.sslLocal && tls != 0;
        el = vpElement(QStringLiteral("features"), ns_stream.toString());
        if (tls != 0) {
            QDomElement c = vpElement(QStringLiteral("starttls"), ns_tls.toString());
            if (tls == 2) { QDomElement r = vpElement(QStringLiteral("required"), QString()); vp_dom_append(&c, &r); }
            vp_dom_append(&el, &c);
        }
        if (offer & 1) {
            QDomElement c = vpElement(QStringLiteral("mechanisms"), ns_sasl.toString());
            QDomElement m = vpElement(QStringLiteral("mechanism"), QString()); QString name = vpSymStringNonEmpty(2); vp_dom_set_text(&m, &name);
            vp_dom_append(&c, &m); vp_dom_append(&el, &c);
        }
        if (offer & 2) { QDomElement c = vpElement(QStringLiteral("auth"), ns_authFeature.toString()); vp_dom_append(&el, &c); }
        if (offer & 4) {
            QDomElement c = vpElement(QStringLiteral("bind"), ns_bind.toString()); vp_dom_append(&el, &c);
            QDomElement s = vpElement(QStringLiteral("sm"), ns_stream_management.toString()); vp_dom_append(&el, &s);
        }
    }
    fx.q->handlePacketReceived(el);
    fx.checkPost();
    vp_assert(!vp_c04_encrypted() && vp_c04_start_encryption_calls() == 0, "C04 encryption only starts after the server said <proceed/>");
    vp_assert(!isFeatures || canNegotiate || vp_c04_disconnects() >= 1, "C04 if TLS is required but cannot be negotiated the client gives up and disconnects");
}
