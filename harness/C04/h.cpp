// C04 step harnesses (see c04.h for the structure and the invariant)
#include "c04.h"

static QXmppStreamFeatures::Mode vpMode()
{
    unsigned m = vp_u32(); vp_assume(m <= 2);
    return m == 0 ? QXmppStreamFeatures::Enabled : m == 1 ? QXmppStreamFeatures::Disabled : QXmppStreamFeatures::Required;
}

// ---- H4: the socket reports "started" (TCP connection established): the client opens the stream ---------------------------------
extern "C" void h_start()
{
    Fx &fx = *new Fx;
    fx.q->handleStart();
    vp_assert(vp_c04_sent_n() == 1 && vp_c04_sent_tag(0) == T_STREAM_OPEN, "C04 on start exactly the stream header is sent");
    vp_assert(fx.listenerIsClient(), "C04 a new stream starts with the client itself listening (pending negotiation steps are dropped)");
    vp_assert(vp_c04_disconnects() == 0 && !vp_c04_encrypted(), "C04 start neither disconnects nor changes the encryption state");
    fx.checkPost();
}

// ---- H1: <stream:features/> built through the REAL QXmppStreamFeatures setters from arbitrary values ------------------------------
static void buildFeatures(QXmppStreamFeatures &f)
{
    // the server's STARTTLS offer is the case split of the instance (absent / optional / required); everything else is symbolic
    unsigned tls = (vp_c04_cfg() >> CFG_TLS_SHIFT) & 3;
    f.setTlsMode(tls == 0 ? QXmppStreamFeatures::Disabled : tls == 1 ? QXmppStreamFeatures::Enabled : QXmppStreamFeatures::Required);
    f.setNonSaslAuthMode(vpMode());
    f.setBindMode(vpMode());
    f.setSessionMode(vpMode());
    f.setStreamManagementMode(vpMode());
    f.setClientStateIndicationMode(vpMode());
    QStringList mechs;
    if (vp_bool()) mechs << vpSymStringNonEmpty(2);
    f.setAuthMechanisms(mechs);
    // SASL2 offer: absent / without bind2 / with bind2 (one arbitrary feature) - case split of the instance
    unsigned s2k = (vp_c04_cfg() >> CFG_S2_SHIFT) & 3;
    if (s2k >= 1) {
        Sasl2::StreamFeature s2;
        s2.mechanisms << vpSymStringNonEmpty(2);
        if (s2k >= 2) { s2.bind2Feature.emplace(); s2.bind2Feature->features.push_back(vpSymStringNonEmpty(2)); }
        s2.streamResumptionAvailable = vp_bool();
        f.setSasl2Feature(s2);
    }
}
extern "C" void h_features()
{
    Fx &fx = *new Fx;
    QXmppStreamFeatures f;
    buildFeatures(f);
    fx.q->handleStreamFeatures(f);
    fx.checkPost();
    vp_assert(!vp_c04_encrypted() && vp_c04_start_encryption_calls() == 0, "C04 encryption only starts after the server said <proceed/>");
    bool canNegotiate = fx.sslLocal && f.tlsMode() != QXmppStreamFeatures::Disabled;
    // if encryption cannot be negotiated the client gives up: disconnects and sends nothing
    vp_assert(canNegotiate || (vp_c04_disconnects() >= 1 && vp_c04_sent_n() == 0), "C04 if TLS is required but cannot be negotiated the client disconnects and sends nothing");
    // otherwise: exactly the STARTTLS request, and the STARTTLS step listens
    vp_assert(!canNegotiate || (vp_c04_sent_n() == 1 && vp_c04_sent_tag(0) == T_STARTTLS && fx.listenerIsStarttls() && vp_c04_disconnects() == 0),
              "C04 if TLS can be negotiated exactly the STARTTLS request is sent and the STARTTLS step listens");
}

static QDomElement vpElement(const QString &tag, const QString &ns) { QDomElement e; vp_dom_new(&e, &tag, &ns); return e; }
static void vpAttr(QDomElement &el, const QString &name, const QString &value) { vp_dom_set_attr(&el, &name, &value); }

// ---- H2: a <stream:stream> header arrives; id / from / version attributes present or absent, values arbitrary ----------------------
enum { EL_VERSION = 1 << CFG_EL_SHIFT, EL_ID = 2 << CFG_EL_SHIFT, EL_FROM = 4 << CFG_EL_SHIFT };
extern "C" void h_stream()
{
    Fx &fx = *new Fx;
    QDomElement el = vpElement(QStringLiteral("stream"), ns_stream.toString());
    if (vp_c04_cfg() & EL_ID) vpAttr(el, QStringLiteral("id"), vpSymStringNonEmpty(2));
    if (vp_c04_cfg() & EL_FROM) vpAttr(el, QStringLiteral("from"), vpSymStringNonEmpty(2));
    if (vp_c04_cfg() & EL_VERSION) vpAttr(el, QStringLiteral("version"), vpSymStringNonEmpty(3));
    bool legacy = !(vp_c04_cfg() & CFG_STREAM_VERSION) && !(vp_c04_cfg() & EL_VERSION) && fx.d->config.useNonSASLAuthentication();
    bool wasStarttls = fx.listenerIsStarttls();
    fx.q->handleStream(el);
    fx.checkPost();
    vp_assert(!vp_c04_encrypted() && vp_c04_start_encryption_calls() == 0, "C04 a stream header does not start encryption");
    vp_assert(vp_c04_sent_n() == 0, "C04 nothing is sent in reaction to a stream header on a link that still has to be encrypted");
    // a version-less (pre XMPP 1.0) stream offers no STARTTLS: where the client would fall back to legacy authentication it must give up instead
    vp_assert(!legacy || vp_c04_disconnects() >= 1, "C04 version-less stream with legacy authentication enabled: TLS cannot be negotiated, the client disconnects");
    vp_assert(legacy || (vp_c04_disconnects() == 0 && fx.listenerIsStarttls() == wasStarttls), "C04 otherwise a stream header changes neither the listener nor the connection");
}

// ---- H3a: the STARTTLS step listens and an arbitrary small element arrives ------------------------------------------------------------
enum { EL_NS_TLS = 1 << CFG_EL_SHIFT };
extern "C" void h_packet_starttls()
{
    Fx &fx = *new Fx;     // instance cfg has CFG_PRE_STARTTLS
    QString tag = vpSymStringNonEmpty(8);
    QString ns = (vp_c04_cfg() & EL_NS_TLS) ? ns_tls.toString() : vpSymString(2);
    QDomElement el = vpElement(tag, ns);
    bool proceed = (vp_c04_cfg() & EL_NS_TLS) && tag == QStringLiteral("proceed");
    fx.q->handlePacketReceived(el);
    fx.checkPost();
    vp_assert(vp_c04_sent_n() == 0, "C04 nothing is sent in reaction to the server's answer to STARTTLS");
    vp_assert(!proceed || (vp_c04_encrypted() && vp_c04_start_encryption_calls() == 1 && vp_c04_disconnects() == 0 && fx.listenerIsClient()),
              "C04 <proceed/>: encryption starts, nothing else happens, the client itself listens again");
    vp_assert(proceed || (!vp_c04_encrypted() && vp_c04_start_encryption_calls() == 0 && vp_c04_disconnects() >= 1 && vp_c04_sig_error() >= 1),
              "C04 anything but <proceed/> (e.g. <failure/>): TLS cannot be negotiated, the client reports an error and disconnects");
}
