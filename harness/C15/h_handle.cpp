// C15: the key-selection prefix of the REAL QXmppIceComponent::handleDatagram (assume-guarantee counterpart of the decode instances):
// whenever handleDatagram hands a datagram to QXmppStunMessage::decode and the datagram does not belong to one of the component's own
// pending transactions, the key is NON-EMPTY (and is the local password for requests/indications, the remote password for responses).
// decode itself is cut here by a recorder (hd_models.c) that logs the key and returns false, so nothing behind it is entered; what decode
// guarantees under a non-empty key is established by the auth_* instances on the real decode.
#include <QObject>
#include <QHostAddress>
#include <QUdpSocket>
#include <QTimer>
#include <QMap>
#include <QList>
#include <QSet>
#include <QStringList>
#include <QDomElement>
#include <QXmlStreamWriter>
#include <QCryptographicHash>
#include <QDataStream>
#include <QHostInfo>
#include <QNetworkInterface>
#include <QVariant>
#include <QSharedDataPointer>
#include <QMimeType>
#include <QDateTime>
#include <QUrl>
#include <sstream>
#include <optional>
#include <variant>
#include <memory>
#include <functional>
#include <any>
#define private public      /* qxmpp's own classes only: every Qt / std header is already included above */
#include "base/QXmppStun.cpp"
#undef private
#include "vp_harness.h"
extern "C" {
unsigned vp_cfg0(); unsigned vp_cfg1();
void vp_fresh_bytes(QByteArray *out, unsigned minlen, unsigned maxlen);
void vp_fresh_text(QString *out, unsigned len);
unsigned char vp_byte_at(const QByteArray *ba, unsigned i);
void vp_hd_set_sender(void *obj);                  // what QObject::sender() returns (and qobject_cast lets through)
void vp_hd_set_map_end(const void *headerNode);    // QMapNodeBase::nextNode() of the only node of the harness-built map
unsigned vp_hd_decode_calls();
void vp_hd_decode_key(QByteArray *out);            // the key of the (last) decode call
bool vp_hd_decode_buffer_is(const QByteArray *b);
unsigned vp_hd_emitted();                          // datagramReceived() emissions
}
static QByteArray freshBytes(unsigned a, unsigned b) { QByteArray x; vp_fresh_bytes(&x, a, b); return x; }
static QString freshPassword() { QString s; if (vp_bool()) vp_fresh_text(&s, 2); return s; }     // empty, or 2 arbitrary ASCII characters
static unsigned u8(const QByteArray &b, unsigned i) { return vp_byte_at(&b, i); }

struct FakeMapData { QtPrivate::RefCount ref; int size; QMapNodeBase header; QMapNodeBase *mostLeftNode; };
static_assert(sizeof(FakeMapData) == sizeof(QMapDataBase), "QMapDataBase layout");
typedef QMapNode<QXmppStunTransaction *, QXmppIceTransportDetails> TxNode;

// cfg0 = datagram size (>= 20)
extern "C" void h_handle()
{
    const unsigned n = vp_cfg0();
    static VpRaw<QXmppIceComponent> comp; static VpRaw<QXmppIceComponentPrivate> priv; static VpRaw<QXmppIcePrivate> cfg;
    static VpRaw<QXmppStunTransaction> tx; static VpRaw<TxNode> node; static FakeMapData md;
    alignas(16) static char transportA[64], transportB[64];

    // configuration: both passwords arbitrary, each possibly EMPTY (remotePassword is empty until setRemotePassword())
    cfg->iceControlling = vp_bool();
    new (&cfg->localUser) QString(); new (&cfg->remoteUser) QString();
    new (&cfg->localPassword) QString(freshPassword()); new (&cfg->remotePassword) QString(freshPassword());
    // component private state: no pairs, 0..1 pending STUN transaction with an arbitrary id on transport A or B
    new (&priv->pairs) QList<CandidatePair *>();
    priv->fallbackPair = nullptr; priv->activePair = nullptr;
    *const_cast<const QXmppIcePrivate **>(&priv->config) = cfg.p();
    const bool hasTx = vp_bool(), txOnA = vp_bool();
    new (&tx->m_request) QXmppStunMessage(); tx->m_request.setId(freshBytes(12, 12));
    node->key = tx.p(); node->value.transport = reinterpret_cast<QXmppIceTransport *>(txOnA ? transportA : transportB);
    node->left = nullptr; node->right = nullptr;
    md.ref.atomic.storeRelaxed(1); md.size = hasTx ? 1 : 0;
    md.header.left = hasTx ? static_cast<QMapNodeBase *>(node.p()) : nullptr; md.header.right = nullptr;
    md.mostLeftNode = hasTx ? static_cast<QMapNodeBase *>(node.p()) : &md.header;
    *reinterpret_cast<FakeMapData **>(&priv->stunTransactions) = &md;
    vp_hd_set_map_end(&md.header);
    static_assert(sizeof(QXmppIceComponent) == 24, "QXmppIceComponent = QObject {vptr, d_ptr} + d");
    *reinterpret_cast<QXmppIceComponentPrivate **>(reinterpret_cast<char *>(comp.p()) + 16) = priv.p();
    vp_hd_set_sender(transportA);

    // the datagram: an arbitrary header (type, length field, cookie, id all symbolic) + arbitrary rest
    const QByteArray b = freshBytes(n, n);
    QHostAddress from; const quint16 port = vp_u16();
    comp->handleDatagram(b, from, port);

    const unsigned type = (u8(b, 0) << 8) | u8(b, 1), len = (u8(b, 2) << 8) | u8(b, 3);
    const bool stun = type != 0 && len == n - 20 && u8(b, 4) == 0x21 && u8(b, 5) == 0x12 && u8(b, 6) == 0xA4 && u8(b, 7) == 0x42;
    if (!stun) {
        vp_assert(vp_hd_decode_calls() == 0 && vp_hd_emitted() == 1, "C15 a datagram that is not STUN (type 0, wrong length field or cookie) is passed on as data, never decoded");
        return;
    }
    bool idMatch = true; const QByteArray txId = tx->m_request.id();
    for (int i = 0; i < 12; i++) idMatch = idMatch && u8(b, 8 + i) == u8(txId, i);
    const bool own = hasTx && txOnA && idMatch;              // answers one of our own pending transactions (same transport)
    vp_assert(vp_hd_emitted() == 0, "C15 a STUN datagram is not passed on as data");
    if (vp_hd_decode_calls() == 0) {
        // dropped before decode: only allowed when there is no key to check it with
        const QString &pw = (type & 0xFF00) ? cfg->remotePassword : cfg->localPassword;
        vp_assert(!own && pw.isEmpty(), "C15 a STUN datagram is dropped undecoded only if the password it would be checked with is not known yet");
        return;
    }
    vp_assert(vp_hd_decode_calls() == 1 && vp_hd_decode_buffer_is(&b), "C15 the datagram itself is decoded, once");
    QByteArray key; vp_hd_decode_key(&key);
    if (own) return;          // responses to our own transactions: outside this claim (see SPEC outside)
    vp_assert(!key.isEmpty(), "C15 a datagram that does not answer one of the component's pending transactions is decoded under a NON-EMPTY key");
    vp_assert(key == cfg->localPassword.toUtf8() || key == cfg->remotePassword.toUtf8(), "C15 the key is the local or the remote ICE password");
    if ((type & 0xFE00) == 0)      // methods below 0x80 (all defined ones): bit 8 is the class bit C1
        vp_assert(key == ((type & 0x0100) ? cfg->remotePassword : cfg->localPassword).toUtf8(), "C15 requests and indications are checked with the local password, responses with the remote password");
}
