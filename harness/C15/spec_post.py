# C15, spec fragment "post": one-step instances of the REAL QXmppIceComponent::handleDatagram (+ transactionFinished through the finished()
# signal) AFTER the decode call, decode/encode cut assume-guarantee (see post_handle.cpp / post_models.c).
QT, T_, NONE = ('quick', 'thorough'), ('thorough',), ()
POST_MODELS = ['../C14/stun_pre.c', 'qt_core.c', 'qt_list.c', '../C14/bytes_models.c', '../C14/stun_models.c', 'post_models.c']
POST_CAND = 'vp_buf_seek:i1(p,i64);vp_post_localCandidate:void(p,p,i32);vp_post_writeDatagram:i64(p,p,p,i16)'
KIND = dict(nonstun=0, anytype=1, request=2, response=3, error=4, indication=5, othermethod=6, short=7)
KTXT = {0: 'a 20-byte datagram that is not STUN (all bytes symbolic; type 0, wrong length field or wrong cookie)', 1: 'a 20-byte STUN datagram of ARBITRARY type',
        2: 'a binding request (0x0001)', 3: 'a binding success response (0x0101)', 4: 'a binding error response (0x0111)', 5: 'a binding indication (0x0011)',
        6: 'a STUN datagram of any type whose method is not Binding', 7: 'a 4-byte datagram'}
def POST(name, npairs, kind, txmask=0, gather=0, strict=0, tiers=QT, hi=0, **kw):
    d = dict(name=name, entry='h_post', unwind=24, timeout_s=300, mem_gb=4, model_loop_bound=34, tiers=tiers, object_bits=11,
             cdefs={'QB_CAP': 24, 'VP_CFG0': npairs, 'VP_CFG1': KIND[kind], 'VP_CFG2': txmask | (16 if strict else 0), 'VP_CFG3': gather | (hi << 4)},
             bound='%s with symbolic transaction id from a symbolic IPv4 address/port; decode verdict symbolic, decoded message arbitrary (username 2 units, PRIORITY, USE-CANDIDATE, ICE-CONTROLLING/-CONTROLLED '
                   'present or not, XOR-/MAPPED-ADDRESS IPv4 or absent, error code); %d candidate pair(s) with arbitrary state/nominated/nominating/role/transport (A = receiving, B = other) and '
                   'arbitrary IPv4 remote candidates; pending check transaction on pairs %s; %d pending STUN-server transaction; activePair/fallbackPair null or any pair; role symbolic; '
                   'local/remote user and password each empty or 1-2 units' % (KTXT[KIND[kind]] + (' with the two most significant type bits = %d' % hi if hi else ''), npairs, [i for i in range(2) if txmask >> i & 1], gather))
    d.update(kw); return d
GROUPS = [
    dict(name='post', harness='post_handle.cpp', tus=[], models=POST_MODELS, cand=POST_CAND, instances=[
        POST('post_nonstun_p2', 2, 'nonstun'), POST('post_short_p1', 1, 'short'),
        POST('post_nonstun_strict_p1', 1, 'nonstun', strict=1, tiers=QT, known_finding='nonstun_selects_fallback_pair'),
        POST('post_req_p0', 0, 'request'), POST('post_req_p1', 1, 'request'), POST('post_req_p1_tx', 1, 'request', txmask=1), POST('post_req_p2', 2, 'request', tiers=T_),
        POST('post_req_p2_tx1', 2, 'request', txmask=1, tiers=T_), POST('post_req_p1_hi2', 1, 'request', hi=2, tiers=T_),
        POST('post_resp_p1_tx', 1, 'response', txmask=1), POST('post_resp_p1', 1, 'response'), POST('post_resp_p2_tx1', 2, 'response', txmask=2, tiers=T_),
        POST('post_resp_p2_tx0', 2, 'response', txmask=1, tiers=T_), POST('post_resp_p1_tx_hi1', 1, 'response', txmask=1, hi=1, tiers=T_),
        POST('post_err_p1_tx', 1, 'error', txmask=1), POST('post_err_p2_tx1', 2, 'error', txmask=2, tiers=T_),
        POST('post_ind_p1', 1, 'indication'), POST('post_ind_p2_tx', 2, 'indication', txmask=1, tiers=T_),
        POST('post_other_p1_tx', 1, 'othermethod', txmask=1, tiers=T_), POST('post_other_p2', 2, 'othermethod', tiers=T_),
        POST('post_req_p1_g', 1, 'request', gather=1), POST('post_resp_p1_tx_g', 1, 'response', txmask=1, gather=1),
    ]),
]
BOUNDS = ['post_*: ONE call of the real handleDatagram (plus the real transactionFinished run synchronously from finished(), plus the real performCheck / QXmppStunTransaction ctor / readStun / '
          'CandidatePair ctor+priority / std::sort / QXmppIceComponentPrivate::writeStun) on a component with 0..2 candidate pairs (list length and the presence of a pending check transaction per pair are '
          'per-instance constants), IPv4 remote candidates / source address with symbolic address, port, priority, type; two transports (receiving A, other B) with symbolic local candidates; '
          '0..1 pending STUN-server transaction; datagram of 20 (post_short: 4) bytes; message type: a per-instance constant among binding request / success response / error response / indication '
          '(optionally with the two undefined top type bits set) or symbolic with a method other than Binding; decode verdict and all decoded attributes symbolic',
          'post_*: at most ONE pair has a pending check transaction per instance (two pending transactions: no verdict within 4 GB / 500 s, left out); a FULLY symbolic 16-bit message type in one instance '
          '(and the non-Binding-method kind on a component without pairs) got no verdict in 15 min and is left out: the type space is covered by the union of the constant-type kinds '
          '(4 classes of Binding, top bits 0 / sampled non-zero) and the symbolic non-Binding kind on components with 1-2 pairs']
ASSUMPTIONS = ['post_*: QXmppStunMessage::decode is cut (assume-guarantee): nondeterministic verdict; on success the message holds arbitrary attributes and the type / transaction id of the datagram header '
               '(what the real decode returns is C14 rt_*/acc_*); "authenticated" = verdict true under a NON-EMPTY key, which is what auth_* prove of the real decode. QXmppStunMessage::encode is cut to a recorder '
               '(message fields and key are compared, the wire format is C14)',
               'post_*: representation invariant of the symbolic pre-state: a pair has a pending check transaction exactly in InProgressState; nominated implies SucceededState '
               '(performCheck and transactionFinished are the only writers of state/transaction; nominated is only set on a succeeded pair)',
               'post_*: signals (moc code, not linked) have bodies written in the harness: finished() calls the connected slot transactionFinished() synchronously with sender() = the transaction; '
               'QObject::sender() is the receiving QXmppIceTransport (stand-in with a hand-made vtable: localCandidate answers a symbolic candidate, writeDatagram is logged); qobject_cast = identity; '
               'QTimer start/stop, deleteLater, connect are ghost counters; CandidatePair::setState is modelled as the assignment it performs (its log text uses a relative lookup table ll2c cannot translate); '
               'QXmppJingleCandidate is a value model {type, component, priority, host, port}; logging / toString / QString::arg are empty']
OUTSIDE = ['post_*: the second half of transactionFinished (a finished STUN-server transaction adds a server-reflexive LOCAL candidate): a datagram whose id matches the component\'s own pending STUN-server transaction on the '
           'receiving transport is decoded with an EMPTY key by design; for it the instances only assert that no pair / selection / response is touched and that only that transaction can finish',
           'post_*: retransmission timers (QXmppStunTransaction::retry), checkCandidates pacing, TURN, IPv6 addresses, more than 2 pairs, two simultaneously pending check transactions, sequences of more than one datagram '
           '(covered inductively: every step starts from an arbitrary state satisfying the stated invariant; that the invariant is re-established is asserted only through the per-pair post-conditions)',
           'post_*: USERNAME is never compared with "localUser:remoteUser" by handleDatagram (a request with any username is processed once MESSAGE-INTEGRITY under the local password verified): observation, not asserted',
           'post_nonstun_strict_p1 (known finding nonstun_selects_fallback_pair, demonstrated while listed): a NON-STUN datagram whose source address/port equals the remote candidate of an existing pair moves fallbackPair to that pair (QXmppStun.cpp, handleDatagram, '
           '"use this as an opportunity to flag a potential pair"), i.e. unauthenticated traffic with a (spoofable) source address selects the pair sendDatagram() uses until a pair is nominated; '
           'post_nonstun_p2 / post_short_p1 assert everything else and bound this effect (only fallbackPair, only to an existing pair with exactly that remote address)']
