// C15, safety half of what QXmppIceComponent::handleDatagram does AFTER the decode call: ONE step of the REAL handleDatagram (and, through
// the finished() signal, of the REAL transactionFinished) from an arbitrary small component state.
// Assume-guarantee cut: QXmppStunMessage::decode is replaced (post_models.c -> post_on_decode below) by "nondeterministic verdict; when true the
// message object holds an ARBITRARY message whose type and transaction id are those of the datagram header"; the ghost fact
// authenticated := (verdict && key non-empty) is what the auth_* instances prove of the real decode.  QXmppStunMessage::encode is cut to a
// recorder (the wire format is C14).  Signals are moc code (not linked): their bodies are written here; finished() runs the connected slot
// transactionFinished() synchronously (direct connection), with sender() = the transaction.
// Per-instance constants: cfg0 = number of candidate pairs (0..2); cfg1 = kind of datagram (K_*); cfg2 = bit i: pair i has a pending check
// transaction, bit 4: strict non-STUN claim (fallbackPair must not move); cfg3 = bit 0: one pending STUN-server (gathering) transaction,
// bits 4-5: the two most significant bits of the message type (zero in every defined STUN type; the code masks them away).
#include <QObject>
#include <QHostAddress>
#include <QUdpSocket>
#include <QTimer>
#include <QMap>
#include <QList>
#include <QSet>
#include <QStringList>
#include <QDomElement>
#include <QXmlStreamWriter>
#include <QCryptographicHash>
#include <QDataStream>
#include <QHostInfo>
#include <QNetworkInterface>
#include <QVariant>
#include <QSharedDataPointer>
#include <QMimeType>
#include <QDateTime>
#include <QUrl>
#include <sstream>
#include <optional>
#include <variant>
#include <memory>
#include <functional>
#include <any>
#define private public      /* qxmpp's own classes only: every Qt / std header is already included above */
#include "base/QXmppStun.cpp"
#undef private
#include "vp_harness.h"
extern "C" {
unsigned vp_cfg0(); unsigned vp_cfg1(); unsigned vp_cfg2(); unsigned vp_cfg3(); unsigned vp_never();
void vp_fresh_bytes(QByteArray *out, unsigned minlen, unsigned maxlen);
void vp_fresh_text(QString *out, unsigned len);
unsigned char vp_byte_at(const QByteArray *ba, unsigned i);
void vp_set_byte(QByteArray *ba, unsigned i, unsigned char v);
bool vp_bytes_same(const QByteArray *a, const QByteArray *b);
void vp_post_qobject(void *self);                  // raw storage -> constructed QObject part
void vp_post_set_sender(void *obj); void *vp_post_get_sender();
bool vp_post_delete_later(const void *obj);
unsigned vp_post_objects(); unsigned vp_post_timers(); unsigned vp_post_timer_stops(); void *vp_post_last_stopped();
void vp_post_set_map_end(const void *headerNode);
void vp_post_transport(void *storage, const QXmppJingleCandidate *local);
unsigned vp_post_writes(); void *vp_post_write_transport(unsigned i); bool vp_post_write_data_is(unsigned i, const QByteArray *b);
bool vp_post_write_host_is(unsigned i, const QHostAddress *h); unsigned vp_post_write_port(unsigned i);
void vp_post_cand_set(QXmppJingleCandidate *c, int type, int component, unsigned priority, unsigned v4, unsigned port);
bool vp_post_cand_host_is4(const QXmppJingleCandidate *c, unsigned v4);
void vp_post_addr4(QHostAddress *a, unsigned v4);
}
enum { K_NONSTUN = 0, K_ANYTYPE = 1, K_REQUEST = 2, K_RESPONSE = 3, K_ERROR = 4, K_INDICATION = 5, K_OTHER_METHOD = 6, K_SHORT = 7 };
static QByteArray freshBytes(unsigned a, unsigned b) { QByteArray x; vp_fresh_bytes(&x, a, b); return x; }
static unsigned u8(const QByteArray &b, unsigned i) { return vp_byte_at(&b, i); }
static void symText(QString *out, bool nonEmpty, unsigned len) { if (nonEmpty) vp_fresh_text(out, len); }

// ---- ghost state of the cuts and of the signal bodies ----
struct Ghost {
    QXmppIceComponent *comp;
    unsigned decodeCalls; bool verdict; bool bufSame; const QByteArray *buf;
    unsigned encodeCalls; unsigned encType; unsigned encXorPort;
    unsigned connected, emitted, finished, localChanged, gatherChanged, txWrite;
    QXmppStunTransaction *finishedTx; QXmppStunTransaction *gatherTx;
};
static Ghost g;
static VpRaw<QByteArray> gKey, gEncId, gEncKey, gEncOut, gEmitted; static VpRaw<QHostAddress> gEncXorHost; static VpRaw<QXmppStunMessage> gDecoded;

extern "C" bool post_on_decode(QXmppStunMessage *self, const QByteArray *buffer, const QByteArray *key)
{
    g.decodeCalls++; *gKey = *key; g.bufSame = (buffer == g.buf);
    *self = *gDecoded;                       // arbitrary content (chosen by the harness before the call); on FAILURE too: the real decode fills the
    return g.verdict;                        // object attribute by attribute before it rejects, so a rejected message holds attacker-chosen fields
}
extern "C" void post_on_encode(QByteArray *ret, const QXmppStunMessage *self, const QByteArray *key)
{
    g.encodeCalls++; g.encType = self->type(); *gEncId = self->id(); *gEncXorHost = self->xorMappedHost; g.encXorPort = self->xorMappedPort; *gEncKey = *key;
    new (ret) QByteArray(*gEncOut);
}
extern "C" void post_set_state(CandidatePair *p, int s) { p->m_state = CandidatePair::State(s); }
// moc replacements
void QXmppIceComponent::connected() { g.connected++; }
void QXmppIceComponent::datagramReceived(const QByteArray &b) { g.emitted++; *gEmitted = b; }
void QXmppIceComponent::localCandidatesChanged() { g.localChanged++; }
void QXmppIceComponent::gatheringStateChanged() { g.gatherChanged++; }
void QXmppStunTransaction::writeStun(const QXmppStunMessage &) { g.txWrite++; }
void QXmppStunTransaction::finished()
{
    g.finished++; g.finishedTx = this;
    if (this == g.gatherTx) return;          // STUN-server (candidate gathering) transactions: the slot's second half is outside this harness
    void *prev = vp_post_get_sender(); vp_post_set_sender(this);
    g.comp->transactionFinished();
    vp_post_set_sender(prev);
}

struct FakeMapData { QtPrivate::RefCount ref; int size; QMapNodeBase header; QMapNodeBase *mostLeftNode; };
static_assert(sizeof(FakeMapData) == sizeof(QMapDataBase), "QMapDataBase layout");
typedef QMapNode<QXmppStunTransaction *, QXmppIceTransportDetails> TxNode;

static void makeTx(QXmppStunTransaction *tx, void *timer)
{
    vp_post_qobject(tx);
    new (&tx->m_request) QXmppStunMessage(); tx->m_request.setType(0x0001); tx->m_request.setId(freshBytes(12, 12));
    new (&tx->m_response) QXmppStunMessage();
    tx->m_retryTimer = reinterpret_cast<QTimer *>(timer); tx->m_tries = 1;
}
static bool idIs(const QByteArray &a, const QByteArray &b) { bool same = a.size() == 12 && b.size() == 12; for (int i = 0; i < 12; i++) same = same && u8(a, i) == u8(b, i); return same; }

extern "C" void h_post()
{
    if (vp_never()) { post_on_decode(nullptr, nullptr, nullptr); post_on_encode(nullptr, nullptr, nullptr); post_set_state(nullptr, 0); }   // keep the call-backs in the program
    const unsigned NP = vp_cfg0(), KIND = vp_cfg1(), TXMASK = vp_cfg2() & 3, GATHER = vp_cfg3() & 1; const bool STRICT = (vp_cfg2() & 16) != 0; const unsigned HI = ((vp_cfg3() >> 4) & 3) << 14;
    static VpRaw<QXmppIceComponent> comp; static VpRaw<QXmppIceComponentPrivate> priv; static VpRaw<QXmppIcePrivate> cfg;
    static VpRaw<CandidatePair> pairS[2]; static VpRaw<QXmppStunTransaction> txS[2], gtx; static VpRaw<TxNode> node; static FakeMapData md;
    static VpRaw<QXmppJingleCandidate> localA, localB;
    alignas(16) static char transportA[64], transportB[64], compTimer[64], txTimer[3][64];
    new (gKey.b) QByteArray(); new (gEncId.b) QByteArray(); new (gEncKey.b) QByteArray(); new (gEmitted.b) QByteArray(); new (gEncOut.b) QByteArray(freshBytes(4, 4));
    new (gEncXorHost.b) QHostAddress();
    g.comp = comp.p(); g.gatherTx = GATHER ? gtx.p() : nullptr;

    // ---- session configuration: role, users, passwords (each empty or 1..2 units) ----
    cfg->iceControlling = vp_bool();
    new (&cfg->localUser) QString(); new (&cfg->remoteUser) QString(); new (&cfg->localPassword) QString(); new (&cfg->remotePassword) QString();
    symText(&cfg->localUser, vp_bool(), 1); symText(&cfg->remoteUser, vp_bool(), 2); symText(&cfg->localPassword, vp_bool(), 2); symText(&cfg->remotePassword, vp_bool(), 1);
    new (&cfg->stunServers) QList<QPair<QHostAddress, quint16>>(); new (&cfg->tieBreaker) QByteArray(freshBytes(8, 8));
    const bool ctl = cfg->iceControlling;

    // ---- transports A (the sender of this datagram) and B, each with an arbitrary local candidate ----
    new (localA.b) QXmppJingleCandidate(); new (localB.b) QXmppJingleCandidate();
    const int component = 1 + (vp_u8() & 1);
    vp_post_cand_set(localA.p(), vp_u8() & 3, component, vp_u32(), vp_u32(), vp_u16());
    vp_post_cand_set(localB.p(), vp_u8() & 3, component, vp_u32(), vp_u32(), vp_u16());
    vp_post_transport(transportA, localA.p()); vp_post_transport(transportB, localB.p());
    QXmppIceTransport *const tA = reinterpret_cast<QXmppIceTransport *>(transportA), *const tB = reinterpret_cast<QXmppIceTransport *>(transportB);

    // ---- component ----
    vp_post_qobject(comp.p());
    static_assert(sizeof(QXmppIceComponent) == 24, "QXmppIceComponent = QObject {vptr, d_ptr} + d");
    *reinterpret_cast<QXmppIceComponentPrivate **>(reinterpret_cast<char *>(comp.p()) + 16) = priv.p();
    *const_cast<int *>(&priv->component) = component;
    *const_cast<const QXmppIcePrivate **>(&priv->config) = cfg.p();
    priv->gatheringState = QXmppIceConnection::GatheringState(vp_u8() % 3);
    new (&priv->localCandidates) QList<QXmppJingleCandidate>(); new (&priv->remoteCandidates) QList<QXmppJingleCandidate>();
    new (&priv->pairs) QList<CandidatePair *>(); new (&priv->transports) QList<QXmppIceTransport *>();
    priv->transports << tA << tB;
    priv->peerReflexivePriority = vp_u32();
    priv->timer = reinterpret_cast<QTimer *>(compTimer); priv->turnAllocation = nullptr; priv->turnConfigured = false; priv->q = comp.p();

    // ---- 0..2 candidate pairs: arbitrary state / flags / remote candidate / transport; pending check transaction per TXMASK ----
    CandidatePair *P[2] = { nullptr, nullptr }; QXmppStunTransaction *preTx[2] = { nullptr, nullptr };
    unsigned rv4[2] = { 0, 0 }, rport[2] = { 0, 0 }, rprio[2] = { 0, 0 }, rtype[2] = { 0, 0 }, preState[2] = { 0, 0 };
    bool preNom[2] = { false, false }, preNomg[2] = { false, false }, onA[2] = { false, false };
    for (unsigned i = 0; i < 2; i++) {
        if (i >= NP) break;
        P[i] = new (pairS[i].b) CandidatePair(component, vp_bool(), comp.p());
        rv4[i] = vp_u32(); rport[i] = vp_u16(); rprio[i] = vp_u32(); rtype[i] = vp_u8() & 3;
        vp_post_cand_set(&P[i]->remote, rtype[i], component, rprio[i], rv4[i], rport[i]);
        // representation invariant of a pair (performCheck / transactionFinished are the only writers): a check transaction is pending exactly in
        // InProgressState; a pair is nominated only after its own check succeeded (and then it is never checked again)
        const bool hasTx = ((TXMASK >> i) & 1) != 0;
        preNomg[i] = vp_bool(); onA[i] = vp_bool();
        if (hasTx) { preState[i] = 2; preNom[i] = false; }
        else { const unsigned s4 = vp_u8() & 3; preState[i] = s4 < 2 ? s4 : s4 + 1; preNom[i] = vp_bool(); vp_assume(!preNom[i] || preState[i] == 3); }
        P[i]->nominated = preNom[i]; P[i]->nominating = preNomg[i]; P[i]->transport = onA[i] ? tA : tB; P[i]->m_state = CandidatePair::State(preState[i]);
        if ((TXMASK >> i) & 1) { makeTx(txS[i].p(), txTimer[i]); preTx[i] = txS[i].p(); }
        P[i]->transaction = preTx[i];
        priv->pairs << P[i];
        priv->remoteCandidates << P[i]->remote;
    }
    const unsigned selA = vp_u8(), selF = vp_u8();
    CandidatePair *const preActive = (selA < NP) ? P[selA & 1] : nullptr, *const preFallback = (selF < NP) ? P[selF & 1] : nullptr;
    priv->activePair = preActive; priv->fallbackPair = preFallback;

    // ---- 0..1 pending STUN-server transaction (candidate gathering), on transport A or B ----
    const bool gOnA = vp_bool();
    if (GATHER) makeTx(gtx.p(), txTimer[2]);
    node->key = gtx.p(); node->value.transport = gOnA ? tA : tB; node->left = nullptr; node->right = nullptr;
    md.ref.atomic.storeRelaxed(1); md.size = GATHER ? 1 : 0;
    md.header.left = GATHER ? static_cast<QMapNodeBase *>(node.p()) : nullptr; md.header.right = nullptr;
    md.mostLeftNode = GATHER ? static_cast<QMapNodeBase *>(node.p()) : &md.header;
    *reinterpret_cast<FakeMapData **>(&priv->stunTransactions) = &md;
    vp_post_set_map_end(&md.header);
    vp_post_set_sender(transportA);

    // ---- the datagram, its source address, and what decode will answer ----
    const unsigned n = (KIND == K_SHORT) ? 4 : 20;
    QByteArray b = freshBytes(n, n);
    unsigned type = 0;
    if (KIND == K_NONSTUN) {
        const unsigned t = (u8(b, 0) << 8) | u8(b, 1), len = (u8(b, 2) << 8) | u8(b, 3);
        vp_assume(!(t != 0 && len == 0 && u8(b, 4) == 0x21 && u8(b, 5) == 0x12 && u8(b, 6) == 0xA4 && u8(b, 7) == 0x42));
    } else if (KIND != K_SHORT) {
        if (KIND == K_ANYTYPE) { type = vp_u16(); vp_assume(type != 0); }
        else if (KIND == K_REQUEST) type = 0x0001 | HI; else if (KIND == K_RESPONSE) type = 0x0101 | HI; else if (KIND == K_ERROR) type = 0x0111 | HI; else if (KIND == K_INDICATION) type = 0x0011 | HI;
        else { type = vp_u16(); vp_assume(type != 0 && (type & 0x3EEF) != 0x0001); }
        vp_set_byte(&b, 0, type >> 8); vp_set_byte(&b, 1, type & 0xff); vp_set_byte(&b, 2, 0); vp_set_byte(&b, 3, 0);
        vp_set_byte(&b, 4, 0x21); vp_set_byte(&b, 5, 0x12); vp_set_byte(&b, 6, 0xA4); vp_set_byte(&b, 7, 0x42);
    }
    unsigned char pre[20]; for (unsigned i = 0; i < 20; i++) pre[i] = i < n ? u8(b, i) : 0;
    QByteArray msgId = freshBytes(12, 12);
    if (n == 20) for (unsigned i = 0; i < 12; i++) vp_set_byte(&msgId, i, pre[8 + i]);
    const unsigned fromV4 = vp_u32(), fromPort = vp_u16();
    QHostAddress from; vp_post_addr4(&from, fromV4);
    // decoded content: type and id are those of the header (contract of decode, C14 rt_*), every attribute arbitrary
    new (gDecoded.b) QXmppStunMessage();
    gDecoded->setType(type); gDecoded->setId(msgId);
    { QString u; vp_fresh_text(&u, 2); gDecoded->setUsername(u); }
    const unsigned mPrio = vp_u32(); gDecoded->setPriority(mPrio);
    const bool mUse = vp_bool(), mCing = vp_bool(), mCed = vp_bool();
    gDecoded->useCandidate = mUse;
    if (mCing) gDecoded->iceControlling = freshBytes(8, 8);
    if (mCed) gDecoded->iceControlled = freshBytes(8, 8);
    gDecoded->errorCode = vp_int();
    if (vp_bool()) vp_post_addr4(&gDecoded->xorMappedHost, vp_u32());
    gDecoded->xorMappedPort = vp_u16();
    if (vp_bool()) vp_post_addr4(&gDecoded->mappedHost, vp_u32());
    gDecoded->mappedPort = vp_u16();
    g.verdict = vp_bool(); g.buf = &b;

    const unsigned objects0 = vp_post_objects(), timers0 = vp_post_timers();

    // =================== the step ===================
    comp->handleDatagram(b, from, quint16(fromPort));

    // ---- observations ----
    const int n2 = priv->pairs.size();
    bool listSame = (n2 == int(NP));
    for (unsigned i = 0; i < 2; i++) { if (i >= NP) break; listSame = listSame && n2 > int(i) && priv->pairs.at(i) == P[i]; }
    bool same[2] = { true, true };
    for (unsigned i = 0; i < 2; i++) {
        if (i >= NP) break;
        same[i] = unsigned(P[i]->m_state) == preState[i] && P[i]->nominated == preNom[i] && P[i]->nominating == preNomg[i] && P[i]->transaction == preTx[i]
                  && P[i]->transport == (onA[i] ? tA : tB) && vp_post_cand_host_is4(&P[i]->remote, rv4[i]) && P[i]->remote.port() == rport[i];
    }
    const bool pairsSame = listSame && same[0] && same[1];
    const bool selSame = priv->activePair == preActive && priv->fallbackPair == preFallback;
    const bool quiet = g.connected == 0 && vp_post_writes() == 0 && g.encodeCalls == 0 && vp_post_timers() == timers0 && vp_post_objects() == objects0
                       && priv->remoteCandidates.size() == int(NP) && priv->localCandidates.size() == 0 && g.localChanged == 0 && g.gatherChanged == 0 && g.txWrite == 0;
    const bool noFinish = g.finished == 0 && vp_post_timer_stops() == 0;
    const bool unchanged = pairsSame && selSame && quiet && noFinish;

    if (KIND == K_NONSTUN || KIND == K_SHORT) {
        vp_assert(g.decodeCalls == 0, "C15 a datagram that is not STUN is never decoded");
        bool bytesSame = gEmitted->size() == int(n);
        for (unsigned i = 0; i < 20; i++) { if (i >= n) break; bytesSame = bytesSame && u8(*gEmitted, i) == pre[i]; }
        vp_assert(g.emitted == 1 && bytesSame, "C15 application data (non-STUN datagram) is passed on exactly once, unchanged");
        vp_assert(pairsSame && quiet && noFinish && priv->activePair == preActive, "C15 a non-STUN datagram changes no pair, no selection, sends nothing, starts/finishes no transaction");
        if (STRICT) {
            vp_assert(priv->fallbackPair == preFallback, "C15 a non-STUN datagram (unauthenticated) does not move the fallback pair");
        } else {
            bool ok = priv->fallbackPair == preFallback;
            for (unsigned i = 0; i < 2; i++) { if (i >= NP) break; ok = ok || (priv->fallbackPair == P[i] && rv4[i] == fromV4 && rport[i] == fromPort); }
            vp_assert(ok, "C15 a non-STUN datagram moves the fallback pair at most to an existing pair whose remote address is the datagram's source (documented exclusion)");
        }
        return;
    }
    vp_assert(g.emitted == 0, "C15 a STUN datagram is not passed on as application data");
    vp_assert(g.decodeCalls <= 1, "C15 the datagram is decoded at most once");
    const bool ownGather = GATHER && gOnA && idIs(gtx->m_request.id(), msgId);
    if (ownGather) {
        // answers the component's own STUN-server request on the same transport: decoded with an EMPTY key by design (outside C15's claim, see SPEC);
        // the only permitted effect is on that gathering transaction
        vp_assert(pairsSame && selSame && quiet, "C15 an answer to the component's own STUN-server transaction touches no pair, no selection, sends nothing");
        vp_assert(g.finished == 0 || (g.finished == 1 && g.finishedTx == gtx.p() && g.verdict), "C15 only that gathering transaction may finish, and only on a successfully decoded message");
        return;
    }
    const bool authenticated = g.decodeCalls == 1 && g.verdict && !gKey->isEmpty() && g.bufSame;
    vp_assert(unchanged || authenticated, "C15 connectivity state changes / responses / transactions only on a datagram decoded successfully under a NON-EMPTY key");
    if (g.decodeCalls == 1) {
        const QByteArray lp = cfg->localPassword.toUtf8(), rp = cfg->remotePassword.toUtf8();
        if ((type & 0xFE00) == 0) vp_assert(vp_bytes_same(gKey.p(), (type & 0x0100) ? &rp : &lp), "C15 requests/indications are checked with the local password, responses with the remote password");
        else vp_assert(vp_bytes_same(gKey.p(), &lp) || vp_bytes_same(gKey.p(), &rp), "C15 the key is the local or the remote ICE password");
    }
    if (!authenticated) return;

    // ---- authenticated message: the transition the code documents (RFC 5245 7.2.1) ----
    const unsigned method = type & 0x3EEF, cls = type & 0x0110;
    if (method != 0x0001 || cls == 0x0010) {
        vp_assert(unchanged, "C15 only binding requests and binding (error) responses are acted upon; indications and other methods change nothing and are not answered");
        return;
    }
    CandidatePair *T = nullptr; unsigned tState = 1; bool tNom = false, tNomg = false;     // the pair this message is about (defaults: a new pair)
    if (cls == 0x0000) {
        const bool conflict = (ctl && (mCing || mUse)) || (!ctl && mCed);
        if (conflict) { vp_assert(unchanged, "C15 role conflict (7.2.1.1 as implemented): the request is dropped, USE-CANDIDATE does not nominate on a controlling agent"); return; }
        // a response goes to the sender, and only there
        vp_assert(vp_post_writes() == 1 && g.encodeCalls == 1, "C15 exactly one datagram is sent for a valid binding request");
        vp_assert(vp_post_write_transport(0) == transportA && vp_post_write_host_is(0, &from) && vp_post_write_port(0) == fromPort && vp_post_write_data_is(0, gEncOut.p()),
                  "C15 the binding response is written on the receiving transport to the sender's address and port");
        const QByteArray lp = cfg->localPassword.toUtf8();
        vp_assert(g.encType == 0x0101 && idIs(*gEncId, msgId) && *gEncXorHost == from && g.encXorPort == fromPort && vp_bytes_same(gEncKey.p(), &lp),
                  "C15 the response is a binding success response with the request's id, XOR-MAPPED-ADDRESS = sender, protected with the local password");
        int m = -1;
        for (int i = 1; i >= 0; i--) if (unsigned(i) < NP && onA[i] && rv4[i] == fromV4 && rport[i] == fromPort) m = i;
        bool known = false; unsigned kType = 0, kPrio = 0;
        for (int i = 1; i >= 0; i--) if (unsigned(i) < NP && rv4[i] == fromV4 && rport[i] == fromPort) { known = true; kType = rtype[i]; kPrio = rprio[i]; }
        if (m >= 0) {
            vp_assert(listSame && priv->remoteCandidates.size() == int(NP), "C15 a request from a known pair adds no pair and no remote candidate");
            T = P[m]; tState = preState[m]; tNom = preNom[m]; tNomg = preNomg[m];
        } else {
            vp_assert(n2 == int(NP) + 1, "C15 a request from a new address adds exactly one pair");
            unsigned fresh = 0, kept = 0;
            for (int j = 0; j < 3; j++) { if (j >= n2) break; CandidatePair *x = priv->pairs.at(j); if (x == P[0] && NP > 0) kept++; else if (x == P[1] && NP > 1) kept++; else { fresh++; T = x; } }
            vp_assert(fresh == 1 && kept == NP && T != nullptr, "C15 the existing pairs stay in the list");
            vp_assume(T != nullptr);
            vp_assert(T->transport == tA && vp_post_cand_host_is4(&T->remote, fromV4) && T->remote.port() == fromPort && T->m_controlling == ctl && T->remote.component() == component,
                      "C15 the learned pair is (receiving transport, sender address)");
            if (known) vp_assert(priv->remoteCandidates.size() == int(NP) && unsigned(T->remote.type()) == kType && unsigned(T->remote.priority()) == kPrio, "C15 a known remote candidate is reused");
            else vp_assert(priv->remoteCandidates.size() == int(NP) + 1 && T->remote.type() == QXmppJingleCandidate::PeerReflexiveType && unsigned(T->remote.priority()) == mPrio,
                           "C15 7.2.1.3: the learned candidate is peer-reflexive with the PRIORITY of the request");
        }
        for (unsigned i = 0; i < 2; i++) { if (i >= NP) break; if (int(i) != m) vp_assert(same[i], "C15 pairs the request is not about are untouched"); }
        vp_assert(priv->fallbackPair == preFallback && g.finished == 0, "C15 a request finishes no transaction and does not move the fallback pair");
        const bool trigger = (tState == 0 || tState == 1 || tState == 4) && !cfg->remoteUser.isEmpty();
        vp_assert(T->nominated == (tNom || (tState == 3 && mUse)), "C15 USE-CANDIDATE nominates only a pair whose own check succeeded (and only on the controlled agent)");
        if (trigger) vp_assert(T->state() == CandidatePair::InProgressState && T->nominating == (tNomg || ctl || mUse) && T->transaction != nullptr && vp_post_timers() == timers0 + 1, "C15 triggered check (7.2.1.4)");
        else vp_assert(unsigned(T->state()) == tState && T->nominating == (tNomg || (tState == 2 && mUse)) && vp_post_timers() == timers0 && (m < 0 || T->transaction == preTx[m]), "C15 no triggered check: state kept");
    } else {
        // binding success / error response: about the pair whose pending check has this transaction id
        vp_assert(vp_post_writes() == 0 && g.encodeCalls == 0 && listSame && priv->remoteCandidates.size() == int(NP) && vp_post_timers() == timers0 && priv->fallbackPair == preFallback,
                  "C15 a response is never answered, adds no pair / candidate, starts no transaction");
        int m = -1;
        for (int i = 1; i >= 0; i--) if (unsigned(i) < NP && preTx[i] && idIs(preTx[i]->m_request.id(), msgId)) m = i;
        if (m < 0) { vp_assert(unchanged, "C15 a response that matches no pending check changes nothing"); return; }
        for (unsigned i = 0; i < 2; i++) { if (i >= NP) break; if (int(i) != m) vp_assert(same[i], "C15 pairs the response is not about are untouched"); }
        T = P[m]; tNom = preNom[m];
        const bool success = cls == 0x0100 && rv4[m] == fromV4 && rport[m] == fromPort;
        vp_assert(g.finished == 1 && g.finishedTx == preTx[m] && vp_post_delete_later(preTx[m]) && T->transaction == nullptr, "C15 the matching check transaction finishes exactly once");
        vp_assert(unsigned(T->state()) == (success ? 3u : 4u), "C15 the pair succeeds only on a success response from the pair's remote address, else it fails");
        vp_assert(T->nominated == (preNom[m] || (success && preNomg[m])) && T->nominating == preNomg[m], "C15 a pair is nominated by its own successful nominating check only");
    }
    // ---- selection / connected ----
    vp_assert(g.connected <= 1, "C15 connected() at most once per step");
    if (T->nominated) {
        vp_assert(priv->activePair == preActive || priv->activePair == T, "C15 only the pair this message is about can become the active pair");
        vp_assert(preActive != nullptr || priv->activePair == T, "C15 a nominated valid pair is selected when none was");
        vp_assert((g.connected == 1) == (preActive == nullptr), "C15 connected() exactly when the first pair is selected");
        vp_assert(vp_post_last_stopped() == compTimer, "C15 the check timer is stopped on completion");
    } else {
        vp_assert(priv->activePair == preActive && g.connected == 0, "C15 no selection and no connected() without a NOMINATED pair");
    }
}
