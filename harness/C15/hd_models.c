/* C15 handleDatagram group: recorder cut of QXmppStunMessage::decode (logs the key, returns false), QObject::sender / qobject_cast,
   the datagramReceived signal (moc code, not linked), QMap iteration over the harness-built one-node map, QSet<quint16> copy. */
#ifdef HAVE_T_struct_QArrayData
static uint32_t hd_calls, hd_emitted; static QAD *hd_key, *hd_buf; static char *hd_sender, *hd_map_end;
uint8_t _ZN16QXmppStunMessage6decodeERK10QByteArrayS2_P11QStringList(char *self, char *buffer, char *key, char *errors) { hd_calls++; hd_key = qad_ref(*(QAD**)key); hd_buf = *(QAD**)buffer; return 0; }
uint32_t vp_hd_decode_calls(void) { return hd_calls; }
void vp_hd_decode_key(char *out) { ASSERT(hd_key != 0, "no decode call recorded"); *(QAD**)out = qad_ref(hd_key); }
uint8_t vp_hd_decode_buffer_is(char *b) { return hd_buf == *(QAD**)b; }
uint32_t vp_hd_emitted(void) { return hd_emitted; }
void vp_hd_set_sender(char *o) { hd_sender = o; }
void vp_hd_set_map_end(char *e) { hd_map_end = e; }
char* _ZNK7QObject6senderEv(char *self) { return hd_sender; }
char* _ZNK11QMetaObject4castEP7QObject(char *mo, char *o) { return o; }          /* the harness only ever presents QXmppIceTransport senders */
char* _ZNK11QMetaObject4castEPK7QObject(char *mo, char *o) { return o; }
void _ZN17QXmppIceComponent16datagramReceivedERK10QByteArray(char *self, char *b) { hd_emitted++; }
char* _ZNK12QMapNodeBase8nextNodeEv(char *self) { ASSERT(self != hd_map_end, "QMap iterator incremented past end()"); return hd_map_end; }   /* maps of <= 1 node */
/* QSet<quint16> is the fixed-slot set of ../C14/stun_models.c behind the d pointer: copy = share (the copies made here are never modified), destroy = nothing */
void _ZN5QHashIt15QHashDummyValueEC2ERKS1_(char *self, char *o) { *(char**)self = *(char**)o; }
void _ZN5QHashIt15QHashDummyValueED2Ev(char *self) { }
#endif
