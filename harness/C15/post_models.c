/* C15 post-decode group (post_handle.cpp): environment of the REAL QXmppIceComponent::handleDatagram / transactionFinished /
   QXmppIceComponentPrivate::performCheck / writeStun / QXmppStunTransaction (ctor, readStun) / CandidatePair (ctor, priority) / std::sort.
   Listed after ../C14/stun_models.c (uses its QHostAddress value model `struct vha`, the QSet<quint16> fixed-slot model and qt_core.c helpers).
   - assume-guarantee cuts: QXmppStunMessage::decode and ::encode call back into the harness (F_post_on_decode / F_post_on_encode)
   - QXmppJingleCandidate (QXmppJingleData.cpp, not linked): class-level value model {type, component, priority, port, host}
   - QXmppIceTransport stand-in with a hand-made vtable: localCandidate (slot 12), writeDatagram (slot 13, logged)
   - QObject / QXmppLoggable / QTimer / connect: ghost flags and counters; QObject::sender() = what the harness (or its signal bodies) set
   - signals of QXmppIceComponent / QXmppStunTransaction are moc code (not linked): their bodies are written in the harness (C++)
   - logging / formatting: empty */
#ifdef HAVE_T_struct_QArrayData
/* ---- harness call-backs (extern "C" functions of post_handle.cpp, translated by ll2c) ---- */
/* F_post_on_decode(self, buffer, key), F_post_on_encode(ret, self, key), F_post_set_state(pair, state): prototypes come from g.c */
uint8_t _ZN16QXmppStunMessage6decodeERK10QByteArrayS2_P11QStringList(char *self, char *buffer, char *key, char *errors) { return F_post_on_decode(self, buffer, key); }
void _ZNK16QXmppStunMessage6encodeERK10QByteArrayb(char *ret, char *self, char *key, uint8_t fp) { F_post_on_encode(ret, self, key); }
/* CandidatePair::setState = { m_state = state; info(...formatted text...); }: ll2c cannot translate its lookup of the state NAME
   (llvm.load.relative); the assignment is done by the harness (typed member), the log line is dropped */
void _ZN13CandidatePair8setStateENS_5StateE(char *self, uint32_t state) { F_post_set_state(self, state); }
void _ZNK13CandidatePair8toStringEv(char *ret, char *self) { *(QAD**)ret = SHARED_NULL; }        /* text for log lines only */
void _ZNK16QXmppStunMessage8toStringEv(char *ret, char *self) { *(QAD**)ret = SHARED_NULL; }    /* QXMPP_DEBUG_STUN dump for logReceived/logSent only */

/* ---- QObject / QXmppLoggable / QTimer ---- */
struct post_qod { char *q_ptr; char *parent; uint8_t alive, delete_later; };
#define PQOD(o) (*(struct post_qod**)((char*)(o) + 8))
static uint32_t post_objects, post_timers, post_timer_starts, post_timer_stops, post_connects;
static char *post_sender, *post_last_stopped, *post_map_end;
static void post_qobject_init(char *self, char *parent) { struct post_qod *d = malloc(sizeof(struct post_qod)); ASSUME(d != 0); d->q_ptr = self; d->parent = parent; d->alive = 1; d->delete_later = 0; PQOD(self) = d; post_objects++; }
void _ZN7QObjectC2EPS_(char *self, char *parent) { post_qobject_init(self, parent); }
void _ZN7QObjectC1EPS_(char *self, char *parent) { post_qobject_init(self, parent); }
void _ZN13QXmppLoggableC2EP7QObject(char *self, char *parent) { post_qobject_init(self, parent); }     /* log forwarding to a loggable parent: irrelevant */
void _ZN7QObject11deleteLaterEv(char *self) { PQOD(self)->delete_later = 1; }
char* _ZNK7QObject6senderEv(char *self) { return post_sender; }
char* _ZNK11QMetaObject4castEP7QObject(char *mo, char *o) { return o; }          /* senders presented by the harness have the type the slot expects */
char* _ZNK11QMetaObject4castEPK7QObject(char *mo, char *o) { return o; }
void _ZN13QXmppLoggable10logMessageEN11QXmppLogger11MessageTypeERK7QString(char *self, uint32_t t, char *msg) { }
void _ZN6QTimerC1EP7QObject(char *self, char *parent) { post_qobject_init(self, parent); post_timers++; }
void _ZN6QTimer5startEi(char *self, uint32_t ms) { post_timer_starts++; }
void _ZN6QTimer5startEv(char *self) { post_timer_starts++; }
void _ZN6QTimer4stopEv(char *self) { post_timer_stops++; post_last_stopped = self; }
void _ZN11QMetaObject10ConnectionD1Ev(char *self) { }
uint8_t _ZNK11QMetaObject10Connection18isConnected_helperEv(char *self) { return 1; }
void _ZN7QObject11connectImplEPKS_PPvS1_S3_PN9QtPrivate15QSlotObjectBaseEN2Qt14ConnectionTypeEPKiPK11QMetaObject(char *ret, char *sender, char *sig, char *recv, char *slot, char *slotobj, uint32_t type, char *types, char *mo) { post_connects++; *(char**)ret = slotobj; }
void _ZN7QObject7connectEPKS_PKcS1_S3_N2Qt14ConnectionTypeE(char *ret, char *sender, char *sig, char *recv, char *slot, uint32_t type) { post_connects++; *(char**)ret = sender; }
void vp_post_qobject(char *self) { post_qobject_init(self, 0); post_objects--; }
void vp_post_set_sender(char *o) { post_sender = o; }
char* vp_post_get_sender(void) { return post_sender; }
uint8_t vp_post_delete_later(char *o) { return PQOD(o)->delete_later; }
uint32_t vp_post_objects(void) { return post_objects; }           /* QObjects constructed by the code under test */
uint32_t vp_post_timers(void) { return post_timers; }             /* QTimer objects created ( = STUN transactions started) */
uint32_t vp_post_timer_stops(void) { return post_timer_stops; }
char* vp_post_last_stopped(void) { return post_last_stopped; }
/* QMap<QXmppStunTransaction*, ...> built by hand (<= 1 node) */
void vp_post_set_map_end(char *e) { post_map_end = e; }
char* _ZNK12QMapNodeBase8nextNodeEv(char *self) { ASSERT(self != post_map_end, "QMap iterator incremented past end()"); return post_map_end; }
/* QSet<quint16> (fixed-slot set of stun_models.c behind the d pointer): copies share (never modified afterwards by the code reached here) */
void _ZN5QHashIt15QHashDummyValueEC2ERKS1_(char *self, char *o) { *(char**)self = *(char**)o; }
char* _ZN5QHashIt15QHashDummyValueEaSERKS1_(char *self, char *o) { *(char**)self = *(char**)o; return self; }
void _ZN5QHashIt15QHashDummyValueED2Ev(char *self) { }

/* ---- QXmppJingleCandidate: value model ---- */
#ifdef HAVE_T_class_QHostAddress
struct pcand { uint32_t type, component, priority, port; struct vha host; };
#define PC(self) (*(struct pcand**)(self))
static struct pcand *pc_new(char *self) { struct pcand *c = malloc(sizeof(struct pcand)); ASSUME(c != 0); c->type = 0; c->component = 0; c->priority = 0; c->port = 0;
  c->host.proto = (uint32_t)-1; c->host.v4 = 0; for (int i = 0; i < 16; i++) c->host.v6[i] = 0; PC(self) = c; return c; }
void _ZN20QXmppJingleCandidateC1Ev(char *self) { pc_new(self); }
void _ZN20QXmppJingleCandidateC1ERKS_(char *self, char *o) { struct pcand *s = PC(o); struct pcand *c = pc_new(self); *c = *s; }
void _ZN20QXmppJingleCandidateC1EOS_(char *self, char *o) { struct pcand *s = PC(o); struct pcand *c = pc_new(self); *c = *s; }
void _ZN20QXmppJingleCandidateD1Ev(char *self) { }
char* _ZN20QXmppJingleCandidateaSERKS_(char *self, char *o) { struct pcand *s = PC(o); struct pcand *c = pc_new(self); *c = *s; return self; }
char* _ZN20QXmppJingleCandidateaSEOS_(char *self, char *o) { struct pcand *s = PC(o); struct pcand *c = pc_new(self); *c = *s; return self; }
uint32_t _ZNK20QXmppJingleCandidate4typeEv(char *self) { return PC(self)->type; }
uint32_t _ZNK20QXmppJingleCandidate9componentEv(char *self) { return PC(self)->component; }
uint32_t _ZNK20QXmppJingleCandidate8priorityEv(char *self) { return PC(self)->priority; }
uint16_t _ZNK20QXmppJingleCandidate4portEv(char *self) { return (uint16_t)PC(self)->port; }
void _ZNK20QXmppJingleCandidate4hostEv(char *ret, char *self) { struct vha *h = ha_new(ret, 0); *h = PC(self)->host; }
void _ZN20QXmppJingleCandidate7setTypeENS_4TypeE(char *self, uint32_t t) { PC(self)->type = t; }
void _ZN20QXmppJingleCandidate12setComponentEi(char *self, uint32_t c) { PC(self)->component = c; }
void _ZN20QXmppJingleCandidate11setPriorityEi(char *self, uint32_t p) { PC(self)->priority = p; }
void _ZN20QXmppJingleCandidate7setPortEt(char *self, uint16_t p) { PC(self)->port = p; }
void _ZN20QXmppJingleCandidate7setHostERK12QHostAddress(char *self, char *h) { PC(self)->host = *HA(h); }
void _ZN20QXmppJingleCandidate5setIdERK7QString(char *self, char *s) { }
void _ZN20QXmppJingleCandidate11setProtocolERK7QString(char *self, char *s) { }
void _ZN20QXmppJingleCandidate13setFoundationERK7QString(char *self, char *s) { }
void _ZNK12QHostAddress8toStringEv(char *ret, char *self) { *(QAD**)ret = SHARED_NULL; }      /* text for log lines only */

/* ---- QXmppIceTransport stand-in ---- */
#ifndef POST_WLOG
#define POST_WLOG 2
#endif
struct ptransport { char *vptr; char *qobject_d; char *local; };
struct pwrite { char *transport; QAD *data; struct vha host; uint32_t port; };
static struct pwrite post_wlog[POST_WLOG]; static uint32_t post_nwrites;
void vp_post_localCandidate(char *ret, char *self, uint32_t component) { struct pcand *c = pc_new(ret); *c = *PC(((struct ptransport*)self)->local); }
uint64_t vp_post_writeDatagram(char *self, char *data, char *host, uint16_t port) { uint32_t n = post_nwrites; ASSERT(n < POST_WLOG, "transport write log full");
  for (uint32_t j = 0; j < POST_WLOG; j++) { if (j == n) { post_wlog[j].transport = self; post_wlog[j].data = *(QAD**)data; post_wlog[j].host = *HA(host); post_wlog[j].port = port; } }
  post_nwrites = n + 1; return (*(QAD**)data)->f1; }
static char *ptransport_vtable[24] = { 0, 0, 0, 0, 0, 0, 0, 0, 0, 0, 0, 0, (char*)&vp_post_localCandidate, (char*)&vp_post_writeDatagram, 0, 0, 0, 0, 0, 0, 0, 0, 0, 0 };
void vp_post_transport(char *storage, char *local) { struct ptransport *t = (struct ptransport*)storage; t->vptr = (char*)ptransport_vtable; t->qobject_d = 0; t->local = local; }
uint32_t vp_post_writes(void) { return post_nwrites; }
char* vp_post_write_transport(uint32_t i) { ASSUME(i < POST_WLOG); return post_wlog[i].transport; }
uint8_t vp_post_write_data_is(uint32_t i, char *ba) { ASSUME(i < POST_WLOG); return post_wlog[i].data == *(QAD**)ba; }
uint8_t vp_post_write_host_is(uint32_t i, char *h) { ASSUME(i < POST_WLOG); struct vha *x = &post_wlog[i].host, *y = HA(h); return x->proto == y->proto && x->v4 == y->v4; }
uint32_t vp_post_write_port(uint32_t i) { ASSUME(i < POST_WLOG); return post_wlog[i].port; }
/* harness: candidate with the given fields, host = IPv4 address `v4` */
void vp_post_cand_set(char *self, uint32_t type, uint32_t component, uint32_t priority, uint32_t v4, uint32_t port) { struct pcand *c = PC(self); c->type = type; c->component = component; c->priority = priority; c->port = port; c->host.proto = 0; c->host.v4 = v4; }
uint8_t vp_post_cand_host_is4(char *self, uint32_t v4) { struct pcand *c = PC(self); return c->host.proto == 0 && c->host.v4 == v4; }
void vp_post_addr4(char *out, uint32_t v4) { HA(out)->proto = 0; HA(out)->v4 = v4; }
#endif

/* ---- QXmppUtils (not linked): random material ---- */
void _ZN10QXmppUtils19generateRandomBytesEi(char *ret, uint32_t n) { vp_fresh_bytes(ret, n, n); }
void _ZN10QXmppUtils18generateStanzaHashEi(char *ret, uint32_t n) { vp_fresh_ascii(ret, 2); }
void _ZN9QtPrivate12argToQStringE11QStringViewmPPKNS_7ArgBaseE(char *ret, uint64_t n, char *p, uint64_t nargs, char *args) { *(QAD**)ret = SHARED_NULL; }
#endif
