# C15 - ICE reacts only to authenticated checks: the kernels DESIGN.md "### C15" assigns to the STUN code.
# Harness and models are shared with C14 (../C14): (i) decode-implies-authenticated, (ii) candidate / pair priority formulas.
import importlib.util, os
_p = os.path.join(os.path.dirname(os.path.abspath(__file__)), '..', 'C14', 'spec.py')
_sp = importlib.util.spec_from_file_location('spec_C14_for_C15', _p); c14 = importlib.util.module_from_spec(_sp); _sp.loader.exec_module(c14)
S, MI, ANY, Q, T, QT = c14.S, c14.MI, c14.ANY, c14.Q, c14.T, c14.QT
MODELS = [m if m in ('qt_core.c', 'qt_list.c') else '../C14/' + m for m in c14.STUN_MODELS]

def AUTH(var, kmax, sym=0, tiers=QT):
    d = MI(var, kmax, sym=sym, tiers=tiers, name='auth_%s_k%d%s' % (var, kmax, '_len' if sym else '')); d['cdefs']['VP_CFG2'] = 1; return d

instances = [
    # (i) decode == true under a non-empty key  =>  decode verified a MESSAGE-INTEGRITY attribute
    ANY('h_auth_any', 'auth_any20', 20, 1, QT, 1), ANY('h_auth_any', 'auth_any24', 24, 1, QT, 2),
    ANY('h_auth_any', 'auth_any28', 28, 1, T, 2, timeout_s=2400, mem_gb=14, object_bits=12),
    AUTH('fp', 1), AUTH('fp', 1, sym=1), AUTH('mi', 2), AUTH('mi_fp', 1), AUTH('prio_mi', 1), AUTH('mi_prio', 1), AUTH('mi', 2, sym=1, tiers=T), AUTH('xaddr_mi', 1, tiers=T), AUTH('unk_mi', 1, tiers=T),
    # a keyed + fingerprinted message of the shape ICE sends (writeStun) is accepted by decode under the same password (also keeps encode in the program)
    c14.RT('rt_keyed_fp', 'ints', 2, 1, 1),
    # (ii) priorities
    S('prio_cand', 'h_prio_cand', bound='type 0..3, component 1..256, local preference 0..65535, all symbolic'),
    S('prio_pair', 'h_prio_pair', (0, 0, 0, 0), bound='both candidate priorities symbolic in 0..2^31-1, role symbolic'),
]
kf_instances = [
    dict(ANY('h_auth_any', 'kf_auth_any20', 20, 1, QT, 1), known_finding='stun_no_integrity'),
    dict(S('kf_prio_pair_full', 'h_prio_pair', (1, 0, 0, 0), bound='both candidate priorities symbolic in 0..2^32-1'), known_finding='pair_priority_wraps'),
]
HD_MODELS = ['../C14/stun_pre.c', 'qt_core.c', 'qt_list.c', '../C14/bytes_models.c', '../C14/stun_models.c', 'hd_models.c']
def HD(name, n, tiers=QT):
    return dict(name=name, entry='h_handle', unwind=24, timeout_s=300, mem_gb=4, model_loop_bound=44, tiers=tiers, cdefs={'QB_CAP': 40, 'VP_CFG0': n},
                bound='datagram of %d arbitrary bytes (type, length field, cookie, id symbolic); local/remote password each empty or 2 arbitrary ASCII characters; 0..1 pending transaction with arbitrary id on the receiving or another transport' % n)
SPEC = dict(
    property='C15',
    groups=[
        dict(name='stun', harness='../C14/h_stun.cpp', tus=[], models=MODELS, cand=c14.STUN_CAND, instances=instances),
        dict(name='handle', harness='h_handle.cpp', tus=[], models=HD_MODELS, cand=c14.STUN_CAND, instances=[HD('hd_key_20', 20), HD('hd_key_24', 24, T)]),
        dict(name='stun_kf', harness='../C14/h_stun.cpp', tus=[], models=MODELS, cand=c14.STUN_CAND, cxxdefs={'VP_DEMONSTRATE_KF': 1}, instances=kf_instances),
    ],
    bounds=['(i) arbitrary datagrams of 20 and 24 bytes (thorough: 28) with valid header length field; fixed-layout datagrams [FP], [MI], [MI,FP], [PRIORITY,MI], [MI,PRIORITY] with symbolic content; key 1..2 symbolic bytes',
            '(iii) handleDatagram key selection: one datagram of 20 (thorough: 24) arbitrary bytes; local and remote password each empty or 2 arbitrary ASCII characters; 0..1 pending transaction with arbitrary 12-byte id, registered for the receiving or for another transport; no candidate pairs',
            '(ii) candidate type 0..3, component 1..256, local preference 0..65535; pair priorities 0..2^31-1 each (RFC 5245 range)'],
    assumptions=['HMAC-SHA1 / CRC-32 are uninterpreted, functionally consistent functions (cut at QXmppUtils, see C14)',
                 '"verified" = decode itself computed HMAC(key, adjusted prefix) for a MESSAGE-INTEGRITY attribute and did not reject (the comparison itself is pinned by the C14 acc_* instances)',
                 'hd_key_*: the REAL QXmppIceComponent::handleDatagram and peekType on directly constructed private state (component, QXmppIcePrivate, one-node QMap built by hand); '
                 'QXmppStunMessage::decode is cut by a recorder that logs the key and returns false (assume-guarantee: what decode guarantees under a non-empty key is auth_*); '
                 'sender() is a QXmppIceTransport (qobject_cast = identity), datagramReceived() emission is counted, QMapNodeBase::nextNode is modelled for maps of <= 1 node',
                 'QXmppJingleCandidate is cut to {type, component, priority}; QXmppIceTransport::localCandidate answers with the given candidate'],
    outside=['what handleDatagram does AFTER a successful decode (pair creation, responses, nomination), transactionFinished, timers, sockets, and the liveness half of C15',
             'a datagram whose transaction id matches a pending transaction of the same transport is decoded with an EMPTY key by design of the code (responses to own requests are not authenticated): excluded from the hd_key_* claim',
             'STUN types with method bits >= 0x80 (type & 0xFE00 != 0): only "key is non-empty and is one of the two passwords" is asserted there, because the code selects by type & 0xFF00 while the class bit is 0x0100',
             'candidate priorities >= 2^31 (outside RFC 5245): CandidatePair::priority computes 2*max(G,D) in 32 bits and wraps (known finding pair_priority_wraps, demonstrated when listed)'],
)
