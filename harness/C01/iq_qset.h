// Class-level model of QSet<QString> (DESIGN 2.3 "class-level containers"; same idea as harness/C12/vp_slotmap.h), installed as a full
// specialisation BEFORE the qxmpp code that uses the set (QXmppRosterIq: groups of an item) is compiled.  Value semantics, capacity CAP,
// elements kept in insertion order at positions 0..n-1 (Qt: hash order, unspecified; the property compares sets and trees "up to sibling
// order", so any fixed order is a valid instance of Qt's contract), membership by QString equality.  Exceeding CAP is a MODEL failure.
#pragma once
#include <QString>
#include <QSet>
extern "C" void vp_iq_model_limit(bool ok);   // iq_env.c: ASSERT(ok, ...), ASSUME(ok)
#ifndef IQ_SET_CAP
#define IQ_SET_CAP 3
#endif
template<> class QSet<QString>
{
public:
    int n;
    QString key[IQ_SET_CAP];
    QSet() : n(0) { }
    QSet(const QSet &o) : n(o.n) { for (int i = 0; i < IQ_SET_CAP; i++) key[i] = o.key[i]; }
    QSet &operator=(const QSet &o) { n = o.n; for (int i = 0; i < IQ_SET_CAP; i++) key[i] = o.key[i]; return *this; }
    ~QSet() { }
    struct const_iterator {
        const QSet *s; int i;
        const QString &operator*() const { return s->key[i < IQ_SET_CAP ? i : 0]; }
        const QString *operator->() const { return &s->key[i < IQ_SET_CAP ? i : 0]; }
        bool operator==(const const_iterator &o) const { return i == o.i; }
        bool operator!=(const const_iterator &o) const { return i != o.i; }
        const_iterator &operator++() { ++i; return *this; }
        const_iterator operator++(int) { const_iterator c = *this; ++i; return c; }
    };
    typedef const_iterator iterator;
    const_iterator begin() const { return const_iterator { this, 0 }; }
    const_iterator end() const { return const_iterator { this, n }; }
    const_iterator constBegin() const { return begin(); }
    const_iterator constEnd() const { return end(); }
    const_iterator cbegin() const { return begin(); }
    const_iterator cend() const { return end(); }
    int size() const { return n; }
    int count() const { return n; }
    bool isEmpty() const { return n == 0; }
    bool contains(const QString &v) const { for (int i = 0; i < IQ_SET_CAP; i++) { if (i < n && key[i] == v) return true; } return false; }
    const_iterator insert(const QString &v)
    {
        for (int i = 0; i < IQ_SET_CAP; i++) { if (i < n && key[i] == v) return const_iterator { this, i }; }
        vp_iq_model_limit(n < IQ_SET_CAP);
        for (int i = 0; i < IQ_SET_CAP; i++) { if (i == n) key[i] = v; }      // literal indices only
        return const_iterator { this, n++ };
    }
    QSet &operator<<(const QString &v) { insert(v); return *this; }
    // harness-side construction of an input set: the caller guarantees (assumes) that v is not yet a member, so the size stays a constant for symex
    void vpInsertDistinct(const QString &v) { vp_iq_model_limit(n < IQ_SET_CAP); for (int i = 0; i < IQ_SET_CAP; i++) { if (i == n) key[i] = v; } n++; }
    bool operator==(const QSet &o) const
    {
        if (n != o.n) return false;
        for (int i = 0; i < IQ_SET_CAP; i++) { if (i < n && !o.contains(key[i])) return false; }
        return true;
    }
    bool operator!=(const QSet &o) const { return !(*this == o); }
};
