// C01 / st: QXmppPresence - the whole class through its public setters/getters, real toXml/parse (QXmppPresence.cpp, QXmppStanza.cpp,
// QXmppMucIq.cpp (QXmppMucItem), QXmppUtils.cpp) over the writer/DOM tree model.
#define ST_NEED_ELEMENT_STUB
#define ST_NEED_JINGLE_STUB
#include "QXmppPresence.h"
#include "st_common.h"

static void chkMucItem(const QXmppMucItem &a, const QXmppMucItem &b)
{
    vp_assert(b.affiliation() == a.affiliation(), "C01 QXmppPresence.mucItem.affiliation");
    vp_assert(b.role() == a.role(), "C01 QXmppPresence.mucItem.role");
    vp_assert(b.jid() == a.jid(), "C01 QXmppPresence.mucItem.jid");
    vp_assert(b.nick() == a.nick(), "C01 QXmppPresence.mucItem.nick");
    vp_assert(b.actor() == a.actor(), "C01 QXmppPresence.mucItem.actor");
    vp_assert(b.reason() == a.reason(), "C01 QXmppPresence.mucItem.reason");
}
// every public getter of the class (and of the QXmppStanza base)
static void chkPresence(const QXmppPresence &x, const QXmppPresence &y)
{
    stCheckEnvelope(x, y);
    vp_assert(y.type() == x.type(), "C01 QXmppPresence.type");
    vp_assert(y.availableStatusType() == x.availableStatusType(), "C01 QXmppPresence.availableStatusType");
    vp_assert(y.priority() == x.priority(), "C01 QXmppPresence.priority");
    vp_assert(y.statusText() == x.statusText(), "C01 QXmppPresence.statusText");
    chkMucItem(x.mucItem(), y.mucItem());
    vp_assert(y.mucPassword() == x.mucPassword(), "C01 QXmppPresence.mucPassword");
    vp_assert(y.isMucSupported() == x.isMucSupported(), "C01 QXmppPresence.isMucSupported");
    {
        const QList<int> a = x.mucStatusCodes(), b = y.mucStatusCodes();
        vp_assert(a.size() == b.size(), "C01 QXmppPresence.mucStatusCodes size");
        for (int i = 0; i < 2; i++) {
            if (i < a.size() && i < b.size()) {
                vp_assert(a.at(i) == b.at(i), "C01 QXmppPresence.mucStatusCodes[i]");
            }
        }
    }
    vp_assert(y.photoHash() == x.photoHash(), "C01 QXmppPresence.photoHash");
    vp_assert(y.vCardUpdateType() == x.vCardUpdateType(), "C01 QXmppPresence.vCardUpdateType");
    vp_assert(y.capabilityHash() == x.capabilityHash(), "C01 QXmppPresence.capabilityHash");
    vp_assert(y.capabilityNode() == x.capabilityNode(), "C01 QXmppPresence.capabilityNode");
    vp_assert(y.capabilityVer() == x.capabilityVer(), "C01 QXmppPresence.capabilityVer");
    vp_assert(y.capabilityExt().isEmpty(), "C01 QXmppPresence.capabilityExt (no setter: stays empty)");
    vp_assert(y.isPreparingMujiSession() == x.isPreparingMujiSession(), "C01 QXmppPresence.isPreparingMujiSession");
    vp_assert(y.mujiContents().isEmpty(), "C01 QXmppPresence.mujiContents (never set)");
    vp_assert(y.oldJid() == x.oldJid(), "C01 QXmppPresence.oldJid");
    vp_assert(y.lastUserInteraction() == x.lastUserInteraction(), "C01 QXmppPresence.lastUserInteraction");
    vp_assert(y.mixUserJid() == x.mixUserJid(), "C01 QXmppPresence.mixUserJid");
    vp_assert(y.mixUserNick() == x.mixUserNick(), "C01 QXmppPresence.mixUserNick");
    stCheckError(x.error(), y.error());
    vp_assert(y.extendedAddresses().isEmpty() && y.extensions().isEmpty(), "C01 QXmppPresence: no extended address / unknown extension appears from nowhere");
}
// Second pass.  Enum- and bool-valued fields of the parsed object come out of std::optional / branchy code and are not constants for symex
// although they were just ASSERTED equal to the (constant) originals: they are overwritten with the originals before re-serializing, so that
// the structure of the second document is concrete again.  Sound: if the assertion holds the assignment changes nothing, if it fails the
// instance is already a violation.  Strings, numbers, byte arrays, dates and lists are re-serialized as parsed.
static void pinPresence(const QXmppPresence &x, QXmppPresence &y)
{
    y.setType(x.type());
    y.setAvailableStatusType(x.availableStatusType());
    y.setVCardUpdateType(x.vCardUpdateType());
    y.setMucSupported(x.isMucSupported());
    y.setIsPreparingMujiSession(x.isPreparingMujiSession());
    QXmppMucItem it = y.mucItem();
    it.setAffiliation(x.mucItem().affiliation());
    it.setRole(x.mucItem().role());
    y.setMucItem(it);
    if (x.errorOptional()) {
        QXmppStanza::Error e = y.error();
        e.setType(x.error().type());
        e.setCondition(x.error().condition());
        y.setError(e);
    }
}
static void roundtrip(const QXmppPresence &x, bool symbolicShape = false)
{
    VpWriter w;
    x.toXml(w.writer());
    vp_st_phase();
    QXmppPresence y;
    y.parse(w.root());
    vp_st_phase();
    chkPresence(x, y);
    pinPresence(x, y);
    if (symbolicShape) {
        ST_FIXPOINT_SYM(w, y)
    } else {
        ST_FIXPOINT(w, y)
    }
}
// priority: `d->priority != 0` gates the <priority/> child and is not a constant for symex when the value is symbolic (a conditional child makes the child
// count symbolic: no verdict in 300 s even for a presence with nothing else).  Non-zero priorities are therefore boundary CONSTANTS chosen by the case.
static const int ST_PRIORITIES[8] = { 1, -1, 127, -128, 128, 32768, 2147483647, -2147483647 - 1 };

// core: envelope x type (8) x show (6) x status text empty/non-empty x priority zero/non-zero
//   VP_CASE: bit0 status text present (2 units), bit1 priority != 0 (bits 24-26: which of 1, -1, 127, -128, 128, 32768, INT_MAX, INT_MIN), bits2-4 type, bits5-7 show
extern "C" void h_st_pres_core()
{
    QXmppPresence x;
    stEnvelope(x);
    x.setType(QXmppPresence::Type(vp_case_u(2, 8) & 7));
    x.setAvailableStatusType(QXmppPresence::AvailableStatusType(vp_case_u(5, 6)));
    x.setStatusText(vpSymStringCase(0, 2));
    if (vp_case_bool(1)) {
        x.setPriority(ST_PRIORITIES[vp_case_u(24, 8)]);
    }
    roundtrip(x);
}
// MUC item: affiliation (6) x role (5) x actor / reason present; jid, nick 0..2 units
//   VP_CASE: bits0-2 affiliation, bits3-5 role, bit6 actor, bit7 reason, bit8 nick, bit9 jid non-empty (2 units)
extern "C" void h_st_pres_mucitem()
{
    QXmppPresence x;
    stEnvelope(x);
    QXmppMucItem it;
    it.setAffiliation(QXmppMucItem::Affiliation(vp_case_u(0, 8) % 6));
    it.setRole(QXmppMucItem::Role(vp_case_u(3, 8) % 5));
    it.setActor(vpSymStringCase(6, 2));
    it.setReason(vpSymStringCase(7, 2));
    it.setNick(vpSymStringCase(8, 2));
    it.setJid(vpSymStringCase(9, 2));
    // an item whose six fields are all empty/unspecified "is null" and is not written at all (case 0 with affiliation/role unspecified)
    x.setMucItem(it);
    roundtrip(x);
}
// extensions of the presence, one structural bit each
//   bit0 mucSupported, bit1 mucPassword (2 units; only with bit0), bit2 mucItem (nick 1 unit, role participant), bits3-4 number of status codes (0..2; 3 -> 2),
//   bit5 caps (node, ver, hash all non-empty), bits6-7 vCardUpdateType (photoHash 2 bytes iff ValidPhoto), bit8 Muji preparing, bit9 oldJid,
//   bit10 lastUserInteraction (valid), bit11 mixUserJid, bit12 mixUserNick, bit13 stanza error (cancel, item-not-found, text)
extern "C" void h_st_pres_ext()
{
    QXmppPresence x;
    stEnvelope(x);
    if (vp_case_bool(0)) {
        x.setMucSupported(true);
        x.setMucPassword(vpSymStringCase(1, 2));
    }
    if (vp_case_bool(2)) {
        QXmppMucItem it;
        it.setNick(vpSymStringExact(1));
        it.setRole(QXmppMucItem::ParticipantRole);
        x.setMucItem(it);
    }
    {
        unsigned n = vp_case_u(3, 4);
        n = n > 2 ? 2 : n;
        QList<int> codes;
        for (unsigned i = 0; i < 2; i++) {
            if (i < n) {
                codes << vp_int();
            }
        }
        x.setMucStatusCodes(codes);
    }
    if (vp_case_bool(5)) {
        x.setCapabilityNode(vpSymStringExact(2));
        x.setCapabilityVer(vpSymBytesExact(2));
        x.setCapabilityHash(vpSymStringExact(1));
    }
    {
        auto t = QXmppPresence::VCardUpdateType(vp_case_u(6, 4));
        x.setVCardUpdateType(t);
        if (t == QXmppPresence::VCardUpdateValidPhoto) {
            x.setPhotoHash(vpSymBytesExact(2));
        }
    }
    x.setIsPreparingMujiSession(vp_case_bool(8));
    x.setOldJid(vpSymStringCase(9, 2));
    if (vp_case_bool(10)) {
        x.setLastUserInteraction(stSymDateTime());
    }
    x.setMixUserJid(vpSymStringCase(11, 2));
    x.setMixUserNick(vpSymStringCase(12, 1));
    if (vp_case_bool(13)) {
        x.setError(QXmppStanza::Error(QXmppStanza::Error::Cancel, QXmppStanza::Error::ItemNotFound, vpSymStringExact(1)));
    }
    roundtrip(x);
}

// XEP-0033 extended addresses of the stanza (QXmppStanza::extensionsToXml / QXmppStanza::parse), carried by a presence.
//   Only VALID addresses are in scope (QXmppExtendedAddress::isValid: type and jid non-empty - parse drops the others by design).
//   VP_CASE: bits0-1 number of addresses (0..2), per address k: bit 2+2k delivered, bit 3+2k description non-empty; type 1 unit, jid 2 units
extern "C" void h_st_addresses()
{
    QXmppPresence x;
    stEnvelope(x);
    unsigned n = vp_case_u(0, 4);
    n = n > 2 ? 2 : n;
    QList<QXmppExtendedAddress> l;
    for (unsigned k = 0; k < 2; k++) {
        if (k < n) {
            QXmppExtendedAddress a;
            a.setType(vpSymStringExact(1));
            a.setJid(vpSymStringExact(2));
            a.setDelivered(vp_case_bool(2 + 2 * k));
            a.setDescription(vpSymStringCase(3 + 2 * k, 2));
            l << a;
        }
    }
    x.setExtendedAddresses(l);
    VpWriter w;
    x.toXml(w.writer());
    vp_st_phase();
    QXmppPresence y;
    y.parse(w.root());
    vp_st_phase();
    stCheckEnvelope(x, y);
    const QList<QXmppExtendedAddress> r = y.extendedAddresses();
    vp_assert(r.size() == l.size(), "C01 QXmppStanza.extendedAddresses size");
    for (int k = 0; k < 2; k++) {
        if (k < r.size() && k < l.size()) {
            vp_assert(r.at(k).type() == l.at(k).type(), "C01 QXmppExtendedAddress.type");
            vp_assert(r.at(k).jid() == l.at(k).jid(), "C01 QXmppExtendedAddress.jid");
            vp_assert(r.at(k).description() == l.at(k).description(), "C01 QXmppExtendedAddress.description");
            vp_assert(r.at(k).isDelivered() == l.at(k).isDelivered(), "C01 QXmppExtendedAddress.isDelivered");
        }
    }
    vp_assert(y.extensions().isEmpty() && y.type() == QXmppPresence::Available, "C01 QXmppStanza: nothing else appears");
    // second pass: `delivered` is pinned (asserted equal above), see pinPresence
    QList<QXmppExtendedAddress> r2;
    for (int k = 0; k < 2; k++) {
        if (k < r.size() && k < l.size()) {
            QXmppExtendedAddress a = r.at(k);
            a.setDelivered(l.at(k).isDelivered());
            r2 << a;
        }
    }
    y.setExtendedAddresses(r2);
    y.setType(x.type());
    ST_FIXPOINT(w, y)
}
