/* C01 / IQ payloads: fork of models/qt_dom.c (same tree type and API) with three additions that the IQ payload codecs need and that
   were CHECKED AGAINST libQt5Xml 5.15 with a probe program (write with QXmlStreamWriter, read with QDomDocument::setContent(text, true)):
   (a) writeAttribute("xmlns", v) is a default-namespace declaration of the element (namespaceURI() == v, no attribute "xmlns" in the DOM);
   (b) an attribute written with the reserved prefix "xml:" ("xml:lang") is stored under its LOCAL name: attribute("lang") finds it,
       attribute("xml:lang") does not; attributes().item(i).nodeName() gives the qualified name "xml:lang";
   (c) QDomNamedNodeMap (attributes(), length(), item(i)) and QDomNode::nodeValue() for the attribute nodes it hands out;
   (d) text() of an existing element without character data is empty but NOT null (of a null element: null).
   libQt5Xml boundary: QDomNode/QDomElement as a bounded tree, and QXmlStreamWriter writing into the same tree type
   (serialise -> parse never goes through text: Qt's escaping/tokenising are trusted, see DESIGN 2.3).
   Namespaces: an element's namespaceURI() is its own default-namespace declaration or, failing that, its parent's. */
#ifdef HAVE_T_struct_QArrayData
#ifndef DOM_MAXATTR
#define DOM_MAXATTR 16
#endif
#ifndef DOM_MAXCH
#define DOM_MAXCH 6
#endif
#ifndef DOM_MAXDEPTH
#define DOM_MAXDEPTH 7
#endif
/* attributes live in a slot fixed by their (interned) name, so conditional writes never shift later attributes */
struct dnode { QAD *tag, *ns, *text; uint32_t nattr; uint8_t isattr; uint8_t has[DOM_MAXATTR]; uint8_t pfx[DOM_MAXATTR]; QAD *av[DOM_MAXATTR]; uint32_t nch; struct dnode *ch[DOM_MAXCH]; struct dnode *parent; uint32_t idx; uint32_t ntext; };
static struct dnode *dn_new(void) { struct dnode *n = malloc(sizeof(struct dnode)); ASSUME(n != 0); n->tag = SHARED_NULL; n->ns = SHARED_NULL; n->text = SHARED_NULL; n->nattr = 0; n->isattr = 0; for (uint32_t i = 0; i < DOM_MAXATTR; i++) { n->has[i] = 0; n->pfx[i] = 0; n->av[i] = SHARED_NULL; } n->nch = 0; n->parent = 0; n->idx = 0; n->ntext = 0; return n; }
#define DN(el) (*(struct dnode**)(el))
/* ---- QDomNode / QDomElement ---- */
void _ZN8QDomNodeC2Ev(char *self) { DN(self) = 0; }
void _ZN8QDomNodeC1Ev(char *self) { DN(self) = 0; }
void _ZN8QDomNodeC2ERKS_(char *self, char *o) { DN(self) = DN(o); }
void _ZN8QDomNodeC1ERKS_(char *self, char *o) { DN(self) = DN(o); }
void _ZN8QDomNodeD2Ev(char *self) { }
void _ZN8QDomNodeD1Ev(char *self) { }
char* _ZN8QDomNodeaSERKS_(char *self, char *o) { DN(self) = DN(o); return self; }
void _ZN11QDomElementC1Ev(char *self) { DN(self) = 0; }
void _ZN11QDomElementC2Ev(char *self) { DN(self) = 0; }
void _ZN11QDomElementC1ERKS_(char *self, char *o) { DN(self) = DN(o); }
void _ZN11QDomElementC2ERKS_(char *self, char *o) { DN(self) = DN(o); }
char* _ZN11QDomElementaSERKS_(char *self, char *o) { DN(self) = DN(o); return self; }
uint8_t _ZNK8QDomNode6isNullEv(char *self) { return DN(self) == 0; }
uint8_t _ZNK8QDomNode9isElementEv(char *self) { return DN(self) != 0 && !DN(self)->isattr; }
uint8_t _ZNK8QDomNode6isTextEv(char *self) { return 0; }
void _ZNK8QDomNode9toElementEv(char *ret, char *self) { DN(ret) = DN(self); }
uint8_t _ZNK8QDomNodeeqERKS_(char *a, char *b) { return DN(a) == DN(b); }
uint8_t _ZNK8QDomNodeneERKS_(char *a, char *b) { return DN(a) != DN(b); }
void _ZNK11QDomElement7tagNameEv(char *ret, char *el) { struct dnode *n = DN(el); *(QAD**)ret = n ? qad_ref(n->tag) : SHARED_NULL; }
void _ZNK8QDomNode8nodeNameEv(char *ret, char *el) { struct dnode *n = DN(el); *(QAD**)ret = n ? qad_ref(n->tag) : SHARED_NULL; }
void _ZNK8QDomNode9localNameEv(char *ret, char *el) { struct dnode *n = DN(el); *(QAD**)ret = n ? qad_ref(n->tag) : SHARED_NULL; }
void _ZNK8QDomNode12namespaceURIEv(char *ret, char *el) { struct dnode *n = DN(el); *(QAD**)ret = n ? qad_ref(n->ns) : SHARED_NULL; }
/* (d) text() of an existing element without character data is the EMPTY, NOT NULL string (Qt: QDomElementPrivate::text() starts from QString("")); of a null element the null string */
void _ZNK11QDomElement4textEv(char *ret, char *el) { struct dnode *n = DN(el); if (!n) { *(QAD**)ret = SHARED_NULL; return; } if (n->text->f1 == 0) { QAD *e = qs_new(0, 0); qs_seal(e, 1); *(QAD**)ret = e; return; } *(QAD**)ret = qad_ref(n->text); }
/* slot = hash of the name's content with linear probing: path-independent unless two names collide */
static QAD *attr_names[DOM_MAXATTR];
static uint32_t attr_hash(QAD *s) { uint32_t n = s->f1; const uint16_t *c = qs_chars(s); uint32_t h = n * 7; if (n > 0) h += c[0] * 31 + c[n - 1] * 13; if (n > 1) h += c[1] * 17; if (n > 2) h += c[2] * 5; return h % DOM_MAXATTR; }
static int vpl_attr_slot(QAD *name, int add) { uint32_t h = attr_hash(name);
  for (uint32_t k = 0; k < DOM_MAXATTR; k++) { uint32_t i = (h + k) % DOM_MAXATTR; if (!attr_names[i]) { if (!add) return -1; attr_names[i] = qad_ref(name); return (int)i; } if (d_eq(attr_names[i], name)) return (int)i; }
  ASSERT(0, "DOM model: too many distinct attribute names"); ASSUME(0); return -1; }
static int dn_attr(struct dnode *n, QAD *name) { if (!n) return -1; int s = vpl_attr_slot(name, 0); if (s < 0 || !n->has[s]) return -1; return s; }
void _ZNK11QDomElement9attributeERK7QStringS2_(char *ret, char *el, char *name, char *def) { struct dnode *n = DN(el); int i = dn_attr(n, *(QAD**)name);
  *(QAD**)ret = i >= 0 ? qad_ref(n->av[i]) : qad_ref(*(QAD**)def); }
uint8_t _ZNK11QDomElement12hasAttributeERK7QString(char *el, char *name) { return dn_attr(DN(el), *(QAD**)name) >= 0; }
static struct dnode *dn_child_from(struct dnode *n, uint32_t from, QAD *tag) { if (!n) return 0;
  for (uint32_t i = 0; i < DOM_MAXCH; i++) { if (i >= n->nch) break; if (i >= from && (!tag || tag->f1 == 0 || d_eq(n->ch[i]->tag, tag))) return n->ch[i]; } return 0; }
void _ZNK8QDomNode17firstChildElementERK7QString(char *ret, char *el, char *tag) { DN(ret) = dn_child_from(DN(el), 0, *(QAD**)tag); }
void _ZNK8QDomNode18nextSiblingElementERK7QString(char *ret, char *el, char *tag) { struct dnode *n = DN(el); DN(ret) = n && n->parent ? dn_child_from(n->parent, n->idx + 1, *(QAD**)tag) : 0; }
/* no loop and no early return here: with concrete child counts the results stay constants for symex, so the real iteration
   `for (c = el.firstChild(); !c.isNull(); c = c.nextSibling())` ends after exactly nch rounds instead of running to the unwind bound */
/* every array access at a LITERAL index (a symbolic `ch[idx+1]` on a merged node pointer cost C11 1 GB -> 7 GB, measured): the
   loop has no early exit, so with constant (p, i) it folds to one element and with symbolic ones to an if-then-else chain */
static struct dnode *dn_child_at(struct dnode *p, uint32_t i) { struct dnode *r = 0;
  if (p) { for (uint32_t k = 0; k < DOM_MAXCH; k++) { if (k == i && k < p->nch) r = p->ch[k]; } } return r; }
#define DN_CHILD_AT(p, i) dn_child_at((p), (i))
void _ZNK8QDomNode10firstChildEv(char *ret, char *el) { struct dnode *n = DN(el); DN(ret) = DN_CHILD_AT(n, 0u); }
void _ZNK8QDomNode11nextSiblingEv(char *ret, char *el) { struct dnode *n = DN(el); DN(ret) = n ? DN_CHILD_AT(n->parent, n->idx + 1u) : (struct dnode*)0; }
void _ZNK8QDomNode10parentNodeEv(char *ret, char *el) { struct dnode *n = DN(el); DN(ret) = n ? n->parent : 0; }
uint8_t _ZNK8QDomNode13hasChildNodesEv(char *el) { struct dnode *n = DN(el); return n && (n->nch > 0 || n->text->f1 > 0); }
/* ---- tree building (writer and harness) ---- */
static void dn_append(struct dnode *p, struct dnode *c) { ASSERT(p->nch < DOM_MAXCH, "DOM model: too many children"); c->parent = p; c->idx = p->nch; p->ch[p->nch++] = c; }
static void dn_set_attr(struct dnode *n, QAD *name, QAD *val) { int s = vpl_attr_slot(name, 1); if (!n->has[s]) { n->has[s] = 1; n->nattr++; } n->av[s] = qad_ref(val); }
void vp_dom_new(char *out, char *tag, char *ns) { struct dnode *n = dn_new(); n->tag = qad_ref(*(QAD**)tag); n->ns = qad_ref(*(QAD**)ns); DN(out) = n; }
void vp_dom_set_attr(char *el, char *name, char *val) { dn_set_attr(DN(el), *(QAD**)name, *(QAD**)val); }
void vp_dom_set_text(char *el, char *text) { DN(el)->text = qad_ref(*(QAD**)text); }
void vp_dom_append(char *parent, char *child) { struct dnode *c = DN(child); if (c->ns->f1 == 0) c->ns = DN(parent)->ns; dn_append(DN(parent), c); }
void _ZN11QDomElement12setAttributeERK7QStringS2_(char *el, char *name, char *val) { ASSERT(DN(el) != 0, "setAttribute on null element"); dn_set_attr(DN(el), *(QAD**)name, *(QAD**)val); }
/* ---- QXmlStreamWriter ---- */
struct wr { struct dnode *root; struct dnode *stack[DOM_MAXDEPTH]; uint32_t depth; uint32_t done; uint32_t raw; };
#define WR(w) (*(struct wr**)(w))
void vp_writer_init(char *w) { struct wr *x = malloc(sizeof(struct wr)); ASSUME(x != 0); x->root = 0; x->depth = 0; x->done = 0; x->raw = 0; WR(w) = x; }
static struct dnode *wr_open(struct wr *x, QAD *tag, QAD *ns) { ASSERT(x->depth < DOM_MAXDEPTH, "writer model: nesting too deep"); struct dnode *n = dn_new(); n->tag = qad_ref(tag);
  if (x->depth == 0) { VP_ASSERT(x->root == 0, "writer: a second document element is written (not well-formed)"); x->root = n; n->ns = ns ? qad_ref(ns) : SHARED_NULL; }
  else { struct dnode *p = x->stack[x->depth - 1]; n->ns = ns ? qad_ref(ns) : p->ns; dn_append(p, n); }
  x->stack[x->depth++] = n; return n; }
static struct dnode *wr_cur(struct wr *x) { VP_ASSERT(x->depth > 0, "writer: attribute/text/end written outside any element (not well-formed)"); ASSUME(x->depth > 0); return x->stack[x->depth - 1]; }
void _ZN16QXmlStreamWriter17writeStartElementERK7QString(char *w, char *name) { wr_open(WR(w), *(QAD**)name, 0); }
void _ZN16QXmlStreamWriter17writeStartElementERK7QStringS2_(char *w, char *ns, char *name) { wr_open(WR(w), *(QAD**)name, *(QAD**)ns); }
void _ZN16QXmlStreamWriter15writeEndElementEv(char *w) { struct wr *x = WR(w); wr_cur(x); x->depth--; }
void _ZN16QXmlStreamWriter17writeEmptyElementERK7QString(char *w, char *name) { struct wr *x = WR(w); wr_open(x, *(QAD**)name, 0); x->depth--; }
void _ZN16QXmlStreamWriter21writeDefaultNamespaceERK7QString(char *w, char *ns) { struct dnode *n = wr_cur(WR(w)); VP_ASSERT(n->nch == 0 && n->text->f1 == 0, "writer: namespace declared after content"); n->ns = qad_ref(*(QAD**)ns); }
/* (b) reserved prefix "xml:": key = local name, flag pfx; (a) "xmlns" = default-namespace declaration */
static int iq_is_xml_prefixed(QAD *name) { const uint16_t *c = qs_chars(name); return name->f1 > 4 && c[0] == 'x' && c[1] == 'm' && c[2] == 'l' && c[3] == ':'; }
static int iq_is_xmlns(QAD *name) { const uint16_t *c = qs_chars(name); return name->f1 == 5 && c[0] == 'x' && c[1] == 'm' && c[2] == 'l' && c[3] == 'n' && c[4] == 's'; }
static QAD *iq_local_name(QAD *name) { uint32_t n = name->f1 - 4; QAD *d = qs_new(n, n); for (uint32_t i = 0; i < QS_CAP; i++) { if (i >= n) break; SD(d)[i] = qs_chars(name)[i + 4]; } qs_seal(d, 0); return d; }
static QAD *iq_qualified_name(QAD *local) { uint32_t n = local->f1 + 4; QAD *d = qs_new(n, n); SD(d)[0] = 'x'; SD(d)[1] = 'm'; SD(d)[2] = 'l'; SD(d)[3] = ':'; for (uint32_t i = 0; i < QS_CAP - 4; i++) { if (i >= local->f1) break; SD(d)[i + 4] = qs_chars(local)[i]; } qs_seal(d, 0); return d; }
void _ZN16QXmlStreamWriter14writeAttributeERK7QStringS2_(char *w, char *name, char *val) { struct dnode *n = wr_cur(WR(w)); VP_ASSERT(n->nch == 0 && n->text->f1 == 0, "writer: attribute written after content");
  QAD *nm = *(QAD**)name;
  if (iq_is_xmlns(nm)) { n->ns = qad_ref(*(QAD**)val); return; }
  int p = iq_is_xml_prefixed(nm); if (p) nm = iq_local_name(nm);
  VP_ASSERT(dn_attr(n, nm) < 0, "writer: duplicate attribute (not well-formed)"); dn_set_attr(n, nm, *(QAD**)val); if (p) { int s = vpl_attr_slot(nm, 0); n->pfx[s] = 1; } }
void _ZN16QXmlStreamWriter15writeCharactersERK7QString(char *w, char *t) { struct dnode *n = wr_cur(WR(w)); QAD *s = *(QAD**)t; if (s->f1 == 0) return;
  ASSERT(n->text->f1 == 0, "writer model: one text run per element"); n->text = qad_ref(s); }
void _ZN16QXmlStreamWriter16writeTextElementERK7QStringS2_(char *w, char *name, char *t) { struct wr *x = WR(w); struct dnode *n = wr_open(x, *(QAD**)name, 0); n->text = qad_ref(*(QAD**)t); x->depth--; }
void _ZN16QXmlStreamWriter18writeStartDocumentEv(char *w) { }
void _ZN16QXmlStreamWriter16writeEndDocumentEv(char *w) { struct wr *x = WR(w); x->depth = 0; }
void vp_writer_root(char *w, char *el) { struct wr *x = WR(w); VP_ASSERT(x->root != 0 && x->depth == 0, "writer: document element is complete and balanced"); ASSUME(x->root != 0); DN(el) = x->root; }
uint8_t vp_writer_balanced(char *w) { struct wr *x = WR(w); return x->depth == 0; }
/* ---- (c) QDomNamedNodeMap: one pointer to the element; item(i) = i-th present attribute in slot order (Qt: hash order, unspecified) as a
   node with isattr = 1, tag = qualified name, text = value ---- */
void _ZNK11QDomElement10attributesEv(char *ret, char *el) { DN(ret) = DN(el); }
void _ZN16QDomNamedNodeMapC1ERKS_(char *self, char *o) { DN(self) = DN(o); }
void _ZN16QDomNamedNodeMapC2ERKS_(char *self, char *o) { DN(self) = DN(o); }
void _ZN16QDomNamedNodeMapD1Ev(char *self) { }
void _ZN16QDomNamedNodeMapD2Ev(char *self) { }
uint32_t _ZNK16QDomNamedNodeMap6lengthEv(char *self) { struct dnode *n = DN(self); return n ? n->nattr : 0; }
void _ZNK16QDomNamedNodeMap4itemEi(char *ret, char *self, uint32_t idx) { struct dnode *n = DN(self); struct dnode *r = 0; uint32_t k = 0;
  if (n) { for (uint32_t s = 0; s < DOM_MAXATTR; s++) { if (n->has[s]) { if (k == idx) { r = dn_new(); r->isattr = 1; r->tag = n->pfx[s] ? iq_qualified_name(attr_names[s]) : attr_names[s]; r->text = n->av[s]; } k++; } } }
  DN(ret) = r; }
void _ZNK8QDomNode9nodeValueEv(char *ret, char *el) { struct dnode *n = DN(el); *(QAD**)ret = (n && n->isattr) ? qad_ref(n->text) : SHARED_NULL; }
/* ---- tree comparison ---- */
static int tree_eq_walk(struct dnode *a, struct dnode *b, int contents);
static int tree_eq1(struct dnode *a, struct dnode *b, int contents) {
  if (!a || !b) return a == b;
  if (!d_eq(a->tag, b->tag) || !d_eq(a->ns, b->ns) || a->nattr != b->nattr || a->nch != b->nch) return 0;
  if (contents ? !d_eq(a->text, b->text) : ((a->text->f1 == 0) != (b->text->f1 == 0))) return 0;
  for (uint32_t i = 0; i < DOM_MAXATTR; i++) { if (a->has[i] != b->has[i] || a->pfx[i] != b->pfx[i]) return 0; if (contents && a->has[i] && !d_eq(a->av[i], b->av[i])) return 0; }
  return 1; }
static int tree_eq_walk(struct dnode *a, struct dnode *b, int contents) {
  /* iterative pre-order walk over both trees in lock step, 6 levels (iq > pubsub > subscriptions > subscription > subscribe-options > required) */
  if (!tree_eq1(a, b, contents)) return 0;
  for (uint32_t i = 0; i < DOM_MAXCH; i++) { if (i >= a->nch) break; struct dnode *ca = a->ch[i], *cb = b->ch[i]; if (!tree_eq1(ca, cb, contents)) return 0;
    for (uint32_t j = 0; j < DOM_MAXCH; j++) { if (j >= ca->nch) break; struct dnode *ga = ca->ch[j], *gb = cb->ch[j]; if (!tree_eq1(ga, gb, contents)) return 0;
      for (uint32_t k = 0; k < DOM_MAXCH; k++) { if (k >= ga->nch) break; struct dnode *ha = ga->ch[k], *hb = gb->ch[k]; if (!tree_eq1(ha, hb, contents)) return 0;
        for (uint32_t l = 0; l < DOM_MAXCH; l++) { if (l >= ha->nch) break; struct dnode *pa = ha->ch[l], *pb = hb->ch[l]; if (!tree_eq1(pa, pb, contents)) return 0;
          for (uint32_t m = 0; m < DOM_MAXCH; m++) { if (m >= pa->nch) break; struct dnode *qa = pa->ch[m], *qb = pb->ch[m]; if (!tree_eq1(qa, qb, contents)) return 0; ASSERT(qa->nch == 0, "tree compare: depth > 6"); } } } } }
  return 1; }
uint8_t vp_dom_equal(char *a, char *b) { return tree_eq_walk(DN(a), DN(b), 1); }
uint8_t vp_dom_same_shape(char *a, char *b) { return tree_eq_walk(DN(a), DN(b), 0); }
#endif
