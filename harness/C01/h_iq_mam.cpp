// C01 / IQ payloads: QXmppMamQueryIq / QXmppMamResultIq with QXmppResultSetQuery / QXmppResultSetReply (XEP-0313, XEP-0059); the data form stays empty.
// VP_CASE: [0..1] iq type, [2..4] id / to / from non-empty
#include "iq_common.h"
#include "QXmppMamIq.h"
#include "QXmppResultSet.h"
#include "QXmppDataForm.h"

// null / empty-but-set / 2 units: QXmppResultSetQuery distinguishes a null string (element absent) from an empty one (<before/> = "last page", XEP-0059 2.5)
static QString rsmString(unsigned shift) { unsigned k = CU(shift, 4) % 3; if (k == 0) return QString(); if (k == 1) return QString(QLatin1String("")); return vpSymStringExact(2); }
// a count/index/max value: the sign of the value gates an element (`if (m_max >= 0)`), so it has to be a constant for symex: -1 (unset), 0, 1, INT_MAX as a
// structural case (numbers are abstract strings: QString::number / toInt are inverse by contract, so any other non-negative value behaves like these)
static const int RSM_INTS[4] = { -1, 0, 1, 2147483647 };
#define rsmInt(shift) RSM_INTS[CU((shift), 4)]

// [5] node, [6] queryId non-empty, [7] result-set query present; then [8..9] max, [10..11] index (-1, 0, 1, INT_MAX), [12..13] after, [14..15] before (0 null, 1 empty, 2 two units)
extern "C" void h_iq_mam_query()
{
    QXmppMamQueryIq x; iqEnvelope(x, 0, 2);
    x.setNode(IQS(5)); x.setQueryId(IQS(6));
    QXmppResultSetQuery q;
    if (CB(7)) { q.setMax(rsmInt(8)); q.setIndex(rsmInt(10)); q.setAfter(rsmString(12)); q.setBefore(rsmString(14)); x.setResultSetQuery(q); }
    QXmppMamQueryIq y; IQ_ROUNDTRIP(x, y)
    iqEnvelopeEq(x, y);
    vp_assert(y.node() == x.node(), "C01 QXmppMamQueryIq.node"); vp_assert(y.queryId() == x.queryId(), "C01 QXmppMamQueryIq.queryId");
    const QXmppResultSetQuery r = y.resultSetQuery();
    vp_assert(r.isNull() == q.isNull(), "C01 QXmppResultSetQuery.isNull");
    vp_assert(r.max() == q.max(), "C01 QXmppResultSetQuery.max"); vp_assert(r.index() == q.index(), "C01 QXmppResultSetQuery.index");
    vp_assert(r.after() == q.after() && r.after().isNull() == q.after().isNull(), "C01 QXmppResultSetQuery.after (null = absent, empty = <after/>)");
    vp_assert(r.before() == q.before() && r.before().isNull() == q.before().isNull(), "C01 QXmppResultSetQuery.before (null = absent, empty = <before/>)");
    vp_assert(y.form().isNull(), "C01 QXmppMamQueryIq.form stays empty");
    vp_assert(QXmppMamQueryIq::isMamQueryIq(t1), "C01 QXmppMamQueryIq: own output recognised by isMamQueryIq");
    IQ_FIXPOINT(y)
}
// [5] complete, [6] result-set reply present; then [7..8] count, [9..10] index (-1, 0, 1, INT_MAX), [11..12] first, [13..14] last (0 null, 1 empty, 2 two units)
extern "C" void h_iq_mam_result()
{
    QXmppMamResultIq x; iqEnvelope(x, 0, 2);
    x.setComplete(CB(5));
    QXmppResultSetReply q;
    if (CB(6)) { q.setCount(rsmInt(7)); q.setIndex(rsmInt(9)); q.setFirst(rsmString(11)); q.setLast(rsmString(13)); x.setResultSetReply(q); }
    QXmppMamResultIq y; IQ_ROUNDTRIP(x, y)
    iqEnvelopeEq(x, y);
    vp_assert(y.complete() == x.complete(), "C01 QXmppMamResultIq.complete");
    const QXmppResultSetReply r = y.resultSetReply();
    vp_assert(r.isNull() == q.isNull(), "C01 QXmppResultSetReply.isNull");
    vp_assert(r.count() == q.count(), "C01 QXmppResultSetReply.count"); vp_assert(r.index() == q.index(), "C01 QXmppResultSetReply.index");
    vp_assert(r.first() == q.first(), "C01 QXmppResultSetReply.first"); vp_assert(r.last() == q.last(), "C01 QXmppResultSetReply.last");
    vp_assert(QXmppMamResultIq::isMamResultIq(t1), "C01 QXmppMamResultIq: own output recognised by isMamResultIq");
    IQ_FIXPOINT(y)
}
