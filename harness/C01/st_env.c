/* C01/st environment, C side (after qt_core.c, qt_list.c, st_pre.c, qt_dom.c: one translation unit) */
#undef _ZN16QXmlStreamWriter14writeAttributeERK7QStringS2_
/* namespace processing of the predefined xml: prefix (see st_pre.c): the attribute is keyed by its local name */
void _ZN16QXmlStreamWriter14writeAttributeERK7QStringS2_(char *w, char *name, char *val) { QAD *n = *(QAD**)name; const uint16_t *c = qs_chars(n);
  if (n->f1 > 4 && c[0] == 'x' && c[1] == 'm' && c[2] == 'l' && c[3] == ':') { QAD *loc = qs_from(c + 4, n->f1 - 4); char *lp = (char*)loc; st_shared_writeAttribute(w, (char*)&lp, val); return; }
  st_shared_writeAttribute(w, name, val); }
/* ---- tree helpers ---- */
uint32_t vp_st_nch(char *el) { struct dnode *n = DN(el); return n ? n->nch : 0; }
void vp_st_child(char *el, uint32_t i, char *out) { struct dnode *n = DN(el); DN(out) = (n && i < n->nch && i < DOM_MAXCH) ? n->ch[i] : 0; }
uint32_t vp_st_nattr(char *el) { struct dnode *n = DN(el); return n ? n->nattr : 0; }
/* ---- QDateTime / QTime / QTimeZone (libQt5Core): abstract values (same contract as harness/C17/c17_models.c).  A QDateTime is a pointer to an
   immutable ghost record (null pointer = null date-time); its text form is an abstract number string carrying the value, so that
   fromString(toString(x)) == x for valid x; any other text parses to an arbitrary (possibly invalid) date-time.  Every value is UTC. ---- */
struct st_dt { uint8_t valid; uint64_t ms; };
#define DT(p) (*(struct st_dt**)(p))
static struct st_dt *st_dt_new(uint8_t valid, uint64_t ms) { struct st_dt *d = malloc(sizeof(struct st_dt)); ASSUME(d != 0); d->valid = valid; d->ms = ms; return d; }
void vp_st_sym_datetime(char *out) { DT(out) = st_dt_new(1, vp_u64()); }
void vp_st_invalid_datetime(char *out) { DT(out) = st_dt_new(0, vp_u64()); }
void _ZN9QDateTimeC1Ev(char *self) { DT(self) = 0; }
void _ZN9QDateTimeC2Ev(char *self) { DT(self) = 0; }
void _ZN9QDateTimeC1ERKS_(char *self, char *o) { DT(self) = DT(o); }
void _ZN9QDateTimeC2ERKS_(char *self, char *o) { DT(self) = DT(o); }
void _ZN9QDateTimeC1EOS_(char *self, char *o) { DT(self) = DT(o); DT(o) = 0; }
void _ZN9QDateTimeC2EOS_(char *self, char *o) { DT(self) = DT(o); DT(o) = 0; }
void _ZN9QDateTimeD1Ev(char *self) { }
void _ZN9QDateTimeD2Ev(char *self) { }
char* _ZN9QDateTimeaSERKS_(char *self, char *o) { DT(self) = DT(o); return self; }
char* _ZN9QDateTimeaSEOS_(char *self, char *o) { DT(self) = DT(o); return self; }
uint8_t _ZNK9QDateTime6isNullEv(char *self) { return DT(self) == 0; }
uint8_t _ZNK9QDateTime7isValidEv(char *self) { return DT(self) != 0 && DT(self)->valid; }
void _ZNK9QDateTime5toUTCEv(char *ret, char *self) { DT(ret) = DT(self); }
uint8_t _ZNK9QDateTimeeqERKS_(char *a, char *b) { struct st_dt *x = DT(a), *y = DT(b); uint8_t vx = x && x->valid, vy = y && y->valid; if (!vx || !vy) return vx == vy; return x->ms == y->ms; }
uint32_t _ZNK9QDateTime4timeEv(char *self) { struct st_dt *x = DT(self); return (x && x->valid) ? (uint32_t)(x->ms & 0x3ffffff) : (uint32_t)-1; }
uint32_t _ZNK5QTime4msecEv(char *self) { uint32_t mds = *(uint32_t*)self; return mds == (uint32_t)-1 ? 0 : (mds & 0x3ff); }
static void st_dt_text(char *ret, char *self) { struct st_dt *x = DT(self); *(QAD**)ret = (x && x->valid) ? qs_number(x->ms, 0) : SHARED_NULL; }
static void st_dt_parse(char *ret, QAD *s) { struct numv v = numS(s); if (v.isnum) { DT(ret) = st_dt_new(1, v.mag); return; } if (s->f1 == 0) { DT(ret) = 0; return; } DT(ret) = st_dt_new(vp_bool(), vp_u64()); }
void _ZNK9QDateTime8toStringEN2Qt10DateFormatE(char *ret, char *self, uint32_t fmt) { st_dt_text(ret, self); }
void _ZNK9QDateTime8toStringE11QStringView(char *ret, char *self, uint64_t n, char *p) { st_dt_text(ret, self); }
void _ZNK9QDateTime8toStringERK7QString(char *ret, char *self, char *fmt) { st_dt_text(ret, self); }
void _ZN9QDateTime10fromStringERK7QStringN2Qt10DateFormatE(char *ret, char *s, uint32_t fmt) { st_dt_parse(ret, *(QAD**)s); }
void _ZN9QDateTime10fromStringERK7QStringS2_(char *ret, char *s, char *fmt) { st_dt_parse(ret, *(QAD**)s); }
void _ZN9QDateTime11setTimeZoneERK9QTimeZone(char *self, char *tz) { }
void _ZN9QTimeZoneC1Ei(char *self, uint32_t off) { *(char**)self = 0; }
void _ZN9QTimeZoneD1Ev(char *self) { }
void _Z9qBadAllocv(void) { ASSERT(0, "qBadAlloc (out of scope)"); ASSUME(0); }
/* ---- hex (abstract, same tagging as base64 in qt_core.c: the encoded text is a 1-unit placeholder carrying a ghost pointer to the raw bytes; Qt's
   digit arithmetic is trusted).  Hex text and base64 text of the same bytes are not distinguished: no codec here decodes one field's text as the other. ---- */
void _ZNK10QByteArray5toHexEv(char *ret, char *self) { _ZNK10QByteArray8toBase64E6QFlagsINS_12Base64OptionEE(ret, self, 0); }
void _ZNK10QByteArray5toHexEc(char *ret, char *self, uint8_t sep) { _ZNK10QByteArray8toBase64E6QFlagsINS_12Base64OptionEE(ret, self, 0); }
void _ZN10QByteArray7fromHexERKS_(char *ret, char *enc) { uint8_t ok; *(QAD**)ret = b64_decode(*(QAD**)enc, &ok); }
/* Phase boundary (performance, as harness/C17): forget cbmc's dead-object / deallocated bookkeeping between serialization and parsing */
#ifdef __CPROVER__
extern const void *__CPROVER_dead_object; extern const void *__CPROVER_deallocated;
void vp_st_phase(void) { __CPROVER_dead_object = 0; __CPROVER_deallocated = 0; }
#else
void vp_st_phase(void) { }
#endif
void _ZN7QString23toLatin1_helper_inplaceERS_(char *ret, char *self) { _ZN7QString15toLatin1_helperERKS_(ret, self); }
/* QString::toLower(): text without 'A'..'Z' and without non-ASCII units is returned as it is (same block: keeps its content id); ASCII capitals are
   lowered in a fresh block; non-ASCII case mapping is Qt's and is outside the model (asserted) */
static int vpl_st_needs_lower(QAD *d, int *nonascii) { int up = 0; *nonascii = 0; for (uint32_t i = 0; i < QHINT16(d); i++) { if (i >= d->f1) break; uint16_t c = QCH16(d)[i]; if (c >= 'A' && c <= 'Z') up = 1; if (c >= 0x80) *nonascii = 1; } return up; }
static QAD *st_lower(QAD *d) { if (d->f1 == 0) return qad_ref(d); ASSERT(!(d->f3 == QS_OFF && (((struct qs*)d)->isnum || ((struct qs*)d)->b64)), "toLower of an abstract number / encoded string");
  int na; int up = vpl_st_needs_lower(d, &na); ASSERT(!na, "toLower: non-ASCII unit (Unicode case mapping is Qt's, not modelled)"); if (!up) return qad_ref(d);
  uint32_t h = QHINT16(d); QAD *r = qs_new(d->f1, h); struct qs *q = (struct qs*)r;
  for (uint32_t i = 0; i < h; i++) { if (i >= d->f1) break; uint16_t c = QCH16(d)[i]; q->data[i] = (c >= 'A' && c <= 'Z') ? (uint16_t)(c + 32) : c; }
  qs_seal(r, 0); return r; }
void _ZN7QString14toLower_helperERS_(char *ret, char *self) { *(QAD**)ret = st_lower(*(QAD**)self); }
void _ZN7QString14toLower_helperERKS_(char *ret, char *self) { *(QAD**)ret = st_lower(*(QAD**)self); }
/* QString::split(QChar, behaviour, cs): only the empty string is modelled (-> empty list); QXmppPresence reads the legacy caps `ext` attribute with it, which its serializer never writes */
#ifdef HAVE_G__ZN9QListData11shared_nullE
void _ZNK7QString5splitE5QChar6QFlagsIN2Qt18SplitBehaviorFlagsEENS2_15CaseSensitivityE(char *ret, char *self, uint16_t sep, uint32_t beh, uint32_t cs) { ASSERT((*(QAD**)self)->f1 == 0, "QString::split of a non-empty string is not modelled"); *(char**)ret = (char*)&G__ZN9QListData11shared_nullE; }
#endif
/* attribute-name registry warm-up: the DOM model interns attribute names on first use; a first use under a guard that is symbolic for symex
   (e.g. `if (d->code > 0) writeAttribute("code", ..)`) would make the whole registry symbolic.  Pure performance measure. */
void vp_st_warm_attr(char *name) { vpl_attr_slot(*(QAD**)name, 1); }
/* tree comparison that tolerates SYMBOLIC child counts: children are fetched with dn_child_at (null beyond nch, never an uninitialised slot),
   no data-dependent break; same relation as vp_dom_equal (attribute order ignored, sibling order significant), depth <= 5 */
static int st_node_eq(struct dnode *a, struct dnode *b) { if (!a || !b) return a == b; return tree_eq1(a, b, 1); }
#ifndef ST_CMP_CH
#define ST_CMP_CH DOM_MAXCH
#endif
uint8_t vp_st_dom_equal(char *pa, char *pb) { struct dnode *a = DN(pa), *b = DN(pb); int ok = st_node_eq(a, b); if (!a || !b) return ok;
  for (uint32_t i = 0; i < ST_CMP_CH; i++) { struct dnode *ca = dn_child_at(a, i), *cb = dn_child_at(b, i); if (!ca && !cb) continue; if (!st_node_eq(ca, cb)) ok = 0; if (!ca || !cb) continue;
    for (uint32_t j = 0; j < ST_CMP_CH; j++) { struct dnode *ga = dn_child_at(ca, j), *gb = dn_child_at(cb, j); if (!ga && !gb) continue; if (!st_node_eq(ga, gb)) ok = 0; if (!ga || !gb) continue;
      for (uint32_t k = 0; k < ST_CMP_CH; k++) { struct dnode *ha = dn_child_at(ga, k), *hb = dn_child_at(gb, k); if (!ha && !hb) continue; if (!st_node_eq(ha, hb)) ok = 0; if (!ha || !hb) continue;
        for (uint32_t m = 0; m < ST_CMP_CH; m++) { struct dnode *ia = dn_child_at(ha, m), *ib = dn_child_at(hb, m); if (!ia && !ib) continue; if (!st_node_eq(ia, ib)) ok = 0; if (!ia || !ib) continue; ASSERT(ia->nch == 0 && ib->nch == 0, "tree compare: depth > 5"); } } } }
  return ok; }
