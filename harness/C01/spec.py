SM = ['smenable', 'smenabled', 'smresume', 'smresumed', 'smack', 'smrequest']
def I(e, **kw):
    d = dict(name=e, entry='h_' + e, unwind=8, timeout_s=200, mem_gb=6, bound='strings <= 2 arbitrary UTF-16 units, integers full range'); d.update(kw); return d
SPEC = dict(
    property='C01',
    groups=[
        dict(name='sm', harness='h_sm.cpp', tus=['src/base/QXmppStreamManagement.cpp', 'src/base/QXmppUtils.cpp'], models=['qt_core.c', 'qt_dom.c'],
             instances=[I(e) for e in SM]),
        dict(name='utils', harness='h_utils.cpp', tus=['src/base/QXmppUtils.cpp'], models=['qt_core.c', 'qt_dom.c'],
             instances=[I(e, bound='whole value range of the integer type') for e in ['int_u8', 'int_i8', 'int_u16', 'int_i16', 'int_u32', 'int_i32', 'int_u64', 'int_i64', 'int_range', 'bool']]),
    ],
    bounds=[], assumptions=[], outside=[],
)
