SM = ['smenable', 'smenabled', 'smresume', 'smresumed', 'smack', 'smrequest']
def I(e, **kw):
    d = dict(name=e, entry='h_' + e, unwind=8, timeout_s=300, mem_gb=6, bound='strings <= 2 arbitrary UTF-16 units, integers full range'); d.update(kw); return d
def CASES(e, k, **kw):
    """one instance per combination of the k structural choices (vp_case_bool): presence of optional children, emptiness of gating strings, list lengths"""
    cs = k if isinstance(k, (list, tuple)) else list(range(1 << k))
    return [I(e, name='%s_c%d' % (e, c), cdefs={'VP_CASE': c}, bound='structural case %d (of %d); strings <= 2 arbitrary UTF-16 units, integers full range' % (c, len(cs)), **kw) for c in cs]
NCOND = 11
FAIL_CASES = [0, 2] + [1 | (t << 1) | (v << 2) for t in (0, 1) for v in range(NCOND)]      # bit0 condition present, bit1 text non-empty, bits2.. condition value
FAIL2_CASES = [t | (v << 1) for t in (0, 1) for v in range(NCOND)]
SPEC = dict(
    property='C01',
    groups=[
        dict(name='sm', harness='h_sm.cpp', tus=['src/base/QXmppStreamManagement.cpp', 'src/base/QXmppUtils.cpp'], models=['qt_core.c', 'qt_dom.c'],
             instances=[I(e) for e in SM]),
        dict(name='utils', harness='h_utils.cpp', tus=['src/base/QXmppUtils.cpp'], models=['qt_core.c', 'qt_dom.c'],
             instances=[I(e, bound='whole value range of the integer type') for e in ['int_u8', 'int_i8', 'int_u16', 'int_i16', 'int_u32', 'int_i32', 'int_u64', 'int_i64', 'int_range', 'bool']]),
        dict(name='sasl', harness='h_sasl.cpp', tus=['src/base/QXmppSasl.cpp', 'src/base/QXmppStreamManagement.cpp', 'src/base/QXmppUtils.cpp', 'src/base/QXmppStanza.cpp'], models=['qt_core.c', 'qt_list.c', 'qt_dom.c'],
             instances=[I(e, unwind=10) for e in ['sasl_auth', 'sasl_challenge', 'sasl_response', 'sasl_success', 'fast_token_request', 'fast_request', 'sasl2_challenge', 'sasl2_response']]
                       + CASES('sasl_failure', FAIL_CASES, unwind=10) + CASES('bind2_feature', 2, unwind=10) + CASES('bind2_request', 4, unwind=10) + CASES('bind2_bound', 2, unwind=10)
                       + CASES('fast_feature', 2, unwind=10) + CASES('sasl2_failure', FAIL2_CASES, unwind=10) + CASES('sasl2_continue', 3, unwind=10) + CASES('sasl2_abort', 1, unwind=10)
                       + CASES('sasl2_success', 5, unwind=10) + CASES('sasl2_authenticate', 7, unwind=10, tiers=('thorough',))),
    ],
    bounds=[], assumptions=[], outside=[],
)
