SM = ['smenable', 'smenabled', 'smresume', 'smresumed', 'smack', 'smrequest']
def I(e, **kw):
    d = dict(name=e, entry='h_' + e, unwind=8, timeout_s=300, mem_gb=6, bound='strings <= 2 arbitrary UTF-16 units, integers full range'); d.update(kw); return d
def CASES(e, k, quick=None, **kw):
    """one instance per combination of the k structural choices (vp_case_bool): presence of optional children, emptiness of gating strings,
    list lengths. `quick` = the cases that also run in the quick tier (default: all)."""
    cs = k if isinstance(k, (list, tuple)) else list(range(1 << k))
    out = []
    for c in cs:
        tiers = ('quick', 'thorough') if (quick is None or c in quick) else ('thorough',)
        d = dict(kw); d.setdefault('tiers', tiers)
        if 'quick' not in d['tiers']: d.setdefault('timeout_s', 900); d.setdefault('mem_gb', 12)
        out.append(I(e, name='%s_c%d' % (e, c), cdefs={'VP_CASE': c}, bound='structural case %d (of %d); strings <= 2 arbitrary UTF-16 units, integers full range' % (c, len(cs)), **d))
    return out
NCOND = 11
FAIL_CASES = [0, 2] + [1 | (t << 1) | (v << 2) for t in (0, 1) for v in range(NCOND)]      # bit0 condition present, bit1 text non-empty, bits2.. condition value
FAIL2_CASES = [t | (v << 1) for t in (0, 1) for v in range(NCOND)]
SPEC = dict(
    property='C01',
    groups=[
        dict(name='sm', harness='h_sm.cpp', tus=['src/base/QXmppStreamManagement.cpp', 'src/base/QXmppUtils.cpp'], models=['qt_core.c', 'qt_dom.c'],
             instances=[I(e) for e in SM]),
        dict(name='utils', harness='h_utils.cpp', tus=['src/base/QXmppUtils.cpp'], models=['qt_core.c', 'qt_dom.c'],
             instances=[I(e, bound='whole value range of the integer type') for e in ['int_u8', 'int_i8', 'int_u16', 'int_i16', 'int_u32', 'int_i32', 'int_u64', 'int_i64', 'int_range', 'bool']]),
        dict(name='sasl', harness='h_sasl.cpp', tus=['src/base/QXmppSasl.cpp', 'src/base/QXmppStreamManagement.cpp', 'src/base/QXmppUtils.cpp', 'src/base/QXmppStanza.cpp'], models=['qt_core.c', 'qt_list.c', 'qt_dom.c'],
             instances=[I(e, unwind=10) for e in ['sasl_auth', 'sasl_challenge', 'sasl_response', 'sasl_success', 'fast_token_request', 'fast_request', 'sasl2_challenge', 'sasl2_response']]
                       + CASES('sasl_failure', FAIL_CASES, quick=FAIL_CASES[:2] + FAIL_CASES[2::5], unwind=10) + CASES('bind2_feature', 2, unwind=10) + CASES('bind2_request', [c for c in range(64) if (c & 8) or c < 8], quick=[0, 2, 4, 7, 8, 13, 15, 27, 44, 45, 46, 47, 63], unwind=10)
                       + CASES('bind2_bound', 2, unwind=10) + CASES('fast_feature', 2, unwind=10) + CASES('sasl2_failure', FAIL2_CASES, quick=FAIL2_CASES[::4], unwind=10)
                       + CASES('sasl2_continue', 3, unwind=10) + CASES('sasl2_abort', 1, unwind=10)
                       + CASES('sasl2_success', 5, unwind=10) + CASES('sasl2_authenticate', 7, quick=[0, 127, 85, 42, 3, 124, 31, 96, 7, 64], unwind=10)),
    ],
    bounds=['typed scalar helpers: whole value range of each integer type', 'nonza codecs: free-text fields 0..2 arbitrary UTF-16 code units (fields whose emptiness gates an element: empty or exactly 2 units, as a structural case) (markup metacharacters, quotes, non-ASCII and surrogates are ordinary units for the tree model), byte arrays 0..3 arbitrary bytes, integers full range, lists <= 2 entries, every combination of optional children (one cbmc instance per structural case, values symbolic)'],
    assumptions=['QXmlStreamWriter writes into, and QDomElement reads from, the same tree model: Qt escaping/tokenising are trusted, so markup injection through Qt itself is outside; a raw device write would be flagged as unmodelled',
                 'numbers are abstract strings (QString::number / toUInt... are inverse by contract with the range check of the target type); base64 is an abstract injective tagging',
                 'Sasl2::Continue is assumed to carry >= 1 task (validity predicate of XEP-0388)'],
    outside=['all payload classes not listed in the instances (messages, presences, IQ payloads, data forms, pubsub, MIX, Jingle, vCard, MAM, ...): each needs its own field table and QVariant/QUrl/QDateTime models',
             'QDateTime-valued fields (FastToken.expiry), QUuid (UserAgent.id)', 'blank / whitespace-only strings', 'strings longer than 2 units'],
)
