SM = ['smenable', 'smenabled', 'smresume', 'smresumed', 'smack', 'smrequest']
def I(e, **kw):
    d = dict(name=e, entry='h_' + e, unwind=8, timeout_s=300, mem_gb=6, bound='strings <= 2 arbitrary UTF-16 units, integers full range'); d.update(kw); return d
SPEC = dict(
    property='C01',
    groups=[
        dict(name='sm', harness='h_sm.cpp', tus=['src/base/QXmppStreamManagement.cpp', 'src/base/QXmppUtils.cpp'], models=['qt_core.c', 'qt_dom.c'],
             instances=[I(e) for e in SM]),
        dict(name='utils', harness='h_utils.cpp', tus=['src/base/QXmppUtils.cpp'], models=['qt_core.c', 'qt_dom.c'],
             instances=[I(e, bound='whole value range of the integer type') for e in ['int_u8', 'int_i8', 'int_u16', 'int_i16', 'int_u32', 'int_i32', 'int_u64', 'int_i64', 'int_range', 'bool']]),
        dict(name='sasl', harness='h_sasl.cpp', tus=['src/base/QXmppSasl.cpp', 'src/base/QXmppStreamManagement.cpp', 'src/base/QXmppUtils.cpp'], models=['qt_core.c', 'qt_list.c', 'qt_dom.c'],
             instances=[I(e, unwind=10) for e in ['sasl_auth', 'sasl_challenge', 'sasl_response', 'sasl_success', 'sasl_failure', 'bind2_feature', 'bind2_request', 'bind2_bound', 'fast_feature',
                                                  'fast_token_request', 'fast_request', 'sasl2_challenge', 'sasl2_response', 'sasl2_failure', 'sasl2_continue', 'sasl2_abort', 'sasl2_success', 'sasl2_authenticate']]),
    ],
    bounds=[], assumptions=[], outside=[],
)
