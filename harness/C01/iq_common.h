// C01 / IQ payload classes: common part of the harnesses h_iq_*.cpp.
// Pattern (same as h_sasl.cpp): object x built through the PUBLIC setters with symbolic field values -> real toXml() (QXmppIq::toXml +
// the class' toXmlElementFromChild) into the writer tree model -> real parse() (QXmppStanza::parse + QXmppIq::parse + the class'
// parseElementFromChild) from that tree -> every PUBLIC getter of y equals the one of x; then y is serialized again and the two trees
// must be equal (vp_dom_equal: sibling order significant, which is stricter than the statement).
#pragma once
#include <QDomElement>
#include <QXmlStreamWriter>
#include "vp_harness.h"
#include "vp_dom.h"
#include "QXmppIq.h"

// serialize x, parse into y (default-constructed object of the same class)
#define IQ_ROUNDTRIP(x, y) VpWriter w; (x).toXml(w.writer()); QDomElement t1 = w.root(); (y).parse(t1);
// second pass: serializing the parsed object gives the same tree
#define IQ_FIXPOINT(y) { VpWriter w2; (y).toXml(w2.writer()); QDomElement t2 = w2.root(); vp_assert(vp_dom_equal(&t1, &t2), "C01 IQ: re-serializing the parsed object gives the same document"); }

// Envelope: type (2 bits at typeShift) and emptiness of id / to / from (3 bits at presShift) are structural cases: the type string is
// selected by the enum value, and the three attributes are written only if non-empty (writeOptionalXmlAttribute) - a string whose
// emptiness gates output must have a length that is a constant for symex (GUIDE). Non-empty = exactly 2 arbitrary units.
extern "C" { bool vp_iq_case_bool(unsigned i); unsigned vp_iq_case_u(unsigned shift, unsigned n); }   // iq_env.c: like vp_case_bool / vp_case_u over 64 bits of VP_CASE
#define CB(i) vp_iq_case_bool(i)
#define CU(shift, n) vp_iq_case_u((shift), (n))
#define IQS(bit) (CB(bit) ? vpSymStringExact(2) : QString())
template<typename T> static inline void iqEnvelope(T &x, unsigned typeShift, unsigned presShift)
{
    x.setType(QXmppIq::Type(CU(typeShift, 4)));
    x.setId(IQS(presShift)); x.setTo(IQS(presShift + 1)); x.setFrom(IQS(presShift + 2));
}
template<typename T> static inline void iqEnvelopeEq(const T &x, const T &y)
{
    vp_assert(y.type() == x.type(), "C01 IQ envelope: type");
    vp_assert(y.id() == x.id(), "C01 IQ envelope: id");
    vp_assert(y.to() == x.to(), "C01 IQ envelope: to");
    vp_assert(y.from() == x.from(), "C01 IQ envelope: from");
}
