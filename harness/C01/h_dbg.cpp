#include "QXmppSasl_p.h"
#include <QDomElement>
#include <QXmlStreamWriter>
#include "vp_harness.h"
#include "vp_dom.h"
using namespace QXmpp::Private;
extern "C" void h_d1() { Sasl::Failure x; x.condition = Sasl::ErrorCondition::NotAuthorized; VpWriter w; x.toXml(w.writer()); QDomElement r = w.root(); vp_assert(!r.isNull(), "C01 dbg"); }
extern "C" void h_d2() { Sasl::Failure x; x.condition = Sasl::ErrorCondition::NotAuthorized; VpWriter w; x.toXml(w.writer()); auto y = Sasl::Failure::fromDom(w.root()); vp_assert(y.has_value(), "C01 dbg"); }
extern "C" void h_d3() { Sasl::Failure x; x.condition = Sasl::ErrorCondition::NotAuthorized; VpWriter w; x.toXml(w.writer()); auto y = Sasl::Failure::fromDom(w.root()); vp_assert(y.has_value(), "C01 dbg"); if (!y) return; vp_assert(y->condition == x.condition, "c"); vp_assert(y->text == x.text, "t"); }
extern "C" void h_d4() { Sasl::Failure x; x.condition = Sasl::ErrorCondition::NotAuthorized; VpWriter w; x.toXml(w.writer()); auto y = Sasl::Failure::fromDom(w.root()); vp_assert(y.has_value(), "C01 dbg"); if (!y) return;
  VpWriter w2; y->toXml(w2.writer()); QDomElement a = w.root(), b = w2.root(); vp_assert(vp_dom_equal(&a, &b), "eq"); }
