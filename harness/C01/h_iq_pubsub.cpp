// C01 / IQ payloads: QXmpp::Private::PubSubIq<QXmppPubSubBaseItem> (PubSubIqBase::parseElementFromChild / toXmlElementFromChild, XEP-0060), every query type.
// VP_CASE: [0..1] iq type, [2..4] id / to / from non-empty, [5..9] query type (0..16), [10] queryJid, [11] queryNode, [12] subscriptionId non-empty,
//   [13..14] maxItems (unset, 1, 4294967295), [15] one item, [16] item id, [17] item publisher non-empty,
//   [18] one affiliation / subscription in the list, [19..21] its affiliation type (6) / subscription state (5), [22] its node, [23] its jid non-empty (subscription: subid),
//   [24..25] configuration support of the subscription (3), [26] items continuation (result set reply with first / last / count),
//   [27] also require that PubSubIq::isPubSubIq recognises the output, [28] an OWNER subscription carries a subid (XEP-0060 8.8.1 allows it)
// Fields are set "where applicable" for the query type (the codec writes a field only for the query types whose XEP-0060 element carries it):
//   queryJid / queryNode: all but Subscription (there the <subscription/> element itself is the query element); subscriptionId: Items, Unsubscribe, Options;
//   maxItems, itemsContinuation: Items; items: Items, Publish, Retract; affiliations: Affiliations, OwnerAffiliations; subscriptions: Subscriptions,
//   OwnerSubscriptions; subscription: Subscription (always present there); the data form stays empty (QXmppDataForm has its own codec).
// Validity of list entries per XEP-0060 (what isAffiliation / isSubscription require): an affiliation carries a node (pubsub) / a jid (pubsub#owner); an owner
// subscription carries a state; node / subid / configuration support of a subscription exist in the pubsub namespace only (not for OwnerSubscriptions).
#include "iq_common.h"
#include "QXmppPubSubIq_p.h"
#include "QXmppPubSubSubscription.h"
#include "QXmppPubSubAffiliation.h"
#include "QXmppResultSet.h"
#include "QXmppDataForm.h"
using namespace QXmpp::Private;
typedef PubSubIq<QXmppPubSubBaseItem> PsIq;
typedef PubSubIqBase B;
static const unsigned MAXITEMS[4] = { 0, 1, 4294967295u, 0 };

extern "C" void h_iq_pubsub()
{
    PsIq x; iqEnvelope(x, 0, 2);
    const unsigned qt = CU(5, 32) % 17; const B::QueryType q = B::QueryType(qt);
    x.setQueryType(q);
    const bool isSub = q == B::Subscription, owner = q == B::OwnerAffiliations || q == B::OwnerSubscriptions;
    const bool hasSubid = q == B::Items || q == B::Unsubscribe || q == B::Options;
    const bool hasItems = q == B::Items || q == B::Publish || q == B::Retract;
    const bool hasAff = q == B::Affiliations || q == B::OwnerAffiliations, hasSubs = q == B::Subscriptions || q == B::OwnerSubscriptions;
    if (!isSub) { x.setQueryJid(IQS(10)); x.setQueryNode(IQS(11)); }
    if (hasSubid) x.setSubscriptionId(IQS(12));
    if (q == B::Items) { unsigned m = MAXITEMS[CU(13, 4)]; if (m) x.setMaxItems(m); }
    QXmppPubSubBaseItem item; const bool oneItem = hasItems && CB(15);
    if (oneItem) { item.setId(IQS(16)); item.setPublisher(IQS(17)); x.setItems({ item }); }
    QXmppPubSubAffiliation aff; const bool oneAff = hasAff && CB(18);
    if (oneAff) { aff.setType(QXmppPubSubAffiliation::Affiliation(CU(19, 8) % 6));
        if (owner) { aff.setJid(vpSymStringExact(2)); aff.setNode(IQS(22)); } else { aff.setNode(vpSymStringExact(2)); aff.setJid(IQS(23)); }
        x.setAffiliations({ aff }); }
    QXmppPubSubSubscription sub; const bool oneSub = isSub || (hasSubs && CB(18));
    if (oneSub) { sub.setJid(vpSymString(2));
        unsigned st = CU(19, 8) % 5; if (owner && st == 0) st = 3;
        sub.setState(QXmppPubSubSubscription::State(st));
        if (!owner) { sub.setNode(IQS(22)); sub.setSubId(IQS(23)); sub.setConfigurationSupport(QXmppPubSubSubscription::ConfigurationSupport(CU(24, 4) % 3)); }
        else if (CB(28)) sub.setSubId(vpSymStringExact(2));
        if (isSub) x.setSubscription(sub); else x.setSubscriptions({ sub }); }
    QXmppResultSetReply rsm; const bool cont = q == B::Items && CB(26);
    if (cont) { rsm.setFirst(vpSymStringExact(1)); rsm.setLast(vpSymStringExact(1)); rsm.setCount(1); x.setItemsContinuation(rsm); }

    PsIq y; IQ_ROUNDTRIP(x, y)
    iqEnvelopeEq(x, y);
    vp_assert(y.queryType() == x.queryType(), "C01 PubSubIq.queryType");
    vp_assert(y.queryJid() == x.queryJid(), "C01 PubSubIq.queryJid"); vp_assert(y.queryNode() == x.queryNode(), "C01 PubSubIq.queryNode");
    vp_assert(y.subscriptionId() == x.subscriptionId(), "C01 PubSubIq.subscriptionId");
    vp_assert(y.maxItems() == x.maxItems(), "C01 PubSubIq.maxItems");
    const QVector<QXmppPubSubBaseItem> yi = y.items();
    vp_assert(yi.size() == (oneItem ? 1 : 0), "C01 PubSubIq.items size");
    if (oneItem && yi.size() == 1) vp_assert(yi.at(0).id() == item.id() && yi.at(0).publisher() == item.publisher(), "C01 QXmppPubSubBaseItem id/publisher");
    const QVector<QXmppPubSubAffiliation> ya = y.affiliations();
    vp_assert(ya.size() == (oneAff ? 1 : 0), "C01 PubSubIq.affiliations size");
    if (oneAff && ya.size() == 1) vp_assert(ya.at(0).type() == aff.type() && ya.at(0).node() == aff.node() && ya.at(0).jid() == aff.jid(), "C01 QXmppPubSubAffiliation type/node/jid");
    const QVector<QXmppPubSubSubscription> ys = y.subscriptions();
    vp_assert(ys.size() == (oneSub ? 1 : 0), "C01 PubSubIq.subscriptions size");
    vp_assert(y.subscription().has_value() == x.subscription().has_value(), "C01 PubSubIq.subscription present");
    if (oneSub && ys.size() == 1) {
        vp_assert(ys.at(0).jid() == sub.jid() && ys.at(0).state() == sub.state(), "C01 QXmppPubSubSubscription jid/state");
        vp_assert(ys.at(0).node() == sub.node() && ys.at(0).subId() == sub.subId(), "C01 QXmppPubSubSubscription node/subId");
        vp_assert(ys.at(0).configurationSupport() == sub.configurationSupport(), "C01 QXmppPubSubSubscription.configurationSupport");
        vp_assert(!ys.at(0).expiry().isValid(), "C01 QXmppPubSubSubscription.expiry stays unset");
    }
    vp_assert(!y.dataForm().has_value(), "C01 PubSubIq.dataForm stays empty");
    const std::optional<QXmppResultSetReply> yc = y.itemsContinuation();
    vp_assert(yc.has_value() == cont, "C01 PubSubIq.itemsContinuation present");
    if (cont && yc) vp_assert(yc->first() == rsm.first() && yc->last() == rsm.last() && yc->count() == rsm.count() && yc->index() == rsm.index(), "C01 PubSubIq.itemsContinuation fields");
    // recognised by its own type check whenever the attributes XEP-0060 requires for the query type are there
    const bool needNode = q == B::OwnerAffiliations || q == B::Items || q == B::Publish || q == B::Retract || q == B::Delete || q == B::Purge;
    const bool needJid = q == B::Options || q == B::OwnerSubscriptions || q == B::Subscribe || q == B::Unsubscribe;
    if (CB(27) && (!needNode || CB(11)) && (!needJid || CB(10))) vp_assert(PsIq::isPubSubIq(t1), "C01 PubSubIq: own output recognised by isPubSubIq");
    IQ_FIXPOINT(y)
}
