// C01 layer 2: stream-management nonzas, toXml -> tree -> fromDom round trip over the DOM/writer tree model
#include "QXmppStreamManagement_p.h"
#include <QDomElement>
#include <QXmlStreamWriter>
#include "vp_harness.h"
#include "vp_dom.h"
using namespace QXmpp::Private;

extern "C" void h_smenable()
{
    SmEnable x; x.resume = vp_bool(); x.max = vp_u64();
    VpWriter w; x.toXml(w.writer());
    QDomElement el = w.root();
    auto y = SmEnable::fromDom(el);
    vp_assert(y.has_value(), "C01 SmEnable: own output accepted by fromDom");
    if (y) { vp_assert(y->resume == x.resume, "C01 SmEnable.resume"); vp_assert(y->max == x.max, "C01 SmEnable.max"); }
}
extern "C" void h_smenabled()
{
    SmEnabled x; x.resume = vp_bool(); x.max = vp_u64();
    vp_sym_string(&x.id, 2); vp_sym_string(&x.location, 2);
    VpWriter w; x.toXml(w.writer());
    QDomElement el = w.root();
    auto y = SmEnabled::fromDom(el);
    vp_assert(y.has_value(), "C01 SmEnabled: own output accepted by fromDom");
    if (y) {
        vp_assert(y->resume == x.resume, "C01 SmEnabled.resume");
        vp_assert(y->max == x.max, "C01 SmEnabled.max");
        vp_assert(y->id == x.id, "C01 SmEnabled.id");
        vp_assert(y->location == x.location, "C01 SmEnabled.location");
    }
}
extern "C" void h_smresume()
{
    SmResume x; x.h = vp_u32(); vp_sym_string(&x.previd, 2);
    VpWriter w; x.toXml(w.writer());
    auto y = SmResume::fromDom(w.root());
    vp_assert(y.has_value(), "C01 SmResume: own output accepted by fromDom");
    if (y) { vp_assert(y->h == x.h, "C01 SmResume.h"); vp_assert(y->previd == x.previd, "C01 SmResume.previd"); }
}
extern "C" void h_smresumed()
{
    SmResumed x; x.h = vp_u32(); vp_sym_string(&x.previd, 2);
    VpWriter w; x.toXml(w.writer());
    auto y = SmResumed::fromDom(w.root());
    vp_assert(y.has_value(), "C01 SmResumed: own output accepted by fromDom");
    if (y) { vp_assert(y->h == x.h, "C01 SmResumed.h"); vp_assert(y->previd == x.previd, "C01 SmResumed.previd"); }
}
extern "C" void h_smack()
{
    SmAck x; x.seqNo = vp_u32();
    VpWriter w; x.toXml(w.writer());
    auto y = SmAck::fromDom(w.root());
    vp_assert(y.has_value(), "C01 SmAck: own output accepted by fromDom");
    if (y) vp_assert(y->seqNo == x.seqNo, "C01 SmAck.h");
}
extern "C" void h_smrequest()
{
    SmRequest x;
    VpWriter w; x.toXml(w.writer());
    auto y = SmRequest::fromDom(w.root());
    vp_assert(y.has_value(), "C01 SmRequest: own output accepted by fromDom");
}
