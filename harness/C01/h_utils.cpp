// C01 layer 1: typed scalar helpers of QXmppUtils (parse(serialize(v)) == v over the whole range of the type)
#include "QXmppUtils_p.h"
#include "QXmppUtils.h"
#include "vp_harness.h"
#include "vp_dom.h"
using namespace QXmpp::Private;

template<typename T> static void roundtrip(T v, const char *)
{
    QString s = serializeInt<T>(v);
    auto r = parseInt<T>(s);
    vp_assert(r.has_value(), "C01 parseInt accepts serializeInt output for every value of the type");
    if (r) vp_assert(*r == v, "C01 parseInt(serializeInt(v)) == v");
}
extern "C" void h_int_u8() { roundtrip<uint8_t>(vp_u8(), ""); }
extern "C" void h_int_i8() { roundtrip<int8_t>((int8_t)vp_u8(), ""); }
extern "C" void h_int_u16() { roundtrip<uint16_t>(vp_u16(), ""); }
extern "C" void h_int_i16() { roundtrip<int16_t>((int16_t)vp_u16(), ""); }
extern "C" void h_int_u32() { roundtrip<uint32_t>(vp_u32(), ""); }
extern "C" void h_int_i32() { roundtrip<int32_t>((int32_t)vp_u32(), ""); }
extern "C" void h_int_u64() { roundtrip<uint64_t>(vp_u64(), ""); }
extern "C" void h_int_i64() { roundtrip<int64_t>((int64_t)vp_u64(), ""); }
// out-of-range text is rejected, never wrapped: a number string holding w (of a wider type) parses as T only if it fits
extern "C" void h_int_range()
{
    long long w = (long long)vp_u64();
    QString s = QString::number(w);
    auto r8 = parseInt<int8_t>(s); auto ru8 = parseInt<uint8_t>(s); auto r16 = parseInt<int16_t>(s); auto ru16 = parseInt<uint16_t>(s);
    auto r32 = parseInt<int32_t>(s); auto ru32 = parseInt<uint32_t>(s);
    vp_assert(r8.has_value() == (w >= -128 && w <= 127) && (!r8 || *r8 == w), "C01 parseInt<int8_t> accepts exactly the values of its range");
    vp_assert(ru8.has_value() == (w >= 0 && w <= 255) && (!ru8 || *ru8 == w), "C01 parseInt<uint8_t> accepts exactly the values of its range");
    vp_assert(r16.has_value() == (w >= -32768 && w <= 32767) && (!r16 || *r16 == w), "C01 parseInt<int16_t> accepts exactly the values of its range");
    vp_assert(ru16.has_value() == (w >= 0 && w <= 65535) && (!ru16 || *ru16 == w), "C01 parseInt<uint16_t> accepts exactly the values of its range");
    vp_assert(r32.has_value() == (w >= -2147483648LL && w <= 2147483647LL) && (!r32 || *r32 == w), "C01 parseInt<int32_t> accepts exactly the values of its range");
    vp_assert(ru32.has_value() == (w >= 0 && w <= 4294967295LL) && (!ru32 || *ru32 == w), "C01 parseInt<uint32_t> accepts exactly the values of its range");
}
extern "C" void h_bool()
{
    bool b = vp_bool();
    auto r = parseBoolean(serializeBoolean(b));
    vp_assert(r.has_value() && *r == b, "C01 parseBoolean(serializeBoolean(b)) == b");
    QString s = vpSymString(2);
    auto q = parseBoolean(s);
    bool is1 = s == u"1", is0 = s == u"0";
    vp_assert(!q.has_value() || is1 || is0, "C01 parseBoolean rejects every 0..2-unit string other than 1 and 0");
    if (is1) vp_assert(q.has_value() && *q, "C01 parseBoolean(1)");
    if (is0) vp_assert(q.has_value() && !*q, "C01 parseBoolean(0)");
}
