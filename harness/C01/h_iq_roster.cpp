// C01 / IQ payloads: QXmppRosterIq (+ Item).  The real QXmppRosterIq.cpp is compiled HERE (after the class-level QSet<QString> model).
#include "iq_qset.h"
#include "iq_common.h"
#include "base/QXmppRosterIq.cpp"

typedef QXmppRosterIq::Item RItem;
static const RItem::SubscriptionType SUBS[6] = { RItem::None, RItem::From, RItem::To, RItem::Both, RItem::Remove, RItem::NotSet };

static void itemEq(const RItem &a, const RItem &b)
{
    vp_assert(b.bareJid() == a.bareJid(), "C01 QXmppRosterIq::Item.bareJid");
    vp_assert(b.name() == a.name(), "C01 QXmppRosterIq::Item.name");
    vp_assert(b.subscriptionType() == a.subscriptionType(), "C01 QXmppRosterIq::Item.subscriptionType");
    vp_assert(b.subscriptionStatus() == a.subscriptionStatus(), "C01 QXmppRosterIq::Item.subscriptionStatus (ask)");
    vp_assert(b.isApproved() == a.isApproved(), "C01 QXmppRosterIq::Item.isApproved");
    vp_assert(b.groups() == a.groups(), "C01 QXmppRosterIq::Item.groups (as a set)");
    vp_assert(b.isMixChannel() == a.isMixChannel(), "C01 QXmppRosterIq::Item.isMixChannel");
    vp_assert(b.mixParticipantId() == a.mixParticipantId(), "C01 QXmppRosterIq::Item.mixParticipantId");
}
// one item; structural bits from `b`: [b..b+2] subscription (6 values), [b+3] approved, [b+4] MIX channel, [b+5] participant id non-empty, [b+6..b+7] number of groups 0..2,
// [b+8] jid, [b+9] name, [b+10] ask non-empty, [b+11] first group name non-empty
#define ITEM_BITS 12
static void symItem(RItem &it, unsigned b)
{
    it.setBareJid(IQS(b + 8)); it.setName(IQS(b + 9)); it.setSubscriptionStatus(IQS(b + 10));
    it.setSubscriptionType(SUBS[CU(b, 8) % 6]);
    it.setIsApproved(CB(b + 3));
    if (CB(b + 4)) { it.setIsMixChannel(true); it.setMixParticipantId(IQS(b + 5)); }   // the participant id is an attribute of <channel/>: meaningful for MIX channels only
    unsigned ng = CU(b + 6, 4); if (ng > 2) ng = 2;
    QSet<QString> g;
    // group names: the first one empty or 2 units (bit b+11; writeXmlTextElement writes <group/> for an empty name), the second 2 units
    if (ng >= 1) { QString g0 = IQS(b + 11); g.vpInsertDistinct(g0);
        if (ng >= 2) { QString g1 = vpSymStringExact(2); vp_assume(!(g1 == g0)); g.vpInsertDistinct(g1); } }     // a set: members are distinct
    it.setGroups(g);
}
// VP_CASE: [0..1] iq type, [2..4] id/to/from non-empty, [5] version non-empty, [6] mixAnnotate, [7..8] number of items 0..2, [9..20] item 0, [21..32] item 1
extern "C" void h_iq_roster()
{
    QXmppRosterIq x; iqEnvelope(x, 0, 2);
    x.setVersion(IQS(5)); x.setMixAnnotate(CB(6));
    unsigned n = CU(7, 4); if (n > 2) n = 2;
    RItem it[2];
    for (unsigned i = 0; i < 2; i++) { if (i >= n) break; symItem(it[i], 9 + ITEM_BITS * i); x.addItem(it[i]); }
    QXmppRosterIq y; IQ_ROUNDTRIP(x, y)
    iqEnvelopeEq(x, y);
    vp_assert(y.version() == x.version(), "C01 QXmppRosterIq.version");
    vp_assert(y.mixAnnotate() == x.mixAnnotate(), "C01 QXmppRosterIq.mixAnnotate");
    const QList<RItem> yi = y.items();
    vp_assert(unsigned(yi.size()) == n, "C01 QXmppRosterIq.items size");
    for (unsigned i = 0; i < 2; i++) { if (i >= n || int(i) >= yi.size()) break; itemEq(it[i], yi.at(i)); }
    vp_assert(QXmppRosterIq::isRosterIq(t1), "C01 QXmppRosterIq: own output recognised by isRosterIq");
    IQ_FIXPOINT(y)
}
