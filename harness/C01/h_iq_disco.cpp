// C01 / IQ payloads: QXmppDiscoveryIq (identities, features, items, query node / type; the data form stays empty: QXmppDataForm has its own codec)
// and QXmppPushEnableIq (jid, node, mode; empty data form).
// VP_CASE: [0..1] iq type, [2..4] id / to / from non-empty, [5] query type (0 info, 1 items), [6] queryNode non-empty,
//   info:  [7..8] number of identities 0..2, identity i at b = 9 + 4 i: [b] category, [b+1] type, [b+2] name, [b+3] xml:lang non-empty; [17..18] number of features 0..2, [19] / [20] feature 0 / 1 non-empty
//   items: [7..8] number of items 0..2, item i at b = 9 + 3 i: [b] jid, [b+1] name, [b+2] node non-empty
#include "iq_common.h"
#include "QXmppDiscoveryIq.h"
#include "QXmppPushEnableIq.h"
#include "QXmppDataForm.h"

extern "C" void h_iq_disco()
{
    QXmppDiscoveryIq x; iqEnvelope(x, 0, 2);
    const bool itemsQuery = CB(5);
    x.setQueryType(itemsQuery ? QXmppDiscoveryIq::ItemsQuery : QXmppDiscoveryIq::InfoQuery);
    x.setQueryNode(IQS(6));
    unsigned n = CU(7, 4); if (n > 2) n = 2;
    unsigned nf = 0;
    QXmppDiscoveryIq::Identity id[2]; QXmppDiscoveryIq::Item it[2]; QString f[2];
    if (!itemsQuery) {
        QList<QXmppDiscoveryIq::Identity> l;
        for (unsigned i = 0; i < 2; i++) { if (i >= n) break; unsigned b = 9 + 4 * i; id[i].setCategory(IQS(b)); id[i].setType(IQS(b + 1)); id[i].setName(IQS(b + 2)); id[i].setLanguage(IQS(b + 3)); l.append(id[i]); }
        x.setIdentities(l);
        nf = CU(17, 4); if (nf > 2) nf = 2;
        QStringList fl;
        for (unsigned i = 0; i < 2; i++) { if (i >= nf) break; f[i] = IQS(19 + i); fl.append(f[i]); }
        x.setFeatures(fl);
    } else {
        QList<QXmppDiscoveryIq::Item> l;
        for (unsigned i = 0; i < 2; i++) { if (i >= n) break; unsigned b = 9 + 3 * i; it[i].setJid(IQS(b)); it[i].setName(IQS(b + 1)); it[i].setNode(IQS(b + 2)); l.append(it[i]); }
        x.setItems(l);
    }
    QXmppDiscoveryIq y; IQ_ROUNDTRIP(x, y)
    iqEnvelopeEq(x, y);
    vp_assert(y.queryType() == x.queryType(), "C01 QXmppDiscoveryIq.queryType");
    vp_assert(y.queryNode() == x.queryNode(), "C01 QXmppDiscoveryIq.queryNode");
    const QList<QXmppDiscoveryIq::Identity> yi = y.identities(); const QList<QXmppDiscoveryIq::Item> yt = y.items(); const QStringList yf = y.features();
    vp_assert(unsigned(yi.size()) == (itemsQuery ? 0 : n), "C01 QXmppDiscoveryIq.identities size");
    vp_assert(unsigned(yt.size()) == (itemsQuery ? n : 0), "C01 QXmppDiscoveryIq.items size");
    vp_assert(unsigned(yf.size()) == nf, "C01 QXmppDiscoveryIq.features size");
    if (!itemsQuery) {
        for (unsigned i = 0; i < 2; i++) { if (i >= n || int(i) >= yi.size()) break;
            vp_assert(yi.at(i).category() == id[i].category() && yi.at(i).type() == id[i].type() && yi.at(i).name() == id[i].name(), "C01 QXmppDiscoveryIq::Identity category/type/name");
            vp_assert(yi.at(i).language() == id[i].language(), "C01 QXmppDiscoveryIq::Identity.language (xml:lang)"); }
        for (unsigned i = 0; i < 2; i++) { if (i >= nf || int(i) >= yf.size()) break; vp_assert(yf.at(i) == f[i], "C01 QXmppDiscoveryIq.features[i]"); }
    } else {
        for (unsigned i = 0; i < 2; i++) { if (i >= n || int(i) >= yt.size()) break;
            vp_assert(yt.at(i).jid() == it[i].jid() && yt.at(i).name() == it[i].name() && yt.at(i).node() == it[i].node(), "C01 QXmppDiscoveryIq::Item jid/name/node"); }
    }
    vp_assert(y.form().isNull(), "C01 QXmppDiscoveryIq.form stays empty");
    vp_assert(QXmppDiscoveryIq::isDiscoveryIq(t1), "C01 QXmppDiscoveryIq: own output recognised by isDiscoveryIq");
    IQ_FIXPOINT(y)
}
// [5] mode (1 enable, 0 disable); jid / node 0..2 units (written unconditionally)
extern "C" void h_iq_push()
{
    QXmppPushEnableIq x; iqEnvelope(x, 0, 2);
    x.setMode(CB(5) ? QXmppPushEnableIq::Enable : QXmppPushEnableIq::Disable); x.setJid(vpSymString(2)); x.setNode(vpSymString(2));
    QXmppPushEnableIq y; IQ_ROUNDTRIP(x, y)
    iqEnvelopeEq(x, y);
    vp_assert(y.mode() == x.mode(), "C01 QXmppPushEnableIq.mode"); vp_assert(y.jid() == x.jid(), "C01 QXmppPushEnableIq.jid"); vp_assert(y.node() == x.node(), "C01 QXmppPushEnableIq.node");
    vp_assert(y.dataForm().isNull(), "C01 QXmppPushEnableIq.dataForm stays empty");
    vp_assert(QXmppPushEnableIq::isPushEnableIq(t1), "C01 QXmppPushEnableIq: own output recognised by isPushEnableIq");
    IQ_FIXPOINT(y)
}
