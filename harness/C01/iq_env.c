/* C01 / IQ payloads: property-specific environment (C side); needs qt_core.c, qt_list.c, iq_dom.c before it (one translation unit). */
void vp_iq_model_limit(uint8_t ok) { ASSERT(ok, "C01/IQ class-level container model: capacity exceeded"); ASSUME(ok); }
/* ---- QDateTime (libQt5Core; Qt's date-time parsing/formatting is trusted, DESIGN 2.5): the 8-byte object holds an opaque instant (0 = null/invalid).
   Text form = abstract number string carrying the instant (fromString(toString(t)) == t by contract); any other text parses to an arbitrary instant
   or to an invalid date-time. toUTC()/toTimeSpec keep the instant. (same model as harness/C02/c02_env.c) ---- */
#define DTW(p) (*(uint64_t*)(p))
void _ZN9QDateTimeC1Ev(char *self) { DTW(self) = 0; }
void _ZN9QDateTimeC2Ev(char *self) { DTW(self) = 0; }
void _ZN9QDateTimeC1ERKS_(char *self, char *o) { DTW(self) = DTW(o); }
void _ZN9QDateTimeC2ERKS_(char *self, char *o) { DTW(self) = DTW(o); }
void _ZN9QDateTimeC1EOS_(char *self, char *o) { DTW(self) = DTW(o); }
void _ZN9QDateTimeD1Ev(char *self) { }
void _ZN9QDateTimeD2Ev(char *self) { }
char* _ZN9QDateTimeaSERKS_(char *self, char *o) { DTW(self) = DTW(o); return self; }
char* _ZN9QDateTimeaSEOS_(char *self, char *o) { DTW(self) = DTW(o); return self; }
uint8_t _ZNK9QDateTime6isNullEv(char *self) { return DTW(self) == 0; }
uint8_t _ZNK9QDateTime7isValidEv(char *self) { return DTW(self) != 0; }
uint8_t _ZNK9QDateTimeeqERKS_(char *a, char *b) { return DTW(a) == DTW(b); }
void _ZN9QDateTime10fromStringERK7QStringN2Qt10DateFormatE(char *ret, char *str, uint32_t fmt) { QAD *d = *(QAD**)str; uint64_t any = vp_u64();
  if (d->f1 == 0) { DTW(ret) = 0; return; } if (d->f3 == QS_OFF && ((struct qs*)d)->isnum) { DTW(ret) = ((struct qs*)d)->mag; return; } DTW(ret) = any; }
void _ZNK9QDateTime10toTimeSpecEN2Qt8TimeSpecE(char *ret, char *self, uint32_t spec) { DTW(ret) = DTW(self); }
void _ZNK9QDateTime5toUTCEv(char *ret, char *self) { DTW(ret) = DTW(self); }
uint32_t _ZNK9QDateTime4timeEv(char *self) { return (uint32_t)(DTW(self) & 0x3ffffff); }   /* QTime is one int (ms since midnight), returned in a register */
uint32_t _ZNK5QTime4msecEv(char *self) { return *(uint32_t*)self % 1000u; }
void _ZNK9QDateTime8toStringEN2Qt10DateFormatE(char *ret, char *self, uint32_t fmt) { if (DTW(self) == 0) { *(QAD**)ret = SHARED_NULL; return; } *(QAD**)ret = qs_number(DTW(self), 0); }
/* harness side: a symbolic valid instant */
void vp_iq_sym_datetime(char *out) { uint64_t v = vp_u64(); ASSUME(v != 0); DTW(out) = v; }
/* logging (DESIGN 2.5) */
void _ZNK14QMessageLogger7warningEPKcz(char *self, char *fmt, ...) { }
/* QMap<K,V>: only the shared empty representation is needed (QXmppElementPrivate::attributes of an element that is never filled: the payload
   classes override parseElementFromChild, so no generic extension element is ever built); real tree operations stay unmodelled (flagged if reached) */
#ifdef HAVE_G__ZN12QMapDataBase11shared_nullE
GT__ZN12QMapDataBase11shared_nullE G__ZN12QMapDataBase11shared_nullE = { {{{{ (uint32_t)-1 }}}}, 0, { 0, 0, 0 }, 0 };
#endif
/* ---- std::optional<E> for small trivially copyable E (enums, uint32_t): the libstdc++ constructors (inline) are overridden so that they initialise the WHOLE object,
   padding bytes included (zero). Reason: qxmpp helpers such as enumFromString<E,N>() return std::optional<E> in an integer register (ABI coercion through a union
   { optional; uintN_t }); with the real constructors the 3 padding bytes are indeterminate, the register value is not a constant for symex, and every serializer then
   selects its keyword string by a symbolic index (measured: out of memory at 3 GB for an empty roster IQ). Padding content is unspecified in C++, so choosing zero
   is a valid behaviour of the real constructors; payload and engaged flag are written exactly as the real code does. ---- */
#define IQ_OPT4_VAL(sym) void sym(char *self, char *v) { *(uint64_t*)self = (uint64_t)(*(uint32_t*)v) | (1ULL << 32); }
#define IQ_OPT4_NONE(sym) void sym(char *self) { *(uint64_t*)self = 0; }
#define IQ_OPT1_VAL(sym) void sym(char *self, char *v) { *(uint16_t*)self = (uint16_t)((uint16_t)(*(uint8_t*)v) | 0x100u); }
#define IQ_OPT1_NONE(sym) void sym(char *self) { *(uint16_t*)self = 0; }
// MODEL: _ZNSt8optionalIN7QXmppIq4TypeEEC2IS1_Lb1EEEOT_
IQ_OPT4_VAL(_ZNSt8optionalIN7QXmppIq4TypeEEC2IS1_Lb1EEEOT_)
// MODEL: _ZNSt8optionalIN7QXmppIq4TypeEEC2Ev
IQ_OPT4_NONE(_ZNSt8optionalIN7QXmppIq4TypeEEC2Ev)
// MODEL: _ZNSt8optionalIN22QXmppPubSubAffiliation11AffiliationEEC2IS1_Lb1EEEOT_
IQ_OPT4_VAL(_ZNSt8optionalIN22QXmppPubSubAffiliation11AffiliationEEC2IS1_Lb1EEEOT_)
// MODEL: _ZNSt8optionalIN22QXmppPubSubAffiliation11AffiliationEEC2Ev
IQ_OPT4_NONE(_ZNSt8optionalIN22QXmppPubSubAffiliation11AffiliationEEC2Ev)
// MODEL: _ZNSt8optionalIN23QXmppPubSubSubscription5StateEEC2IS1_Lb1EEEOT_
IQ_OPT1_VAL(_ZNSt8optionalIN23QXmppPubSubSubscription5StateEEC2IS1_Lb1EEEOT_)
// MODEL: _ZNSt8optionalIN23QXmppPubSubSubscription5StateEEC2Ev
IQ_OPT1_NONE(_ZNSt8optionalIN23QXmppPubSubSubscription5StateEEC2Ev)
// MODEL: _ZNSt8optionalIN5QXmpp7Private12PubSubIqBase9QueryTypeEEC2IS3_Lb1EEEOT_
IQ_OPT1_VAL(_ZNSt8optionalIN5QXmpp7Private12PubSubIqBase9QueryTypeEEC2IS3_Lb1EEEOT_)
// MODEL: _ZNSt8optionalIN5QXmpp7Private12PubSubIqBase9QueryTypeEEC2Ev
IQ_OPT1_NONE(_ZNSt8optionalIN5QXmpp7Private12PubSubIqBase9QueryTypeEEC2Ev)
// MODEL: _ZNSt8optionalIN5QXmpp7Private12PubSubIqBase9QueryTypeEEC2ESt9nullopt_t
IQ_OPT1_NONE(_ZNSt8optionalIN5QXmpp7Private12PubSubIqBase9QueryTypeEEC2ESt9nullopt_t)
// MODEL: _ZNSt8optionalIjEC2ESt9nullopt_t
IQ_OPT4_NONE(_ZNSt8optionalIjEC2ESt9nullopt_t)
// MODEL: _ZNSt8optionalIjEC2IRKjLb1EEEOT_
IQ_OPT4_VAL(_ZNSt8optionalIjEC2IRKjLb1EEEOT_)
// MODEL: _ZNSt8optionalIjEC2IRjLb1EEEOT_
IQ_OPT4_VAL(_ZNSt8optionalIjEC2IRjLb1EEEOT_)
// MODEL: _ZNSt8optionalIjEC2IjLb1EEEOT_
IQ_OPT4_VAL(_ZNSt8optionalIjEC2IjLb1EEEOT_)
/* case splitting over up to 64 structural bits (base.h's vp_case_bool/vp_case_u read 32): same contract, VP_CASE may be an ...ULL literal */
uint8_t vp_iq_case_bool(uint32_t i) {
#ifdef VP_CASE
  return (uint8_t)(((uint64_t)(VP_CASE) >> i) & 1u);
#else
  return vp_bool();
#endif
}
uint32_t vp_iq_case_u(uint32_t shift, uint32_t n) {
#ifdef VP_CASE
  return (uint32_t)((((uint64_t)(VP_CASE) >> shift) & 0xffu) % n);
#else
  uint32_t v = vp_u32(); ASSUME(v < n); return v;
#endif
}
/* Reference counting of QString on destruction is dropped (class-level override of the inline ~QString, as in harness/C12/models.c): string blocks
   of the model are never recycled, and an over-approximated reference count only makes the copy-on-write paths of the string model copy where Qt
   would modify in place - value semantics are unchanged. */
void _ZN7QStringD2Ev(char *self) { }
void _ZN7QStringD1Ev(char *self) { }
/* QString::toLong (libQt5Core): long == 64 bit here */
uint64_t _ZNK7QString6toLongEPbi(char *self, char *ok, uint32_t base) { return _ZNK7QString10toLongLongEPbi(self, ok, base); }
/* QByteArray::toHex / fromHex: abstract injective tagging like base64 in models/qt_core.c (the hex digit arithmetic is Qt's): toHex(raw) is a placeholder
   carrying `raw`, fromHex of it gives `raw` back, fromHex of any other text gives arbitrary <= 3 bytes (same as harness/C02/c02_env.c) */
void _ZNK10QByteArray5toHexEv(char *ret, char *self) { _ZNK10QByteArray8toBase64E6QFlagsINS_12Base64OptionEE(ret, self, 0); }
void _ZNK10QByteArray5toHexEc(char *ret, char *self, uint8_t sep) { _ZNK10QByteArray8toBase64E6QFlagsINS_12Base64OptionEE(ret, self, 0); }
void _ZN10QByteArray7fromHexERKS_(char *ret, char *enc) { uint8_t ok; *(QAD**)ret = b64_decode(*(QAD**)enc, &ok); }
void _ZN7QString23toLatin1_helper_inplaceERS_(char *ret, char *self) { _ZN7QString15toLatin1_helperERKS_(ret, self); }
/* QCryptographicHash::hash (Qt): the digest of anything is 3 arbitrary bytes (only used to obtain SOME digest value through the public
   QXmppNonSASLAuthIq::setDigest; the codec treats the digest as an opaque byte string) */
void _ZN18QCryptographicHash4hashERK10QByteArrayNS_9AlgorithmE(char *ret, char *data, uint32_t alg) { vp_sym_bytes_exact(ret, 3); }
/* ---- QVector<T> payload blocks (QTypedArrayData<T>::allocate is inline and would end in QArrayData::allocate, which qt_core.c models for QString/QByteArray
   payloads only): typed blocks of fixed capacity IQ_VCAP with Qt's header layout {ref,size,alloc,offset=24} (same idea as harness/C17/c17_models.c) ---- */
#ifndef IQ_VCAP
#define IQ_VCAP 4
#endif
struct iq_vp1 { QAD h; char *data[IQ_VCAP]; };                        /* pimpl classes: one d-pointer */
struct iq_vp2 { QAD h; struct { char *a, *b; } data[IQ_VCAP]; };      /* vptr + d-pointer (QXmppPubSubBaseItem) */
static void iq_vhdr(QAD *h, uint64_t cap) { ASSERT(cap <= IQ_VCAP, "QVector capacity of the C01/IQ model exceeded"); REF(h) = 1; h->f1 = 0; h->f2 = (uint32_t)cap; h->f3 = sizeof(QAD); }
char* _ZN15QTypedArrayDataI19QXmppPubSubBaseItemE8allocateEm6QFlagsIN10QArrayData16AllocationOptionEE(uint64_t cap, uint32_t opts) { struct iq_vp2 *b = malloc(sizeof(struct iq_vp2)); ASSUME(b != 0); iq_vhdr(&b->h, cap); return (char*)b; }
char* _ZN15QTypedArrayDataI22QXmppPubSubAffiliationE8allocateEm6QFlagsIN10QArrayData16AllocationOptionEE(uint64_t cap, uint32_t opts) { struct iq_vp1 *b = malloc(sizeof(struct iq_vp1)); ASSUME(b != 0); iq_vhdr(&b->h, cap); return (char*)b; }
char* _ZN15QTypedArrayDataI23QXmppPubSubSubscriptionE8allocateEm6QFlagsIN10QArrayData16AllocationOptionEE(uint64_t cap, uint32_t opts) { struct iq_vp1 *b = malloc(sizeof(struct iq_vp1)); ASSUME(b != 0); iq_vhdr(&b->h, cap); return (char*)b; }
void _Z9qBadAllocv(void) { ASSERT(0, "qBadAlloc (out of scope)"); ASSUME(0); }
