// C01 / st: QXmppStreamFeatures (with the nested Sasl2::StreamFeature / Bind2Feature / FastFeature) through the public setters/getters,
// real toXml / parse (QXmppStreamFeatures.cpp, QXmppSasl.cpp) over the tree model.
#include "QXmppStreamFeatures.h"
#include "QXmppSasl_p.h"
#include "st_common.h"
using namespace QXmpp::Private;
using Mode = QXmppStreamFeatures::Mode;

// VP_CASE: bits0-13 the seven modes, 2 bits each (value % 3: Disabled, Enabled, Required) in the order bind, session, nonSaslAuth, tls, sm, csi, register;
//   bit14 pre-approved subscriptions, bit15 roster versioning, bits16-17 number of compression methods (0..2), bits18-19 number of SASL mechanisms (0..2),
//   bit20 SASL2 feature present, bits21-22 its number of mechanisms (0..2), bit23 bind2 feature (no inline features), bit24 FAST feature (1 mechanism), bit26 its tls-0rtt flag,
//   bit25 stream resumption available.  Method / mechanism names: 0..2 arbitrary units each.
static unsigned cnt(unsigned shift) { unsigned n = vp_case_u(shift, 4); return n > 2 ? 2 : n; }
extern "C" void h_st_features()
{
    QXmppStreamFeatures x;
    x.setBindMode(Mode(vp_case_u(0, 4) % 3));
    x.setSessionMode(Mode(vp_case_u(2, 4) % 3));
    x.setNonSaslAuthMode(Mode(vp_case_u(4, 4) % 3));
    x.setTlsMode(Mode(vp_case_u(6, 4) % 3));
    x.setStreamManagementMode(Mode(vp_case_u(8, 4) % 3));
    x.setClientStateIndicationMode(Mode(vp_case_u(10, 4) % 3));
    x.setRegisterMode(Mode(vp_case_u(12, 4) % 3));
    x.setPreApprovedSubscriptionsSupported(vp_case_bool(14));
    x.setRosterVersioningSupported(vp_case_bool(15));
    const unsigned nComp = cnt(16), nMech = cnt(18), nMech2 = cnt(21);
    QStringList comp, mech;
    for (unsigned i = 0; i < 2; i++) {
        if (i < nComp) {
            comp << vpSymString(2);
        }
    }
    for (unsigned i = 0; i < 2; i++) {
        if (i < nMech) {
            mech << vpSymString(2);
        }
    }
    x.setCompressionMethods(comp);
    x.setAuthMechanisms(mech);
    if (vp_case_bool(20)) {
        Sasl2::StreamFeature f;
        for (unsigned i = 0; i < 2; i++) {
            if (i < nMech2) {
                f.mechanisms.push_back(vpSymString(2));
            }
        }
        if (vp_case_bool(23)) {
            f.bind2Feature = Bind2Feature {};
        }
        if (vp_case_bool(24)) {
            FastFeature ff;
            ff.mechanisms.push_back(vpSymStringExact(1));
            ff.tls0rtt = vp_case_bool(26);
            f.fast = ff;
        }
        f.streamResumptionAvailable = vp_case_bool(25);
        x.setSasl2Feature(f);
    }
    VpWriter w;
    x.toXml(w.writer());
    vp_st_phase();
    QXmppStreamFeatures y;
    y.parse(w.root());
    vp_st_phase();
    vp_assert(y.bindMode() == x.bindMode(), "C01 QXmppStreamFeatures.bindMode");
    vp_assert(y.sessionMode() == x.sessionMode(), "C01 QXmppStreamFeatures.sessionMode");
    vp_assert(y.nonSaslAuthMode() == x.nonSaslAuthMode(), "C01 QXmppStreamFeatures.nonSaslAuthMode");
    vp_assert(y.tlsMode() == x.tlsMode(), "C01 QXmppStreamFeatures.tlsMode");
    vp_assert(y.streamManagementMode() == x.streamManagementMode(), "C01 QXmppStreamFeatures.streamManagementMode");
    vp_assert(y.clientStateIndicationMode() == x.clientStateIndicationMode(), "C01 QXmppStreamFeatures.clientStateIndicationMode");
    vp_assert(y.registerMode() == x.registerMode(), "C01 QXmppStreamFeatures.registerMode");
    vp_assert(y.preApprovedSubscriptionsSupported() == x.preApprovedSubscriptionsSupported(), "C01 QXmppStreamFeatures.preApprovedSubscriptionsSupported");
    vp_assert(y.rosterVersioningSupported() == x.rosterVersioningSupported(), "C01 QXmppStreamFeatures.rosterVersioningSupported");
    {
        const QStringList a = y.compressionMethods(), b = y.authMechanisms();
        vp_assert(a.size() == comp.size(), "C01 QXmppStreamFeatures.compressionMethods size");
        vp_assert(b.size() == mech.size(), "C01 QXmppStreamFeatures.authMechanisms size");
        for (int i = 0; i < 2; i++) {
            if (i < a.size() && i < comp.size()) {
                vp_assert(a.at(i) == comp.at(i), "C01 QXmppStreamFeatures.compressionMethods[i]");
            }
            if (i < b.size() && i < mech.size()) {
                vp_assert(b.at(i) == mech.at(i), "C01 QXmppStreamFeatures.authMechanisms[i]");
            }
        }
    }
    const auto &fx = x.sasl2Feature();
    const auto &fy = y.sasl2Feature();
    vp_assert(fy.has_value() == fx.has_value(), "C01 QXmppStreamFeatures.sasl2Feature present");
    if (fx && fy) {
        vp_assert(fy->mechanisms.size() == fx->mechanisms.size(), "C01 Sasl2::StreamFeature.mechanisms size");
        for (int i = 0; i < 2; i++) {
            if (i < fy->mechanisms.size() && i < fx->mechanisms.size()) {
                vp_assert(fy->mechanisms.at(i) == fx->mechanisms.at(i), "C01 Sasl2::StreamFeature.mechanisms[i]");
            }
        }
        vp_assert(fy->bind2Feature.has_value() == fx->bind2Feature.has_value(), "C01 Sasl2::StreamFeature.bind2Feature present");
        if (fy->bind2Feature) {
            vp_assert(fy->bind2Feature->features.empty(), "C01 Sasl2::StreamFeature.bind2Feature.features");
        }
        vp_assert(fy->fast.has_value() == fx->fast.has_value(), "C01 Sasl2::StreamFeature.fast present");
        if (fy->fast && fx->fast) {
            vp_assert(fy->fast->tls0rtt == fx->fast->tls0rtt, "C01 Sasl2::StreamFeature.fast.tls0rtt");
            vp_assert(fy->fast->mechanisms.size() == 1 && fy->fast->mechanisms.at(0) == fx->fast->mechanisms.at(0), "C01 Sasl2::StreamFeature.fast.mechanisms");
        }
        vp_assert(fy->streamResumptionAvailable == fx->streamResumptionAvailable, "C01 Sasl2::StreamFeature.streamResumptionAvailable");
    }
    // second pass: modes, flags and the presence of the optional SASL2 parts pinned (asserted equal above), lists and names as parsed
    y.setBindMode(x.bindMode());
    y.setSessionMode(x.sessionMode());
    y.setNonSaslAuthMode(x.nonSaslAuthMode());
    y.setTlsMode(x.tlsMode());
    y.setStreamManagementMode(x.streamManagementMode());
    y.setClientStateIndicationMode(x.clientStateIndicationMode());
    y.setRegisterMode(x.registerMode());
    y.setPreApprovedSubscriptionsSupported(x.preApprovedSubscriptionsSupported());
    y.setRosterVersioningSupported(x.rosterVersioningSupported());
    if (fx && fy) {
        Sasl2::StreamFeature f;
        f.mechanisms = fy->mechanisms;
        if (fx->bind2Feature) {
            f.bind2Feature = Bind2Feature {};
        }
        if (fx->fast && fy->fast) {
            FastFeature ff;
            ff.mechanisms = fy->fast->mechanisms;
            ff.tls0rtt = fx->fast->tls0rtt;
            f.fast = ff;
        }
        f.streamResumptionAvailable = fx->streamResumptionAvailable;
        y.setSasl2Feature(f);
    }
    ST_FIXPOINT_SYM(w, y)   // depth 5 (features > authentication > inline > fast > mechanism): the deeper comparison of st_env.c
}
