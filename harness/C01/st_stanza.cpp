// C01 / st: QXmppStanza::Error through its public setters/getters, real Error::toXml / Error::parse (QXmppStanza.cpp) over the tree model.
#include "st_common.h"
#include "StringLiterals.h"

// VP_CASE: bits0-2 type index (0..5 -> NoType, Cancel..Wait), bits3-7 condition index (0..23 -> NoCondition, BadRequest..PolicyViolation),
//   bit8 text non-empty (2 units), bit9 `by` non-empty (2 units), bit10 legacy code > 0 (any positive int), bit11 redirection URI non-empty (2 units; only
//   meaningful for gone / redirect: documented), bits12-13 HTTP-upload part: 0 none, 1 fileTooLarge + maxFileSize (any qint64), 2 retryDate (any valid date)
extern "C" void h_st_error()
{
    stWarmAttr(u"by"_s); stWarmAttr(u"type"_s); stWarmAttr(u"code"_s); stWarmAttr(u"lang"_s); stWarmAttr(u"stamp"_s);
    const int t = int(vp_case_u(0, 8) % 6) - 1, c = int(vp_case_u(3, 32) % 24) - 1;
    const unsigned up = vp_case_u(12, 4) % 3;
    QXmppStanza::Error x;
    x.setType(QXmppStanza::Error::Type(t));
    x.setCondition(QXmppStanza::Error::Condition(c));
    x.setText(vpSymStringCase(8, 2));
    x.setBy(vpSymStringCase(9, 2));
    if (vp_case_bool(10)) {
        int code = vp_int();
        vp_assume(code > 0);
        x.setCode(code);
    }
    x.setRedirectionUri(vpSymStringCase(11, 2));
    if (up == 1) {
        x.setMaxFileSize(qint64(vp_u64()));
    } else if (up == 2) {
        x.setRetryDate(stSymDateTime());
    }
    VpWriter w;
    x.toXml(w.writer());
    vp_st_phase();
    QXmppStanza::Error y;
    y.parse(w.root());
    vp_st_phase();
    stCheckError(x, y);
    y.setType(x.type());            // pinned for the second pass (asserted equal above; see st_presence.cpp pinPresence)
    y.setCondition(x.condition());
    y.setFileTooLarge(x.fileTooLarge());
    ST_FIXPOINT(w, y)
}

// Determinism twin: the serialization is a function of the values given to the setters. Two objects built by the SAME setter calls (separately allocated;
// cbmc gives every fresh heap object independent nondeterministic content) serialize to the same tree - a member that a setter combination leaves
// indeterminate (and toXml reads) shows as a difference. VP_CASE as in h_st_error, except bits12-13 == 3: setFileTooLarge(true) WITHOUT setMaxFileSize
// (the public API allows it: "You should also set maxFileSize in this case").
static void stBuildError(QXmppStanza::Error &x, const QString &text, const QString &by, const QString &uri, bool hasCode, int code, unsigned up, qint64 size)
{
    const int t = int(vp_case_u(0, 8) % 6) - 1, c = int(vp_case_u(3, 32) % 24) - 1;
    x.setType(QXmppStanza::Error::Type(t));
    x.setCondition(QXmppStanza::Error::Condition(c));
    x.setText(text);
    x.setBy(by);
    if (hasCode) x.setCode(code);
    x.setRedirectionUri(uri);
    if (up == 1) x.setMaxFileSize(size);
    else if (up == 3) x.setFileTooLarge(true);
}
extern "C" void h_st_error_det()
{
    stWarmAttr(u"by"_s); stWarmAttr(u"type"_s); stWarmAttr(u"code"_s); stWarmAttr(u"lang"_s); stWarmAttr(u"stamp"_s);
    const unsigned up = vp_case_u(12, 4);
    QString text = vpSymStringCase(8, 2), by = vpSymStringCase(9, 2), uri = vpSymStringCase(11, 2);
    int code = vp_int(); vp_assume(code > 0);
    qint64 size = qint64(vp_u64());
    QXmppStanza::Error a, b;
    stBuildError(a, text, by, uri, vp_case_bool(10), code, up, size);
    stBuildError(b, text, by, uri, vp_case_bool(10), code, up, size);
    VpWriter wa, wb;
    a.toXml(wa.writer());
    b.toXml(wb.writer());
    QDomElement ra = wa.root(), rb = wb.root();
    vp_assert(vp_dom_equal(&ra, &rb), "C01 two stanza errors built by the same setter calls serialize to the same document (no field left indeterminate)");
}
