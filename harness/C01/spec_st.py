# C01 / st: non-IQ stanza level (QXmppPresence incl. QXmppMucItem, QXmppStanza::Error, XEP-0033 extended addresses, QXmppStreamFeatures), see st_*.cpp
STB = 'free-text fields: empty or exactly 1-2 arbitrary UTF-16 units as a structural case (element text of list entries 0..2 units), integers full range, date-times abstract'
def SI(entry, name=None, case=None, what='', **kw):
    d = dict(name=name or entry, entry='h_' + entry, unwind=10, timeout_s=300, mem_gb=4, object_bits=12, cdefs={'DOM_MAXCH': 12, 'DOM_MAXATTR': 24}, bound=STB)
    d.update(kw)
    if case is not None:
        d['cdefs'] = dict(d['cdefs'], VP_CASE=case); d['name'] = '%s_c%d' % (d['name'], case); d['bound'] = 'structural case %d%s; %s' % (case, (' (' + what + ')') if what else '', STB)
    return d
Q = ('quick', 'thorough'); T = ('thorough',)
ENV = ['qt_core.c', 'qt_list.c', 'st_pre.c', 'qt_dom.c', 'st_env.c']
PRES_TUS = ['src/base/QXmppPresence.cpp', 'src/base/QXmppStanza.cpp', 'src/base/QXmppMucIq.cpp', 'src/base/QXmppUtils.cpp']
ENVELOPE_ALL = 0xf0000000
def CORE(status=0, prio=None, ptype=1, show=0, env=0): return status | ((0 if prio is None else 1) << 1) | (ptype << 2) | (show << 5) | ((prio or 0) << 24) | (env << 28)
def ERR(t, c, text=0, by=0, code=0, uri=0, up=0): return (t + 1) | ((c + 1) << 3) | (text << 8) | (by << 9) | (code << 10) | (uri << 11) | (up << 12)
FEAT_ON = 0x1555            # all seven modes Enabled
FEAT_MID = (2 | (0 << 2) | (1 << 4) | (2 << 6) | (1 << 8) | (0 << 10) | (1 << 12)) | (1 << 14) | (1 << 16) | (2 << 18) | (1 << 20) | (1 << 21) | (1 << 24) | (1 << 25)
FEAT_ALL = 0x2222 | (3 << 14) | (2 << 16) | (2 << 18) | (1 << 20) | (2 << 21) | (15 << 23)
FEAT_DEFS = {'DOM_MAXCH': 14, 'DOM_MAXATTR': 24, 'DOM_MAXDEPTH': 7}
GROUPS = [
    dict(name='st_presence', harness='st_presence.cpp', tus=PRES_TUS, models=ENV,
         instances=[SI('st_pres_core', case=CORE(), what='available presence, nothing set', tiers=Q),
                    SI('st_pres_core', case=CORE(1, 5, 2, 1), what='unavailable, away, status text, priority 32768', tiers=Q),
                    SI('st_pres_core', case=CORE(env=15), what='all four envelope attributes (to, from, id, xml:lang)', tiers=Q),
                    SI('st_pres_core', case=CORE(0, 7, 0, 5, 5), what='type error, show invisible, priority INT_MIN, to + id', tiers=T),
                    SI('st_pres_core', case=CORE(1, 6, 7, 4, 10), what='probe, chat, status, priority INT_MAX, from + lang', tiers=T),
                    SI('st_pres_ext', case=0, what='no extension', tiers=T),
                    SI('st_pres_ext', case=16, what='two MUC status codes', tiers=Q),
                    SI('st_pres_ext', case=32, what='entity capabilities', tiers=Q),
                    SI('st_pres_ext', case=0x3fff, what='every extension at once incl. stanza error', tiers=T, timeout_s=600),
                    SI('st_pres_ext', case=6663, what='MUC support + password, MUC item, moved (old JID), MIX jid + nick', tiers=Q),
                    SI('st_pres_ext', case=9600, what='vCard update with photo hash, Muji preparing, last user interaction, stanza error with text', tiers=Q),
                    SI('st_pres_mucitem', case=0x3c1, what='outcast, role unspecified, actor, reason, nick, jid', tiers=Q),
                    SI('st_addresses', case=0, what='no address', tiers=T), SI('st_addresses', case=1 + (2 << 2), what='one address with description', tiers=Q),
                    SI('st_addresses', case=2 + (9 << 2), what='two addresses, first delivered, second with description', tiers=Q)]),
    dict(name='st_stanza', harness='st_stanza.cpp', tus=['src/base/QXmppStanza.cpp', 'src/base/QXmppUtils.cpp'], models=ENV,
         instances=[SI('st_error', case=ERR(0, 6), what='cancel / item-not-found', tiers=Q),
                    SI('st_error', case=ERR(3, 4, 1, 1, 1, 1, 1), what='auth / gone + text, by, code, redirection URI, file-too-large', tiers=Q),
                    SI('st_error', case=ERR(-1, 13, 0, 1, 0, 1, 2), what='no type / redirect + by, URI, retry date', tiers=Q),
                    SI('st_error', case=ERR(2, -1, 1), what='modify / no condition + text', tiers=Q),
                    SI('st_error_det', case=ERR(0, 6, 0, 0, 0, 0, 3), what='determinism twin: setFileTooLarge(true) without setMaxFileSize', tiers=Q),
                    SI('st_error_det', case=ERR(3, 4, 1, 1, 1, 1, 1), what='determinism twin: every field set', tiers=Q)]),
    dict(name='st_features', harness='st_features.cpp', tus=['src/base/QXmppStreamFeatures.cpp', 'src/base/QXmppSasl.cpp', 'src/base/QXmppStreamManagement.cpp', 'src/base/QXmppUtils.cpp', 'src/base/QXmppStanza.cpp'], models=ENV,
         instances=[SI('st_features', case=FEAT_ON, what='all seven modes Enabled', cdefs=FEAT_DEFS, tiers=Q), SI('st_features', case=0, what='everything disabled / absent', cdefs=FEAT_DEFS, tiers=Q),
                    SI('st_features', case=FEAT_MID, what='mixed modes, pre-approval, 1 compression method, 2 mechanisms, SASL2 with 1 mechanism + FAST + sm', cdefs=FEAT_DEFS, tiers=T, timeout_s=900, mem_gb=8),
                    SI('st_features', case=FEAT_ALL, what='all modes Required, both flags, 2+2 list entries, SASL2 with 2 mechanisms + bind2 + FAST(tls-0rtt) + sm', cdefs=FEAT_DEFS, tiers=T, timeout_s=900, mem_gb=10)]),
]
BOUNDS = ['st_*: objects are built through the public setters only and compared through the public getters only; every structural choice (which optional attribute/child is present, emptiness of a gating string, list lengths 0..2, enum values) is a compile-time case of the instance, all VALUES stay symbolic: gating strings exactly 1-2 arbitrary UTF-16 units (any unit: markup metacharacters, quotes, non-ASCII, surrogates), int / qint64 full range, byte arrays 2 arbitrary bytes (base64 / hex abstract), date-times arbitrary valid abstract instants',
          'st_*: the registered structural cases are a SAMPLE of the case space (listed per instance), not its product: QXmppPresence 13 cases, QXmppStanza::Error 4 of 6x24 type/condition pairs, QXmppStreamFeatures 4 cases',
          'st_pres_core: a non-zero priority is one of the constants 1, -1, 127, -128, 128, 32768, INT_MAX, INT_MIN per case (the serializer gates the <priority/> child on priority != 0, which symex cannot decide for a symbolic value: no verdict)',
          'second pass (re-serialize the parsed object, same tree): enum- and bool-valued fields of the parsed object are overwritten with the originals AFTER having been asserted equal (they are not constants for symex otherwise); strings, numbers, byte arrays, dates and lists are re-serialized exactly as parsed']
ASSUMPTIONS = ['st_*: an attribute written with the predefined xml: prefix is found by QDomElement::attribute() under its local name (xml:lang -> "lang"), as libQt5Xml 5.15 does with namespace processing (checked against the real library); qxmpp relies on it',
               'st_*: QDateTime is an abstract instant whose ISO text is an abstract number string (fromString(toString(x)) == x for valid x; every value UTC); QByteArray::toHex/fromHex are abstract like base64; QString::toLower is exact on ASCII (non-ASCII asserted out); QString::split only of the empty string',
               'st_*: only combinations the classes document as meaningful are in scope: a stanza error has a type or a condition; a redirection URI only with gone/redirect; max-file-size XOR retry date; an extended address has non-empty type and jid; entity capabilities have node, ver and hash all non-empty; photoHash is set iff vCardUpdateType is ValidPhoto; MUC password only with mucSupported']
OUTSIDE = ['QXmppDataForm, QXmppMessageReaction, QXmppMixInfoItem/QXmppMixParticipantItem, QXmppTrustMessageElement/KeyOwner, QXmppFileMetadata/QXmppFileShare, QXmppMessage text fields with longer strings: not reached inside the time budget (QXmppMessage field-wise: harness C17)',
           'QXmppPresence: Muji contents (QXmppJingleIq::Content), unknown extension elements (QXmppElement), legacy caps ext (no setter); symbolic non-zero priority; the field combinations that the serializers drop by design (see assumptions) - observed lossy, listed in the author report',
           'QXmppStreamFeatures: bind2 inline feature list inside the SASL2 feature (depth 6 of the tree model; Bind2Feature itself is covered by bind2_feature_*)']
