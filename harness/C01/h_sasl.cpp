// C01 layer 2: SASL / SASL2 / bind2 / FAST nonzas: toXml -> tree -> fromDom round trip
#include "QXmppSasl_p.h"
#include "QXmppStreamManagement_p.h"
#include <QDomElement>
#include <QXmlStreamWriter>
#include "vp_harness.h"
#include "vp_dom.h"
using namespace QXmpp::Private;

#define ROUNDTRIP(T, x, y)  VpWriter w; (x).toXml(w.writer()); auto y = T::fromDom(w.root()); \
    vp_assert(y.has_value(), "C01 " #T ": own output accepted by fromDom"); if (!y) return;
// second pass: serializing the parsed object gives the same tree
#define FIXPOINT(y) { VpWriter w2; (y)->toXml(w2.writer()); QDomElement a = w.root(), b = w2.root(); vp_assert(vp_dom_equal(&a, &b), "C01 re-serializing the parsed object gives the same document"); }

// NOTE: no helper returning std::optional/small structs by value: the ABI coerces them into integers and the byte-level copies
// hide the `engaged` flag from symex's constant propagation (measured: 0.7 s -> 55 s)
#define N_SASL_CONDITIONS (unsigned(Sasl::ErrorCondition::TemporaryAuthFailure) + 1)
#define SYM_CONDITION(dst, caseBit, valShift) if (vp_case_bool(caseBit)) { dst = Sasl::ErrorCondition(vp_case_u(valShift, N_SASL_CONDITIONS)); }

extern "C" void h_sasl_auth()
{
    Sasl::Auth x; x.mechanism = vpSymString(2); x.value = vpSymBytes(3);
    ROUNDTRIP(Sasl::Auth, x, y)
    vp_assert(y->mechanism == x.mechanism, "C01 Sasl::Auth.mechanism"); vp_assert(y->value == x.value, "C01 Sasl::Auth.value");
    FIXPOINT(y)
}
extern "C" void h_sasl_challenge()
{
    Sasl::Challenge x; x.value = vpSymBytes(3);
    ROUNDTRIP(Sasl::Challenge, x, y)
    vp_assert(y->value == x.value, "C01 Sasl::Challenge.value");
}
extern "C" void h_sasl_response()
{
    Sasl::Response x; x.value = vpSymBytes(3);
    ROUNDTRIP(Sasl::Response, x, y)
    vp_assert(y->value == x.value, "C01 Sasl::Response.value");
}
extern "C" void h_sasl_success()
{
    Sasl::Success x;
    ROUNDTRIP(Sasl::Success, x, y)
}
extern "C" void h_sasl_failure()
{
    Sasl::Failure x; SYM_CONDITION(x.condition, 0, 2) x.text = vpSymStringCase(1, 2);
    ROUNDTRIP(Sasl::Failure, x, y)
    vp_assert(y->condition == x.condition, "C01 Sasl::Failure.condition"); vp_assert(y->text == x.text, "C01 Sasl::Failure.text");
    FIXPOINT(y)
}
extern "C" void h_bind2_feature()
{
    Bind2Feature x; unsigned n = vp_case_bool(0) + vp_case_bool(1);
    for (unsigned i = 0; i < 2; i++) if (i < n) x.features.push_back(vpSymString(2));
    ROUNDTRIP(Bind2Feature, x, y)
    vp_assert(y->features.size() == x.features.size(), "C01 Bind2Feature.features size");
    for (unsigned i = 0; i < 2; i++) if (i < n && i < y->features.size()) vp_assert(y->features[i] == x.features[i], "C01 Bind2Feature.features[i]");
}
extern "C" void h_bind2_request()
{
    Bind2Request x; x.tag = vpSymStringCase(0, 2); x.csiInactive = vp_case_bool(1); x.carbonsEnable = vp_case_bool(2);
    if (vp_case_bool(3)) { quint64 m = 0; if (vp_case_bool(5)) { m = vp_u64(); vp_assume(m > 0); } x.smEnable = SmEnable { vp_case_bool(4), m }; }   // resume / max>0 gate attributes: structural
    ROUNDTRIP(Bind2Request, x, y)
    vp_assert(y->tag == x.tag, "C01 Bind2Request.tag"); vp_assert(y->csiInactive == x.csiInactive, "C01 Bind2Request.csiInactive");
    vp_assert(y->carbonsEnable == x.carbonsEnable, "C01 Bind2Request.carbonsEnable");
    vp_assert(y->smEnable.has_value() == x.smEnable.has_value(), "C01 Bind2Request.smEnable present");
    if (y->smEnable && x.smEnable) { vp_assert(y->smEnable->resume == x.smEnable->resume && y->smEnable->max == x.smEnable->max, "C01 Bind2Request.smEnable fields"); }
}
extern "C" void h_bind2_bound()
{
    Bind2Bound x;
    if (vp_case_bool(0)) { x.smFailed = SmFailed {}; }
    if (vp_case_bool(1)) { SmEnabled e; e.resume = vp_bool(); e.id = vpSymString(1); e.max = vp_u64(); x.smEnabled = e; }
    ROUNDTRIP(Bind2Bound, x, y)
    vp_assert(y->smFailed.has_value() == x.smFailed.has_value(), "C01 Bind2Bound.smFailed present");
    vp_assert(y->smEnabled.has_value() == x.smEnabled.has_value(), "C01 Bind2Bound.smEnabled present");
    if (y->smEnabled && x.smEnabled) vp_assert(y->smEnabled->resume == x.smEnabled->resume && y->smEnabled->id == x.smEnabled->id && y->smEnabled->max == x.smEnabled->max, "C01 Bind2Bound.smEnabled fields");
}
extern "C" void h_fast_feature()
{
    FastFeature x; unsigned n = vp_case_bool(0) + vp_case_bool(1);
    for (unsigned i = 0; i < 2; i++) if (i < n) x.mechanisms.push_back(vpSymStringNonEmpty(2));
    x.tls0rtt = vp_bool();
    ROUNDTRIP(FastFeature, x, y)
    vp_assert(y->mechanisms.size() == x.mechanisms.size(), "C01 FastFeature.mechanisms size");
    for (unsigned i = 0; i < 2; i++) if (i < n && i < y->mechanisms.size()) vp_assert(y->mechanisms[i] == x.mechanisms[i], "C01 FastFeature.mechanisms[i]");
    vp_assert(y->tls0rtt == x.tls0rtt, "C01 FastFeature.tls0rtt");
}
extern "C" void h_fast_token_request()
{
    FastTokenRequest x; x.mechanism = vpSymString(2);
    ROUNDTRIP(FastTokenRequest, x, y)
    vp_assert(y->mechanism == x.mechanism, "C01 FastTokenRequest.mechanism");
}
extern "C" void h_fast_request()
{
    FastRequest x; if (vp_bool()) x.count = vp_u64(); x.invalidate = vp_bool();
    ROUNDTRIP(FastRequest, x, y)
    vp_assert(y->count == x.count, "C01 FastRequest.count"); vp_assert(y->invalidate == x.invalidate, "C01 FastRequest.invalidate");
}
extern "C" void h_sasl2_challenge()
{
    Sasl2::Challenge x; x.data = vpSymBytes(3);
    ROUNDTRIP(Sasl2::Challenge, x, y)
    vp_assert(y->data == x.data, "C01 Sasl2::Challenge.data");
}
extern "C" void h_sasl2_response()
{
    Sasl2::Response x; x.data = vpSymBytes(3);
    ROUNDTRIP(Sasl2::Response, x, y)
    vp_assert(y->data == x.data, "C01 Sasl2::Response.data");
}
extern "C" void h_sasl2_failure()
{
    Sasl2::Failure x; x.condition = Sasl::ErrorCondition(vp_case_u(1, N_SASL_CONDITIONS)); x.text = vpSymStringCase(0, 2);
    ROUNDTRIP(Sasl2::Failure, x, y)
    vp_assert(y->condition == x.condition, "C01 Sasl2::Failure.condition"); vp_assert(y->text == x.text, "C01 Sasl2::Failure.text");
}
extern "C" void h_sasl2_continue()
{
    Sasl2::Continue x; x.additionalData = vp_case_bool(0) ? vpSymBytesExact(2) : QByteArray(); x.text = vpSymStringCase(1, 2);
    unsigned n = 1 + vp_case_bool(2);       // validity predicate of the type: at least one task (XEP-0388)
    for (unsigned i = 0; i < 2; i++) if (i < n) x.tasks.push_back(vpSymString(2));
    ROUNDTRIP(Sasl2::Continue, x, y)
    vp_assert(y->additionalData == x.additionalData, "C01 Sasl2::Continue.additionalData"); vp_assert(y->text == x.text, "C01 Sasl2::Continue.text");
    vp_assert(y->tasks.size() == x.tasks.size(), "C01 Sasl2::Continue.tasks size");
    for (unsigned i = 0; i < 2; i++) if (i < n && i < y->tasks.size()) vp_assert(y->tasks[i] == x.tasks[i], "C01 Sasl2::Continue.tasks[i]");
}
extern "C" void h_sasl2_abort()
{
    Sasl2::Abort x; x.text = vpSymStringCase(0, 2);
    ROUNDTRIP(Sasl2::Abort, x, y)
    vp_assert(y->text == x.text, "C01 Sasl2::Abort.text");
}
extern "C" void h_sasl2_success()
{
    Sasl2::Success x; if (vp_case_bool(0)) x.additionalData = vpSymBytesExact(2); x.authorizationIdentifier = vpSymStringCase(1, 2);
    if (vp_case_bool(2)) { x.smResumed = SmResumed { vp_u32(), vpSymString(1) }; }
    if (vp_case_bool(3)) { x.smFailed = SmFailed {}; }
    if (vp_case_bool(4)) { x.bound = Bind2Bound {}; }
    ROUNDTRIP(Sasl2::Success, x, y)
    vp_assert(y->additionalData == x.additionalData, "C01 Sasl2::Success.additionalData");
    vp_assert(y->authorizationIdentifier == x.authorizationIdentifier, "C01 Sasl2::Success.authorizationIdentifier");
    vp_assert(y->smResumed.has_value() == x.smResumed.has_value(), "C01 Sasl2::Success.smResumed present");
    if (y->smResumed && x.smResumed) vp_assert(y->smResumed->h == x.smResumed->h && y->smResumed->previd == x.smResumed->previd, "C01 Sasl2::Success.smResumed fields");
    vp_assert(y->smFailed.has_value() == x.smFailed.has_value(), "C01 Sasl2::Success.smFailed present");
    vp_assert(y->bound.has_value() == x.bound.has_value(), "C01 Sasl2::Success.bound present");
    vp_assert(!y->token.has_value(), "C01 Sasl2::Success.token absent");
}
extern "C" void h_sasl2_authenticate()
{
    Sasl2::Authenticate x; x.mechanism = vpSymString(2); x.initialResponse = vp_case_bool(0) ? vpSymBytesExact(2) : QByteArray();
    if (vp_case_bool(1)) { Bind2Request b; b.tag = vpSymStringCase(5, 1); b.csiInactive = vp_case_bool(6); x.bindRequest = b; }
    if (vp_case_bool(2)) { x.smResume = SmResume { vp_u32(), vpSymString(1) }; }
    if (vp_case_bool(3)) { x.tokenRequest = FastTokenRequest { vpSymString(1) }; }
    if (vp_case_bool(4)) { FastRequest f; if (vp_bool()) f.count = vp_u64(); f.invalidate = vp_bool(); x.fast = f; }
    ROUNDTRIP(Sasl2::Authenticate, x, y)
    vp_assert(y->mechanism == x.mechanism, "C01 Sasl2::Authenticate.mechanism");
    vp_assert(y->initialResponse == x.initialResponse, "C01 Sasl2::Authenticate.initialResponse");
    vp_assert(y->bindRequest.has_value() == x.bindRequest.has_value(), "C01 Sasl2::Authenticate.bindRequest present");
    if (y->bindRequest && x.bindRequest) vp_assert(y->bindRequest->tag == x.bindRequest->tag && y->bindRequest->csiInactive == x.bindRequest->csiInactive, "C01 Sasl2::Authenticate.bindRequest fields");
    vp_assert(y->smResume.has_value() == x.smResume.has_value(), "C01 Sasl2::Authenticate.smResume present");
    if (y->smResume && x.smResume) vp_assert(y->smResume->h == x.smResume->h && y->smResume->previd == x.smResume->previd, "C01 Sasl2::Authenticate.smResume fields");
    vp_assert(y->tokenRequest.has_value() == x.tokenRequest.has_value(), "C01 Sasl2::Authenticate.tokenRequest present");
    if (y->tokenRequest && x.tokenRequest) vp_assert(y->tokenRequest->mechanism == x.tokenRequest->mechanism, "C01 Sasl2::Authenticate.tokenRequest.mechanism");
    vp_assert(y->fast.has_value() == x.fast.has_value(), "C01 Sasl2::Authenticate.fast present");
    if (y->fast && x.fast) vp_assert(y->fast->count == x.fast->count && y->fast->invalidate == x.fast->invalidate, "C01 Sasl2::Authenticate.fast fields");
}

