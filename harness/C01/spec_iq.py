# C01 / IQ payload classes (serialize -> parse identity through the public getters + fix point of the second serialization)
import os
# instances that exposed genuine defects of qxmpp (fixed since): FT
FT = ('quick', 'thorough')   # the five defects these instances exposed are fixed in /repo (ddc67e2, aa7a772, 9d6c252, a26edfb, 79edbbd): they run as regressions
TH = ('thorough',)
BASE = ['src/base/QXmppIq.cpp', 'src/base/QXmppStanza.cpp', 'src/base/QXmppUtils.cpp', 'src/base/QXmppElement.cpp', 'src/base/QXmppNonza.cpp']
MODELS = ['qt_core.c', 'qt_list.c', 'iq_dom.c', 'iq_env.c']
B0 = 'free-text fields 0..2 arbitrary UTF-16 units (fields whose emptiness gates an attribute/element: empty or exactly 2 units, as a structural case)'
def I(name, entry, case=None, **kw):
    d = dict(name=name, entry=entry, unwind=8, timeout_s=240, mem_gb=3, bound=B0)
    if case is not None: d['cdefs'] = {'VP_CASE': case if case < (1 << 31) else '%dULL' % case}
    d.update(kw); return d
def env(ty=0, id_=1, to=0, frm=0): return ty, id_, to, frm
def roster_case(ty=0, pres=1, ver=0, annotate=0, items=()):
    """pres: bit0 id, bit1 to, bit2 from non-empty; items: dicts sub 0..5 (none,from,to,both,remove,notset), appr, mix, pid, ng, jid, name, ask"""
    m = ty | (pres << 2) | (ver << 5) | (annotate << 6) | (len(items) << 7)
    for i, it in enumerate(items):
        b = 9 + 12 * i
        m |= it.get('sub', 0) << b | it.get('appr', 0) << (b + 3) | it.get('mix', 0) << (b + 4) | it.get('pid', 0) << (b + 5) | it.get('ng', 0) << (b + 6) | it.get('jid', 1) << (b + 8) | it.get('name', 0) << (b + 9) | it.get('ask', 0) << (b + 10) | it.get('g0', 1) << (b + 11)
    return m
GROUPS = [
    dict(name='iq_roster', harness='h_iq_roster.cpp', tus=BASE, models=MODELS,
         instances=[I('iq_roster_empty', 'h_iq_roster', roster_case(1, 1)),
                    I('iq_roster_1', 'h_iq_roster', roster_case(1, 5, 1, 0, [dict(sub=3, appr=1, mix=1, pid=1, ng=1, name=1, ask=1)])),
                    I('iq_roster_2', 'h_iq_roster', roster_case(3, 3, 1, 0, [dict(sub=1, ng=2, name=1, g0=0), dict(sub=2, mix=1, ng=1)]), timeout_s=400, object_bits=12),
                    I('iq_roster_remove', 'h_iq_roster', roster_case(2, 1, 0, 0, [dict(sub=4)]), tiers=TH),
                    I('iq_roster_notset', 'h_iq_roster', roster_case(2, 1, 0, 0, [dict(sub=5, name=1, ng=2)]), tiers=TH),
                    I('iq_roster_annotate', 'h_iq_roster', roster_case(1, 1, 0, 1), tiers=TH),
                    I('iq_roster_result_ver', 'h_iq_roster', roster_case(3, 7, 1, 0, [dict(sub=0, appr=1, ask=1, jid=0)]), tiers=TH),
                    ]),
]
def E(ty=0, pres=1, **bits):
    m = ty | (pres << 2)
    for k, v in bits.items(): m |= v << int(k[1:])
    return m
SIMPLE_TUS = BASE + ['src/base/QXmppBindIq.cpp', 'src/base/QXmppVersionIq.cpp', 'src/base/QXmppNonSASLAuth.cpp', 'src/base/QXmppIbbIq.cpp', 'src/base/QXmppByteStreamIq.cpp']
GROUPS.append(dict(name='iq_simple', harness='h_iq_simple.cpp', tus=SIMPLE_TUS, models=MODELS, instances=[
    I('iq_bind_full', 'h_iq_bind', E(1, 7, b5=1, b6=1)), I('iq_bind_res', 'h_iq_bind', E(2, 1, b6=1)), I('iq_bind_empty', 'h_iq_bind', E(3, 0)),
    I('iq_version_full', 'h_iq_version', E(3, 7, b5=1, b6=1, b7=1)), I('iq_version_get', 'h_iq_version', E(1, 3)), I('iq_version_os', 'h_iq_version', E(3, 1, b6=1)),
    I('iq_auth_full', 'h_iq_auth', E(2, 1, b5=1, b6=1, b7=1, b8=1), cdefs={'VP_CASE': E(2, 1, b5=1, b6=1, b7=1, b8=1), 'VP_UTF8_LATIN1': 1}), I('iq_auth_empty', 'h_iq_auth', E(1, 1)),
    I('iq_ibb_open', 'h_iq_ibb_open', E(2, 7)), I('iq_ibb_close', 'h_iq_ibb_close', E(2, 5)), I('iq_ibb_data', 'h_iq_ibb_data', E(2, 7, b5=1)), I('iq_ibb_data_empty', 'h_iq_ibb_data', E(2, 1)),
    I('iq_lang_empty', 'h_iq_lang', E(1, 1)), I('iq_lang', 'h_iq_lang', E(1, 1, b5=1), tiers=FT),   # iq_lang: FINDING (QXmppIq::toXml never writes xml:lang)
    I('iq_bytestream_2', 'h_iq_bytestream', E(2, 7, b5=1, b6=1, b8=2, b10=7, b13=2, b16=1, b17=1)), I('iq_bytestream_0', 'h_iq_bytestream', E(3, 1, b6=2, b17=1)),
]))
DISCO_TUS = BASE + ['src/base/QXmppDiscoveryIq.cpp', 'src/base/QXmppPushEnableIq.cpp', 'src/base/QXmppDataForm.cpp']
GROUPS.append(dict(name='iq_disco', harness='h_iq_disco.cpp', tus=DISCO_TUS, models=MODELS, instances=[
    I('iq_disco_info_2', 'h_iq_disco', E(3, 3, b6=1, b7=2, b9=15, b13=3, b17=2, b19=1, b20=1)), I('iq_disco_info_1', 'h_iq_disco', E(3, 5, b7=1, b9=8, b17=1)), I('iq_disco_info_0', 'h_iq_disco', E(1, 3)),
    I('iq_disco_items_2', 'h_iq_disco', E(3, 3, b5=1, b6=1, b7=2, b9=7, b12=1)), I('iq_disco_items_0', 'h_iq_disco', E(1, 1, b5=1)),
    I('iq_push_enable', 'h_iq_push', E(2, 1, b5=1)), I('iq_push_disable', 'h_iq_push', E(2, 3, b5=0)),
]))
MAM_TUS = BASE + ['src/base/QXmppMamIq.cpp', 'src/base/QXmppResultSet.cpp', 'src/base/QXmppDataForm.cpp']
GROUPS.append(dict(name='iq_mam', harness='h_iq_mam.cpp', tus=MAM_TUS, models=MODELS, instances=[
    I('iq_mam_query_node', 'h_iq_mam_query', E(2, 1, b5=1)),
    I('iq_mam_query_id', 'h_iq_mam_query', E(2, 1, b5=1, b6=1), tiers=FT),   # FINDING: queryid written, queryId parsed
    I('iq_mam_query_rsm', 'h_iq_mam_query', E(2, 1, b7=1, b8=2, b10=3, b12=2, b14=1)),
    I('iq_mam_query_rsm_max', 'h_iq_mam_query', E(2, 1, b7=1, b8=1)),
    I('iq_mam_query_rsm_index0', 'h_iq_mam_query', E(2, 1, b7=1, b10=1)),
    I('iq_mam_query_rsm_before', 'h_iq_mam_query', E(2, 1, b7=1, b14=1)),
    I('iq_mam_result_empty', 'h_iq_mam_result', E(3, 3, b5=1)),
    I('iq_mam_result_full', 'h_iq_mam_result', E(3, 3, b5=1, b6=1, b7=3, b9=1, b11=2, b13=2)),
    I('iq_mam_result_nocount', 'h_iq_mam_result', E(3, 3, b6=1, b11=2, b13=2), tiers=FT),   # FINDING: count unset (-1) parses as 0
    I('iq_mam_result_index', 'h_iq_mam_result', E(3, 3, b6=1, b7=1, b9=2)),
]))
PS_TUS = BASE + ['src/base/QXmppPubSubIq.cpp', 'src/base/QXmppPubSubBaseItem.cpp', 'src/base/QXmppPubSubSubscription.cpp', 'src/base/QXmppPubSubAffiliation.cpp', 'src/base/QXmppResultSet.cpp', 'src/base/QXmppDataForm.cpp']
PS_Q = ['affiliations', 'owner_affiliations', 'configure', 'create', 'default', 'owner_default', 'delete', 'items', 'options', 'publish', 'purge', 'retract', 'subscribe', 'subscription', 'subscriptions', 'owner_subscriptions', 'unsubscribe']
def PS(q, ty=1, pres=1, **bits): bits.setdefault('b27', 0 if q == 'subscription' else 1); return E(ty, pres, b5=PS_Q.index(q), **bits)
def PSI(name, case, **kw): return I(name, 'h_iq_pubsub', case, object_bits=12, **kw)
PS_CASES = dict(
    items=PS('items', 3, 3, b11=1, b12=1, b13=1, b15=1, b16=1, b17=1, b26=1), items_req=PS('items', 1, 5, b11=1, b13=2, b15=1, b16=1), items_plain=PS('items', 1, 1, b11=1),
    affiliations=PS('affiliations', 3, 1, b18=1, b19=3, b23=1), affiliations_get=PS('affiliations', 1, 1, b11=1),
    owner_affiliations=PS('owner_affiliations', 2, 3, b11=1, b18=1, b19=5, b22=0), owner_affiliations_node=PS('owner_affiliations', 3, 1, b11=1, b18=1, b19=1, b22=1),
    configure=PS('configure', 1, 3, b11=1), create=PS('create', 2, 1, b11=1), create_instant=PS('create', 2, 1), default=PS('default', 1, 1), owner_default=PS('owner_default', 1, 3),
    delete=PS('delete', 2, 1, b11=1), options=PS('options', 1, 1, b10=1, b11=1, b12=1), options_nosubid=PS('options', 1, 1, b10=1, b11=1),
    publish=PS('publish', 2, 1, b11=1, b15=1, b16=1), publish_noid=PS('publish', 2, 1, b11=1, b15=1), purge=PS('purge', 2, 1, b11=1),
    retract=PS('retract', 2, 1, b11=1, b15=1, b16=1), subscribe=PS('subscribe', 2, 1, b10=1, b11=1),
    subscription=PS('subscription', 3, 3, b19=3, b22=1, b23=1, b24=2), subscription_min=PS('subscription', 3, 1, b19=0), subscription_avail=PS('subscription', 3, 1, b19=2, b22=1, b24=1),
    subscriptions=PS('subscriptions', 3, 1, b11=1, b18=1, b19=4, b22=1, b23=1, b24=2), subscriptions_0=PS('subscriptions', 1, 1),
    owner_subscriptions=PS('owner_subscriptions', 3, 1, b10=1, b11=1, b18=1, b19=2), owner_subscriptions_0=PS('owner_subscriptions', 1, 1, b10=1, b11=1),
    unsubscribe=PS('unsubscribe', 2, 1, b10=1, b11=1, b12=1), unsubscribe_nosubid=PS('unsubscribe', 2, 7, b10=1, b11=1))
# FINDINGS (genuine defects of qxmpp, see the final report): not run (tiers=FT)
PS_FINDINGS = dict(subscription_recognised=PS('subscription', 3, 1, b19=3, b27=1), owner_subscriptions_subid=PS('owner_subscriptions', 3, 1, b10=1, b11=1, b18=1, b19=3, b28=1))
PS_QUICK = ['items', 'owner_affiliations', 'subscription', 'subscriptions', 'options']
GROUPS.append(dict(name='iq_pubsub', harness='h_iq_pubsub.cpp', tus=PS_TUS, models=MODELS, instances=[
    PSI('iq_ps_' + k, v, tiers=('quick', 'thorough') if k in PS_QUICK else ('thorough',)) for k, v in PS_CASES.items()] + [PSI('iq_ps_' + k, v, tiers=FT) for k, v in PS_FINDINGS.items()]))
QUICK = {'iq_auth_full', 'iq_version_os', 'iq_bytestream_2', 'iq_bind_full', 'iq_mam_query_rsm', 'iq_roster_2', 'iq_ibb_data', 'iq_push_disable', 'iq_mam_query_rsm_index0', 'iq_mam_result_full', 'iq_disco_items_2', 'iq_disco_info_2', 'iq_roster_1'}
for g in GROUPS:
    if g['name'] == 'iq_pubsub': continue
    for i in g['instances']:
        if 'tiers' not in i: i['tiers'] = ('quick', 'thorough') if i['name'] in QUICK else TH
BOUNDS = [
    'IQ payload classes (groups iq_*): QXmppRosterIq + Item, QXmppBindIq, QXmppVersionIq, QXmppNonSASLAuthIq, QXmppIbbOpenIq / DataIq / CloseIq, QXmppByteStreamIq + StreamHost, QXmppDiscoveryIq + Identity / Item, QXmppPushEnableIq, QXmppMamQueryIq / QXmppMamResultIq + QXmppResultSetQuery / Reply, QXmpp::Private::PubSubIq<QXmppPubSubBaseItem> (all 17 query types) + QXmppPubSubSubscription / Affiliation / BaseItem; envelope id / to / from / type (all 4 types) on every class',
    'every free-text field: empty or exactly 2 arbitrary UTF-16 units (any unit incl. markup characters, quotes, non-ASCII, surrogates), emptiness being a structural case whenever it gates an attribute or element; fields written unconditionally: 0..2 units; lists 0..2 entries (PubSub lists 0..1); integers: whole range of the type (block size, sequence, ports), except integers whose SIGN gates an element (result-set max / index / count: -1, 0, 1, INT_MAX; pubsub max_items: unset, 1, 4294967295); byte arrays 3 arbitrary bytes',
    'one cbmc instance per structural case (VP_CASE bit mask decoded in each harness header comment); the instances registered are a selection of the combinations, not all of them',
    'oracle: every PUBLIC getter of the parsed object equals the one of the built object, the class recognises its own output (isXxxIq), and serializing the parsed object again gives the same tree (sibling order significant: stricter than the statement)',
]
ASSUMPTIONS = [
    'iq_dom.c (fork of models/qt_dom.c, checked against libQt5Xml 5.15 with a probe program): writeAttribute("xmlns", v) declares the default namespace of the element; an attribute written as "xml:lang" is found by attribute("lang"), not by attribute("xml:lang"), and shows up in attributes() with nodeName "xml:lang"; text() of an existing element without character data is empty but not null',
    'std::optional<E> constructors for small E (enums, uint32_t) zero the padding bytes (libstdc++ leaves them indeterminate): class-level override so that optionals returned in integer registers (enumFromString, queryTypeFromDomElement) stay constants for symbolic execution',
    'QSet<QString> is a class-level slot model in insertion order (Qt: unspecified order); QVector<T> payload blocks have a fixed capacity of 4; ~QString does not decrement the reference count; QDateTime is an opaque instant; QCryptographicHash::hash returns 3 arbitrary bytes (only to obtain some digest through QXmppNonSASLAuthIq::setDigest); hex encoding is an abstract injective tagging like base64',
    'roster: mixParticipantId is set only on items that are MIX channels (it is an attribute of <channel/>); group names of one item are pairwise distinct (a set). pubsub: fields are set where the query type carries them (header comment of h_iq_pubsub.cpp), affiliations / owner subscriptions are valid per XEP-0060 (node resp. jid resp. state present), a Subscription query always carries its subscription',
]
OUTSIDE = [
    'IQ payload classes not covered: QXmppHttpUploadRequestIq / SlotIq (QUrl, QMimeType, QMap), QXmppMixIq family, QXmppStreamInitiationIq, QXmppRegisterIq, QXmppEntityTimeIq (time-zone text arithmetic), QXmppExternalServiceDiscoveryIq, QXmppVCardIq, QXmppArchiveIq, QXmppRpcIq, Jingle, OMEMO, MUC admin/owner, bits of binary, ...; data forms inside disco / push / MAM / pubsub IQs stay empty; the <error/> child of the envelope (QXmppStanza::Error) and extended addresses',
    'known asymmetries kept as not-run instances (tiers=(); VP_IQ_FINDINGS=1 runs them): iq_lang, iq_mam_query_id, iq_mam_result_nocount, iq_ps_subscription_recognised, iq_ps_owner_subscriptions_subid',
    'strings longer than 2 units, lists longer than 2, blank strings, all structural combinations not registered',
]
OUTSIDE = []
ASSUMPTIONS = []
