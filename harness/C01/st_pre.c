/* C01/st: included BEFORE models/qt_dom.c.  The shared writer model stores an attribute under the qualified name it was written with.
   Real Qt (QDomDocument::setContent with namespace processing, which is how qxmpp reads the stream) keys an attribute of the predefined
   `xml` prefix by its LOCAL name: element.attribute("lang") finds xml:lang='..' and attribute("xml:lang") finds nothing (checked against
   libQt5Xml 5.15.8).  qxmpp relies on it (QXmppStanza::parse reads "lang", the serializers write "xml:lang").  st_env.c wraps the shared
   writeAttribute accordingly; the shared model itself is used unchanged. */
#define _ZN16QXmlStreamWriter14writeAttributeERK7QStringS2_ st_shared_writeAttribute
