// C01/st: shared pieces of the stanza-level round-trip harnesses (object built through the PUBLIC setters with symbolic values -> real toXml()
// into the writer tree model -> real parse() of that tree -> every public getter equal -> re-serialize -> same tree).
#pragma once
#include "QXmppStanza.h"
#include "QXmppElement.h"
#include "QXmppJingleIq.h"
#include <QDateTime>
#include <QDomElement>
#include <QXmlStreamWriter>
#include "vp_harness.h"
#include "vp_dom.h"
extern "C" {
unsigned vp_st_nch(const QDomElement *el);
void vp_st_child(const QDomElement *el, unsigned i, QDomElement *out);
unsigned vp_st_nattr(const QDomElement *el);
void vp_st_sym_datetime(QDateTime *out);       // arbitrary VALID date-time (abstract value)
void vp_st_invalid_datetime(QDateTime *out);   // non-null but invalid date-time
void vp_st_phase();
bool vp_st_dom_equal(const QDomElement *a, const QDomElement *b);   // vp_dom_equal that tolerates symbolic child counts
void vp_st_warm_attr(const QString *name);
}
static inline void stWarmAttr(const QString &n) { vp_st_warm_attr(&n); }
#ifdef ST_NEED_ELEMENT_STUB
// QXmppElement (unknown extensions; QXmppElement.cpp is not linked): the harnesses never set an extension and assert that parsing
// their own output yields none, so no member is ever reached with a non-null d.
class QXmppElementPrivate { public: int dummy; };
QXmppElement::QXmppElement() : d(nullptr) { }
QXmppElement::QXmppElement(const QXmppElement &) : d(nullptr) { }
QXmppElement::QXmppElement(const QDomElement &) : d(nullptr) { }
QXmppElement::~QXmppElement() { }
QXmppElement &QXmppElement::operator=(const QXmppElement &) { return *this; }
void QXmppElement::toXml(QXmlStreamWriter *) const { }
#endif
#ifdef ST_NEED_JINGLE_STUB
// QXmppJingleIq::Content (Muji contents of a presence; QXmppJingleData.cpp is not linked): the list stays empty, only the destructor of the
// empty QVector is instantiated.
class QXmppJingleIqContentPrivate : public QSharedData { };
QXmppJingleIq::Content::Content() : d(nullptr) { }
QXmppJingleIq::Content::Content(const QXmppJingleIq::Content &) = default;
QXmppJingleIq::Content::Content(QXmppJingleIq::Content &&) = default;
QXmppJingleIq::Content::~Content() = default;
QXmppJingleIq::Content &QXmppJingleIq::Content::operator=(const QXmppJingleIq::Content &) = default;
QXmppJingleIq::Content &QXmppJingleIq::Content::operator=(QXmppJingleIq::Content &&) = default;
void QXmppJingleIq::Content::parse(const QDomElement &) { vp_assert(false, "C01 st: a Muji <content/> appeared in the presence's own output"); }
void QXmppJingleIq::Content::toXml(QXmlStreamWriter *) const { }
#endif
static inline QDateTime stSymDateTime() { QDateTime d; vp_st_sym_datetime(&d); return d; }
// envelope attributes: 0..2 arbitrary units each (attributes live in name-keyed slots: their emptiness does not move anything)
#ifndef ST_ENV_SHIFT
#define ST_ENV_SHIFT 28
#endif
// emptiness of the four envelope attributes: structural bits ST_ENV_SHIFT..+3 of VP_CASE (to, from, id, lang); non-empty = exactly 2 arbitrary units
static inline void stEnvelope(QXmppStanza &s) { s.setTo(vpSymStringCase(ST_ENV_SHIFT, 2)); s.setFrom(vpSymStringCase(ST_ENV_SHIFT + 1, 2)); s.setId(vpSymStringCase(ST_ENV_SHIFT + 2, 2)); s.setLang(vpSymStringCase(ST_ENV_SHIFT + 3, 2)); }
static inline void stCheckEnvelope(const QXmppStanza &x, const QXmppStanza &y)
{
    vp_assert(y.to() == x.to(), "C01 stanza.to");
    vp_assert(y.from() == x.from(), "C01 stanza.from");
    vp_assert(y.id() == x.id(), "C01 stanza.id");
    vp_assert(y.lang() == x.lang(), "C01 stanza.lang (written as xml:lang)");
}
static inline void stCheckError(const QXmppStanza::Error &a, const QXmppStanza::Error &b)
{
    vp_assert(b.type() == a.type(), "C01 Error.type");
    vp_assert(b.condition() == a.condition(), "C01 Error.condition");
    vp_assert(b.text() == a.text(), "C01 Error.text");
    vp_assert(b.by() == a.by(), "C01 Error.by");
    vp_assert(b.code() == a.code(), "C01 Error.code");
    vp_assert(b.redirectionUri() == a.redirectionUri(), "C01 Error.redirectionUri");
    vp_assert(b.fileTooLarge() == a.fileTooLarge(), "C01 Error.fileTooLarge");
    vp_assert(!a.fileTooLarge() || b.maxFileSize() == a.maxFileSize(), "C01 Error.maxFileSize");
    vp_assert(b.retryDate() == a.retryDate(), "C01 Error.retryDate");
}
#define ST_FIXPOINT(w, y) { VpWriter w2; (y).toXml(w2.writer()); QDomElement a_ = (w).root(), b_ = w2.root(); vp_assert(vp_dom_equal(&a_, &b_), "C01 re-serializing the parsed object gives the same document"); }
#define ST_FIXPOINT_SYM(w, y) { VpWriter w2; (y).toXml(w2.writer()); QDomElement a_ = (w).root(), b_ = w2.root(); vp_assert(vp_st_dom_equal(&a_, &b_), "C01 re-serializing the parsed object gives the same document"); }
