// C01 / IQ payloads: small payload classes (bind, version, XEP-0078 auth, in-band bytestreams, SOCKS5 bytestreams).
// VP_CASE bits common to all entries: [0..1] iq type, [2..4] id / to / from non-empty; class-specific bits from 5 upwards (see each entry).
#include "iq_common.h"
#include "QXmppBindIq.h"
#include "QXmppVersionIq.h"
#include "QXmppNonSASLAuth.h"
#include "QXmppIbbIq.h"
#include "QXmppByteStreamIq.h"

// [5] jid, [6] resource non-empty
extern "C" void h_iq_bind()
{
    QXmppBindIq x; iqEnvelope(x, 0, 2);
    x.setJid(IQS(5)); x.setResource(IQS(6));
    QXmppBindIq y; IQ_ROUNDTRIP(x, y)
    iqEnvelopeEq(x, y);
    vp_assert(y.jid() == x.jid(), "C01 QXmppBindIq.jid"); vp_assert(y.resource() == x.resource(), "C01 QXmppBindIq.resource");
    vp_assert(QXmppBindIq::isBindIq(t1), "C01 QXmppBindIq: own output recognised by isBindIq");
    IQ_FIXPOINT(y)
}
// [5] name, [6] os, [7] version non-empty
extern "C" void h_iq_version()
{
    QXmppVersionIq x; iqEnvelope(x, 0, 2);
    x.setName(IQS(5)); x.setOs(IQS(6)); x.setVersion(IQS(7));
    QXmppVersionIq y; IQ_ROUNDTRIP(x, y)
    iqEnvelopeEq(x, y);
    vp_assert(y.name() == x.name(), "C01 QXmppVersionIq.name"); vp_assert(y.os() == x.os(), "C01 QXmppVersionIq.os"); vp_assert(y.version() == x.version(), "C01 QXmppVersionIq.version");
    vp_assert(QXmppVersionIq::isVersionIq(t1), "C01 QXmppVersionIq: own output recognised by isVersionIq");
    IQ_FIXPOINT(y)
}
// [5] username, [6] digest set (through the public setDigest(streamId, password): SHA-1 is environment, the digest is 3 arbitrary bytes), [7] password, [8] resource
extern "C" void h_iq_auth()
{
    QXmppNonSASLAuthIq x; iqEnvelope(x, 0, 2);
    x.setUsername(IQS(5)); if (CB(6)) x.setDigest(vpSymString(1), vpSymString(1)); x.setPassword(IQS(7)); x.setResource(IQS(8));
    QXmppNonSASLAuthIq y; IQ_ROUNDTRIP(x, y)
    iqEnvelopeEq(x, y);
    vp_assert(y.username() == x.username(), "C01 QXmppNonSASLAuthIq.username"); vp_assert(y.digest() == x.digest(), "C01 QXmppNonSASLAuthIq.digest");
    vp_assert(y.password() == x.password(), "C01 QXmppNonSASLAuthIq.password"); vp_assert(y.resource() == x.resource(), "C01 QXmppNonSASLAuthIq.resource");
    vp_assert(QXmppNonSASLAuthIq::isNonSASLAuthIq(t1), "C01 QXmppNonSASLAuthIq: own output recognised by isNonSASLAuthIq");
    IQ_FIXPOINT(y)
}
// sid 0..2 units (written unconditionally), block size: whole range of long
extern "C" void h_iq_ibb_open()
{
    QXmppIbbOpenIq x; iqEnvelope(x, 0, 2);
    x.setSid(vpSymString(2)); x.setBlockSize(long(vp_u64()));
    QXmppIbbOpenIq y; IQ_ROUNDTRIP(x, y)
    iqEnvelopeEq(x, y);
    vp_assert(y.sid() == x.sid(), "C01 QXmppIbbOpenIq.sid"); vp_assert(y.blockSize() == x.blockSize(), "C01 QXmppIbbOpenIq.blockSize");
    vp_assert(QXmppIbbOpenIq::isIbbOpenIq(t1), "C01 QXmppIbbOpenIq: own output recognised by isIbbOpenIq");
    IQ_FIXPOINT(y)
}
extern "C" void h_iq_ibb_close()
{
    QXmppIbbCloseIq x; iqEnvelope(x, 0, 2);
    x.setSid(vpSymString(2));
    QXmppIbbCloseIq y; IQ_ROUNDTRIP(x, y)
    iqEnvelopeEq(x, y);
    vp_assert(y.sid() == x.sid(), "C01 QXmppIbbCloseIq.sid");
    vp_assert(QXmppIbbCloseIq::isIbbCloseIq(t1), "C01 QXmppIbbCloseIq: own output recognised by isIbbCloseIq");
    IQ_FIXPOINT(y)
}
// [5] payload non-empty (3 arbitrary bytes); sid 0..2 units, sequence: whole range of quint16
extern "C" void h_iq_ibb_data()
{
    QXmppIbbDataIq x; iqEnvelope(x, 0, 2);
    x.setSid(vpSymString(2)); x.setSequence(vp_u16()); x.setPayload(CB(5) ? vpSymBytesExact(3) : QByteArray());
    QXmppIbbDataIq y; IQ_ROUNDTRIP(x, y)
    iqEnvelopeEq(x, y);
    vp_assert(y.sid() == x.sid(), "C01 QXmppIbbDataIq.sid"); vp_assert(y.sequence() == x.sequence(), "C01 QXmppIbbDataIq.sequence");
    vp_assert(y.payload() == x.payload(), "C01 QXmppIbbDataIq.payload");
    vp_assert(QXmppIbbDataIq::isIbbDataIq(t1), "C01 QXmppIbbDataIq: own output recognised by isIbbDataIq");
    IQ_FIXPOINT(y)
}
// [5] sid, [6..7] mode (None, Tcp, Udp), [8..9] number of stream hosts 0..2, [10..12] / [13..15] host, jid, zeroconf of host 0 / 1 non-empty, [16] activate, [17] streamHostUsed non-empty;
// ports: whole range of quint16
extern "C" void h_iq_bytestream()
{
    QXmppByteStreamIq x; iqEnvelope(x, 0, 2);
    x.setSid(IQS(5)); x.setMode(QXmppByteStreamIq::Mode(CU(6, 4) % 3));
    unsigned n = CU(8, 4); if (n > 2) n = 2;
    QXmppByteStreamIq::StreamHost h[2]; QList<QXmppByteStreamIq::StreamHost> hl;
    for (unsigned i = 0; i < 2; i++) { if (i >= n) break; unsigned b = 10 + 3 * i; h[i].setHost(IQS(b)); h[i].setJid(IQS(b + 1)); h[i].setZeroconf(IQS(b + 2)); h[i].setPort(vp_u16()); hl.append(h[i]); }
    x.setStreamHosts(hl); x.setActivate(IQS(16)); x.setStreamHostUsed(IQS(17));
    QXmppByteStreamIq y; IQ_ROUNDTRIP(x, y)
    iqEnvelopeEq(x, y);
    vp_assert(y.sid() == x.sid(), "C01 QXmppByteStreamIq.sid"); vp_assert(y.mode() == x.mode(), "C01 QXmppByteStreamIq.mode");
    vp_assert(y.activate() == x.activate(), "C01 QXmppByteStreamIq.activate"); vp_assert(y.streamHostUsed() == x.streamHostUsed(), "C01 QXmppByteStreamIq.streamHostUsed");
    const QList<QXmppByteStreamIq::StreamHost> yh = y.streamHosts();
    vp_assert(unsigned(yh.size()) == n, "C01 QXmppByteStreamIq.streamHosts size");
    for (unsigned i = 0; i < 2; i++) { if (i >= n || int(i) >= yh.size()) break;
        vp_assert(yh.at(i).host() == h[i].host() && yh.at(i).jid() == h[i].jid() && yh.at(i).zeroconf() == h[i].zeroconf(), "C01 QXmppByteStreamIq::StreamHost host/jid/zeroconf");
        vp_assert(yh.at(i).port() == h[i].port(), "C01 QXmppByteStreamIq::StreamHost.port"); }
    vp_assert(QXmppByteStreamIq::isByteStreamIq(t1), "C01 QXmppByteStreamIq: own output recognised by isByteStreamIq");
    IQ_FIXPOINT(y)
}
// the xml:lang of the envelope (QXmppStanza::lang / setLang) on a version IQ: [5] lang non-empty
extern "C" void h_iq_lang()
{
    QXmppVersionIq x; iqEnvelope(x, 0, 2);
    x.setLang(IQS(5));
    QXmppVersionIq y; IQ_ROUNDTRIP(x, y)
    iqEnvelopeEq(x, y);
    vp_assert(y.lang() == x.lang(), "C01 IQ envelope: lang (xml:lang)");
    IQ_FIXPOINT(y)
}
