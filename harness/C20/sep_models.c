/* C20 topic "sep": per-kind maximum text lengths of sep_vs.cpp (-DSEP_L<k>=0..2, default 2).  A maximum of 0 gives the
   constant 0 (the text is structurally empty: no symbolic length, GUIDE "lengths are structure too"); SEP_X<k>=1 makes the length
   exactly the maximum. */
#ifdef HAVE_T_struct_QArrayData
#ifndef SEP_L0
#define SEP_L0 2
#endif
#ifndef SEP_L1
#define SEP_L1 2
#endif
#ifndef SEP_L2
#define SEP_L2 2
#endif
#ifndef SEP_L3
#define SEP_L3 2
#endif
#ifndef SEP_L4
#define SEP_L4 2
#endif
#ifndef SEP_L5
#define SEP_L5 2
#endif
#ifndef SEP_L6
#define SEP_L6 2
#endif
#ifndef SEP_L7
#define SEP_L7 2
#endif
uint32_t vp_sep_len(uint32_t which) { uint32_t m = which == 0 ? SEP_L0 : which == 1 ? SEP_L1 : which == 2 ? SEP_L2 : which == 3 ? SEP_L3 : which == 4 ? SEP_L4 : which == 5 ? SEP_L5 : which == 6 ? SEP_L6 : SEP_L7;
  ASSERT(m <= 2, "sep: maximum text length above 2"); if (m == 0) return 0;
  uint32_t n = vp_u32(); ASSUME(n <= m); return n; }
#endif
