# C20, topic "sep": the ORDER of identities / features / form fields / values on data where the separators '/' and '<' of the hashed
# string matter (sep_vs.cpp): alphabet {'-', '0', 'A', 'a'} = one character below '/', one between '/' and '<', one letter above '<'
# in both cases; text lengths 0..max with max per kind of text from the instance (L = category, type, xml:lang, name, feature,
# FORM_TYPE value, field var, field value), so that a text can be a strict prefix of its counterpart.
TUS = ['src/base/QXmppDataForm.cpp']
MODELS = ['c20_qt_core.c', 'c20_qt_list.c', 'c20_models.c', 'sep_models.c']
LB = {'check_against_oracle': 42}
VS = 'F__ZNK16QXmppDiscoveryIq18verificationStringEv'
VS_UW = ['%s.%d:4' % (VS, k) for k in range(10)] + ['F__ZL13sepIdentitiesP3IdT.%d:14' % k for k in range(6)]   # 3 identities x 4 fields in one flattened loop
ALPHABET = "{'-','0','A','a'}"
def S(name, entry, n=(), L=(), cap=26, **kw):
    # cap: capacity of the QString/QByteArray model blocks (and, per group, of the reference buffer): >= the longest hashed string of the instance
    cd = {'C20_HAVE_IDLESS': 1, 'QS_CAP': cap, 'QB_CAP': cap}
    for k, v in enumerate(n):
        if v is not None: cd['C_N%d' % k] = v
    for k, v in enumerate(L):
        if v is not None: cd['SEP_L%d' % k] = v
    d = dict(name=name, entry=entry, cdefs=cd, unwindset=list(VS_UW), unwind=9, timeout_s=400, mem_gb=3, solver='cadical', tiers=('quick', 'thorough'), bound=''); d.update(kw); return d
GROUPS = [
    dict(name='sep', harness='sep_vs.cpp', tus=TUS, models=MODELS, cxxdefs={'REFCAP': 26}, loop_bounds=LB, instances=[
        # identities; n = (identities, features), L = maximum lengths (category, type, xml:lang, name, feature)
        S('sep_id2_full', 'h_sep_idfeat', (2, 0), (2, 2, 2, 2, 0), bound='2 identities, category/type/lang/name each 0..2 units over ' + ALPHABET),
        S('sep_id2_cat', 'h_sep_idfeat', (2, 0), (2, 1, 0, 1, 0), bound='2 identities: category 0..2, type 0..1, no lang, name 0..1 units over ' + ALPHABET),
        S('sep_id2_lang', 'h_sep_idfeat', (2, 0), (1, 0, 2, 1, 0), bound='2 identities: category 0..1, no type, lang 0..2, name 0..1 units over ' + ALPHABET),
        S('sep_id2_type_name', 'h_sep_idfeat', (2, 0), (0, 2, 1, 2, 0), bound='2 identities: no category, type 0..2, lang 0..1, name 0..2 units over ' + ALPHABET),
        # features (duplicates allowed)
        S('sep_feat3', 'h_sep_idfeat', (0, 3), (0, 0, 0, 0, 2), bound='no identity, 3 features of 0..2 units over ' + ALPHABET),
        S('sep_id1_feat2', 'h_sep_idfeat', (1, 2), (1, 1, 1, 1, 2), bound='1 identity (fields 0..1 units), 2 features of 0..2 units over ' + ALPHABET),
        # forms; n = (identities, features, values of field 0, values of field 1, fields, FORM_TYPE present, its position, kinds bitmask), L[5..7] = FORM_TYPE value, var, value
        S('sep_form_1m', 'h_sep_form', (0, 0, 2, 0, 1, 1, 0, 1), (0, 0, 0, 0, 0, 2, 2, 2), bound='FORM_TYPE + one list-multi field with 2 values; FORM_TYPE value, var and values 0..2 units over ' + ALPHABET),
        S('sep_form_2s', 'h_sep_form', (0, 0, 1, 1, 2, 1, 2, 0), (0, 0, 0, 0, 0, 1, 2, 1), mem_gb=5, tiers=('thorough',), timeout_s=900, bound='two text-single fields (var 0..2, value 0..1 units), FORM_TYPE (value 0..1) last; over ' + ALPHABET),
        S('sep_form_1m_feat', 'h_sep_form', (0, 1, 2, 0, 1, 1, 1, 1), (0, 0, 0, 0, 2, 2, 2, 2), bound='1 feature, one list-multi field with 2 values, FORM_TYPE after it; all texts 0..2 units over ' + ALPHABET),
    ]),
    dict(name='sep3', harness='sep_vs.cpp', tus=TUS, models=MODELS, cxxdefs={'SEP_NID3': 1}, loop_bounds=dict(LB, ref_identities=14), instances=[
        S('sep_id3_full', 'h_sep_idfeat', (3, 0), (2, 2, 2, 2, 0), cap=40, mem_gb=8, tiers=('thorough',), timeout_s=900, bound='3 identities, category/type/lang/name each 0..2 units over ' + ALPHABET),
        S('sep_id3_short', 'h_sep_idfeat', (3, 0), (2, 1, 2, 1, 0), cap=40, mem_gb=8, tiers=('thorough',), timeout_s=900, bound='3 identities: category 0..2, type 0..1, lang 0..2, name 0..1 units over ' + ALPHABET),
        S('sep_id2_feat3', 'h_sep_idfeat', (2, 3), (2, 2, 2, 2, 2), cap=40, mem_gb=8, tiers=('thorough',), timeout_s=900, bound='2 identities and 3 features, every text 0..2 units over ' + ALPHABET),
    ]),
]
BOUNDS = [
    "sep_*: texts over the alphabet {'-' 0x2D, '0' 0x30, 'A' 0x41, 'a' 0x61} (below '/' 0x2F, between '/' and '<' 0x3C, above '<' in both cases), length 0..max with max <= 2 per kind of text as listed per instance (a text can be a strict prefix of its counterpart in the other identity / feature / field / value)",
    "sep_*: 2 identities (quick) or 3 identities / 2 identities + 3 features (thorough); <= 3 features; forms: FORM_TYPE + one list-multi field with 2 values (quick), two text-single fields (thorough); list lengths, field kinds and the FORM_TYPE position fixed per instance",
    "sep_*: QString/QByteArray model capacity 26 units (quick; the longest hashed string of these instances has 24) resp. 40 (thorough); comparison/append/QStringBuilder loops of c20_qt_core.c are now capped at QCAP = 12 units for every C20 instance (was 10: a joined identity 'cc/tt/ll/nn' has 11)",
]
ASSUMPTIONS = [
    "QString::compare(.., Qt::CaseInsensitive), QStringList::sort(Qt::CaseInsensitive), toLower/toUpper (only reached by changed code): ASCII case mapping, units >= 0x80 are a model limit (inconclusive)",
    "QString::localeAwareCompare (only reached by changed code): the collation is the environment's; the model picks once per run either the C/POSIX locale (code unit order) or a dictionary collation (case-insensitive first, lower case before upper case on a tie) - a violation found under either is a violation for some locale",
    "std::sort on a QStringList with a function-pointer comparator (only reached by changed code): the same transcribed libstdc++ insertion sort as for the other ranges, the comparator is called (real code) on copies of the slot words",
]
OUTSIDE = [
    "sep_*: other characters below the separators ('.', '+', ' ', digits other than '0') behave like '-' resp. '0' for every comparison the code can make on code units; they are not separately enumerated. Texts longer than 2 units, two-field forms with list-multi fields, lambda comparators handed to std::sort (the real introsort instantiation is not checkable within the caps, see DESIGN C20)",
]
