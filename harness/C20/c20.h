// C20 harness helpers: symbolic short strings with a harness-side copy of their code units, the recording hash oracle's
// C interface, and an independent implementation of the XEP-0115 section 5.1 string construction on plain arrays.
#pragma once
#include <QString>
#include <QByteArray>
#include "vp_harness.h"
#ifndef MAXLEN
#define MAXLEN 2      // code units per symbolic string
#endif
#ifndef NID
#define NID 2         // identities
#endif
#ifndef NFEAT
#define NFEAT 3       // features (duplicates allowed)
#endif
#ifndef NFIELD
#define NFIELD 2      // form fields besides FORM_TYPE
#endif
#ifndef NVAL
#define NVAL 2        // values of a multi-valued field
#endif
#ifndef REFCAP
#define REFCAP 40
#endif
// element counts: fixed per instance (-DC_N0=.. -DC_N1=.. on the C side: case split over the list lengths) or symbolic 0..max
static inline unsigned symCount(unsigned which, unsigned max);
extern "C" {
// c20_models.c
unsigned vp_c20_count(unsigned which, unsigned max);
void vp_c20_string(QString *out, unsigned len, unsigned short c0, unsigned short c1, unsigned short c2);
void vp_c20_list_push(void *qlist, void *node);            // append one pointer-sized node (pointer-typed store)
void vp_c20_strlist_push(void *qstringlist, const QString *s);
unsigned vp_hash_calls();                       // number of QCryptographicHash::result() calls so far
unsigned vp_hash_alg(unsigned k);               // algorithm of the k-th call
unsigned vp_hash_len(unsigned k);               // length of the octet string hashed by the k-th call
unsigned vp_hash_byte(unsigned k, unsigned i);  // its i-th octet
bool vp_hash_input_eq(unsigned k, unsigned l);  // same octet string hashed by calls k and l
bool vp_hash_output_is(unsigned k, const QByteArray *r);   // r is (a copy of) the digest the oracle returned for call k
bool vp_hash_same_output(unsigned k, unsigned l);          // calls k and l were answered with the same digest block
}
static inline unsigned symCount(unsigned which, unsigned max) { return vp_c20_count(which, max); }
// alphabet: ALPHA=3 -> {a, b, B};  ALPHA=0 -> every ASCII character 0x20..0x7e except '<' and '/' (XEP-0115 5.1 uses
// them as separators and rejects '<' in the data; see SPEC outside);  ALPHA=4 -> {'-', '0', 'A', 'a'}: characters on both
// sides of the separators ('-' 0x2D < '/' 0x2F < '0' 0x30 < '<' 0x3C < 'A' 0x41 < 'a' 0x61) and one letter in both cases
// (spec_sep.py: a sort key that lets a separator take part in the comparison, or folds case, orders these differently)
#ifndef ALPHA
#define ALPHA 3
#endif
static inline unsigned short symChar()
{
    unsigned char c = vp_u8();
#if ALPHA == 3
    vp_assume(c < 3);
    return c == 0 ? 'a' : (c == 1 ? 'b' : 'B');
#elif ALPHA == 4
    vp_assume(c < 4);
    return c == 0 ? '-' : (c == 1 ? '0' : (c == 2 ? 'A' : 'a'));
#else
    vp_assume(c >= 0x20 && c <= 0x7e && c != '<' && c != '/');
    return c;
#endif
}
// a short text: harness-side plain copy of the code units (the reference works on these, never on QString)
struct Txt { unsigned len; unsigned short c[3]; };
static inline Txt symTxt(unsigned minlen = 0)
{
    Txt t; t.len = vp_u32(); vp_assume(t.len >= minlen && t.len <= MAXLEN);
    t.c[0] = MAXLEN > 0 ? symChar() : 0; t.c[1] = MAXLEN > 1 ? symChar() : 0; t.c[2] = MAXLEN > 2 ? symChar() : 0;
    return t;
}
static inline Txt litTxt(const char *s) { Txt t; t.len = 0; t.c[0] = t.c[1] = t.c[2] = 0; for (unsigned k = 0; k < 3 && s[k]; k++) { t.c[k] = (unsigned char)s[k]; t.len++; } return t; }
static inline QString qstr(const Txt &t) { QString q; vp_c20_string(&q, t.len, t.c[0], t.c[1], t.c[2]); return q; }
// i;octet collation: code unit by code unit, a proper prefix sorts first (all units are ASCII here)
static inline int txtCmp(const Txt &a, const Txt &b)
{
    for (unsigned k = 0; k < MAXLEN; k++) {
        if (k >= a.len || k >= b.len) break;
        if (a.c[k] != b.c[k]) return a.c[k] < b.c[k] ? -1 : 1;
    }
    return a.len == b.len ? 0 : (a.len < b.len ? -1 : 1);
}
struct Ref {
    unsigned n = 0; unsigned short s[REFCAP];
    void put(unsigned short ch) { if (n < REFCAP) s[n] = ch; n++; }
    void put(const Txt &t) { for (unsigned k = 0; k < MAXLEN; k++) if (k < t.len) put(t.c[k]); }
};
// XEP-0115 5.1 step 2-3: identities sorted by category, type, xml:lang (then name), each "cat/type/lang/name<"
struct IdT { Txt f[4]; };
static inline int idCmp(const IdT &a, const IdT &b)
{
    for (int k = 0; k < 4; k++) { int c = txtCmp(a.f[k], b.f[k]); if (c) return c; }
    return 0;
}
static inline void ref_identities(Ref &r, const IdT ids[], unsigned nid)
{
    IdT v[NID];
    for (unsigned i = 0; i < NID; i++) v[i] = ids[i];
    for (unsigned pass = 0; pass + 1 < NID; pass++)
        for (unsigned j = 0; j + 1 < NID; j++)
            if (j + 1 < nid && idCmp(v[j + 1], v[j]) < 0) { IdT t = v[j]; v[j] = v[j + 1]; v[j + 1] = t; }
    for (unsigned i = 0; i < NID; i++) if (i < nid) {
        for (int k = 0; k < 4; k++) { r.put(v[i].f[k]); r.put(k < 3 ? '/' : '<'); }
    }
}
// sort an array of texts in place (bubble network over the first n entries)
template<unsigned N> static inline void txtSort(Txt (&v)[N], unsigned n)
{
    for (unsigned pass = 0; pass + 1 < N; pass++)
        for (unsigned j = 0; j + 1 < N; j++)
            if (j + 1 < n && txtCmp(v[j + 1], v[j]) < 0) { Txt t = v[j]; v[j] = v[j + 1]; v[j + 1] = t; }
}
// step 4-5: features sorted, duplicates dropped, each followed by '<'
static inline void ref_features(Ref &r, const Txt fs[], unsigned nf)
{
    Txt v[NFEAT];
    for (unsigned i = 0; i < NFEAT; i++) v[i] = fs[i];
    txtSort(v, nf);
    for (unsigned i = 0; i < NFEAT; i++) if (i < nf) {
        if (i > 0 && txtCmp(v[i], v[i - 1]) == 0) continue;
        r.put(v[i]); r.put('<');
    }
}
// step 6-7: one extension form.  FORM_TYPE value, then the other fields sorted by var; per field var '<' and every value
// (sorted) followed by '<'.  A form without FORM_TYPE is ignored.
struct FieldT { Txt key; unsigned nval; Txt val[NVAL]; bool multi; };
static inline void ref_form(Ref &r, bool hasFormType, const Txt &formType, const FieldT fields[], unsigned nfields)
{
    if (!hasFormType) return;
    r.put(formType); r.put('<');
    FieldT v[NFIELD];
    for (unsigned i = 0; i < NFIELD; i++) v[i] = fields[i];
    for (unsigned pass = 0; pass + 1 < NFIELD; pass++)
        for (unsigned j = 0; j + 1 < NFIELD; j++)
            if (j + 1 < nfields && txtCmp(v[j + 1].key, v[j].key) < 0) { FieldT t = v[j]; v[j] = v[j + 1]; v[j + 1] = t; }
    for (unsigned i = 0; i < NFIELD; i++) if (i < nfields) {
        r.put(v[i].key); r.put('<');
        Txt w[NVAL];
        for (unsigned k = 0; k < NVAL; k++) w[k] = v[i].val[k];
        txtSort(w, v[i].nval);
        for (unsigned k = 0; k < NVAL; k++) if (k < v[i].nval) { r.put(w[k]); r.put('<'); }
    }
}
static inline void check_against_oracle(const Ref &r, const QByteArray &ver, unsigned call = 0)
{
    vp_assert(vp_hash_calls() == call + 1, "C20 verificationString computes exactly one hash");
    vp_assert(vp_hash_alg(call) == 2, "C20 the hash algorithm is SHA-1");
    vp_assert(r.n <= REFCAP, "C20 harness: reference buffer large enough");
    vp_assert(vp_hash_len(call) == r.n, "C20 hashed string has the length of the XEP-0115 5.1 string");
    for (unsigned i = 0; i < REFCAP; i++) if (i < r.n)
        vp_assert(vp_hash_byte(call, i) == r.s[i], "C20 hashed string equals the XEP-0115 5.1 string");
    vp_assert(vp_hash_output_is(call, &ver), "C20 verificationString returns the SHA-1 digest of that string");
}
