/* C20 LOCAL VARIANT of models/qt_core.c (snapshot of commit 0f342eb; the shared file was being reworked concurrently).
   Differences: blocks that grow in place (QString::reserve/resize, as QStringBuilder does) get the constant hint QS_CAP so that
   their hint never becomes symbolic.
   libQt5Core boundary: QArrayData, QString, QByteArray, QStringView helpers (contract models).
   Layout is Qt's: QString{d}, d -> QArrayData{ref,size,alloc,offset} followed by the characters.
   Model blocks have a fixed capacity (asserted); numeric strings are abstract (ghost value table). */
#ifdef HAVE_T_struct_QArrayData
typedef struct T_struct_QArrayData QAD;
#ifndef QS_CAP
#define QS_CAP 40
#endif
#ifndef QB_CAP
#define QB_CAP 40
#endif
#define VP_DATA_OFF 56   /* data offset of model blocks (static literals keep their characters at offset 0 or 24) */
struct qs { QAD h; uint32_t hint; uint8_t isnum, neg; uint64_t mag; QAD *b64; uint16_t data[QS_CAP]; };
struct qb { QAD h; uint32_t hint; uint8_t isnum, neg; uint64_t mag; QAD *b64; uint8_t data[QB_CAP + 1]; };
/* every loop of the models lives in a vpl_* helper (one loop each; the driver gives them --unwindset CAP+2).
   `hint` is a constant upper bound of the length kept in the block (symbolic strings: their maxlen; literal copies: the
   literal's length) so that symex unrolls only as far as needed whenever the block is known. */
#define QS_OFF ((uint64_t)offsetof(struct qs, data))
#define QB_OFF ((uint64_t)offsetof(struct qb, data))
#ifdef __CPROVER__
#define VP_BLK_DYN(d) ((d)->f3 == QS_OFF)
/* symex folds POINTER_OFFSET even for pointers that are an if-then-else of several blocks (DYNAMIC_OBJECT / OBJECT_SIZE it does not) */
#define VP_IS_QS(p) (__CPROVER_POINTER_OFFSET(p) == QS_OFF)
#define VP_IS_QB(p) (__CPROVER_POINTER_OFFSET(p) == QB_OFF)
#define VP_REG_BLK(b, k)
#else
#define VP_BLK_DYN(d) ((d)->f3 == QS_OFF)
static const void *vp_blks[2][8192]; static unsigned vp_nblk[2];
static int vp_is_blk(const void *b, int k) { for (unsigned i = 0; i < vp_nblk[k]; i++) if (vp_blks[k][i] == b) return 1; return 0; }
#define VP_REG_BLK(b, k) do { if (vp_nblk[k] < 8192) vp_blks[k][vp_nblk[k]++] = (b); } while (0)
#define VP_IS_QS(p) vp_is_blk((const char*)(p) - QS_OFF, 0)
#define VP_IS_QB(p) vp_is_blk((const char*)(p) - QB_OFF, 1)
#endif
/* hints must be evaluated INSIDE loop conditions: symex propagates constants only, so a hint passed through a variable that
   was merged from two paths is opaque, whereas `blk->hint` dereferenced in place folds to a constant (or an ite of constants) */
/* writes into model blocks go through the typed data member: a store at a symbolic byte offset through a raw pointer would turn
   the whole block into one opaque value and destroy constant propagation of hint/len/tags */
#define SD(d) (((struct qs*)(d))->data)
#define BD(d) (((struct qb*)(d))->data)
#define H16(p, n) ((n) == 0 ? 0u : (VP_IS_QS(p) ? ((struct qs*)((char*)(p) - QS_OFF))->hint : (uint32_t)(n)))
#define H8(p, n) ((n) == 0 ? 0u : (VP_IS_QB(p) ? ((struct qb*)((char*)(p) - QB_OFF))->hint : (uint32_t)(n)))
static uint32_t hint16(const uint16_t *p, uint64_t n) { if (n == 0) return 0; if (VP_IS_QS(p)) return ((struct qs*)((char*)p - QS_OFF))->hint; return (uint32_t)n; }
static uint32_t hint8(const uint8_t *p, uint64_t n) { if (n == 0) return 0; if (VP_IS_QB(p)) return ((struct qb*)((char*)p - QB_OFF))->hint; return (uint32_t)n; }
static uint32_t umin(uint32_t a, uint32_t b) { return a < b ? a : b; }
static void vpl_copy16(QAD *d, uint32_t off, const uint16_t *s, uint32_t n, uint32_t hint) { for (uint32_t i = 0; i < H16(s, n); i++) { if (i >= n) break; SD(d)[off + i] = s[i]; } }
static void vpl_copy8(QAD *d, uint32_t off, const uint8_t *s, uint32_t n, uint32_t hint) { for (uint32_t i = 0; i < H8(s, n); i++) { if (i >= n) break; BD(d)[off + i] = s[i]; } }
static void vpl_widen(QAD *d, uint32_t off, const uint8_t *s, uint32_t n, uint32_t hint) { for (uint32_t i = 0; i < H8(s, n); i++) { if (i >= n) break; SD(d)[off + i] = s[i]; } }
static uint8_t vpl_narrow(QAD *d, uint32_t off, const uint16_t *s, uint32_t n, uint32_t hint, uint16_t lim) { uint8_t ok = 1; for (uint32_t i = 0; i < H16(s, n); i++) { if (i >= n) break; uint16_t c = s[i]; if (c >= lim) { ok = 0; c = '?'; } BD(d)[off + i] = (uint8_t)c; } return ok; }
static void vpl_fill16(QAD *d, uint32_t off, uint16_t c, uint32_t n, uint32_t hint) { for (uint32_t i = 0; i < hint; i++) { if (i >= n) break; SD(d)[off + i] = c; } }
static void vpl_fill8(QAD *d, uint32_t off, uint8_t c, uint32_t n, uint32_t hint) { for (uint32_t i = 0; i < hint; i++) { if (i >= n) break; BD(d)[off + i] = c; } }
static int vpl_cmp16(const uint16_t *a, const uint16_t *b, uint32_t n, uint32_t na, uint32_t nb) { for (uint32_t i = 0; i < H16(a, na) && i < H16(b, nb); i++) { if (i >= n) break; if (a[i] != b[i]) return a[i] < b[i] ? -1 : 1; } return 0; }
static int vpl_cmp8(const uint8_t *a, const uint8_t *b, uint32_t n, uint32_t na, uint32_t nb) { for (uint32_t i = 0; i < H8(a, na) && i < H8(b, nb); i++) { if (i >= n) break; if (a[i] != b[i]) return a[i] < b[i] ? -1 : 1; } return 0; }
static int vpl_cmp16_8(const uint16_t *a, const uint8_t *b, uint32_t n, uint32_t na, uint32_t nb) { for (uint32_t i = 0; i < H16(a, na) && i < nb; i++) { if (i >= n) break; if (a[i] != b[i]) return a[i] < b[i] ? -1 : 1; } return 0; }
static uint32_t vpl_strlen8(const uint8_t *p) { uint32_t n = 0; for (; n < QB_CAP; n++) { if (!p[n]) break; } return n; }
static uint32_t vpl_strlen16(const uint16_t *p) { uint32_t n = 0; for (; n < QS_CAP; n++) { if (!p[n]) break; } return n; }
static int64_t vpl_find16(const uint16_t *a, uint32_t na, uint32_t hint, uint32_t from, uint16_t c) { for (uint32_t i = 0; i < H16(a, na); i++) { if (i >= na) break; if (i >= from && a[i] == c) return i; } return -1; }
static int64_t vpl_find8(const uint8_t *a, uint32_t na, uint32_t hint, uint32_t from, uint8_t c) { for (uint32_t i = 0; i < H8(a, na); i++) { if (i >= na) break; if (i >= from && a[i] == c) return i; } return -1; }
#define REF(d) ((d)->f0.f0.f0.f0.f0)
#ifdef HAVE_G__ZN10QArrayData11shared_nullE
/* offset 48 (one past the object): shared_null then looks like a model block with hint 0 / not a number / no tag (read from the zeroed second entry) */
GT__ZN10QArrayData11shared_nullE G__ZN10QArrayData11shared_nullE = { { { {{{{ (uint32_t)-1 }}}}, 0, 0, 48 }, { {{{{ 0 }}}}, 0, 0, 0 } } };
#define SHARED_NULL ((QAD*)&G__ZN10QArrayData11shared_nullE)
#else
static struct { QAD a[2]; } vp_shared_null = { { { {{{{ (uint32_t)-1 }}}}, 0, 0, 48 }, { {{{{ 0 }}}}, 0, 0, 0 } } };
#define SHARED_NULL ((QAD*)&vp_shared_null)
#endif
static QAD *qad_ref(QAD *d) { if (REF(d) != (uint32_t)-1 && REF(d) != 0) REF(d)++; return d; }
static void qad_deref(QAD *d) { if (REF(d) != (uint32_t)-1 && REF(d) != 0) REF(d)--; }
static uint16_t *qs_chars(QAD *d) { return (uint16_t*)((char*)d + d->f3); }
static uint8_t *qb_bytes(QAD *d) { return (uint8_t*)((char*)d + d->f3); }
static uint32_t qs_hint(QAD *d) { return hint16(qs_chars(d), d->f1); }
static uint32_t qb_hint(QAD *d) { return hint8(qb_bytes(d), d->f1); }
void _ZN10QArrayData10deallocateEPS_mm(char *d, uint64_t sz, uint64_t al) { /* model blocks are never recycled */ }
static QAD *qs_new(uint32_t len, uint32_t hint) { struct qs *s = malloc(sizeof(struct qs)); ASSUME(s != 0); ASSERT(len <= QS_CAP, "QString capacity of the model exceeded");
  REF(&s->h) = 1; s->h.f1 = len; s->h.f2 = QS_CAP; s->h.f3 = QS_OFF; s->isnum = 0; s->neg = 0; s->mag = 0; s->b64 = 0; s->hint = umin(hint, QS_CAP); VP_REG_BLK(s, 0); return &s->h; }
static QAD *qb_new(uint32_t len, uint32_t hint) { struct qb *s = malloc(sizeof(struct qb)); ASSUME(s != 0); ASSERT(len <= QB_CAP, "QByteArray capacity of the model exceeded");
  REF(&s->h) = 1; s->h.f1 = len; s->h.f2 = QB_CAP + 1; s->h.f3 = QB_OFF; s->isnum = 0; s->neg = 0; s->mag = 0; s->b64 = 0; s->hint = umin(hint, QB_CAP); s->data[len] = 0; VP_REG_BLK(s, 1); return &s->h; }
char* _ZN10QArrayData8allocateEmmm6QFlagsINS_16AllocationOptionEE(uint64_t objSize, uint64_t align, uint64_t cap, uint32_t opts) {
  if (objSize == 2) { QAD *d = qs_new(0, QS_CAP); ASSERT(cap <= QS_CAP, "QString capacity of the model exceeded"); return (char*)d; }
  ASSERT(objSize == 1, "QArrayData::allocate: only QString/QByteArray payloads are modelled"); ASSERT(cap <= QB_CAP + 1, "QByteArray capacity of the model exceeded"); return (char*)qb_new(0, QB_CAP); }

/* ---- abstract numeric strings: the value lives in the block (isnum/neg/mag), the text is a placeholder ---- */
struct numv { uint8_t isnum, neg; uint64_t mag; };
static struct numv NONUM = { 0, 0, 0 };
static QAD *qs_from(const uint16_t *p, uint32_t n) { uint32_t h = hint16(p, n); QAD *d = qs_new(n, h); vpl_copy16(d, 0, p, n, h); return d; }
static QAD *qb_from(const uint8_t *p, uint32_t n) { uint32_t h = hint8(p, n); QAD *d = qb_new(n, h); vpl_copy8(d, 0, p, n, h); BD(d)[n] = 0; return d; }
static QAD *qs_number(uint64_t mag, uint8_t neg) { QAD *d = qs_new(1, 1); SD(d)[0] = '#'; struct qs *q = (struct qs*)d; q->isnum = 1; q->neg = neg && mag != 0; q->mag = mag; return d; }
static QAD *qb_number(uint64_t mag, uint8_t neg) { QAD *d = qb_new(1, 1); BD(d)[0] = '#'; struct qb *q = (struct qb*)d; q->isnum = 1; q->neg = neg && mag != 0; q->mag = mag; return d; }
static struct numv num16(const uint16_t *p, uint64_t n) { if (n && VP_IS_QS(p)) { struct qs *q = (struct qs*)((char*)p - QS_OFF); struct numv v = { q->isnum, q->neg, q->mag }; return v; } return NONUM; }
static struct numv num8(const uint8_t *p, uint64_t n) { if (n && VP_IS_QB(p)) { struct qb *q = (struct qb*)((char*)p - QB_OFF); struct numv v = { q->isnum, q->neg, q->mag }; return v; } return NONUM; }
static struct numv numS(QAD *d) { return num16(qs_chars(d), d->f1); }
static struct numv numB(QAD *d) { return num8(qb_bytes(d), d->f1); }
/* abstract base64: the encoded text is a 1-unit placeholder block that carries a ghost pointer to the raw bytes (b64).
   Assumption: base64 text of non-empty data never equals ordinary (untagged) text; Qt's base64 arithmetic is trusted. */
static QAD *b64_16(const uint16_t *p, uint64_t n) { if (n && VP_IS_QS(p)) return ((struct qs*)((char*)p - QS_OFF))->b64; return 0; }
static QAD *b64_8(const uint8_t *p, uint64_t n) { if (n && VP_IS_QB(p)) return ((struct qb*)((char*)p - QB_OFF))->b64; return 0; }
static QAD *blk16(const uint16_t *p, uint64_t n) { if (n && VP_IS_QS(p)) return (QAD*)((char*)p - QS_OFF); return 0; }
static int num_eq(struct numv a, struct numv b) { return a.isnum && b.isnum && a.mag == b.mag && a.neg == b.neg; }
/* equality / order of two UTF-16 views; a number string equals only a number string of the same value */
/* C20: no abstract number strings and no base64 tags occur in this property; comparisons are plain code-unit comparisons */
static int view_eq(uint64_t na, const uint16_t *a, uint64_t nb, const uint16_t *b) { if (na != nb) return 0; return vpl_cmp16(a, b, (uint32_t)na, (uint32_t)na, (uint32_t)nb) == 0; }
static int view_cmp(uint64_t na, const uint16_t *a, uint64_t nb, const uint16_t *b) { uint32_t m = (uint32_t)(na < nb ? na : nb);
  int c = vpl_cmp16(a, b, m, (uint32_t)na, (uint32_t)nb); if (c) return c; return na == nb ? 0 : (na < nb ? -1 : 1); }
/* QAD-based loops: length, hint and data are dereferenced inside the loop condition/body so that they fold per candidate block */
#define QCH16(d) ((uint16_t*)((char*)(d) + (d)->f3))
#define QHINT16(d) ((d)->f3 == QS_OFF ? ((struct qs*)(d))->hint : (d)->f1)
#define QHINT8(d) ((d)->f3 == QB_OFF ? ((struct qb*)(d))->hint : (d)->f1)
#define QNUM16(d) ((d)->f3 == QS_OFF && ((struct qs*)(d))->isnum)
#define QNUM8(d) ((d)->f3 == QB_OFF && ((struct qb*)(d))->isnum)
#define QTAG16(d) ((d)->f3 == QS_OFF ? ((struct qs*)(d))->b64 : (QAD*)0)
#define QTAG8(d) ((d)->f3 == QB_OFF ? ((struct qb*)(d))->b64 : (QAD*)0)
#ifndef QCAP
#define QCAP 12u
#endif
static int vpl_qeq16(QAD *a, QAD *b) { uint32_t i = 0; for (; i < QHINT16(a) && i < QHINT16(b) && i < QCAP; i++) { if (i >= a->f1) break; if (((uint16_t*)((char*)a + a->f3))[i] != ((uint16_t*)((char*)b + b->f3))[i]) return 0; }
  ASSERT(!(i == QCAP && a->f1 > QCAP), "string comparison longer than QCAP units"); return 1; }
static int vpl_qeq8(QAD *a, QAD *b) { for (uint32_t i = 0; i < QHINT8(a) && i < QHINT8(b); i++) { if (i >= a->f1) break; if (((uint8_t*)((char*)a + a->f3))[i] != ((uint8_t*)((char*)b + b->f3))[i]) return 0; } return 1; }
static int qb_eq(QAD *a, QAD *b); static int qb_eq_raw(QAD *a, QAD *b);
static int d_eq(QAD *a, QAD *b) { if (a->f1 != b->f1) return 0; return vpl_qeq16(a, b); }
static int qb_eq_raw(QAD *a, QAD *b) { if (a->f1 != b->f1) return 0; return vpl_qeq8(a, b); }
static int qb_eq(QAD *a, QAD *b) { return qb_eq_raw(a, b); }

/* ---- harness entry points ---- */
static void sym16(char *out, uint32_t minlen, uint32_t maxlen) { uint32_t len = vp_u32(); ASSUME(len >= minlen && len <= maxlen); ASSERT(maxlen <= 8, "symbolic string bound"); QAD *d = qs_new(len, maxlen);
  uint16_t c0 = vp_u16(), c1 = vp_u16(), c2 = vp_u16(), c3 = vp_u16(); uint16_t *p = SD(d);
  if (maxlen > 0) p[0] = c0; if (maxlen > 1) p[1] = c1; if (maxlen > 2) p[2] = c2; if (maxlen > 3) p[3] = c3;
  if (maxlen > 4) { p[4] = vp_u16(); p[5] = vp_u16(); p[6] = vp_u16(); p[7] = vp_u16(); } *(QAD**)out = d; }
void vp_sym_string(char *out, uint32_t maxlen) { sym16(out, 0, maxlen); }
void vp_sym_string_nonempty(char *out, uint32_t maxlen) { sym16(out, 1, maxlen); }
void vp_sym_bytes(char *out, uint32_t maxlen) { uint32_t len = vp_u32(); ASSUME(len <= maxlen); ASSERT(maxlen <= 8, "symbolic bytes bound"); QAD *d = qb_new(len, maxlen); uint8_t *p = BD(d);
  uint8_t c0 = vp_u8(), c1 = vp_u8(), c2 = vp_u8(), c3 = vp_u8(); if (maxlen > 0) p[0] = c0; if (maxlen > 1) p[1] = c1; if (maxlen > 2) p[2] = c2; if (maxlen > 3) p[3] = c3;
  if (maxlen > 4) { p[4] = vp_u8(); p[5] = vp_u8(); p[6] = vp_u8(); p[7] = vp_u8(); } BD(d)[len] = 0; *(QAD**)out = d; }
uint8_t vp_qstring_eq(char *a, char *b) { return d_eq(*(QAD**)a, *(QAD**)b); }
uint8_t vp_bytes_eq(char *a, char *b) { return qb_eq(*(QAD**)a, *(QAD**)b); }
uint8_t vp_is_number_string(char *a) { return numS(*(QAD**)a).isnum; }

/* ---- QString ---- */
void _ZN7QStringC1EPK5QChari(char *self, char *p, uint32_t n) { if (!p) { *(QAD**)self = SHARED_NULL; return; }
  if ((int32_t)n < 0) n = vpl_strlen16((uint16_t*)p);
  QAD *src = blk16((uint16_t*)p, n); if (src && src->f1 == n) { *(QAD**)self = qad_ref(src); return; }
  *(QAD**)self = qs_from((uint16_t*)p, n); }
void _ZN7QStringC1Ei5QChar(char *self, uint32_t n, uint16_t c) { if ((int32_t)n < 0) n = 0; QAD *d = qs_new(n, n); vpl_fill16(d, 0, c, n, n); *(QAD**)self = d; }
static QAD *vp_qs_wr;
void _ZN7QStringC1EiN2Qt14InitializationE(char *self, uint32_t n, uint32_t init) { QAD *d = qs_new(n, n); ((struct qs*)d)->hint = QS_CAP; *(QAD**)self = d; vp_qs_wr = d; /* QStringBuilder::convertTo fills it through constData() */ }
void _ZN7QStringC1E5QChar(char *self, uint16_t c) { QAD *d = qs_new(1, 1); SD(d)[0] = c; *(QAD**)self = d; }
char* _ZN7QStringaSERKS_(char *self, char *o) { QAD *n = qad_ref(*(QAD**)o); qad_deref(*(QAD**)self); *(QAD**)self = n; return self; }
char* _ZN7QStringaSE5QChar(char *self, uint16_t c) { QAD *d = qs_new(1, 1); SD(d)[0] = c; *(QAD**)self = d; return self; }
char* _ZN7QStringaSE13QLatin1String(char *self, uint32_t n, char *l) { QAD *d = qs_new(n, n); vpl_widen(d, 0, (uint8_t*)l, n, n); *(QAD**)self = d; return self; }
uint8_t _ZeqRK7QStringS1_(char *a, char *b) { return d_eq(*(QAD**)a, *(QAD**)b); }
/* block-based order: every dereference is `block + constant offset`, so it folds per candidate when the block pointer is an if-then-else
   of several blocks (a raw character pointer passed through a parameter does not: its POINTER_OFFSET stays symbolic) */
/* QCAP: constant cap on the comparison loops. A string pointer loaded from a list slot after a symbolic sort carries an
   "unknown object" alternative in cbmc's value set (same block, different offsets => offset lost), whose hint is not a constant;
   the cap keeps the unrolling finite and small. Hitting the cap with both strings longer is flagged (inconclusive). */
#ifndef QCAP
#define QCAP 12u
#endif
static int vpl_qcmp16(QAD *a, QAD *b) { uint32_t i = 0; for (; i < QHINT16(a) && i < QHINT16(b) && i < QCAP; i++) { if (i >= a->f1 || i >= b->f1) break; if (QCH16(a)[i] != QCH16(b)[i]) return QCH16(a)[i] < QCH16(b)[i] ? -1 : 1; }
  ASSERT(!(i == QCAP && a->f1 > QCAP && b->f1 > QCAP), "string comparison longer than QCAP units");
  return a->f1 == b->f1 ? 0 : (a->f1 < b->f1 ? -1 : 1); }
uint8_t _ZltRK7QStringS1_(char *a, char *b) { return vpl_qcmp16(*(QAD**)a, *(QAD**)b) < 0; }
/* case-insensitive order: Qt compares the case-FOLDED code units (Unicode tables); on ASCII folding maps A-Z to a-z and is the
   identity elsewhere.  Units >= 0x80 are outside the model (asserted). */
static uint16_t vp_fold16(uint16_t c) { return (c >= 'A' && c <= 'Z') ? (uint16_t)(c + 32) : c; }
static int vpl_qcmp16ci(QAD *a, QAD *b) { uint32_t i = 0; for (; i < QHINT16(a) && i < QHINT16(b) && i < QCAP; i++) { if (i >= a->f1 || i >= b->f1) break; uint16_t x = QCH16(a)[i], y = QCH16(b)[i];
    ASSERT(x < 0x80 && y < 0x80, "case-insensitive compare: non-ASCII unit (Unicode case folding is Qt's, not modelled)"); x = vp_fold16(x); y = vp_fold16(y); if (x != y) return x < y ? -1 : 1; }
  ASSERT(!(i == QCAP && a->f1 > QCAP && b->f1 > QCAP), "string comparison longer than QCAP units");
  return a->f1 == b->f1 ? 0 : (a->f1 < b->f1 ? -1 : 1); }
static int vpl_cmp16ci(const uint16_t *a, const uint16_t *b, uint32_t n, uint32_t na, uint32_t nb) { for (uint32_t i = 0; i < H16(a, na) && i < H16(b, nb); i++) { if (i >= n) break; uint16_t x = a[i], y = b[i];
    ASSERT(x < 0x80 && y < 0x80, "case-insensitive compare: non-ASCII unit (Unicode case folding is Qt's, not modelled)"); x = vp_fold16(x); y = vp_fold16(y); if (x != y) return x < y ? -1 : 1; } return 0; }
uint32_t _ZNK7QString7compareERKS_N2Qt15CaseSensitivityE(char *a, char *b, uint32_t cs) { return (uint32_t)(cs == 1 ? vpl_qcmp16(*(QAD**)a, *(QAD**)b) : vpl_qcmp16ci(*(QAD**)a, *(QAD**)b)); }
/* QString::localeAwareCompare: the collation belongs to the environment (ICU or strcoll of the current locale), so the model lets
   the locale be an arbitrary one of two families, chosen once per run: the "C"/POSIX locale (code unit order, the same as
   compare()) or a dictionary collation (letters compare without regard to case first; on a tie the lower-case letter sorts first,
   as ICU root / en_US do - the opposite of the code unit order).  Non-ASCII units: outside the model (asserted). */
static uint8_t vp_locale_set, vp_locale_dict;
static int vpl_qcmp16tie(QAD *a, QAD *b) { uint32_t i = 0; for (; i < QHINT16(a) && i < QHINT16(b) && i < QCAP; i++) { if (i >= a->f1 || i >= b->f1) break; if (QCH16(a)[i] != QCH16(b)[i]) return QCH16(a)[i] > QCH16(b)[i] ? -1 : 1; } return 0; }
static int qs_locale_cmp(QAD *a, QAD *b) { if (!vp_locale_set) { vp_locale_set = 1; vp_locale_dict = vp_bool(); }
  if (!vp_locale_dict) return vpl_qcmp16(a, b);
  int c = vpl_qcmp16ci(a, b); if (c) return c; return vpl_qcmp16tie(a, b); /* equal up to case: the first differing unit decides, lower case (the larger code unit) first */ }
uint32_t _ZNK7QString18localeAwareCompareERKS_(char *a, char *b) { return (uint32_t)qs_locale_cmp(*(QAD**)a, *(QAD**)b); }
uint32_t _ZN7QString18localeAwareCompareERKS_S1_(char *a, char *b) { return (uint32_t)qs_locale_cmp(*(QAD**)a, *(QAD**)b); }
uint8_t _ZNK7QStringeqE13QLatin1String(char *a, uint32_t n, char *l) { QAD *x = *(QAD**)a; if (numS(x).isnum || x->f1 != n) return 0; return vpl_cmp16_8(qs_chars(x), (uint8_t*)l, n, x->f1, n) == 0; }
uint32_t _ZN9QtPrivate14compareStringsE11QStringViewS0_N2Qt15CaseSensitivityE(uint64_t na, char *a, uint64_t nb, char *b, uint32_t cs) {
  if (cs == 1) return (uint32_t)view_cmp(na, (uint16_t*)a, nb, (uint16_t*)b);
  uint32_t m = (uint32_t)(na < nb ? na : nb); int c = vpl_cmp16ci((uint16_t*)a, (uint16_t*)b, m, (uint32_t)na, (uint32_t)nb); if (c) return (uint32_t)c; return na == nb ? 0 : (na < nb ? (uint32_t)-1 : 1); }
uint8_t _ZN9QtPrivate12equalStringsE11QStringViewS0_(uint64_t na, char *a, uint64_t nb, char *b) { return view_eq(na, (uint16_t*)a, nb, (uint16_t*)b); }
uint32_t _ZN9QtPrivate14compareStringsE11QStringView13QLatin1StringN2Qt15CaseSensitivityE(uint64_t na, char *a, uint32_t nb, char *b, uint32_t cs) {
  if (num16((uint16_t*)a, na).isnum) return 1; uint32_t m = (uint32_t)(na < nb ? na : nb);
  int c = vpl_cmp16_8((uint16_t*)a, (uint8_t*)b, m, (uint32_t)na, nb); if (c) return (uint32_t)c; return na == nb ? 0 : (na < nb ? (uint32_t)-1 : 1); }
uint8_t _ZN9QtPrivate10startsWithE11QStringViewS0_N2Qt15CaseSensitivityE(uint64_t na, char *a, uint64_t nb, char *b, uint32_t cs) {
  if (nb > na) return 0; if (nb == 0) return 1; if (num16((uint16_t*)a, na).isnum || num16((uint16_t*)b, nb).isnum) return 0;
  return vpl_cmp16((uint16_t*)a, (uint16_t*)b, (uint32_t)nb, (uint32_t)na, (uint32_t)nb) == 0; }
uint8_t _ZN9QtPrivate8endsWithE11QStringViewS0_N2Qt15CaseSensitivityE(uint64_t na, char *a, uint64_t nb, char *b, uint32_t cs) {
  if (nb > na) return 0; if (nb == 0) return 1; if (num16((uint16_t*)a, na).isnum || num16((uint16_t*)b, nb).isnum) return 0;
  return vpl_cmp16((uint16_t*)a + (na - nb), (uint16_t*)b, (uint32_t)nb, (uint32_t)nb, (uint32_t)nb) == 0; }
uint64_t _ZN9QtPrivate8findCharE11QStringView5QCharxN2Qt15CaseSensitivityE(uint64_t na, char *a, uint16_t c, uint64_t from, uint32_t cs) {
  if ((int64_t)from < 0) from = 0; if (num16((uint16_t*)a, na).isnum) return (uint64_t)-1; return (uint64_t)vpl_find16((uint16_t*)a, (uint32_t)na, hint16((uint16_t*)a, na), (uint32_t)from, c); }
uint32_t _ZNK7QString7indexOfE5QChariN2Qt15CaseSensitivityE(char *self, uint16_t c, uint32_t from, uint32_t cs) { QAD *d = *(QAD**)self; if ((int32_t)from < 0) from = 0; if (numS(d).isnum) return (uint32_t)-1;
  return (uint32_t)vpl_find16(qs_chars(d), d->f1, qs_hint(d), from, c); }
/* numbers */
void _ZN7QString6numberEji(char *ret, uint32_t v, uint32_t base) { *(QAD**)ret = qs_number(v, 0); }
void _ZN7QString6numberEii(char *ret, uint32_t v, uint32_t base) { int32_t s = (int32_t)v; *(QAD**)ret = qs_number(s < 0 ? (uint64_t)(-(int64_t)s) : (uint64_t)s, s < 0); }
void _ZN7QString6numberEyi(char *ret, uint64_t v, uint32_t base) { *(QAD**)ret = qs_number(v, 0); }
void _ZN7QString6numberExi(char *ret, uint64_t v, uint32_t base) { int64_t s = (int64_t)v; *(QAD**)ret = qs_number(s < 0 ? (uint64_t)0 - (uint64_t)s : (uint64_t)s, s < 0); }
void _ZN7QString6numberEmi(char *ret, uint64_t v, uint32_t base) { *(QAD**)ret = qs_number(v, 0); }
void _ZN7QString6numberEli(char *ret, uint64_t v, uint32_t base) { int64_t s = (int64_t)v; *(QAD**)ret = qs_number(s < 0 ? (uint64_t)0 - (uint64_t)s : (uint64_t)s, s < 0); }
void _ZN10QByteArray6numberEii(char *ret, uint32_t v, uint32_t base) { int32_t s = (int32_t)v; *(QAD**)ret = qb_number(s < 0 ? (uint64_t)(-(int64_t)s) : (uint64_t)s, s < 0); }
void _ZN10QByteArray6numberEji(char *ret, uint32_t v, uint32_t base) { *(QAD**)ret = qb_number(v, 0); }
void _ZN10QByteArray6numberExi(char *ret, uint64_t v, uint32_t base) { int64_t s = (int64_t)v; *(QAD**)ret = qb_number(s < 0 ? (uint64_t)0 - (uint64_t)s : (uint64_t)s, s < 0); }
void _ZN10QByteArray6numberEyi(char *ret, uint64_t v, uint32_t base) { *(QAD**)ret = qb_number(v, 0); }
/* parse: registered number -> its value with the range check of the target type; empty -> not a number;
   any other text -> arbitrary (value, ok): the digit-level grammar is Qt's and is not modelled */
static uint64_t parse_num(struct numv i, uint64_t len, char *ok, uint64_t maxmag, int allowneg, uint64_t maxneg, uint8_t *neg) { *neg = 0;
  if (i.isnum) { if (i.neg ? (allowneg && i.mag <= maxneg) : i.mag <= maxmag) { if (ok) *ok = 1; *neg = i.neg; return i.mag; } if (ok) *ok = 0; return 0; }
  if (len == 0) { if (ok) *ok = 0; return 0; }
  uint8_t k = vp_bool(); uint64_t v = vp_u64(); uint8_t ng = vp_bool();
  if (!k) { if (ok) *ok = 0; return 0; }
  ASSUME(ng ? (allowneg && v <= maxneg && v != 0) : v <= maxmag); if (ok) *ok = 1; *neg = ng; return v; }
#define SGN(T, v, neg) ((T)((neg) ? (T)0 - (T)(v) : (T)(v)))
#define QS_PARSE(self) QAD *d = *(QAD**)self; uint8_t n; struct numv i = numS(d)
#define QB_PARSE(self) QAD *d = *(QAD**)self; uint8_t n; struct numv i = numB(d)
uint64_t _ZNK7QString11toULongLongEPbi(char *self, char *ok, uint32_t base) { QS_PARSE(self); return parse_num(i, d->f1, ok, ~0ULL, 0, 0, &n); }
uint64_t _ZNK7QString10toLongLongEPbi(char *self, char *ok, uint32_t base) { QS_PARSE(self); uint64_t v = parse_num(i, d->f1, ok, 0x7fffffffffffffffULL, 1, 0x8000000000000000ULL, &n); return SGN(uint64_t, v, n); }
uint32_t _ZNK7QString6toUIntEPbi(char *self, char *ok, uint32_t base) { QS_PARSE(self); return (uint32_t)parse_num(i, d->f1, ok, 0xffffffffULL, 0, 0, &n); }
uint32_t _ZNK7QString5toIntEPbi(char *self, char *ok, uint32_t base) { QS_PARSE(self); uint64_t v = parse_num(i, d->f1, ok, 0x7fffffffULL, 1, 0x80000000ULL, &n); return SGN(uint32_t, v, n); }
uint16_t _ZNK7QString8toUShortEPbi(char *self, char *ok, uint32_t base) { QS_PARSE(self); return (uint16_t)parse_num(i, d->f1, ok, 0xffffULL, 0, 0, &n); }
uint16_t _ZNK7QString7toShortEPbi(char *self, char *ok, uint32_t base) { QS_PARSE(self); uint64_t v = parse_num(i, d->f1, ok, 0x7fffULL, 1, 0x8000ULL, &n); return SGN(uint16_t, v, n); }
uint32_t _ZNK10QByteArray5toIntEPbi(char *self, char *ok, uint32_t base) { QB_PARSE(self); uint64_t v = parse_num(i, d->f1, ok, 0x7fffffffULL, 1, 0x80000000ULL, &n); return SGN(uint32_t, v, n); }
uint32_t _ZNK10QByteArray6toUIntEPbi(char *self, char *ok, uint32_t base) { QB_PARSE(self); return (uint32_t)parse_num(i, d->f1, ok, 0xffffffffULL, 0, 0, &n); }
uint64_t _ZNK10QByteArray10toLongLongEPbi(char *self, char *ok, uint32_t base) { QB_PARSE(self); uint64_t v = parse_num(i, d->f1, ok, 0x7fffffffffffffffULL, 1, 0x8000000000000000ULL, &n); return SGN(uint64_t, v, n); }
/* slicing */
static void mid_calc(int32_t sz, int32_t *pp, int32_t *plen, int *null) { int32_t p = *pp, len = *plen; *null = 0;
  if (p > sz) { *null = 1; return; } if (p < 0) { if (len >= 0 && len + p <= 0) { *null = 1; return; } if (len >= 0) len += p; p = 0; }
  if (len < 0 || len > sz - p) len = sz - p; *pp = p; *plen = len; }
void _ZNK7QString3midEii(char *ret, char *self, uint32_t pos, uint32_t n) { QAD *d = *(QAD**)self; int32_t p = (int32_t)pos, len = (int32_t)n; int nul; mid_calc((int32_t)d->f1, &p, &len, &nul);
  if (nul) { *(QAD**)ret = SHARED_NULL; return; } if (p == 0 && len == (int32_t)d->f1) { *(QAD**)ret = qad_ref(d); return; } ASSERT(!numS(d).isnum, "mid() of an abstract number string");
  QAD *r = qs_new((uint32_t)len, qs_hint(d)); vpl_copy16(r, 0, qs_chars(d) + p, (uint32_t)len, qs_hint(d)); *(QAD**)ret = r; }
void _ZNK7QString4leftEi(char *ret, char *self, uint32_t n) { _ZNK7QString3midEii(ret, self, 0, (int32_t)n < 0 ? (uint32_t)-1 : n); }
void _ZNK7QString5rightEi(char *ret, char *self, uint32_t n) { QAD *d = *(QAD**)self; if (n >= d->f1) { *(QAD**)ret = qad_ref(d); return; } _ZNK7QString3midEii(ret, self, d->f1 - n, n); }
void _ZN7QString6resizeEi(char *self, uint32_t n) { QAD *d = *(QAD**)self; if ((int32_t)n < 0) n = 0; ASSERT(!numS(d).isnum || n == d->f1, "resize() of an abstract number string");
  if (REF(d) == 1 && VP_BLK_DYN(d)) { ASSERT(n <= QS_CAP, "QString capacity of the model exceeded"); d->f1 = n; if (((struct qs*)d)->hint < n) ((struct qs*)d)->hint = QS_CAP; return; }
  QAD *nd = qs_new(n, n > qs_hint(d) ? n : qs_hint(d)); vpl_copy16(nd, 0, qs_chars(d), umin(n, d->f1), qs_hint(d)); qad_deref(d); *(QAD**)self = nd; }
/* vp_qs_wr: the block most recently made writable (QString::data()/detach()/reserve() all come through reallocData for model
   blocks because their data offset differs from sizeof(QStringData)); the QStringBuilder leaf models of C20 store through it */
void _ZN7QString11reallocDataEjb(char *self, uint32_t alloc, uint8_t grow) { QAD *d = *(QAD**)self; ASSERT(alloc <= QS_CAP + 1, "QString capacity of the model exceeded"); if (REF(d) == 1 && VP_BLK_DYN(d)) { vp_qs_wr = d; return; }
  ASSERT(!numS(d).isnum, "detach of an abstract number string"); QAD *nd = qs_from(qs_chars(d), d->f1); ((struct qs*)nd)->hint = QS_CAP; qad_deref(d); *(QAD**)self = nd; vp_qs_wr = nd; }
/* C20: an unshared model block is appended to in place (Qt does the same when the capacity suffices); otherwise a new block */
static void vpl_app16(QAD *a, const uint16_t *p, uint32_t n) { for (uint32_t i = 0; i < H16(p, n) && i < QCAP; i++) { if (i >= n) break; SD(a)[a->f1 + i] = p[i]; } }
static void qs_append_raw(char *self, const uint16_t *p, uint32_t n, uint32_t hint) { QAD *a = *(QAD**)self; ASSERT(!numS(a).isnum, "append to an abstract number string");
  if (REF(a) == 1 && VP_BLK_DYN(a)) { ASSERT(a->f1 + n <= QS_CAP, "QString capacity of the model exceeded"); ASSERT(n <= QCAP, "append longer than QCAP units");
    vpl_app16(a, p, n); a->f1 = a->f1 + n; ((struct qs*)a)->hint = QS_CAP; return; }
  uint32_t ha = qs_hint(a);
  QAD *d = qs_new(a->f1 + n, ha + hint); vpl_copy16(d, 0, qs_chars(a), a->f1, ha); vpl_copy16(d, a->f1, p, n, hint); qad_deref(a); *(QAD**)self = d; }
static void vpl_appq16(QAD *a, QAD *b) { for (uint32_t i = 0; i < QHINT16(b) && i < QCAP; i++) { if (i >= b->f1) break; SD(a)[a->f1 + i] = QCH16(b)[i]; } }
char* _ZN7QString6appendERKS_(char *self, char *o) { QAD *a = *(QAD**)self, *b = *(QAD**)o;
  if (REF(a) == 1 && VP_BLK_DYN(a)) { /* C20: in place, also for an empty operand or an empty target (keeps the target block concrete) */
    ASSERT(a->f1 + b->f1 <= QS_CAP, "QString capacity of the model exceeded"); ASSERT(b->f1 <= QCAP, "append longer than QCAP units"); ASSERT(!numS(b).isnum, "append of an abstract number string");
    vpl_appq16(a, b); a->f1 = a->f1 + b->f1; ((struct qs*)a)->hint = QS_CAP; return self; }
  if (b->f1 == 0) return self; if (a->f1 == 0) { *(QAD**)self = qad_ref(b); qad_deref(a); return self; }
  ASSERT(!numS(b).isnum, "append of an abstract number string"); qs_append_raw(self, qs_chars(b), b->f1, qs_hint(b)); return self; }
char* _ZN7QString6appendE5QChar(char *self, uint16_t c) { qs_append_raw(self, &c, 1, 1); return self; }
char* _ZN7QString6appendEPK5QChari(char *self, char *p, uint32_t n) { if (p && (int32_t)n > 0) { ASSERT(!num16((uint16_t*)p, n).isnum, "append of an abstract number string"); qs_append_raw(self, (uint16_t*)p, n, hint16((uint16_t*)p, n)); } return self; }
char* _ZN7QString6appendE13QLatin1String(char *self, uint32_t n, char *l) { QAD *a = *(QAD**)self; ASSERT(!numS(a).isnum, "append to an abstract number string"); uint32_t ha = qs_hint(a);
  QAD *d = qs_new(a->f1 + n, ha + n); vpl_copy16(d, 0, qs_chars(a), a->f1, ha); vpl_widen(d, a->f1, (uint8_t*)l, n, n); qad_deref(a); *(QAD**)self = d; return self; }
/* toLower / toUpper: ASCII mapping; other units are outside the model (asserted): the case tables are Qt's */
static void vpl_case16(QAD *d, QAD *s, int upper) { for (uint32_t i = 0; i < QHINT16(s) && i < QCAP; i++) { if (i >= s->f1) break; uint16_t c = QCH16(s)[i]; ASSERT(c < 0x80, "toLower/toUpper: non-ASCII unit (case tables are Qt's, not modelled)");
    if (upper) { if (c >= 'a' && c <= 'z') c = (uint16_t)(c - 32); } else { if (c >= 'A' && c <= 'Z') c = (uint16_t)(c + 32); } SD(d)[i] = c; } }
static void qs_case(char *ret, char *self, int upper) { QAD *s = *(QAD**)self; ASSERT(!numS(s).isnum, "toLower/toUpper of an abstract number string"); ASSERT(s->f1 <= QCAP, "toLower/toUpper longer than QCAP units");
  QAD *d = qs_new(s->f1, QCAP); vpl_case16(d, s, upper); *(QAD**)ret = d; }
void _ZN7QString14toLower_helperERKS_(char *ret, char *self) { qs_case(ret, self, 0); }
void _ZN7QString14toLower_helperERS_(char *ret, char *self) { qs_case(ret, self, 0); }
void _ZN7QString14toUpper_helperERKS_(char *ret, char *self) { qs_case(ret, self, 1); }
void _ZN7QString14toUpper_helperERS_(char *ret, char *self) { qs_case(ret, self, 1); }
/* UTF-8 <-> UTF-16: identity on ASCII; anything else is outside the model (asserted): the codec is Qt's */
void _ZN7QString15fromUtf8_helperEPKci(char *ret, char *p, uint32_t n) { if (!p) { *(QAD**)ret = SHARED_NULL; return; } if ((int32_t)n < 0) n = vpl_strlen8((uint8_t*)p);
  struct numv ni = num8((uint8_t*)p, n); if (ni.isnum) { *(QAD**)ret = qs_number(ni.mag, ni.neg); return; }
  { QAD *t = b64_8((uint8_t*)p, n); if (t) { QAD *d = qs_new(1, 1); SD(d)[0] = '@'; ((struct qs*)d)->b64 = t; *(QAD**)ret = d; return; } }
  uint32_t h = hint8((uint8_t*)p, n); QAD *d = qs_new(n, h); vpl_widen(d, 0, (uint8_t*)p, n, h);
#ifndef VP_UTF8_LATIN1
  for (uint32_t i = 0; i < 8; i++) if (i < n) ASSERT(((uint8_t*)p)[i] < 0x80, "fromUtf8: non-ASCII byte (UTF-8 codec is Qt's, not modelled)");
#endif
  *(QAD**)ret = d; }
void _ZN7QString17fromLatin1_helperEPKci(char *ret, char *p, uint32_t n) { if (!p) { *(QAD**)ret = SHARED_NULL; return; } if ((int32_t)n < 0) n = vpl_strlen8((uint8_t*)p);
  uint32_t h = hint8((uint8_t*)p, n); QAD *d = qs_new(n, h); vpl_widen(d, 0, (uint8_t*)p, n, h); *(QAD**)ret = d; }
static void to8(char *ret, const uint16_t *p, uint64_t n, uint16_t lim) { struct numv ni = num16(p, n); if (ni.isnum) { *(QAD**)ret = qb_number(ni.mag, ni.neg); return; }
  { QAD *t = b64_16(p, n); if (t) { QAD *d = qb_new(1, 1); BD(d)[0] = '@'; ((struct qb*)d)->b64 = t; *(QAD**)ret = d; return; } }
  uint32_t h = hint16(p, n); QAD *d = qb_new((uint32_t)n, h); uint8_t ok = vpl_narrow(d, 0, p, (uint32_t)n, h, lim);
#ifndef VP_UTF8_LATIN1
  if (lim == 0x80) ASSERT(ok, "toUtf8: non-ASCII unit (UTF-8 codec is Qt's, not modelled)");
#endif
  BD(d)[n] = 0; *(QAD**)ret = d; }
void _ZN7QString13toUtf8_helperERKS_(char *ret, char *self) { QAD *s = *(QAD**)self; to8(ret, qs_chars(s), s->f1, 0x80); }
void _ZN7QString15toLatin1_helperERKS_(char *ret, char *self) { QAD *s = *(QAD**)self; to8(ret, qs_chars(s), s->f1, 0x100); }
void _ZN7QString15toLatin1_helperEPK5QChari(char *ret, char *p, uint32_t n) { to8(ret, (uint16_t*)p, n, 0x100); }
void _ZN9QtPrivate13convertToUtf8E11QStringView(char *ret, uint64_t n, char *p) { to8(ret, (uint16_t*)p, n, 0x80); }
void _ZN9QtPrivate15convertToLatin1E11QStringView(char *ret, uint64_t n, char *p) { to8(ret, (uint16_t*)p, n, 0x100); }

/* ---- QByteArray ---- */
void _ZN10QByteArrayC1EPKci(char *self, char *p, uint32_t n) { if (!p) { *(QAD**)self = SHARED_NULL; return; } if ((int32_t)n < 0) n = vpl_strlen8((uint8_t*)p); *(QAD**)self = qb_from((uint8_t*)p, n); }
void _ZN10QByteArrayC1Eic(char *self, uint32_t n, uint8_t c) { if ((int32_t)n <= 0) { *(QAD**)self = qb_new(0, 0); return; } QAD *d = qb_new(n, n); vpl_fill8(d, 0, c, n, n); *(QAD**)self = d; }
void _ZN10QByteArrayC1EiN2Qt14InitializationE(char *self, uint32_t n, uint32_t i) { *(QAD**)self = qb_new(n, n); }
char* _ZN10QByteArrayaSERKS_(char *self, char *o) { QAD *n = qad_ref(*(QAD**)o); qad_deref(*(QAD**)self); *(QAD**)self = n; return self; }
char* _ZN10QByteArrayaSEPKc(char *self, char *p) { *(QAD**)self = p ? qb_from((uint8_t*)p, vpl_strlen8((uint8_t*)p)) : SHARED_NULL; return self; }
void _ZN10QByteArray11reallocDataEj6QFlagsIN10QArrayData16AllocationOptionEE(char *self, uint32_t alloc, uint32_t opt) { QAD *o = *(QAD**)self; ASSERT(alloc <= QB_CAP + 1, "QByteArray capacity of the model exceeded");
  if (REF(o) == 1 && VP_BLK_DYN(o)) { if (((struct qb*)o)->hint + 1 < alloc) ((struct qb*)o)->hint = umin(alloc, QB_CAP); return; }
  ASSERT(!numB(o).isnum, "detach of an abstract number string"); QAD *d = qb_from(qb_bytes(o), o->f1); if (((struct qb*)d)->hint + 1 < alloc) ((struct qb*)d)->hint = umin(alloc, QB_CAP); qad_deref(o); *(QAD**)self = d; }
void _ZN10QByteArray6resizeEi(char *self, uint32_t n) { QAD *o = *(QAD**)self; if ((int32_t)n < 0) n = 0;
  if (REF(o) == 1 && VP_BLK_DYN(o)) { ASSERT(n <= QB_CAP, "QByteArray capacity of the model exceeded"); o->f1 = n; if (((struct qb*)o)->hint < n) ((struct qb*)o)->hint = n; BD(o)[n] = 0; return; }
  uint32_t h = qb_hint(o); QAD *d = qb_new(n, n > h ? n : h); vpl_copy8(d, 0, qb_bytes(o), umin(n, o->f1), h); qad_deref(o); *(QAD**)self = d; }
static void qb_append_raw(char *self, const uint8_t *p, uint32_t n, uint32_t hint) { QAD *a = *(QAD**)self; ASSERT(!numB(a).isnum, "append to an abstract number string"); uint32_t ha = qb_hint(a);
  QAD *d = qb_new(a->f1 + n, ha + hint); vpl_copy8(d, 0, qb_bytes(a), a->f1, ha); vpl_copy8(d, a->f1, p, n, hint); BD(d)[a->f1 + n] = 0; qad_deref(a); *(QAD**)self = d; }
char* _ZN10QByteArray6appendERKS_(char *self, char *o) { QAD *b = *(QAD**)o; QAD *a = *(QAD**)self; if (a->f1 == 0 && a == SHARED_NULL) { *(QAD**)self = qad_ref(b); return self; } if (b->f1 == 0) return self;
  ASSERT(!numB(b).isnum, "append of an abstract number string"); qb_append_raw(self, qb_bytes(b), b->f1, qb_hint(b)); return self; }
char* _ZN10QByteArray6appendEc(char *self, uint8_t c) { qb_append_raw(self, &c, 1, 1); return self; }
char* _ZN10QByteArray6appendEPKc(char *self, char *p) { if (p) { uint32_t n = vpl_strlen8((uint8_t*)p); if (n) qb_append_raw(self, (uint8_t*)p, n, n); } return self; }
char* _ZN10QByteArray6appendEPKci(char *self, char *p, uint32_t n) { if (!p) return self; if ((int32_t)n < 0) n = vpl_strlen8((uint8_t*)p); if (n) qb_append_raw(self, (uint8_t*)p, n, hint8((uint8_t*)p, n)); return self; }
void _ZNK10QByteArray3midEii(char *ret, char *self, uint32_t pos, uint32_t n) { QAD *d = *(QAD**)self; int32_t p = (int32_t)pos, len = (int32_t)n; int nul; mid_calc((int32_t)d->f1, &p, &len, &nul);
  if (nul) { *(QAD**)ret = qb_new(0, 0); return; } if (p == 0 && len == (int32_t)d->f1) { *(QAD**)ret = qad_ref(d); return; } ASSERT(!numB(d).isnum, "mid() of an abstract number string");
  QAD *r = qb_new((uint32_t)len, qb_hint(d)); vpl_copy8(r, 0, qb_bytes(d) + p, (uint32_t)len, qb_hint(d)); BD(r)[len] = 0; *(QAD**)ret = r; }
void _ZNK10QByteArray4leftEi(char *ret, char *self, uint32_t n) { QAD *o = *(QAD**)self; if (n >= o->f1) { *(QAD**)ret = qad_ref(o); return; } _ZNK10QByteArray3midEii(ret, self, 0, (int32_t)n < 0 ? 0 : n); }
void _ZNK10QByteArray5rightEi(char *ret, char *self, uint32_t n) { QAD *o = *(QAD**)self; if (n >= o->f1) { *(QAD**)ret = qad_ref(o); return; } if ((int32_t)n < 0) n = 0; _ZNK10QByteArray3midEii(ret, self, o->f1 - n, n); }
uint8_t _ZNK10QByteArray6isNullEv(char *self) { return *(QAD**)self == SHARED_NULL; }
uint32_t qstrcmp(char *a, char *b) { if (!a || !b) return a ? 1 : (b ? (uint32_t)-1 : 0); uint32_t na = vpl_strlen8((uint8_t*)a), nb = vpl_strlen8((uint8_t*)b); int c = vpl_cmp8((uint8_t*)a, (uint8_t*)b, umin(na, nb), na, nb); if (c) return (uint32_t)c; return na == nb ? 0 : (na < nb ? (uint32_t)-1 : 1); }
uint32_t _Z7qstrcmpRK10QByteArrayS1_(char *a, char *b) { QAD *x = *(QAD**)a, *y = *(QAD**)b; if (qb_eq(x, y)) return 0; uint32_t m = umin(x->f1, y->f1);
  int c = vpl_cmp8(qb_bytes(x), qb_bytes(y), m, x->f1, y->f1); if (c) return (uint32_t)c; return x->f1 < y->f1 ? (uint32_t)-1 : 1; }
uint32_t _Z7qstrcmpRK10QByteArrayPKc(char *a, char *b) { QAD *x = *(QAD**)a; if (!b) return x->f1 ? 1 : 0; if (numB(x).isnum) return 1; uint32_t nb = vpl_strlen8((uint8_t*)b), m = umin(x->f1, nb);
  int c = vpl_cmp8(qb_bytes(x), (uint8_t*)b, m, x->f1, nb); if (c) return (uint32_t)c; return x->f1 == nb ? 0 : (x->f1 < nb ? (uint32_t)-1 : 1); }
uint32_t _ZNK10QByteArray7indexOfEci(char *self, uint8_t c, uint32_t from) { QAD *d = *(QAD**)self; if ((int32_t)from < 0) from = 0; if (numB(d).isnum) return (uint32_t)-1; return (uint32_t)vpl_find8(qb_bytes(d), d->f1, qb_hint(d), from, c); }
/* base64 (abstract, see b64 above) */
void _ZNK10QByteArray8toBase64E6QFlagsINS_12Base64OptionEE(char *ret, char *self, uint32_t opt) { QAD *raw = *(QAD**)self; if (raw->f1 == 0) { *(QAD**)ret = qb_new(0, 0); return; }
  ASSERT(!numB(raw).isnum && !QTAG8(raw), "toBase64 of an abstract number / already encoded string"); QAD *d = qb_new(1, 1); BD(d)[0] = '@'; ((struct qb*)d)->b64 = qad_ref(raw); *(QAD**)ret = d; }
void _ZNK10QByteArray8toBase64Ev(char *ret, char *self) { _ZNK10QByteArray8toBase64E6QFlagsINS_12Base64OptionEE(ret, self, 0); }
/* decode: tagged text -> its raw bytes; empty -> empty; any other text -> arbitrary outcome (invalid, or <= 3 arbitrary bytes) */
static QAD *b64_decode(QAD *enc, uint8_t *ok) { *ok = 1; if (enc->f1 == 0) return qb_new(0, 0); QAD *t = b64_8(qb_bytes(enc), enc->f1); if (t) return qad_ref(t);
  uint8_t valid = vp_bool(); uint32_t len = vp_u32(); uint8_t b0 = vp_u8(), b1 = vp_u8(), b2 = vp_u8(); if (!valid) { *ok = 0; return qb_new(0, 0); } ASSUME(len <= 3);
  QAD *d = qb_new(len, 3); BD(d)[0] = b0; BD(d)[1] = b1; BD(d)[2] = b2; BD(d)[len] = 0; return d; }
void _ZN10QByteArray18fromBase64EncodingERKS_6QFlagsINS_12Base64OptionEE(char *ret, char *enc, uint32_t opt) { uint8_t ok; *(QAD**)ret = b64_decode(*(QAD**)enc, &ok); *(uint32_t*)(ret + 8) = ok ? 0 : 1; }
void _ZN10QByteArray18fromBase64EncodingEOS_6QFlagsINS_12Base64OptionEE(char *ret, char *enc, uint32_t opt) { uint8_t ok; *(QAD**)ret = b64_decode(*(QAD**)enc, &ok); *(uint32_t*)(ret + 8) = ok ? 0 : 1; }
void _ZN10QByteArray10fromBase64ERKS_(char *ret, char *enc) { uint8_t ok; *(QAD**)ret = b64_decode(*(QAD**)enc, &ok); }
void _ZN10QByteArray10fromBase64ERKS_6QFlagsINS_12Base64OptionEE(char *ret, char *enc, uint32_t opt) { uint8_t ok; *(QAD**)ret = b64_decode(*(QAD**)enc, &ok); }
/* inline operator==(QByteArray,QByteArray) uses memcmp: overridden so that abstract numbers / base64 tags compare by value */
uint8_t _ZeqRK10QByteArrayS1_(char *a, char *b) { return qb_eq(*(QAD**)a, *(QAD**)b); }
uint8_t _ZneRK10QByteArrayS1_(char *a, char *b) { return !qb_eq(*(QAD**)a, *(QAD**)b); }
static int vpl_memcmp(const uint8_t *a, const uint8_t *b, uint64_t n) { for (uint64_t i = 0; i < n; i++) { if (a[i] != b[i]) return a[i] < b[i] ? -1 : 1; } return 0; }
int bcmp(const void *a, const void *b, size_t n) { return vpl_memcmp((const uint8_t*)a, (const uint8_t*)b, n); }
#ifdef __CPROVER__
int memcmp(const void *a, const void *b, size_t n) { return vpl_memcmp((const uint8_t*)a, (const uint8_t*)b, n); }
#endif
#endif
