// C20 second half: the hash advertised in presence (QXmppClientPrivate::addProperCapability) is the hash of what the client
// answers to a disco#info query (QXmppDiscoveryManager::handleIq).  QXmppDiscoveryManager::capabilities() - the assembly of the
// client's identities/features from the registered extensions - is cut: it returns an ARBITRARY info set (the same one on every
// call), see c20_mgr_models.c.  The hash is the recording oracle, so "same hash" means "same octet string handed to SHA-1".
#include "QXmppStanza.h"
#include "QXmppIq.h"
#include "QXmppLogger.h"
#include "QXmppConfiguration.h"
#include "QXmppSendResult.h"
#include "QXmppSendStanzaParams.h"
#include "QXmppStreamError.h"
#include "QXmppExtension.h"
#include "QXmppJingleIq.h"
#include "QXmppMucIq.h"
#include "QXmppDataForm.h"
#include <QSharedDataPointer>
#include <QDateTime>
#define private public
#include "QXmppPresence.h"
#undef private
#include "QXmppOutgoingClient.h"
#include <QAbstractSocket>
#include <QObject>
#include <QSslError>
#include <chrono>
#include <memory>
#include <variant>
#define private public
#include "QXmppDiscoveryIq.h"
#include "QXmppPresence.h"
#include "QXmppClientExtension.h"
#include "QXmppClient.h"
#include "QXmppClient_p.h"
#include "QXmppDiscoveryManager.h"
#undef private
#include "client/QXmppDiscoveryManager.cpp"
#include "base/QXmppPresence.cpp"
#include "vp_harness.h"
#include "c20.h"

extern "C" {
void vp_c20_set_extension(void *ext);     // the one element QXmppClient::extensions() returns (c20_mgr_models.c)
static QXmppDiscoveryIq *g_caps;
// what the cut QXmppDiscoveryManager::capabilities() returns: a copy of the arbitrary info set chosen by the harness
void vp_c20_capabilities(QXmppDiscoveryIq *out) { new (out) QXmppDiscoveryIq(*g_caps); }
}

struct World {
    VpRaw<QXmppDiscoveryManager> mgr;
    QXmppDiscoveryManagerPrivate *priv;
    Txt capNode;
    QXmppDiscoveryIq caps;
    // arbitrary info set: nid (<= 1) identities, nf (<= 2) features
    static void fill(QXmppDiscoveryIq &iq)
    {
        iq.setType(QXmppIq::Result);
        iq.setQueryType(QXmppDiscoveryIq::InfoQuery);
        unsigned nid = symCount(0, 1), nf = symCount(1, 2);
        QList<QXmppDiscoveryIq::Identity> il;
        if (nid) {
            QXmppDiscoveryIq::Identity id;
            id.setCategory(qstr(symTxt())); id.setType(qstr(symTxt())); id.setLanguage(qstr(symTxt())); id.setName(qstr(symTxt()));
            vp_c20_list_push(&il, new QXmppDiscoveryIq::Identity(id));
        }
        iq.setIdentities(il);
        QStringList fl;
        for (unsigned i = 0; i < 2; i++) if (i < nf) { QString q = qstr(symTxt()); vp_c20_strlist_push(&fl, &q); }
        iq.setFeatures(fl);
    }
    explicit World(const Txt &node) : capNode(node)
    {
        // the manager is raw storage: handleIq()/clientCapabilitiesNode() only touch the private block (and capabilities())
        priv = new QXmppDiscoveryManagerPrivate;
        new (const_cast<std::unique_ptr<QXmppDiscoveryManagerPrivate> *>(&mgr->d)) std::unique_ptr<QXmppDiscoveryManagerPrivate>(priv);
        priv->clientCapabilitiesNode = qstr(capNode);
        fill(caps);
        g_caps = &caps;
        // vp_c20_capabilities is only called from the C model of capabilities(): one direct call keeps it in the translated program
        { VpRaw<QXmppDiscoveryIq> probe; vp_c20_capabilities(probe.p()); }
    }
};
[[maybe_unused]] static bool txtStartsWith(const Txt &s, const Txt &prefix)
{
    if (prefix.len > s.len) return false;
    for (unsigned k = 0; k < MAXLEN; k++) if (k < prefix.len && s.c[k] != prefix.c[k]) return false;
    return true;
}

// handleIq(info query): for the own node (empty, or starting with the capabilities node) the answer is capabilities() with only
// the query node changed - in particular it hashes to the same verification string; other nodes get item-not-found
// The node texts are concrete per instance (scenario), so that the accept/refuse decision of handleIq is a single path; the
// info set returned by capabilities() is symbolic.
static Txt mkTxt(unsigned len, unsigned short c0, unsigned short c1, unsigned short c2) { Txt t; t.len = len; t.c[0] = c0; t.c[1] = c1; t.c[2] = c2; return t; }
static void scenario(Txt &capNode, Txt &node, bool &addressed)
{
    unsigned sc = symCount(2, 3);
    capNode = mkTxt(sc == 2 ? 0 : 2, 'a', 'b', 0);                // "ab", or "" in scenario 2
    if (sc == 0) node = mkTxt(0, 0, 0, 0);                         // query without node
    else if (sc == 1) node = mkTxt(3, 'a', 'b', 'B');              // node#ver form: starts with the capabilities node
    else if (sc == 2) node = mkTxt(1, 'b', 0, 0);                  // empty capabilities node: every node is the own one
    else node = mkTxt(2, 'b', 'a', 0);                             // foreign node
    addressed = sc != 3;
}
extern "C" void h_handle_info()
{
    Txt capNode, node; bool addressed; scenario(capNode, node, addressed);
    World w(capNode);
    QXmppDiscoveryIq req;
    req.setQueryType(QXmppDiscoveryIq::InfoQuery);
    req.setQueryNode(qstr(node));

    auto res = w.mgr->handleIq(std::move(req));

    if (addressed) {
        vp_assert(std::holds_alternative<QXmppDiscoveryIq>(res), "C20 an info query for the own node is answered with an info result");
        if (auto *reply = std::get_if<QXmppDiscoveryIq>(&res)) {
            vp_assert(reply->queryNode() == qstr(node), "C20 the answer carries the queried node");
            vp_assert(reply->type() == QXmppIq::Result && reply->queryType() == QXmppDiscoveryIq::InfoQuery, "C20 the answer is an info result");
            vp_assert(reply->features() == w.caps.features(), "C20 the answer lists the features of capabilities()");
            vp_assert(reply->identities().size() == w.caps.identities().size(), "C20 the answer lists the identities of capabilities()");
            if (reply->identities().size() == 1 && w.caps.identities().size() == 1) {
                const auto a = reply->identities().at(0), b = w.caps.identities().at(0);
                vp_assert(a.category() == b.category() && a.type() == b.type() && a.language() == b.language() && a.name() == b.name(),
                          "C20 the answer lists the identities of capabilities() (content)");
            }
#ifdef C20_REPLY_HASH
            QByteArray vReply = reply->verificationString();
            QByteArray vCaps = w.caps.verificationString();
            vp_assert(vp_hash_calls() == 2 && vp_hash_input_eq(0, 1), "C20 the disco#info answer hashes to the same string as capabilities()");
            vp_assert(vp_hash_output_is(0, &vReply) && vp_hash_same_output(0, 1), "C20 the disco#info answer has the verification string of capabilities()");
#else
            // the answer shares the private data of capabilities() except for the query node: identities, features and form are the
            // same objects, and verificationString() is a function of exactly these (group vs)
            vp_assert(reply->form().isNull() == w.caps.form().isNull(), "C20 the answer carries the form of capabilities()");
#endif
        }
    } else {
        vp_assert(std::holds_alternative<QXmppStanza::Error>(res), "C20 an info query for a foreign node is refused");
        if (auto *err = std::get_if<QXmppStanza::Error>(&res))
            vp_assert(err->condition() == QXmppStanza::Error::ItemNotFound, "C20 a foreign node gives item-not-found");
    }
}

// addProperCapability(presence): hash "sha-1", the capabilities node, and ver = verification string of capabilities() = the one of
// the disco#info answer (previous harness)
extern "C" void h_presence_caps()
{
    World w(symTxt());
    // client: QXmppClient itself is raw storage (QXmppClient::extensions() is modelled and returns the discovery manager only);
    // its private object is built by the REAL QXmppClientPrivate constructor, so every member - also one added later - is
    // initialised the way the library initialises it.  The presence is a real QXmppPresence.
    VpRaw<QXmppClient> client; VpRaw<QXmppClientPrivate> cp;
    new (cp.p()) QXmppClientPrivate(client.p());
    vp_c20_set_extension(w.mgr.p());
    QXmppPresence presence; QXmppPresence *pres = &presence;

    cp->addProperCapability(*pres);

    vp_assert(pres->capabilityHash() == u"sha-1", "C20 presence advertises the hash algorithm sha-1");
    vp_assert(pres->capabilityNode() == qstr(w.capNode), "C20 presence advertises the client capabilities node");
    QByteArray ver = pres->capabilityVer();
    vp_assert(vp_hash_calls() == 1 && vp_hash_alg(0) == 2 && vp_hash_output_is(0, &ver), "C20 presence advertises the SHA-1 verification string just computed");
    QByteArray vCaps = w.caps.verificationString();
    vp_assert(vp_hash_calls() == 2 && vp_hash_input_eq(0, 1) && vp_hash_same_output(0, 1), "C20 the advertised ver is the verification string of capabilities()");
}

// Two presences in a row while the client's capabilities change in between (same extension list, nothing inserted or removed):
// each advertised ver must be the hash of what a disco#info query would be answered with AT THAT MOMENT, i.e. of the info set
// capabilities() returns then.  A and B are arbitrary (equal or different).
extern "C" void h_presence_caps_twice()
{
    World w(symTxt());
    QXmppDiscoveryIq capsB; World::fill(capsB);
    VpRaw<QXmppClient> client; VpRaw<QXmppClientPrivate> cp;
    new (cp.p()) QXmppClientPrivate(client.p());
    vp_c20_set_extension(w.mgr.p());
    QXmppPresence p1, p2;

    cp->addProperCapability(p1);      // capabilities() == A
    g_caps = &capsB;                  // e.g. setClientName()/setClientInfoForm() on the discovery manager
    cp->addProperCapability(p2);      // capabilities() == B

    QByteArray ver1 = p1.capabilityVer(), ver2 = p2.capabilityVer();
    unsigned kA = vp_hash_calls();
    QByteArray vA = w.caps.verificationString();
    unsigned kB = vp_hash_calls();
    QByteArray vB = capsB.verificationString();
    vp_assert(kB == kA + 1 && vp_hash_calls() == kB + 1, "C20 harness: one hash per reference verification string");
    // the oracle answers equal octet strings with the same digest block, so "is the digest of call k" does not depend on whether
    // the client recomputed or (legitimately) reused a value
    vp_assert(vp_hash_output_is(kA, &ver1), "C20 the first presence advertises the hash of the capabilities at that moment");
    vp_assert(vp_hash_output_is(kB, &ver2), "C20 a later presence advertises the hash of the CURRENT capabilities (what disco#info answers now)");
    vp_assert(p2.capabilityHash() == u"sha-1" && p2.capabilityNode() == qstr(w.capNode), "C20 presence advertises sha-1 and the capabilities node");
}
