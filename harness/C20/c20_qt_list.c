/* libQt5Core boundary: QListData (the out-of-line part of QList<T>); the inline template code is real (translated).
   Local variant of models/qt_list.c for C20: blocks keep begin == LD_B (= 2), so array[0..1] are spare slots in front of the
   elements.  Reason: libstdc++'s std::__unguarded_linear_insert has no range guard (it relies on a sentinel established by its
   caller); during symbolic execution the one iteration too many that cannot be excluded syntactically then reads/writes the
   spare slot instead of the begin/end words of the block header (which would make every later list operation symbolic).
   Real QListData blocks may have begin > 0 as well (after prepend/removeFirst), so the inline code is exercised faithfully. */
#ifdef HAVE_T_struct_QListData__Data
#ifndef LIST_CAP
#define LIST_CAP 3   /* C20: identities <= 2, features <= 3, form fields <= 3, values <= 2 */
#endif
#define LD_B 2u   /* >= (largest list handed to std::sort) - 1: the unguarded insertion loop of element k is cut after k+1 evaluations of its condition */
#if LIST_CAP > 6
#error ld_new initialises at most 8 slots
#endif
struct ld { uint32_t ref, alloc, begin, end; char *array[LIST_CAP + LD_B]; };
/* what unused slots point to: an object that reads as an empty model string block (size 0, hint 0, data offset QS_OFF - the same
   constant offset as every other string block, so `d->offset` folds to a constant for if-then-else pointers) and as a null
   d-pointer for handle classes (first word 0) */
#ifdef HAVE_T_struct_QArrayData
static struct qs vp_ld_spare = { { {{{{{ 0 }}}}}, 0, 0, QS_OFF } };
#define vp_ld_zero (&vp_ld_spare)
#else
static char *vp_ld_zero[8];
#endif
#ifdef HAVE_G__ZN9QListData11shared_nullE
GT__ZN9QListData11shared_nullE G__ZN9QListData11shared_nullE = { {{{{ (uint32_t)-1 }}}}, 0, 0, 0, {{0}} };
#endif
#define LD(self) (*(struct ld**)(self))
#define LD_N(x) ((x)->end - (x)->begin)
static struct ld *ld_new(uint32_t n) { struct ld *t = malloc(sizeof(struct ld)); ASSUME(t != 0); ASSERT(n <= LIST_CAP, "QList capacity of the model exceeded"); t->ref = 1; t->alloc = LIST_CAP; t->begin = LD_B; t->end = LD_B + n;
  /* every slot starts out pointing to the all-zero object: no path ever reads an indeterminate pointer */
  t->array[0] = (char*)vp_ld_zero; t->array[1] = (char*)vp_ld_zero; t->array[2] = (char*)vp_ld_zero;
#if LIST_CAP > 1
  t->array[3] = (char*)vp_ld_zero;
#endif
#if LIST_CAP > 2
  t->array[4] = (char*)vp_ld_zero;
#endif
#if LIST_CAP > 3
  t->array[5] = (char*)vp_ld_zero;
#endif
#if LIST_CAP > 4
  t->array[6] = (char*)vp_ld_zero;
#endif
#if LIST_CAP > 5
  t->array[7] = (char*)vp_ld_zero;
#endif
  return t; }
void _ZN9QListData7disposeEPNS_4DataE(char *d) { /* blocks are never recycled */ }
void _ZN9QListData7disposeEv(char *self) { }
char* _ZN9QListData6detachEi(char *self, uint32_t alloc) { struct ld *x = LD(self); uint32_t n = LD_N(x); struct ld *t = ld_new(alloc ? n : 0); LD(self) = t; return (char*)x; }
char* _ZN9QListData11detach_growEPii(char *self, char *idx, uint32_t num) { struct ld *x = LD(self); uint32_t l = LD_N(x); int32_t i = *(int32_t*)idx;
  if (i < 0) *(int32_t*)idx = 0; else if ((uint32_t)i > l) *(int32_t*)idx = (int32_t)l; struct ld *t = ld_new(l + num); LD(self) = t; return (char*)x; }
void _ZN9QListData12realloc_growEi(char *self, uint32_t n) { struct ld *x = LD(self); ASSERT(LD_N(x) + n <= LIST_CAP, "QList capacity of the model exceeded"); }
void _ZN9QListData7reallocEi(char *self, uint32_t n) { ASSERT(n <= LIST_CAP, "QList capacity of the model exceeded"); }
char* _ZN9QListData6appendEi(char *self, uint32_t n) { struct ld *d = LD(self); ASSERT(d->ref == 1, "QListData::append on shared data"); uint32_t e = d->end; ASSERT(e + n <= LIST_CAP + LD_B, "QList capacity of the model exceeded"); d->end = e + n; return (char*)&d->array[e]; }
char* _ZN9QListData6appendEv(char *self) { return _ZN9QListData6appendEi(self, 1); }
char* _ZN9QListData6appendERKS_(char *self, char *o) { struct ld *l = LD(o); return _ZN9QListData6appendEi(self, LD_N(l)); }
/* insert / remove work on absolute slot numbers k in [begin, end) */
static void vpl_ld_shift_right(struct ld *d, uint32_t from) { for (uint32_t k = LIST_CAP + LD_B - 1; k > LD_B; k--) { if (k > from && k <= d->end) d->array[k] = d->array[k - 1]; } }
static void vpl_ld_shift_left(struct ld *d, uint32_t from, uint32_t n) { for (uint32_t k = LD_B; k < LIST_CAP + LD_B; k++) { if (k >= from && k + n < d->end) d->array[k] = d->array[k + n]; } }
char* _ZN9QListData6insertEi(char *self, uint32_t i) { struct ld *d = LD(self); ASSERT(d->ref == 1, "QListData::insert on shared data"); if ((int32_t)i <= 0) i = 0; if (i >= LD_N(d)) return _ZN9QListData6appendEv(self);
  ASSERT(d->end < LIST_CAP + LD_B, "QList capacity of the model exceeded"); vpl_ld_shift_right(d, i + LD_B); d->end++; return (char*)&d->array[i + LD_B]; }
char* _ZN9QListData7prependEv(char *self) { return _ZN9QListData6insertEi(self, 0); }
void _ZN9QListData6removeEi(char *self, uint32_t i) { struct ld *d = LD(self); ASSERT(d->ref == 1 && i < LD_N(d), "QListData::remove"); vpl_ld_shift_left(d, i + LD_B, 1); d->end--; }
void _ZN9QListData6removeEii(char *self, uint32_t i, uint32_t n) { struct ld *d = LD(self); ASSERT(d->ref == 1 && i + n <= LD_N(d), "QListData::remove"); vpl_ld_shift_left(d, i + LD_B, n); d->end -= n; }
char* _ZN9QListData5eraseEPPv(char *self, char *xi) { struct ld *d = LD(self); uint32_t k = (uint32_t)((char**)xi - d->array); ASSERT(k >= LD_B, "QListData::erase"); _ZN9QListData6removeEi(self, k - LD_B); return (char*)&d->array[k]; }
#endif
