/* C20 local models: recording hash oracle, QStringList out-of-line helpers */
#ifdef HAVE_T_struct_QArrayData
/* list lengths of the harness: a constant when the instance fixes them (case split), else symbolic 0..max */
#ifndef C_N0
#define C_N0 -1
#endif
#ifndef C_N1
#define C_N1 -1
#endif
#ifndef C_N2
#define C_N2 -1
#endif
#ifndef C_N3
#define C_N3 -1
#endif
#ifndef C_N4
#define C_N4 -1
#endif
#ifndef C_N5
#define C_N5 -1
#endif
#ifndef C_N6
#define C_N6 -1
#endif
#ifndef C_N7
#define C_N7 -1
#endif
uint32_t vp_c20_count(uint32_t which, uint32_t max) { int32_t f = which == 0 ? C_N0 : which == 1 ? C_N1 : which == 2 ? C_N2 : which == 3 ? C_N3 : which == 4 ? C_N4 : which == 5 ? C_N5 : which == 6 ? C_N6 : C_N7;
  if (f >= 0) { ASSERT((uint32_t)f <= max, "fixed count above the harness maximum"); return (uint32_t)f; }
  uint32_t n = vp_u32(); ASSUME(n <= max); return n; }
void vp_c20_string(char *out, uint32_t len, uint16_t c0, uint16_t c1, uint16_t c2) { ASSERT(len <= 3, "c20 string bound"); QAD *d = qs_new(len, 3); uint16_t *p = qs_chars(d); p[0] = c0; p[1] = c1; p[2] = c2; *(QAD**)out = d; }
/* ---- QCryptographicHash: recording oracle. Logs (algorithm, octet string) per result()/hash() call and returns fresh
   symbolic digest bytes, functionally consistent (same algorithm and input => same digest block). ---- */
#ifndef HLOG
#define HLOG 4
#endif
struct hrec { uint32_t alg; QAD *in; QAD *out; };
static struct hrec vp_hlog[HLOG]; static uint32_t vp_hn;
struct hstate { uint32_t alg; QAD *acc; };
static uint32_t hash_len(uint32_t alg) { if (alg == 2) return 20; if (alg <= 1) return 16; if (alg == 4) return 32; ASSERT(0, "hash oracle: algorithm not modelled"); return 20; }
static QAD *hash_oracle(uint32_t alg, QAD *in) { ASSERT(vp_hn < HLOG, "hash oracle: log full"); ASSUME(vp_hn < HLOG);
  QAD *out = 0;
  for (uint32_t k = 0; k < HLOG; k++) { if (k >= vp_hn) break; if (!out && vp_hlog[k].alg == alg && qb_eq(vp_hlog[k].in, in)) out = vp_hlog[k].out; }
  if (!out) { uint32_t n = hash_len(alg); out = qb_new(n, n); uint8_t *p = qb_bytes(out); for (uint32_t i = 0; i < 32; i++) { if (i >= n) break; p[i] = vp_u8(); } p[n] = 0; }
  vp_hlog[vp_hn].alg = alg; vp_hlog[vp_hn].in = qad_ref(in); vp_hlog[vp_hn].out = out; vp_hn++; return out; }
void _ZN18QCryptographicHashC1ENS_9AlgorithmE(char *self, uint32_t alg) { struct hstate *h = malloc(sizeof(struct hstate)); ASSUME(h != 0); h->alg = alg; h->acc = 0; *(struct hstate**)self = h; }
void _ZN18QCryptographicHashD1Ev(char *self) { }
void _ZN18QCryptographicHash7addDataERK10QByteArray(char *self, char *ba) { struct hstate *h = *(struct hstate**)self; QAD *b = *(QAD**)ba;
  if (!h->acc) { h->acc = qad_ref(b); return; }
  _ZN10QByteArray6appendERKS_((char*)&h->acc, ba); }
void _ZNK18QCryptographicHash6resultEv(char *ret, char *self) { struct hstate *h = *(struct hstate**)self; QAD *in = h->acc ? h->acc : qb_new(0, 0); *(QAD**)ret = qad_ref(hash_oracle(h->alg, in)); }
void _ZN18QCryptographicHash4hashERK10QByteArrayNS_9AlgorithmE(char *ret, char *ba, uint32_t alg) { *(QAD**)ret = qad_ref(hash_oracle(alg, *(QAD**)ba)); }
uint32_t vp_hash_calls(void) { return vp_hn; }
uint32_t vp_hash_alg(uint32_t k) { ASSERT(k < vp_hn, "hash log index"); return vp_hlog[k].alg; }
uint32_t vp_hash_len(uint32_t k) { ASSERT(k < vp_hn, "hash log index"); return vp_hlog[k].in->f1; }
uint32_t vp_hash_byte(uint32_t k, uint32_t i) { ASSERT(k < vp_hn, "hash log index"); if (i >= vp_hlog[k].in->f1 || i >= QB_CAP) return 0xffffu; /* past the end: no octet */ return ((struct qb*)vp_hlog[k].in)->data[i]; }
uint8_t vp_hash_input_eq(uint32_t k, uint32_t l) { ASSERT(k < vp_hn && l < vp_hn, "hash log index"); return qb_eq(vp_hlog[k].in, vp_hlog[l].in); }
uint8_t vp_hash_same_output(uint32_t k, uint32_t l) { ASSERT(k < vp_hn && l < vp_hn, "hash log index"); return vp_hlog[k].out == vp_hlog[l].out; }
uint8_t vp_hash_output_is(uint32_t k, char *r) { ASSERT(k < vp_hn, "hash log index"); return *(QAD**)r == vp_hlog[k].out; }

/* ---- QStringList out-of-line helpers (libQt5Core). QList<QString> keeps the QString (one pointer) in the slot itself.
   Element i lives in array[begin + i]; begin is the constant LD_B of c20_qt_list.c. ---- */
#ifdef HAVE_T_struct_QListData__Data
#define SL(l, i) ((l)->array[LD_B + (i)])
static int sl_cmp(QAD *a, QAD *b, uint32_t cs) { return cs == 1 ? vpl_qcmp16(a, b) : vpl_qcmp16ci(a, b); }
/* removeDuplicates: keeps the first occurrence of every string, in order (Qt contract); returns the number removed */
uint32_t _ZN9QtPrivate28QStringList_removeDuplicatesEP11QStringList(char *self) { struct ld *l = LD(self); uint32_t n = l->end - l->begin; if (n == 0) return 0;
  ASSERT(l->begin == LD_B, "removeDuplicates: begin"); ASSERT(n <= LIST_CAP, "QList capacity of the model exceeded");
  if (l->ref != 1) { /* detach as Qt does: private copy of the slots, every string gains a reference */
    struct ld *t = ld_new(n); for (uint32_t k = 0; k < LIST_CAP; k++) { if (k >= n) break; SL(t, k) = (char*)qad_ref((QAD*)SL(l, k)); }
    if (l->ref != (uint32_t)-1 && l->ref != 0) l->ref--; LD(self) = t; l = t; }
  uint8_t keep[LIST_CAP]; uint32_t rank[LIST_CAP]; char *old[LIST_CAP]; uint32_t j = 0;
  for (uint32_t i = 0; i < LIST_CAP; i++) { keep[i] = 0; rank[i] = j; old[i] = SL(l, i); if (i >= n) continue; uint8_t dup = 0;
    for (uint32_t k = 0; k < LIST_CAP; k++) { if (k >= i) break; if (d_eq((QAD*)old[k], (QAD*)old[i])) dup = 1; }
    keep[i] = !dup; if (!dup) j++; }
  for (uint32_t p = 0; p < LIST_CAP; p++) { if (p >= n) break; for (uint32_t i = 0; i < LIST_CAP; i++) { if (i >= n) break; if (i >= p && keep[i] && rank[i] == p) SL(l, p) = old[i]; } }
  l->end = l->begin + j; return n - j; }
/* sort: ascending by code units (case sensitive) or by case-folded code units (Qt: std::sort with s1.compare(s2, cs) < 0; below
   16 elements that is an insertion sort, i.e. stable like this network); bubble network over fixed slots */
void _ZN9QtPrivate16QStringList_sortEP11QStringListN2Qt15CaseSensitivityE(char *self, uint32_t cs) { struct ld *l = LD(self); uint32_t n = l->end - l->begin; if (n < 2) return;
  ASSERT(l->begin == LD_B, "QStringList::sort: begin"); ASSERT(n <= LIST_CAP, "QList capacity of the model exceeded");
  if (l->ref != 1) { /* detach (Qt: that->begin()): private copy of the slots, every string gains a reference */
    struct ld *t = ld_new(n); for (uint32_t k = 0; k < LIST_CAP; k++) { if (k >= n) break; SL(t, k) = (char*)qad_ref((QAD*)SL(l, k)); }
    if (l->ref != (uint32_t)-1 && l->ref != 0) l->ref--; LD(self) = t; l = t; }
  for (uint32_t pass = 0; pass + 1 < LIST_CAP; pass++) { if (pass + 1 >= n) break;
    for (uint32_t k = 0; k + 1 < LIST_CAP; k++) { if (k + 1 >= n) break; if (sl_cmp((QAD*)SL(l, k + 1), (QAD*)SL(l, k), cs) < 0) { char *t = SL(l, k); SL(l, k) = SL(l, k + 1); SL(l, k + 1) = t; } } } }
#ifndef C20_ELCAP
#define C20_ELCAP 4u   /* longest list element join() handles */
#endif
void _ZN9QtPrivate16QStringList_joinEPK11QStringListPK5QChari(char *ret, char *self, char *sep, uint32_t seplen) { struct ld *l = LD(self); uint32_t n = l->end - l->begin;
  ASSERT(n <= LIST_CAP, "QList capacity of the model exceeded"); ASSERT(seplen <= 1, "join: separator longer than one unit not modelled");
  QAD *r = qs_new(0, LIST_CAP * (C20_ELCAP + 1)); uint32_t pos = 0;   /* one result block with a constant hint, typed stores */
  for (uint32_t i = 0; i < LIST_CAP; i++) { if (i >= n) break; if (i > 0 && seplen) { SD(r)[pos] = *(uint16_t*)sep; pos++; }
    QAD *e = (QAD*)l->array[l->begin + i]; ASSERT(e->f1 <= C20_ELCAP, "join: element longer than C20_ELCAP");
    for (uint32_t k = 0; k < C20_ELCAP; k++) { if (k >= e->f1) break; SD(r)[pos + k] = QCH16(e)[k]; } pos += e->f1; }
  r->f1 = pos; *(QAD**)ret = r; }
#endif
/* ---- QVariant restricted to Invalid / QString / QStringList (value in the data word, as Qt does for movable pointer-sized types) ---- */
struct qv { char *ptr; uint32_t tw; uint32_t pad; };
#define QV_TYPE(v) ((v)->tw & 0x3fffffffu)
#define QV_STRING 10u
#define QV_STRINGLIST 11u
static void qv_check(struct qv *v) { ASSERT(QV_TYPE(v) == 0 || QV_TYPE(v) == QV_STRING || QV_TYPE(v) == QV_STRINGLIST, "QVariant model: only Invalid/QString/QStringList"); }
static void qv_ref(struct qv *v) { if (QV_TYPE(v) == QV_STRING) qad_ref((QAD*)v->ptr);
#ifdef HAVE_T_struct_QListData__Data
  else if (QV_TYPE(v) == QV_STRINGLIST) { struct ld *l = (struct ld*)v->ptr; if (l->ref != (uint32_t)-1 && l->ref != 0) l->ref++; }
#endif
}
void _ZN8QVariantC1ERKS_(char *self, char *o) { struct qv *a = (struct qv*)self, *b = (struct qv*)o; qv_check(b); a->ptr = b->ptr; a->tw = b->tw; qv_ref(a); }
char* _ZN8QVariantaSERKS_(char *self, char *o) { struct qv *a = (struct qv*)self, *b = (struct qv*)o; qv_check(b); a->ptr = b->ptr; a->tw = b->tw; qv_ref(a); return self; }
void _ZN8QVariantD1Ev(char *self) { }
void _ZN8QVariantC1ERK7QString(char *self, char *s) { struct qv *a = (struct qv*)self; QAD *d = *(QAD**)s; a->ptr = (char*)qad_ref(d); a->tw = QV_STRING | (d == SHARED_NULL ? 0x80000000u : 0); }
void _ZN8QVariantC1ERK11QStringList(char *self, char *s) { struct qv *a = (struct qv*)self; a->ptr = *(char**)s; a->tw = QV_STRINGLIST; qv_ref(a); }
/* canConvert: Qt's conversion matrix rows for the three modelled source types and the two target types used */
uint8_t _ZNK8QVariant10canConvertEi(char *self, uint32_t target) { struct qv *a = (struct qv*)self; qv_check(a); ASSERT(target == QV_STRING || target == QV_STRINGLIST, "QVariant::canConvert: target type not modelled");
  if (QV_TYPE(a) == 0) return 0; return 1; /* QString <-> QStringList are both convertible, identity too */ }
void _ZNK8QVariant8toStringEv(char *ret, char *self) { struct qv *a = (struct qv*)self; qv_check(a);
  if (QV_TYPE(a) == QV_STRING) { *(QAD**)ret = qad_ref((QAD*)a->ptr); return; }
#ifdef HAVE_T_struct_QListData__Data
  if (QV_TYPE(a) == QV_STRINGLIST) { struct ld *l = (struct ld*)a->ptr; if (l->end - l->begin == 1) { *(QAD**)ret = qad_ref((QAD*)l->array[l->begin]); return; } }   /* Qt: a one-element list converts to its element, any other list fails */
#endif
  *(QAD**)ret = SHARED_NULL; }
#ifdef HAVE_T_struct_QListData__Data
void _ZNK8QVariant12toStringListEv(char *ret, char *self) { struct qv *a = (struct qv*)self; qv_check(a);
  if (QV_TYPE(a) == QV_STRINGLIST) { struct ld *l = (struct ld*)a->ptr; if (l->ref != (uint32_t)-1 && l->ref != 0) l->ref++; *(struct ld**)ret = l; return; }
  if (QV_TYPE(a) == QV_STRING) { struct ld *t = ld_new(1); t->array[LD_B] = (char*)qad_ref((QAD*)a->ptr); *(struct ld**)ret = t; return; }   /* Qt: QStringList(string), also for an empty string */
  *(struct ld**)ret = ld_new(0); }
#endif
uint32_t _ZNK8QVariant8userTypeEv(char *self) { struct qv *a = (struct qv*)self; qv_check(a); return QV_TYPE(a); }
void _ZNK14QMessageLogger7warningEPKcz(char *self, char *fmt, ...) { }

/* ---- QList<T>::iterator::operator-(iterator): the inline code subtracts two ptrtoint values, which symex cannot fold; the
   offset difference inside the same array block is the same number and stays constant for concrete lists ---- */
#ifdef __CPROVER__
#define VP_PDIFF(a, b) ((int64_t)__CPROVER_POINTER_OFFSET(a) - (int64_t)__CPROVER_POINTER_OFFSET(b))
#define VP_SAME_OBJ(a, b) (__CPROVER_POINTER_OBJECT(a) == __CPROVER_POINTER_OBJECT(b))
#else
#define VP_PDIFF(a, b) ((int64_t)((char*)(a) - (char*)(b)))
#define VP_SAME_OBJ(a, b) 1
#endif
static uint32_t qlist_iter_minus(char *self, char *j) { char *a = *(char**)self, *b = *(char**)j; ASSERT(VP_SAME_OBJ(a, b), "QList iterator difference across blocks"); return (uint32_t)(VP_PDIFF(a, b) / 8); }
uint32_t _ZNK5QListIN16QXmppDiscoveryIq8IdentityEE8iteratormiES3_(char *self, char *j) { return qlist_iter_minus(self, j); }
uint32_t _ZNK5QListI7QStringE8iteratormiES2_(char *self, char *j) { return qlist_iter_minus(self, j); }

/* ---- QStringBuilder leaves.  The header code writes through a raw QChar* at a symbolic offset into the block that
   operator+= reserved (memcpy / *out++ = c); such a raw store makes cbmc treat the whole block (length, hint, ref) as one
   opaque value.  Same effect, but stored through the typed data member of the block. ---- */
static void qs_store(uint16_t *out, uint32_t i, uint16_t c) {
#ifdef __CPROVER__
  ASSERT(vp_qs_wr != 0 && __CPROVER_POINTER_OBJECT(out) == __CPROVER_POINTER_OBJECT(vp_qs_wr), "QStringBuilder writes into a block other than the one just detached");
  uint64_t off = __CPROVER_POINTER_OFFSET(out); uint64_t k = (off - QS_OFF) / 2 + i;
  ASSERT(off >= QS_OFF && k < QS_CAP, "QStringBuilder writes outside a model string block"); ((struct qs*)vp_qs_wr)->data[k] = c;
#else
  out[i] = c;
#endif
}
#define C20_HINT16(d) ((d)->f3 == QS_OFF ? ((struct qs*)(d))->hint : (d)->f1)
void _ZN13QConcatenableI7QStringE8appendToERKS0_RP5QChar(char *a, char *outp) { QAD *s = *(QAD**)a; uint16_t *out = *(uint16_t**)outp;
  uint32_t i = 0; for (; i < C20_HINT16(s) && i < QCAP; i++) { if (i >= s->f1) break; qs_store(out, i, ((uint16_t*)((char*)s + s->f3))[i]); }
  ASSERT(!(i == QCAP && s->f1 > QCAP), "QStringBuilder operand longer than QCAP units"); *(uint16_t**)outp = out + s->f1; }
void _ZN13QConcatenableIDsE8appendToEDsRP5QChar(uint16_t c, char *outp) { uint16_t *out = *(uint16_t**)outp; qs_store(out, 0, c); *(uint16_t**)outp = out + 1; }
void _ZN13QConcatenableIA2_KDsE8appendToEPS0_RP5QChar(char *lit, char *outp) { uint16_t *out = *(uint16_t**)outp; qs_store(out, 0, ((uint16_t*)lit)[0]); *(uint16_t**)outp = out + 1; }

/* ---- harness-side list construction.  QList<T>::append copies the new node as one 64-bit integer (`*(uint64_t*)slot = *(uint64_t*)&copy`
   after SROA); a pointer that went through an integer-typed store is an "integer address" for cbmc and every later dereference of a
   list element then drags the unbounded __CPROVER_memory array into the formula (measured: 13 GB for sorting 3 strings).  Input lists
   are therefore built here, with pointer-typed stores. ---- */
#ifdef HAVE_T_struct_QListData__Data
void vp_c20_list_push(char *list, char *v) { struct ld *d = LD(list); if (d->ref != 1) { ASSERT(d->end == d->begin, "vp_c20_list_push: shared non-empty list"); d = ld_new(0); LD(list) = d; }
  ASSERT(d->end < LIST_CAP + LD_B, "QList capacity of the model exceeded"); d->array[d->end] = v; d->end++; }
void vp_c20_strlist_push(char *list, char *qstring) { vp_c20_list_push(list, (char*)qad_ref(*(QAD**)qstring)); }
#endif

/* ---- std::sort on QList ranges.  libstdc++'s std::__sort(first, last, comp) for a range of at most 16 elements is
   __insertion_sort (bits/stl_algo.h: __introsort_loop does nothing below _S_threshold = 16, __final_insertion_sort then calls
   __insertion_sort).  The translated header code is correct but not checkable with cbmc here: it keeps the insertion position in
   an iterator, i.e. a pointer to a SLOT of the list block; after each symbolic comparison that pointer is an if-then-else of
   several slots of the same block, cbmc's value sets then lose the offset, every slot read may alias the integer header words of
   the block and each later dereference of an element drags the unbounded __CPROVER_memory array into the formula (measured:
   sorting 3 strings = 380 s / 13.5 GB).  This model transcribes __insertion_sort / __unguarded_linear_insert on a local copy
   of the slot words with CONCRETE positions (the element values become if-then-else terms instead of the positions), performs
   the same comparator calls on the same operands in the same order - the comparator itself stays the real code
   (identityLessThan) resp. the QString operator< model - and writes the result back.  n <= LIST_CAP (<= 16) asserted. ---- */
#ifdef HAVE_T_struct_QListData__Data
/* weak: a tree whose verificationString() no longer has this comparator (it then does not call std::sort on the identity list
   either) must still link for the native replay of a counterexample */
uint8_t F__ZL16identityLessThanRKN16QXmppDiscoveryIq8IdentityES2_(char*, char*) __attribute__((weak));
static char *c20_sort_comp;   /* kind 2: bool (*)(const QString &, const QString &), called on the addresses of two local copies of the slot words
   (a QString IS its d-pointer, QList<QString> keeps it in the slot) */
static uint8_t c20_less(int kind, char *a, char *b) { if (kind == 0) return vpl_qcmp16((QAD*)a, (QAD*)b) < 0;
  if (kind == 2) { char *x = a, *y = b; return ((uint8_t (*)(char*, char*))c20_sort_comp)((char*)&x, (char*)&y); }
#ifdef C20_HAVE_IDLESS
  return F__ZL16identityLessThanRKN16QXmppDiscoveryIq8IdentityES2_(a, b);
#else
  ASSERT(0, "identity comparator not linked"); return 0;
#endif
}
static void c20_insertion_sort(char *firstp, char *lastp, int kind) { char **slots = *(char***)firstp; char **end = *(char***)lastp;
  ASSERT(VP_SAME_OBJ((char*)slots, (char*)end), "std::sort range across blocks"); uint32_t n = (uint32_t)(VP_PDIFF((char*)end, (char*)slots) / 8);
  ASSERT(n <= LIST_CAP, "std::sort model: more than LIST_CAP elements"); if (n < 2) return;
  char *e[LIST_CAP]; for (uint32_t k = 0; k < LIST_CAP; k++) e[k] = k < n ? slots[k] : (char*)vp_ld_zero;   /* never a null / indeterminate pointer */
  for (uint32_t i = 1; i < LIST_CAP; i++) { if (i >= n) break; char *val = e[i];
    if (c20_less(kind, val, e[0])) { /* __comp(__i, __first): move_backward(first, i, i + 1); *first = val */
      for (uint32_t k = LIST_CAP - 1; k > 0; k--) { if (k <= i) e[k] = e[k - 1]; } e[0] = val; }
    else { /* __unguarded_linear_insert(i): while (comp(val, *next)) { *last = *next; last = next; --next; } *last = val;  the sentinel e[0] stops it */
      uint8_t done = 0;
      for (uint32_t k = LIST_CAP - 1; k > 0; k--) { if (k > i || done) continue;
        if (k > 1 && c20_less(kind, val, e[k - 1])) e[k] = e[k - 1]; else { e[k] = val; done = 1; } } } }
  for (uint32_t k = 0; k < LIST_CAP; k++) { if (k < n) slots[k] = e[k]; } }
void _ZSt6__sortIN5QListI7QStringE8iteratorEN9__gnu_cxx5__ops15_Iter_less_iterEEvT_S7_T0_(char *first, char *last) { c20_insertion_sort(first, last, 0); }
void _ZSt6__sortIN5QListI7QStringE8iteratorEN9__gnu_cxx5__ops15_Iter_comp_iterIPFbRKS1_S8_EEEEvT_SC_T0_(char *first, char *last, char *comp) { ASSERT(comp != 0, "std::sort model: null comparator"); c20_sort_comp = comp; c20_insertion_sort(first, last, 2); }
void _ZSt6__sortIN5QListIN16QXmppDiscoveryIq8IdentityEE8iteratorEN9__gnu_cxx5__ops15_Iter_comp_iterIPFbRKS2_S9_EEEEvT_SD_T0_(char *first, char *last, char *comp) {
#ifdef C20_HAVE_IDLESS
  ASSERT(comp == (char*)&F__ZL16identityLessThanRKN16QXmppDiscoveryIq8IdentityES2_, "std::sort model: unexpected comparator");
#endif
  c20_insertion_sort(first, last, 1); }
#endif

/* ---- QList<T>::dealloc (runs the element destructors and frees the block when the last reference goes away): skipped.  Blocks are
   never recycled by the models, no leak / use-after-free claim is made by C20, and walking a list whose end index is symbolic
   (after removeDuplicates) with a slot pointer is exactly the access pattern cbmc cannot resolve (see std::sort above). ---- */
void _ZN5QListI7QStringE7deallocEPN9QListData4DataE(char *self, char *d) { }
void _ZN5QListIN16QXmppDiscoveryIq8IdentityEE7deallocEPN9QListData4DataE(char *self, char *d) { }
void _ZN5QListIN13QXmppDataForm5FieldEE7deallocEPN9QListData4DataE(char *self, char *d) { }

/* ---- QMap<QString, QXmppDataForm::Field>: class-level model (array backed, overrides the inline members used by
   verificationString by mangled name).  Semantics of QMap: one value per key (insert replaces), keys() ascending by operator<.
   Slot = number of the insert call (concrete), a replaced or taken entry is only marked absent. ---- */
#ifdef HAVE_T_struct_QListData__Data
#ifndef QM_CAP
#define QM_CAP 3
#endif
struct qm { uint32_t cnt; uint8_t present[QM_CAP]; QAD *key[QM_CAP]; char *val[QM_CAP]; };
#define QM(self) (*(struct qm**)(self))
static char *qm_field_ref(char *fieldd) { uint32_t *rc = (uint32_t*)fieldd; if (fieldd) *rc = *rc + 1; return fieldd; }   /* QSharedDataPointer copy: QSharedData::ref at offset 0 */
void _ZN4QMapI7QStringN13QXmppDataForm5FieldEEC2Ev(char *self) { struct qm *m = malloc(sizeof(struct qm)); ASSUME(m != 0); m->cnt = 0; for (uint32_t i = 0; i < QM_CAP; i++) { m->present[i] = 0; m->key[i] = SHARED_NULL; m->val[i] = 0; } QM(self) = m; }
void _ZN4QMapI7QStringN13QXmppDataForm5FieldEED2Ev(char *self) { }
char* _ZN4QMapI7QStringN13QXmppDataForm5FieldEE6insertERKS0_RKS2_(char *self, char *key, char *value) { struct qm *m = QM(self); QAD *k = *(QAD**)key;
  ASSERT(m->cnt < QM_CAP, "QMap model capacity exceeded"); ASSUME(m->cnt < QM_CAP);
  for (uint32_t i = 0; i < QM_CAP; i++) { if (i >= m->cnt) break; if (m->present[i] && d_eq(m->key[i], k)) m->present[i] = 0; }
  uint32_t s = m->cnt; m->key[s] = qad_ref(k); m->val[s] = qm_field_ref(*(char**)value); m->present[s] = 1; m->cnt = s + 1; return (char*)0; }
uint8_t _ZNK4QMapI7QStringN13QXmppDataForm5FieldEE8containsERKS0_(char *self, char *key) { struct qm *m = QM(self); QAD *k = *(QAD**)key; uint8_t r = 0;
  for (uint32_t i = 0; i < QM_CAP; i++) { if (i >= m->cnt) break; if (m->present[i] && d_eq(m->key[i], k)) r = 1; } return r; }
void _ZN4QMapI7QStringN13QXmppDataForm5FieldEE4takeERKS0_(char *ret, char *self, char *key) { struct qm *m = QM(self); QAD *k = *(QAD**)key; uint8_t found = 0; *(char**)ret = m->val[0];   /* placeholder, overwritten when found (asserted) */
  for (uint32_t i = 0; i < QM_CAP; i++) { if (i >= m->cnt) break; if (m->present[i] && d_eq(m->key[i], k)) { *(char**)ret = m->val[i]; m->present[i] = 0; found = 1; } }
  ASSERT(found, "QMap model: take() of a missing key (would return a default-constructed value)"); ASSUME(found); }
void _ZNK4QMapI7QStringN13QXmppDataForm5FieldEE5valueERKS0_RKS2_(char *ret, char *self, char *key, char *def) { struct qm *m = QM(self); QAD *k = *(QAD**)key; char *v = m->val[0]; uint8_t found = 0;
  for (uint32_t i = 0; i < QM_CAP; i++) { if (i >= m->cnt) break; if (m->present[i] && d_eq(m->key[i], k)) { v = m->val[i]; found = 1; } }
  /* verificationString only looks up keys it got from keys(); a miss (result = the default value) is a model limit, not silently merged in */
  ASSERT(found, "QMap model: value() of a missing key"); ASSUME(found); *(char**)ret = qm_field_ref(v); }
void _ZNK4QMapI7QStringN13QXmppDataForm5FieldEE4keysEv(char *ret, char *self) { struct qm *m = QM(self); uint32_t n = 0, rank[QM_CAP];
  for (uint32_t i = 0; i < QM_CAP; i++) { rank[i] = 0; if (i < m->cnt && m->present[i]) { n++;
    for (uint32_t j = 0; j < QM_CAP; j++) { if (j < m->cnt && j != i && m->present[j] && vpl_qcmp16(m->key[j], m->key[i]) < 0) rank[i]++; } } }
  struct ld *t = ld_new(n); for (uint32_t p = 0; p < QM_CAP; p++) { if (p >= n) break; for (uint32_t i = 0; i < QM_CAP; i++) { if (i < m->cnt && m->present[i] && rank[i] == p) t->array[LD_B + p] = (char*)qad_ref(m->key[i]); } }
  *(struct ld**)ret = t; }
#endif

/* ---- private-data destructors of form fields / forms: skipped (the last QSharedDataPointer going away would delete the private
   object incl. its QVector<MediaSource>, QList<QPair>, ...).  C20 makes no claim about memory reclamation. ---- */
void _ZN25QXmppDataFormFieldPrivateD2Ev(char *self) { }
void _ZN20QXmppDataFormPrivateD2Ev(char *self) { }
#endif
