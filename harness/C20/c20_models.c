/* C20 local models: recording hash oracle, QStringList out-of-line helpers */
#ifdef HAVE_T_struct_QArrayData
void vp_c20_string(char *out, uint32_t len, uint16_t c0, uint16_t c1, uint16_t c2) { ASSERT(len <= 3, "c20 string bound"); QAD *d = qs_new(len, 3); uint16_t *p = qs_chars(d); p[0] = c0; p[1] = c1; p[2] = c2; *(QAD**)out = d; }
/* ---- QCryptographicHash: recording oracle. Logs (algorithm, octet string) per result()/hash() call and returns fresh
   symbolic digest bytes, functionally consistent (same algorithm and input => same digest block). ---- */
#ifndef HLOG
#define HLOG 4
#endif
struct hrec { uint32_t alg; QAD *in; QAD *out; };
static struct hrec vp_hlog[HLOG]; static uint32_t vp_hn;
struct hstate { uint32_t alg; QAD *acc; };
static uint32_t hash_len(uint32_t alg) { if (alg == 2) return 20; if (alg <= 1) return 16; if (alg == 4) return 32; ASSERT(0, "hash oracle: algorithm not modelled"); return 20; }
static QAD *hash_oracle(uint32_t alg, QAD *in) { ASSERT(vp_hn < HLOG, "hash oracle: log full"); ASSUME(vp_hn < HLOG);
  QAD *out = 0;
  for (uint32_t k = 0; k < HLOG; k++) { if (k >= vp_hn) break; if (!out && vp_hlog[k].alg == alg && qb_eq(vp_hlog[k].in, in)) out = vp_hlog[k].out; }
  if (!out) { uint32_t n = hash_len(alg); out = qb_new(n, n); uint8_t *p = qb_bytes(out); for (uint32_t i = 0; i < 32; i++) { if (i >= n) break; p[i] = vp_u8(); } p[n] = 0; }
  vp_hlog[vp_hn].alg = alg; vp_hlog[vp_hn].in = qad_ref(in); vp_hlog[vp_hn].out = out; vp_hn++; return out; }
void _ZN18QCryptographicHashC1ENS_9AlgorithmE(char *self, uint32_t alg) { struct hstate *h = malloc(sizeof(struct hstate)); ASSUME(h != 0); h->alg = alg; h->acc = 0; *(struct hstate**)self = h; }
void _ZN18QCryptographicHashD1Ev(char *self) { }
void _ZN18QCryptographicHash7addDataERK10QByteArray(char *self, char *ba) { struct hstate *h = *(struct hstate**)self; QAD *b = *(QAD**)ba;
  if (!h->acc) { h->acc = qad_ref(b); return; }
  _ZN10QByteArray6appendERKS_((char*)&h->acc, ba); }
void _ZNK18QCryptographicHash6resultEv(char *ret, char *self) { struct hstate *h = *(struct hstate**)self; QAD *in = h->acc ? h->acc : qb_new(0, 0); *(QAD**)ret = qad_ref(hash_oracle(h->alg, in)); }
void _ZN18QCryptographicHash4hashERK10QByteArrayNS_9AlgorithmE(char *ret, char *ba, uint32_t alg) { *(QAD**)ret = qad_ref(hash_oracle(alg, *(QAD**)ba)); }
uint32_t vp_hash_calls(void) { return vp_hn; }
uint32_t vp_hash_alg(uint32_t k) { ASSERT(k < vp_hn, "hash log index"); return vp_hlog[k].alg; }
uint32_t vp_hash_len(uint32_t k) { ASSERT(k < vp_hn, "hash log index"); return vp_hlog[k].in->f1; }
uint32_t vp_hash_byte(uint32_t k, uint32_t i) { ASSERT(k < vp_hn && i < vp_hlog[k].in->f1, "hash log index"); return qb_bytes(vp_hlog[k].in)[i]; }
uint8_t vp_hash_input_eq(uint32_t k, uint32_t l) { ASSERT(k < vp_hn && l < vp_hn, "hash log index"); return qb_eq(vp_hlog[k].in, vp_hlog[l].in); }
uint8_t vp_hash_output_is(uint32_t k, char *r) { ASSERT(k < vp_hn, "hash log index"); return *(QAD**)r == vp_hlog[k].out; }

/* ---- QStringList out-of-line helpers (libQt5Core). QList<QString> keeps the QString (one pointer) in the slot itself.
   Element i lives in array[begin + i]; begin is the constant LD_B of c20_qt_list.c. ---- */
#ifdef HAVE_T_struct_QListData__Data
#define SL(l, i) ((l)->array[LD_B + (i)])
static int sl_cmp(QAD *a, QAD *b) { return view_cmp(a->f1, qs_chars(a), b->f1, qs_chars(b)); }
/* removeDuplicates: keeps the first occurrence of every string, in order (Qt contract); returns the number removed */
uint32_t _ZN9QtPrivate28QStringList_removeDuplicatesEP11QStringList(char *self) { struct ld *l = LD(self); uint32_t n = l->end - l->begin; if (n == 0) return 0;
  ASSERT(l->ref == 1 && l->begin == LD_B, "removeDuplicates: list must be detached (model)"); ASSERT(n <= LIST_CAP, "QList capacity of the model exceeded");
  uint8_t keep[LIST_CAP]; uint32_t rank[LIST_CAP]; char *old[LIST_CAP]; uint32_t j = 0;
  for (uint32_t i = 0; i < LIST_CAP; i++) { keep[i] = 0; rank[i] = j; old[i] = SL(l, i); if (i >= n) continue; uint8_t dup = 0;
    for (uint32_t k = 0; k < LIST_CAP; k++) { if (k >= i) break; if (d_eq((QAD*)old[k], (QAD*)old[i])) dup = 1; }
    keep[i] = !dup; if (!dup) j++; }
  for (uint32_t p = 0; p < LIST_CAP; p++) { if (p >= n) break; for (uint32_t i = 0; i < LIST_CAP; i++) { if (i >= n) break; if (i >= p && keep[i] && rank[i] == p) SL(l, p) = old[i]; } }
  l->end = l->begin + j; return n - j; }
/* sort: ascending by code units (case sensitive); bubble network over fixed slots */
void _ZN9QtPrivate16QStringList_sortEP11QStringListN2Qt15CaseSensitivityE(char *self, uint32_t cs) { struct ld *l = LD(self); uint32_t n = l->end - l->begin; if (n < 2) return;
  ASSERT(cs == 1, "case-insensitive sort not modelled"); ASSERT(l->ref == 1 && l->begin == LD_B, "QStringList::sort: list must be detached (model)"); ASSERT(n <= LIST_CAP, "QList capacity of the model exceeded");
  for (uint32_t pass = 0; pass + 1 < LIST_CAP; pass++) { if (pass + 1 >= n) break;
    for (uint32_t k = 0; k + 1 < LIST_CAP; k++) { if (k + 1 >= n) break; if (sl_cmp((QAD*)SL(l, k + 1), (QAD*)SL(l, k)) < 0) { char *t = SL(l, k); SL(l, k) = SL(l, k + 1); SL(l, k + 1) = t; } } } }
void _ZN9QtPrivate16QStringList_joinEPK11QStringListPK5QChari(char *ret, char *self, char *sep, uint32_t seplen) { struct ld *l = LD(self); uint32_t n = l->end - l->begin; *(QAD**)ret = qs_new(0, 0);
  ASSERT(n <= LIST_CAP, "QList capacity of the model exceeded");
  for (uint32_t i = 0; i < LIST_CAP; i++) { if (i >= n) break; if (i > 0 && seplen) qs_append_raw(ret, (uint16_t*)sep, seplen, seplen);
    QAD *e = (QAD*)l->array[l->begin + i]; if (e->f1) { ASSERT(!numS(e).isnum, "join of an abstract number string"); qs_append_raw(ret, qs_chars(e), e->f1, qs_hint(e)); } } }
#endif
/* ---- QVariant restricted to Invalid / QString / QStringList (value in the data word, as Qt does for movable pointer-sized types) ---- */
struct qv { char *ptr; uint32_t tw; uint32_t pad; };
#define QV_TYPE(v) ((v)->tw & 0x3fffffffu)
#define QV_STRING 10u
#define QV_STRINGLIST 11u
static void qv_check(struct qv *v) { ASSERT(QV_TYPE(v) == 0 || QV_TYPE(v) == QV_STRING || QV_TYPE(v) == QV_STRINGLIST, "QVariant model: only Invalid/QString/QStringList"); }
static void qv_ref(struct qv *v) { if (QV_TYPE(v) == QV_STRING) qad_ref((QAD*)v->ptr);
#ifdef HAVE_T_struct_QListData__Data
  else if (QV_TYPE(v) == QV_STRINGLIST) { struct ld *l = (struct ld*)v->ptr; if (l->ref != (uint32_t)-1 && l->ref != 0) l->ref++; }
#endif
}
void _ZN8QVariantC1ERKS_(char *self, char *o) { struct qv *a = (struct qv*)self, *b = (struct qv*)o; qv_check(b); a->ptr = b->ptr; a->tw = b->tw; qv_ref(a); }
char* _ZN8QVariantaSERKS_(char *self, char *o) { struct qv *a = (struct qv*)self, *b = (struct qv*)o; qv_check(b); a->ptr = b->ptr; a->tw = b->tw; qv_ref(a); return self; }
void _ZN8QVariantD1Ev(char *self) { }
void _ZN8QVariantC1ERK7QString(char *self, char *s) { struct qv *a = (struct qv*)self; QAD *d = *(QAD**)s; a->ptr = (char*)qad_ref(d); a->tw = QV_STRING | (d == SHARED_NULL ? 0x80000000u : 0); }
void _ZN8QVariantC1ERK11QStringList(char *self, char *s) { struct qv *a = (struct qv*)self; a->ptr = *(char**)s; a->tw = QV_STRINGLIST; qv_ref(a); }
/* canConvert: Qt's conversion matrix rows for the three modelled source types and the two target types used */
uint8_t _ZNK8QVariant10canConvertEi(char *self, uint32_t target) { struct qv *a = (struct qv*)self; qv_check(a); ASSERT(target == QV_STRING || target == QV_STRINGLIST, "QVariant::canConvert: target type not modelled");
  if (QV_TYPE(a) == 0) return 0; return 1; /* QString <-> QStringList are both convertible, identity too */ }
void _ZNK8QVariant8toStringEv(char *ret, char *self) { struct qv *a = (struct qv*)self; qv_check(a);
  if (QV_TYPE(a) == QV_STRING) { *(QAD**)ret = qad_ref((QAD*)a->ptr); return; }
#ifdef HAVE_T_struct_QListData__Data
  if (QV_TYPE(a) == QV_STRINGLIST) { struct ld *l = (struct ld*)a->ptr; if (l->end - l->begin == 1) { *(QAD**)ret = qad_ref((QAD*)l->array[l->begin]); return; } }   /* Qt: a one-element list converts to its element, any other list fails */
#endif
  *(QAD**)ret = SHARED_NULL; }
#ifdef HAVE_T_struct_QListData__Data
void _ZNK8QVariant12toStringListEv(char *ret, char *self) { struct qv *a = (struct qv*)self; qv_check(a);
  if (QV_TYPE(a) == QV_STRINGLIST) { struct ld *l = (struct ld*)a->ptr; if (l->ref != (uint32_t)-1 && l->ref != 0) l->ref++; *(struct ld**)ret = l; return; }
  if (QV_TYPE(a) == QV_STRING) { struct ld *t = ld_new(1); t->array[LD_B] = (char*)qad_ref((QAD*)a->ptr); *(struct ld**)ret = t; return; }   /* Qt: QStringList(string), also for an empty string */
  *(struct ld**)ret = ld_new(0); }
#endif
void _ZNK14QMessageLogger7warningEPKcz(char *self, char *fmt, ...) { }

/* ---- QList<T>::iterator::operator-(iterator): the inline code subtracts two ptrtoint values, which symex cannot fold; the
   offset difference inside the same array block is the same number and stays constant for concrete lists ---- */
#ifdef __CPROVER__
#define VP_PDIFF(a, b) ((int64_t)__CPROVER_POINTER_OFFSET(a) - (int64_t)__CPROVER_POINTER_OFFSET(b))
#define VP_SAME_OBJ(a, b) (__CPROVER_POINTER_OBJECT(a) == __CPROVER_POINTER_OBJECT(b))
#else
#define VP_PDIFF(a, b) ((int64_t)((char*)(a) - (char*)(b)))
#define VP_SAME_OBJ(a, b) 1
#endif
static uint32_t qlist_iter_minus(char *self, char *j) { char *a = *(char**)self, *b = *(char**)j; ASSERT(VP_SAME_OBJ(a, b), "QList iterator difference across blocks"); return (uint32_t)(VP_PDIFF(a, b) / 8); }
uint32_t _ZNK5QListIN16QXmppDiscoveryIq8IdentityEE8iteratormiES3_(char *self, char *j) { return qlist_iter_minus(self, j); }
uint32_t _ZNK5QListI7QStringE8iteratormiES2_(char *self, char *j) { return qlist_iter_minus(self, j); }

/* ---- QStringBuilder leaves.  The header code writes through a raw QChar* at a symbolic offset into the block that
   operator+= reserved (memcpy / *out++ = c); such a raw store makes cbmc treat the whole block (length, hint, ref) as one
   opaque value.  Same effect, but stored through the typed data member of the block. ---- */
static void qs_store(uint16_t *out, uint32_t i, uint16_t c) {
#ifdef __CPROVER__
  ASSERT(vp_qs_wr != 0 && __CPROVER_POINTER_OBJECT(out) == __CPROVER_POINTER_OBJECT(vp_qs_wr), "QStringBuilder writes into a block other than the one just detached");
  uint64_t off = __CPROVER_POINTER_OFFSET(out); uint64_t k = (off - QS_OFF) / 2 + i;
  ASSERT(off >= QS_OFF && k < QS_CAP, "QStringBuilder writes outside a model string block"); ((struct qs*)vp_qs_wr)->data[k] = c;
#else
  out[i] = c;
#endif
}
#define C20_HINT16(d) ((d)->f3 == QS_OFF ? ((struct qs*)(d))->hint : (d)->f1)
void _ZN13QConcatenableI7QStringE8appendToERKS0_RP5QChar(char *a, char *outp) { QAD *s = *(QAD**)a; uint16_t *out = *(uint16_t**)outp;
  for (uint32_t i = 0; i < C20_HINT16(s); i++) { if (i >= s->f1) break; qs_store(out, i, ((uint16_t*)((char*)s + s->f3))[i]); } *(uint16_t**)outp = out + s->f1; }
void _ZN13QConcatenableIDsE8appendToEDsRP5QChar(uint16_t c, char *outp) { uint16_t *out = *(uint16_t**)outp; qs_store(out, 0, c); *(uint16_t**)outp = out + 1; }
void _ZN13QConcatenableIA2_KDsE8appendToEPS0_RP5QChar(char *lit, char *outp) { uint16_t *out = *(uint16_t**)outp; qs_store(out, 0, ((uint16_t*)lit)[0]); *(uint16_t**)outp = out + 1; }
#endif
