// C20, topic "sep": the ORDER the real verificationString() puts identities / features / form fields / values in, checked on
// data where the separators of the hashed string matter.  XEP-0115 5.1 sorts identities by category, then type, then xml:lang
// (then name) - FIELD-wise, i;octet - and only afterwards writes "category/type/lang/name<"; features, field vars and values
// are sorted as plain strings and then followed by '<'.  An implementation that sorts the already joined text lets the
// separator take part in the comparison: where one text is a strict prefix of the other and the next character of the longer
// one is below the separator ('-', '.', '+', ' ' are below '/' 0x2F; these and the digits are below '<' 0x3C) the order differs:
//     xml:lang "en" / "en-US":   field-wise  en < en-US        joined  "c/t/en-US/n" < "c/t/en/n"
// The alphabet {a, b, B} of h_vs.cpp has no character below '/' or '<', so there every such implementation agrees with the XEP.
// Here: alphabet {'-', '0', 'A', 'a'} (c20.h ALPHA 4), per-field maximum lengths from the instance (0..2, so that one field can
// be a strict prefix of the same field of another identity), reference = c20.h (the same as h_idfeat_ref / h_form_ref).
#define ALPHA 4
#ifdef SEP_NID3
#define NID 3
#endif
#include "h_vs.cpp"

extern "C" unsigned vp_sep_len(unsigned which);   // sep_models.c: 0..SEP_L<which> (a constant 0 when the instance sets the maximum to 0)

static void sepTxt(Txt &t, unsigned which)
{
    t.len = vp_sep_len(which);
    t.c[0] = symChar(); t.c[1] = symChar(); t.c[2] = 0;
}
// identity fields: maximum lengths SEP_L0..SEP_L3 (category, type, xml:lang, name); features: SEP_L4; FORM_TYPE value, field
// vars and values: SEP_L5, SEP_L6, SEP_L7
static void sepIdentities(IdT ids[])
{
    for (unsigned i = 0; i < NID; i++) for (unsigned k = 0; k < 4; k++) sepTxt(ids[i].f[k], k);
}
static void sepFeatures(Txt fs[]) { for (unsigned i = 0; i < NFEAT; i++) sepTxt(fs[i], 4); }

// identities and features against the XEP-0115 5.1 reference
extern "C" void h_sep_idfeat()
{
    VpRaw<QXmppDiscoveryIq> raw; QXmppDiscoveryIq *iq = rawIq(raw);
    IdT ids[NID]; Txt fs[NFEAT];
    unsigned nid = symCount(0, NID), nf = symCount(1, NFEAT);
    sepIdentities(ids); sepFeatures(fs);
    setIdentities(iq, ids, nid); setFeatures(iq, fs, nf);

    QByteArray ver = iq->verificationString();

    Ref r;
    ref_identities(r, ids, nid);
    ref_features(r, fs, nf);
    check_against_oracle(r, ver);
}

// extension form: FORM_TYPE (any position), field vars and values over the same alphabet
extern "C" void h_sep_form()
{
    VpRaw<QXmppDiscoveryIq> raw; QXmppDiscoveryIq *iq = rawIq(raw);
    IdT ids[NID]; Txt fs[NFEAT]; FieldT fields[NFIELD];
    unsigned nid = symCount(0, NID), nf = symCount(1, NFEAT);
    sepIdentities(ids); sepFeatures(fs);
    setIdentities(iq, ids, nid); setFeatures(iq, fs, nf);
    bool hasFormType = symCount(5, 1) != 0; Txt formType; sepTxt(formType, 5);
    unsigned nfields = symCount(4, NFIELD); unsigned ftPos = symCount(6, NFIELD); vp_assume(ftPos <= nfields);
    unsigned kinds = symCount(7, 3);
    for (unsigned i = 0; i < NFIELD; i++) {
        sepTxt(fields[i].key, 6);
        fields[i].multi = ((kinds >> i) & 1) != 0;
        fields[i].nval = symCount(2 + i, NVAL);
        for (unsigned k = 0; k < NVAL; k++) sepTxt(fields[i].val[k], 7);
        // XEP-0004: var is unique within a form, FORM_TYPE is reserved (a 0..2 unit key never equals it)
        if (i > 0 && i < nfields) vp_assume(txtCmp(fields[i].key, fields[0].key) != 0);
        if (!fields[i].multi) vp_assume(fields[i].nval <= 1);
    }
    setForm(iq, hasFormType, formType, fields, nfields, ftPos);

    QByteArray ver = iq->verificationString();

    normalise(fields, nfields);
    Ref r;
    ref_identities(r, ids, nid);
    ref_features(r, fs, nf);
    ref_form(r, hasFormType, formType, fields, nfields);
    check_against_oracle(r, ver);
}
