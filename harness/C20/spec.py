# C20 - entity-capabilities hash.  See h_vs.cpp (verification string) and h_mgr.cpp (manager / client half).
TUS = ['src/base/QXmppDataForm.cpp']
MODELS = ['c20_qt_core.c', 'c20_qt_list.c', 'c20_models.c']
LB = {'check_against_oracle': 42}
VS = 'F__ZNK16QXmppDiscoveryIq18verificationStringEv'
# every loop of verificationString walks a list of at most 3 elements (identities 2, features 3, fields 3, keys 2): bound 4
# (a list whose length is symbolic would otherwise be walked up to the global bound through slots that hold no element)
VS_UW = ['%s.%d:4' % (VS, k) for k in range(10)]
def I(name, entry, n=(), **kw):
    cd = {'C20_HAVE_IDLESS': 1}
    for k, v in enumerate(n):
        if v is not None: cd['C_N%d' % k] = v
    d = dict(name=name, entry=entry, cdefs=cd, unwindset=list(VS_UW), unwind=9, timeout_s=400, mem_gb=6, solver='cadical', tiers=('quick', 'thorough'), bound=''); d.update(kw); return d
B_ID = 'identities: 4 fields each 0..2 units over {a,b,B}'
SPEC = dict(
    property='C20',
    groups=[
        dict(name='vs', harness='h_vs.cpp', tus=TUS, models=MODELS, cxxdefs={}, loop_bounds=LB, instances=[
            # (ii) hashed string == XEP-0115 5.1 reference; n = (identities, features)
            I('idfeat_ref_2_0', 'h_idfeat_ref', (2, 0), bound='2 identities, no feature'),
            I('idfeat_ref_1_1', 'h_idfeat_ref', (1, 1), bound='1 identity, 1 feature'),
            I('idfeat_ref_0_3', 'h_idfeat_ref', (0, 3), bound='no identity, 3 features (duplicates allowed)'),
            I('idfeat_ref_2_3', 'h_idfeat_ref', (2, 3), tiers=('thorough',), timeout_s=900, bound='2 identities, 3 features (duplicates allowed)'),
            # (i)+(iii) two inputs hash the same string iff equal as sets / multisets; n = (|A|, |B|, shared identities)
            I('feat_iff_3_3', 'h_feat_iff', (3, 3, 1), bound='feature lists of 3 and 3 after one arbitrary identity'),
            I('feat_iff_3_2', 'h_feat_iff', (3, 2, 1), tiers=('thorough',), timeout_s=900, bound='feature lists of 3 and 2 after one arbitrary identity'),
            I('feat_iff_3_1', 'h_feat_iff', (3, 1, 0), bound='feature lists of 3 and 1, no identity'),
            I('id_iff_2_2', 'h_id_iff', (2, 2), bound='identity lists of 2 and 2'),
            I('id_iff_2_1', 'h_id_iff', (2, 1), bound='identity lists of 2 and 1'),
            # forms: n = (identities, features, values of field 0, values of field 1, fields, FORM_TYPE present, its position, kinds bitmask)
            I('form_ref_1m', 'h_form_ref', (1, 0, 2, 0, 1, 1, 0, 1), bound='FORM_TYPE + one list-multi field with 2 values'),
            I('form_ref_1m_ftlast', 'h_form_ref', (1, 0, 2, 0, 1, 1, 1, 1), bound='one list-multi field with 2 values, FORM_TYPE after it'),
            I('form_ref_1m_1', 'h_form_ref', (1, 0, 1, 0, 1, 1, 0, 1), bound='FORM_TYPE + one list-multi field with 1 value'),
            I('form_ref_1m_0', 'h_form_ref', (1, 0, 0, 0, 1, 1, 0, 1), bound='FORM_TYPE + one list-multi field with an empty value list'),
            I('form_ref_1s_n', 'h_form_ref', (1, 0, None, 0, 1, 1, 0, 0), bound='FORM_TYPE + one text-single field with 0..1 value'),
            I('form_ref_2s', 'h_form_ref', (1, 0, 1, 1, 2, 1, 2, 0), bound='two text-single fields, FORM_TYPE last'),
            I('form_ref_noft', 'h_form_ref', (1, 1, 1, 0, 1, 0, 0, 0), bound='form without FORM_TYPE (ignored)'),
            I('form_ref_1s_empty', 'h_form_empty_value', (), bound='FORM_TYPE + one text-single field with the empty value (regression for fix 13f5df9)'),
        ]),
        dict(name='mgr', harness='h_mgr.cpp', tus=['src/base/QXmppDataForm.cpp', 'src/base/QXmppDiscoveryIq.cpp', 'src/base/QXmppIq.cpp', 'src/base/QXmppStanza.cpp', 'src/client/QXmppClient.cpp'],
             models=MODELS + ['c20_mgr_models.c'], cxxdefs={'C20_REPLY_HASH': 1}, loop_bounds={}, instances=[
            # n = (identities, features) of the arbitrary info set returned by the cut capabilities()
            I('handle_info_nonode', 'h_handle_info', (1, 2, 0), bound='info set with 1 identity and 2 features; query without node'),
            I('handle_info_prefix', 'h_handle_info', (1, 2, 1), bound='info set with 1 identity and 2 features; node "abB" under capabilities node "ab"'),
            I('handle_info_foreign', 'h_handle_info', (1, 2, 3), bound='node "ba" under capabilities node "ab": refused'),
            I('presence_caps_1_2', 'h_presence_caps', (1, 2), bound='info set with 1 identity and 2 features'),
            I('presence_caps_1_0', 'h_presence_caps', (1, 0), bound='info set with 1 identity'),
            I('presence_caps_1_1', 'h_presence_caps', (1, 1), bound='info set with 1 identity and 1 feature'),
            I('handle_info_nonode_1_0', 'h_handle_info', (1, 0, 0), bound='info set with 1 identity; query without node'),
        ]),
    ],
    bounds=['strings: 0..2 UTF-16 units over the alphabet {a, b, B}', '<= 2 identities (category/type/lang/name), <= 3 features with duplicates, optional form with FORM_TYPE (any position) and <= 2 further fields with <= 2 values',
            'list lengths are fixed per instance (case split), contents symbolic', 'std::sort ranges <= 3 elements'],
    assumptions=[], outside=[],
)
