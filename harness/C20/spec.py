TUS = ['src/base/QXmppDataForm.cpp']
MODELS = ['c20_qt_core.c', 'c20_qt_list.c', 'c20_models.c']
# std::sort on n <= 3 elements stays in insertion sort; __unguarded_linear_insert has no range guard (it relies on the sentinel
# established by the caller), so it gets its exact bound: n - 1 iterations (+1 for the unwinding assertion)
LB = {'check_against_oracle': 66, 'verificationStringEv': 4,
      r'^_ZSt25__unguarded_linear_insertIN5QListIN16QXmppDiscoveryIq8Identity': 2,
      r'^_ZSt25__unguarded_linear_insertIN5QListI7QString': 3}
def I(name, entry, **kw):
    d = dict(name=name, entry=entry, unwind=5, timeout_s=300, mem_gb=6, tiers=('quick', 'thorough'), bound=''); d.update(kw); return d
def G(name, insts, **defs):
    return dict(name=name, harness='h_vs.cpp', tus=TUS, models=MODELS, cxxdefs=defs, loop_bounds=LB, instances=insts)
SPEC = dict(
    property='C20',
    groups=[
        G('probe', [I('probe', 'h_probe')], C20_PROBE=1),
        G('probe3', [I('probe3', 'h_probe')], C20_PROBE=3),
        G('probe2', [I('probe2', 'h_probe')], C20_PROBE=2),
        G('vs_2_3', [I('idfeat_ref_2_3', 'h_idfeat_ref')], C_NID=2, C_NF=3),
    ],
    bounds=[], assumptions=[], outside=[],
)
