TUS = ['src/base/QXmppDataForm.cpp']
MODELS = ['c20_qt_core.c', 'c20_qt_list.c', 'c20_models.c']
LB = {'check_against_oracle': 42, 'verificationStringEv': 4}
VS = 'F__ZNK16QXmppDiscoveryIq18verificationStringEv'
# every loop of verificationString walks a list of at most 3 elements (identities 2, features 3, fields 3, keys 2): bound 4.
# (a list whose length is symbolic would otherwise be walked up to the global bound through slots that hold no element)
VS_UW = ['%s.%d:4' % (VS, k) for k in range(10)]
def I(name, entry, n=(), **kw):
    cd = {'C20_HAVE_IDLESS': 1}
    for k, v in enumerate(n):
        if v is not None: cd['C_N%d' % k] = v
    d = dict(name=name, entry=entry, cdefs=cd, unwindset=list(VS_UW), unwind=9, timeout_s=300, mem_gb=6, solver='cadical', tiers=('quick', 'thorough'), bound=''); d.update(kw); return d
def G(name, insts, **defs):
    return dict(name=name, harness='h_vs.cpp', tus=TUS, models=MODELS, cxxdefs=defs, loop_bounds=LB, instances=insts)
SPEC = dict(
    property='C20',
    groups=[
        G('vs', [
            I('idfeat_ref_2_0', 'h_idfeat_ref', (2, 0)), I('idfeat_ref_1_1', 'h_idfeat_ref', (1, 1)), I('idfeat_ref_0_3', 'h_idfeat_ref', (0, 3)),
            I('idfeat_ref_2_3', 'h_idfeat_ref', (2, 3)),
            I('feat_iff_3_3', 'h_feat_iff', (3, 3, 1)), I('feat_iff_3_2', 'h_feat_iff', (3, 2, 1)), I('feat_iff_3_1', 'h_feat_iff', (3, 1, 1)), I('feat_iff_2_2_noid', 'h_feat_iff', (2, 2, 0)),
            I('id_iff_2_2', 'h_id_iff', (2, 2)), I('id_iff_2_1', 'h_id_iff', (2, 1)),
            I('form_ref_2f', 'h_form_ref', (1, 0, 2, 1, 2, 1, 1)),
            I('form_ref_1m', 'h_form_ref', (1, 0, 2, 0, 1, 1, 0, 1)), I('form_ref_2s', 'h_form_ref', (1, 0, 1, 1, 2, 1, 2, 0)),
        ]),
    ],
    bounds=[], assumptions=[], outside=[],
)
