TUS = ['src/base/QXmppDataForm.cpp']
MODELS = ['c20_qt_core.c', 'c20_qt_list.c', 'c20_models.c']
# std::sort on n <= 3 elements stays in insertion sort; __unguarded_linear_insert has no range guard (it relies on the sentinel
# established by the caller), so it gets the bound n (n - 1 real iterations; the spare slots of c20_qt_list.c absorb the reads of the surplus iteration)
LB = {'check_against_oracle': 42, 'verificationStringEv': 4,
      r'^_ZSt25__unguarded_linear_insertIN5QListIN16QXmppDiscoveryIq8Identity': 2,
      r'^_ZSt25__unguarded_linear_insertIN5QListI7QString': 3}
def I(name, entry, **kw):
    d = dict(name=name, entry=entry, cdefs={'C20_HAVE_IDLESS': 1}, unwind=9, timeout_s=300, mem_gb=6, tiers=('quick', 'thorough'), bound=''); d.update(kw); return d
def G(name, insts, **defs):
    return dict(name=name, harness='h_vs.cpp', tus=TUS, models=MODELS, cxxdefs=defs, loop_bounds=LB, instances=insts)
SPEC = dict(
    property='C20',
    groups=[
        G('probe', [I('probe', 'h_probe')], C20_PROBE=1),
        G('probe3', [I('probe3', 'h_probe')], C20_PROBE=3),
        G('probeX', [I('pA', 'h_pA'), I('pB', 'h_pB'), I('pC', 'h_pC')], C20_PROBE=4),
        G('probe2', [I('probe2', 'h_probe', cdefs={})], C20_PROBE=2),
        G('vs_2_3', [I('idfeat_ref_2_3', 'h_idfeat_ref')], C_NID=2, C_NF=3),
        G('vs_2_0', [I('idfeat_ref_2_0', 'h_idfeat_ref', solver='cadical')], C_NID=2, C_NF=0),
        G('vs_0_3', [I('idfeat_ref_0_3', 'h_idfeat_ref', solver='cadical')], C_NID=0, C_NF=3),
        G('vs_1_1', [I('idfeat_ref_1_1', 'h_idfeat_ref', solver='cadical')], C_NID=1, C_NF=1),
        G('vs_s_s', [I('idfeat_ref_s_s', 'h_idfeat_ref', solver='cadical')]),
    ],
    bounds=[], assumptions=[], outside=[],
)
