# C20 - entity-capabilities hash.  See h_vs.cpp (verification string) and h_mgr.cpp (manager / client half).
TUS = ['src/base/QXmppDataForm.cpp']
MODELS = ['c20_qt_core.c', 'c20_qt_list.c', 'c20_models.c']
LB = {'check_against_oracle': 42}
VS = 'F__ZNK16QXmppDiscoveryIq18verificationStringEv'
# every loop of verificationString walks a list of at most 3 elements (identities 2, features 3, fields 3, keys 2): bound 4
# (a list whose length is symbolic would otherwise be walked up to the global bound through slots that hold no element)
VS_UW = ['%s.%d:4' % (VS, k) for k in range(10)]
def I(name, entry, n=(), idless=True, **kw):
    cd = {'C20_HAVE_IDLESS': 1} if idless else {}   # identityLessThan is only linked where verificationString() is reachable
    for k, v in enumerate(n):
        if v is not None: cd['C_N%d' % k] = v
    d = dict(name=name, entry=entry, cdefs=cd, unwindset=list(VS_UW), unwind=9, timeout_s=400, mem_gb=3, solver='cadical', tiers=('quick', 'thorough'), bound=''); d.update(kw); return d
B_ID = 'identities: 4 fields each 0..2 units over {a,b,B}'
SPEC = dict(
    property='C20',
    groups=[
        dict(name='vs', harness='h_vs.cpp', tus=TUS, models=MODELS, cxxdefs={}, loop_bounds=LB, instances=[
            # (ii) hashed string == XEP-0115 5.1 reference; n = (identities, features)
            I('idfeat_ref_2_0', 'h_idfeat_ref', (2, 0), bound='2 identities, no feature'),
            I('idfeat_ref_1_1', 'h_idfeat_ref', (1, 1), bound='1 identity, 1 feature'),
            I('idfeat_ref_0_3', 'h_idfeat_ref', (0, 3), bound='no identity, 3 features (duplicates allowed)'),
            I('idfeat_ref_2_3', 'h_idfeat_ref', (2, 3), mem_gb=5, tiers=('thorough',), timeout_s=900, bound='2 identities, 3 features (duplicates allowed)'),
            # (i)+(iii) two inputs hash the same string iff equal as sets / multisets; n = (|A|, |B|, shared identities)
            I('feat_iff_3_3', 'h_feat_iff', (3, 3, 1), mem_gb=5, bound='feature lists of 3 and 3 after one arbitrary identity'),
            I('feat_iff_3_2', 'h_feat_iff', (3, 2, 1), mem_gb=5, tiers=('thorough',), timeout_s=900, bound='feature lists of 3 and 2 after one arbitrary identity'),
            I('feat_iff_3_1', 'h_feat_iff', (3, 1, 0), bound='feature lists of 3 and 1, no identity'),
            I('id_iff_2_2', 'h_id_iff', (2, 2), bound='identity lists of 2 and 2'),
            I('id_iff_2_1', 'h_id_iff', (2, 1), bound='identity lists of 2 and 1'),
            # forms: n = (identities, features, values of field 0, values of field 1, fields, FORM_TYPE present, its position, kinds bitmask)
            I('form_ref_1m', 'h_form_ref', (1, 0, 2, 0, 1, 1, 0, 1), bound='FORM_TYPE + one list-multi field with 2 values'),
            I('form_ref_1m_ftlast', 'h_form_ref', (1, 0, 2, 0, 1, 1, 1, 1), bound='one list-multi field with 2 values, FORM_TYPE after it'),
            I('form_ref_1m_1', 'h_form_ref', (1, 0, 1, 0, 1, 1, 0, 1), bound='FORM_TYPE + one list-multi field with 1 value'),
            I('form_ref_1m_0', 'h_form_ref', (1, 0, 0, 0, 1, 1, 0, 1), bound='FORM_TYPE + one list-multi field with an empty value list'),
            I('form_ref_1s_1', 'h_form_ref', (1, 0, 1, 0, 1, 1, 0, 0), bound='FORM_TYPE + one text-single field with a value of 0..2 units'),
            I('form_ref_1s_n', 'h_form_ref', (1, 0, None, 0, 1, 1, 0, 0), mem_gb=5, tiers=('thorough',), timeout_s=900, bound='FORM_TYPE + one text-single field with 0..1 value (unset QVariant included)'),
            I('form_ref_2s', 'h_form_ref', (1, 0, 1, 1, 2, 1, 2, 0), mem_gb=5, bound='two text-single fields, FORM_TYPE last'),
            I('form_ref_noft', 'h_form_ref', (1, 1, 1, 0, 1, 0, 0, 0), bound='form without FORM_TYPE (ignored)'),
            I('form_ref_1s_empty', 'h_form_empty_value', (), bound='FORM_TYPE + one text-single field with the empty value (regression for fix 13f5df9)'),
        ]),
        dict(name='mgr', harness='h_mgr.cpp', tus=['src/base/QXmppDataForm.cpp', 'src/base/QXmppDiscoveryIq.cpp', 'src/base/QXmppIq.cpp', 'src/base/QXmppStanza.cpp', 'src/base/QXmppMucIq.cpp', 'src/client/QXmppClient.cpp'],
             models=MODELS + ['c20_mgr_models.c'], cxxdefs={}, loop_bounds={}, instances=[
            # n = (identities, features of the arbitrary info set returned by the cut capabilities(), node scenario)
            I('handle_info_nonode', 'h_handle_info', idless=False, n=(1, 2, 0), bound='info set with 1 identity and 2 features; query without node'),
            I('handle_info_prefix', 'h_handle_info', idless=False, n=(1, 2, 1), bound='info set with 1 identity and 2 features; node "abB" under capabilities node "ab"'),
            I('handle_info_emptycap', 'h_handle_info', idless=False, n=(1, 2, 2), bound='info set with 1 identity and 2 features; node "b", empty capabilities node'),
            I('handle_info_foreign', 'h_handle_info', idless=False, n=(1, 2, 3), bound='node "ba" under capabilities node "ab": refused with item-not-found'),
            I('presence_caps_1_0', 'h_presence_caps', (1, 0), mem_gb=5, bound='info set with 1 identity; capabilities node 0..2 units'),
            I('presence_caps_twice', 'h_presence_caps_twice', (1, 0), mem_gb=5, bound='two presences, capabilities() = info set A then B, 1 identity each (arbitrary, equal or different), no extension inserted/removed in between'),
            I('presence_caps_1_1', 'h_presence_caps', (1, 1), tiers=('thorough',), timeout_s=900, mem_gb=10, bound='info set with 1 identity and 1 feature'),
        ]),
    ],
    bounds=['strings: 0..2 UTF-16 units over the alphabet {a, b, B} (ASCII, no "<" and no "/")',
            'info set: <= 2 identities (category/type/lang/name), <= 3 features with duplicates, optional form with FORM_TYPE (any position) and <= 2 further fields (text-single or list-multi, <= 2 values, unset / empty values included)',
            'list lengths, field kinds and the FORM_TYPE position are fixed per instance (case split over the instances listed); all contents are symbolic',
            'quick tier: identity/feature string vs reference for (identities,features) in {(2,0),(1,1),(0,3)}, (2,3) in the thorough tier; forms with one field, or with two text-single fields',
            'std::sort ranges <= 3 elements, QString model capacity 40 units, comparison/append loops capped at 10 units (asserted)',
            'manager/client half: capabilities() returns an arbitrary info set with <= 1 identity and <= 2 features (handleIq) resp. 1 identity, <= 1 feature (presence); node texts of the handleIq scenarios are concrete ("", "abB" under "ab", "b" under "", "ba" under "ab")'],
    assumptions=['the hash is a recording oracle (QCryptographicHash model): properties are statements about the octet string handed to SHA-1, digests are fresh symbolic bytes, equal inputs give the same digest block',
                 'reference = XEP-0115 5.1 on the data the form would serialise: a text-single field with an empty or unset value has no <value/> (QXmppDataForm::toXml), a list-multi field has one <value/> per list entry',
                 'XEP-0004: field names (var) are unique within a form and FORM_TYPE is reserved (assumed for the symbolic field names)',
                 'std::sort (libstdc++ __insertion_sort for <= 16 elements) is a transcribed model working on the slot words with concrete positions; it performs the same comparator calls; the comparator identityLessThan is the real code',
                 'QList<T>::dealloc and the destructors of the private data blocks are skipped (no memory-reclamation claim); QMap<QString,Field> is an array-backed class-level model; QVariant is restricted to Invalid/QString/QStringList',
                 'manager/client half: QXmppDiscoveryManager::capabilities() is cut (returns the same arbitrary info set on every call); QXmppClient::extensions() returns exactly the discovery manager; stanza ids are arbitrary text'],
    outside=['characters outside ASCII (Qt orders UTF-16 code units, XEP-0115 octets: surrogate pairs sort differently) and the separator characters "<" and "/" inside the data (XEP-0115 itself is ambiguous/forbids them)',
             'lists longer than 3, strings longer than 2 units, two list-multi fields or a list-multi plus a text-single field in one form (no verdict within 6 GB), duplicate field names (QMap keeps the last one)',
             'boolean / jid / other QVariant value types of form fields (note by reading, not solver-checked: a boolean field is hashed as "true"/"false" but serialised as "1"/"0")',
             'FORM_TYPE field not of type hidden (XEP: ignore the form; the code does not look at the field type), more than one extension form (QXmppDiscoveryIq holds one)',
             'QXmppDiscoveryManager::capabilities() itself (assembly from QXmppClientPrivate::discoveryFeatures() - about 20 namespaces - and the extensions, QObject plumbing): cut; that handleIq answers and addProperCapability use the SAME capabilities() is what is checked',
             'the reply is not re-hashed inside the handleIq harness (no verdict in 400 s); equality of its identities, features and form with capabilities() is asserted instead and group vs shows the hash input is a function of exactly these',
             'serialisation of the answer and of the presence to XML (base64 of ver, duplicate <feature/> elements in the answer are not removed although the hash ignores duplicates)'],
)
