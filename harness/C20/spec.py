TUS = ['src/base/QXmppDataForm.cpp']
MODELS = ['qt_core.c', 'qt_list.c', 'c20_models.c']
def I(name, entry, **kw):
    d = dict(name=name, entry=entry, unwind=10, timeout_s=300, mem_gb=6, tiers=('quick', 'thorough'), bound=''); d.update(kw); return d
def G(name, insts, **defs):
    return dict(name=name, harness='h_vs.cpp', tus=TUS, models=MODELS, cxxdefs=defs, loop_bounds={'check_against_oracle': 66}, instances=insts)
SPEC = dict(
    property='C20',
    groups=[
        G('vs_2_3', [I('idfeat_ref_2_3', 'h_idfeat_ref')], C_NID=2, C_NF=3),
    ],
    bounds=[], assumptions=[], outside=[],
)
