/* C20 manager / client half: cuts and Qt models.  Included after c20_models.c. */
#ifdef HAVE_T_struct_QArrayData
/* CUT: QXmppDiscoveryManager::capabilities() (assembly of identities/features from the client's extensions) returns a copy of the
   arbitrary info set chosen by the harness - the same on every call */
void F_vp_c20_capabilities(char *out);
void _ZN21QXmppDiscoveryManager12capabilitiesEv(char *ret, char *self) { F_vp_c20_capabilities(ret); }
/* stanza ids are arbitrary text */
void _ZN10QXmppUtils18generateStanzaUuidEv(char *ret) { QAD *d = qs_new(1, 1); SD(d)[0] = (uint16_t)('0' + (vp_u8() & 7)); *(QAD**)ret = d; }
/* QString::startsWith(const QString&, Qt::CaseSensitivity) */
uint8_t _ZNK7QString10startsWithERKS_N2Qt15CaseSensitivityE(char *self, char *o, uint32_t cs) { QAD *a = *(QAD**)self, *b = *(QAD**)o; ASSERT(cs == 1, "case-insensitive startsWith not modelled");
  if (b->f1 > a->f1) return 0; uint32_t i = 0; for (; i < QHINT16(b) && i < QCAP; i++) { if (i >= b->f1) break; if (QCH16(a)[i] != QCH16(b)[i]) return 0; }
  ASSERT(!(i == QCAP && b->f1 > QCAP), "startsWith longer than QCAP units"); return 1; }
#ifdef HAVE_T_struct_QListData__Data
/* QXmppClient::extensions(): the client has exactly one extension, the discovery manager under test */
static char *vp_c20_ext;
void vp_c20_set_extension(char *e) { vp_c20_ext = e; }
void _ZNK11QXmppClient10extensionsEv(char *ret, char *self) { struct ld *t = ld_new(0); if (vp_c20_ext) { t->array[LD_B] = vp_c20_ext; t->end = LD_B + 1; } *(struct ld**)ret = t; }
#endif
/* QDateTime members of stanza / error private blocks: never inspected here */
void _ZN9QDateTimeC1Ev(char *self) { *(char**)self = 0; }
void _ZN9QDateTimeC1ERKS_(char *self, char *o) { *(char**)self = *(char**)o; }
void _ZN9QDateTimeD1Ev(char *self) { }
/* qobject_cast<QXmppDiscoveryManager*>(ext): the only extension is the discovery manager */
char* _ZNK11QMetaObject4castEP7QObject(char *self, char *obj) { return obj; }
char* _ZNK11QMetaObject4castEPK7QObject(char *self, char *obj) { return obj; }

/* private-data destructors and list deallocation of stanzas: skipped (no memory-reclamation claim; symex cannot fold the reference
   counts of blocks reached through the std::variant result and would walk every member list) */
void _ZN18QXmppStanzaPrivateD2Ev(char *self) { }
void _ZN20QXmppPresencePrivateD2Ev(char *self) { }
void _ZN23QXmppDiscoveryIqPrivateD2Ev(char *self) { }
void _ZN23QXmppStanzaErrorPrivateD2Ev(char *self) { }
void _ZN29QXmppDiscoveryIdentityPrivateD2Ev(char *self) { }
void _ZN5QListI12QXmppElementE7deallocEPN9QListData4DataE(char *self, char *d) { }
void _ZN5QListI20QXmppExtendedAddressE7deallocEPN9QListData4DataE(char *self, char *d) { }
void _ZN5QListIN16QXmppDiscoveryIq4ItemEE7deallocEPN9QListData4DataE(char *self, char *d) { }
#endif
