// C20 first half: QXmppDiscoveryIq::verificationString() against an independent XEP-0115 5.1 implementation.
// The hash is a recording oracle (c20_models.c): the property is about the exact octet string S handed to SHA-1.
#include "QXmppDataForm.h"
#include "QXmppIq.h"
#include <QSharedDataPointer>
#define private public
#include "QXmppDiscoveryIq.h"
#undef private
#include "base/QXmppDiscoveryIq.cpp"
#include "vp_harness.h"
#include "c20.h"

extern "C" void h_idfeat_ref()
{
    VpRaw<QXmppDiscoveryIq> iq;
    new (&iq->d) QSharedDataPointer<QXmppDiscoveryIqPrivate>(new QXmppDiscoveryIqPrivate);
    Sym ids[NID][4];
    unsigned nid = symCount(NID, C_NID);
    QList<QXmppDiscoveryIq::Identity> il;
    for (unsigned i = 0; i < NID; i++) if (i < nid) {
        QXmppDiscoveryIq::Identity id;
        for (int k = 0; k < 4; k++) ids[i][k].make();
        id.setCategory(ids[i][0].q); id.setType(ids[i][1].q); id.setLanguage(ids[i][2].q); id.setName(ids[i][3].q);
        il.append(id);
    }
    iq->setIdentities(il);
    Sym fs[NFEAT];
    unsigned nf = symCount(NFEAT, C_NF);
    QStringList fl;
    for (unsigned i = 0; i < NFEAT; i++) if (i < nf) { fs[i].make(); fl.append(fs[i].q); }
    iq->setFeatures(fl);

    QByteArray ver = iq->verificationString();

    Ref r;
    ref_identities(r, ids, nid);
    ref_features(r, fs, nf);
    check_against_oracle(r, ver);
}
