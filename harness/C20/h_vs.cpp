// C20 first half: QXmppDiscoveryIq::verificationString() against an independent XEP-0115 5.1 implementation.
// The hash is a recording oracle (c20_models.c): the property is about the exact octet string S handed to SHA-1.
#include "QXmppDataForm.h"
#include "QXmppIq.h"
#include <QSharedDataPointer>
#define private public
#include "QXmppDiscoveryIq.h"
#undef private
#include "base/QXmppDiscoveryIq.cpp"
#include "vp_harness.h"
#include "c20.h"

// the IQ base classes (QXmppStanza/QXmppIq) play no role in verificationString(): only the private data block is built
static QXmppDiscoveryIq *rawIq(VpRaw<QXmppDiscoveryIq> &raw)
{
    new (&raw->d) QSharedDataPointer<QXmppDiscoveryIqPrivate>(new QXmppDiscoveryIqPrivate);
    return raw.p();
}
static void setIdentities(QXmppDiscoveryIq *iq, const IdT ids[], unsigned nid)
{
    QList<QXmppDiscoveryIq::Identity> il;
    for (unsigned i = 0; i < NID; i++) if (i < nid) {
        QXmppDiscoveryIq::Identity id;
        id.setCategory(qstr(ids[i].f[0])); id.setType(qstr(ids[i].f[1])); id.setLanguage(qstr(ids[i].f[2])); id.setName(qstr(ids[i].f[3]));
        vp_c20_list_push(&il, new QXmppDiscoveryIq::Identity(id));
    }
    iq->setIdentities(il);
}
static void setFeatures(QXmppDiscoveryIq *iq, const Txt fs[], unsigned nf)
{
    QStringList fl;
    for (unsigned i = 0; i < NFEAT; i++) if (i < nf) { QString q = qstr(fs[i]); vp_c20_strlist_push(&fl, &q); }
    iq->setFeatures(fl);
}
static void symIdentities(IdT ids[], unsigned nid)
{
    for (unsigned i = 0; i < NID; i++) { ids[i].f[0] = symTxt(); ids[i].f[1] = symTxt(); ids[i].f[2] = symTxt(); ids[i].f[3] = symTxt(); }
}
static void symFeatures(Txt fs[]) { for (unsigned i = 0; i < NFEAT; i++) fs[i] = symTxt(); }

// (ii) the hashed string is the XEP-0115 5.1 string of the same identities and features
extern "C" void h_idfeat_ref()
{
    VpRaw<QXmppDiscoveryIq> raw; QXmppDiscoveryIq *iq = rawIq(raw);
    IdT ids[NID]; Txt fs[NFEAT];
    unsigned nid = symCount(0, NID), nf = symCount(1, NFEAT);
    symIdentities(ids, nid); symFeatures(fs);
    setIdentities(iq, ids, nid); setFeatures(iq, fs, nf);

    QByteArray ver = iq->verificationString();

    Ref r;
    ref_identities(r, ids, nid);
    ref_features(r, fs, nf);
    check_against_oracle(r, ver);
}

// (i)+(iii) features: two arbitrary feature lists hash the same string iff they are equal as sets
static bool featSubset(const Txt a[], unsigned na, const Txt b[], unsigned nb)
{
    bool all = true;
    for (unsigned i = 0; i < NFEAT; i++) if (i < na) {
        bool found = false;
        for (unsigned j = 0; j < NFEAT; j++) if (j < nb && txtCmp(a[i], b[j]) == 0) found = true;
        if (!found) all = false;
    }
    return all;
}
template<bool identities> static void checkIff(bool same, const QByteArray &va, const QByteArray &vb)
{
    vp_assert(vp_hash_calls() == 2 && vp_hash_alg(0) == 2 && vp_hash_alg(1) == 2, "C20 each verificationString computes exactly one SHA-1 hash");
    bool sameS = vp_hash_input_eq(0, 1);
    if constexpr (identities) {
        vp_assert(!same || sameS, "C20 reordering identities does not change the hashed string");
        vp_assert(same || !sameS, "C20 adding, removing or altering an identity changes the hashed string");
    } else {
        vp_assert(!same || sameS, "C20 reordering or repeating features does not change the hashed string");
        vp_assert(same || !sameS, "C20 adding, removing or altering a feature changes the hashed string");
    }
    vp_assert(vp_hash_output_is(0, &va) && vp_hash_output_is(1, &vb), "C20 verificationString returns the SHA-1 digest of the hashed string");
    vp_assert(!sameS || vp_hash_same_output(0, 1), "C20 equal hashed strings give equal verification strings");
}
extern "C" void h_feat_iff()
{
    VpRaw<QXmppDiscoveryIq> ra, rb; QXmppDiscoveryIq *A = rawIq(ra), *B = rawIq(rb);
    Txt fa[NFEAT], fb[NFEAT];
    unsigned na = symCount(0, NFEAT), nb = symCount(1, NFEAT);
    symFeatures(fa); symFeatures(fb);
    setFeatures(A, fa, na); setFeatures(B, fb, nb);
    // both entities carry the same nid (0..1) arbitrary identities: the feature part follows an arbitrary identity part
    IdT ids[NID]; unsigned nid = symCount(2, 1); symIdentities(ids, nid);
    setIdentities(A, ids, nid); setIdentities(B, ids, nid);
    QByteArray va = A->verificationString();
    QByteArray vb = B->verificationString();
    bool sameSet = featSubset(fa, na, fb, nb) && featSubset(fb, nb, fa, na);
    checkIff<false>(sameSet, va, vb);
}
// (i)+(iii) identities: two identity lists hash the same string iff they are equal as multisets
static bool idEq(const IdT &a, const IdT &b) { return idCmp(a, b) == 0; }
#if NID == 2   // (sep_vs.cpp includes this file with NID 3 for its own entry points)
extern "C" void h_id_iff()
{
    VpRaw<QXmppDiscoveryIq> ra, rb; QXmppDiscoveryIq *A = rawIq(ra), *B = rawIq(rb);
    IdT ia[NID], ib[NID];
    unsigned na = symCount(0, NID), nb = symCount(1, NID);
    symIdentities(ia, na); symIdentities(ib, nb);
    setIdentities(A, ia, na); setIdentities(B, ib, nb);
    QByteArray va = A->verificationString();
    QByteArray vb = B->verificationString();
    static_assert(NID == 2, "multiset equality below is written for at most 2 identities");
    bool same = na == nb && (na == 0 || (na == 1 && idEq(ia[0], ib[0])) ||
                             (na == 2 && ((idEq(ia[0], ib[0]) && idEq(ia[1], ib[1])) || (idEq(ia[0], ib[1]) && idEq(ia[1], ib[0])))));
    checkIff<true>(same, va, vb);
}
#endif

// ---- extension form ----
// field order in the form: a symbolic permutation of [FORM_TYPE, field 0, field 1]; value order inside a multi-valued field is
// the (arbitrary) order of the symbolic values themselves
static QXmppDataForm::Field mkField(const FieldT &f)
{
    if (f.multi) {
        QStringList vals;
        for (unsigned k = 0; k < NVAL; k++) if (k < f.nval) { QString q = qstr(f.val[k]); vp_c20_strlist_push(&vals, &q); }
        return QXmppDataForm::Field(QXmppDataForm::Field::ListMultiField, qstr(f.key), QVariant(vals));
    }
    return QXmppDataForm::Field(QXmppDataForm::Field::TextSingleField, qstr(f.key), f.nval ? QVariant(qstr(f.val[0])) : QVariant());
}
static void setForm(QXmppDiscoveryIq *iq, bool hasFormType, const Txt &formType, const FieldT fields[], unsigned nfields, unsigned ftPos)
{
    QList<QXmppDataForm::Field> fl;
    for (unsigned pos = 0; pos <= NFIELD; pos++) {
        if (hasFormType && pos == ftPos)
            vp_c20_list_push(&fl, new QXmppDataForm::Field(QXmppDataForm::Field::HiddenField, u"FORM_TYPE"_s, QVariant(qstr(formType))));
        if (pos < nfields) vp_c20_list_push(&fl, new QXmppDataForm::Field(mkField(fields[pos])));
    }
    iq->setForm(QXmppDataForm(QXmppDataForm::Result, fl));
}
static void symFields(FieldT fields[], unsigned nfields)
{
    unsigned kinds = symCount(7, 3);   // bit i: field i is multi-valued (list-multi), else single-valued (text-single)
    for (unsigned i = 0; i < NFIELD; i++) {
        fields[i].key = symTxt();
        fields[i].multi = ((kinds >> i) & 1) != 0;
        fields[i].nval = symCount(2 + i, NVAL);
        for (unsigned k = 0; k < NVAL; k++) fields[i].val[k] = symTxt();
        // XEP-0004: var is unique within a form, FORM_TYPE is reserved (a 0..2 unit key over the alphabet never equals it)
        if (i > 0 && i < nfields) vp_assume(txtCmp(fields[i].key, fields[0].key) != 0);
        if (!fields[i].multi) vp_assume(fields[i].nval <= 1);
    }
}
// the value toXml() would serialise for a single-valued field: an empty value is written as NO <value/> element
static void normalise(FieldT fields[], unsigned nfields)
{
    for (unsigned i = 0; i < NFIELD; i++) if (i < nfields && !fields[i].multi && fields[i].nval == 1 && fields[i].val[0].len == 0) fields[i].nval = 0;
}
extern "C" void h_form_ref()
{
    VpRaw<QXmppDiscoveryIq> raw; QXmppDiscoveryIq *iq = rawIq(raw);
    IdT ids[NID]; Txt fs[NFEAT]; FieldT fields[NFIELD];
    unsigned nid = symCount(0, NID), nf = symCount(1, NFEAT);
    symIdentities(ids, nid); symFeatures(fs);
    setIdentities(iq, ids, nid); setFeatures(iq, fs, nf);
    bool hasFormType = symCount(5, 1) != 0; Txt formType = symTxt();
    unsigned nfields = symCount(4, NFIELD); unsigned ftPos = symCount(6, NFIELD); vp_assume(ftPos <= nfields);
    symFields(fields, nfields);
    setForm(iq, hasFormType, formType, fields, nfields, ftPos);

    QByteArray ver = iq->verificationString();

    normalise(fields, nfields);
    Ref r;
    ref_identities(r, ids, nid);
    ref_features(r, fs, nf);
    ref_form(r, hasFormType, formType, fields, nfields);
    check_against_oracle(r, ver);
}

// Regression instance for the defect fixed in /repo 13f5df9 ("var<<" instead of "var<"): one identity, FORM_TYPE and ONE
// single-valued field whose value is the empty string.  QXmppDataForm::toXml() serialises such a field without any <value/>
// element, so XEP-0115 5.1 gives "...<var<" for what is sent.
extern "C" void h_form_empty_value()
{
    VpRaw<QXmppDiscoveryIq> raw; QXmppDiscoveryIq *iq = rawIq(raw);
    IdT ids[NID]; FieldT fields[NFIELD];
    symIdentities(ids, 1); setIdentities(iq, ids, 1);
    Txt formType = symTxt();
    for (unsigned i = 0; i < NFIELD; i++) { fields[i].key = symTxt(); fields[i].multi = false; fields[i].nval = 1; for (unsigned k = 0; k < NVAL; k++) fields[i].val[k] = symTxt(); }
    vp_assume(fields[0].val[0].len == 0);
    setForm(iq, true, formType, fields, 1, 0);
    QByteArray ver = iq->verificationString();
    normalise(fields, 1);
    Ref r;
    ref_identities(r, ids, 1);
    ref_form(r, true, formType, fields, 1);
    check_against_oracle(r, ver);
}
