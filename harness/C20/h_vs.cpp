// C20 first half: QXmppDiscoveryIq::verificationString() against an independent XEP-0115 5.1 implementation.
// The hash is a recording oracle (c20_models.c): the property is about the exact octet string S handed to SHA-1.
#include "QXmppDataForm.h"
#include "QXmppIq.h"
#include <QSharedDataPointer>
#define private public
#include "QXmppDiscoveryIq.h"
#undef private
#include "base/QXmppDiscoveryIq.cpp"
#include "vp_harness.h"
#include "c20.h"

// the IQ base classes (QXmppStanza/QXmppIq) play no role in verificationString(): only the private data block is built
static QXmppDiscoveryIq *rawIq(VpRaw<QXmppDiscoveryIq> &raw)
{
    new (&raw->d) QSharedDataPointer<QXmppDiscoveryIqPrivate>(new QXmppDiscoveryIqPrivate);
    return raw.p();
}
static void setIdentities(QXmppDiscoveryIq *iq, const IdT ids[], unsigned nid)
{
    QList<QXmppDiscoveryIq::Identity> il;
    for (unsigned i = 0; i < NID; i++) if (i < nid) {
        QXmppDiscoveryIq::Identity id;
        id.setCategory(qstr(ids[i].f[0])); id.setType(qstr(ids[i].f[1])); id.setLanguage(qstr(ids[i].f[2])); id.setName(qstr(ids[i].f[3]));
        vp_c20_list_push(&il, new QXmppDiscoveryIq::Identity(id));
    }
    iq->setIdentities(il);
}
static void setFeatures(QXmppDiscoveryIq *iq, const Txt fs[], unsigned nf)
{
    QStringList fl;
    for (unsigned i = 0; i < NFEAT; i++) if (i < nf) { QString q = qstr(fs[i]); vp_c20_strlist_push(&fl, &q); }
    iq->setFeatures(fl);
}
static void symIdentities(IdT ids[], unsigned nid)
{
    for (unsigned i = 0; i < NID; i++) { ids[i].f[0] = symTxt(); ids[i].f[1] = symTxt(); ids[i].f[2] = symTxt(); ids[i].f[3] = symTxt(); }
}
static void symFeatures(Txt fs[]) { for (unsigned i = 0; i < NFEAT; i++) fs[i] = symTxt(); }

// (ii) the hashed string is the XEP-0115 5.1 string of the same identities and features
extern "C" void h_idfeat_ref()
{
    VpRaw<QXmppDiscoveryIq> raw; QXmppDiscoveryIq *iq = rawIq(raw);
    IdT ids[NID]; Txt fs[NFEAT];
    unsigned nid = symCount(NID, C_NID), nf = symCount(NFEAT, C_NF);
    symIdentities(ids, nid); symFeatures(fs);
    setIdentities(iq, ids, nid); setFeatures(iq, fs, nf);

    QByteArray ver = iq->verificationString();

    Ref r;
    ref_identities(r, ids, nid);
    ref_features(r, fs, nf);
    check_against_oracle(r, ver);
}
#ifdef C20_PROBE
extern "C" void h_probe()
{
    Txt a = symTxt(), b = symTxt();
    QString qa = qstr(a), qb = qstr(b);
    QStringList l; vp_c20_strlist_push(&l, &qa); vp_c20_strlist_push(&l, &qb);
#if C20_PROBE == 2
    { QString qc = qstr(symTxt()); vp_c20_strlist_push(&l, &qc); }
#endif
#if C20_PROBE == 1 || C20_PROBE == 3
    if (vp_bool()) l.swapItemsAt(0, 1);
#else
    std::sort(l.begin(), l.end());
#endif
#if C20_PROBE == 3
    QString S; S += l.at(0) + u'/' + l.at(1) + u'<'; S += l.at(1) + u'<'; S += l.at(0) + u'<';
    vp_assert(S.size() >= 4, "C20 probe");
#else
    bool lt = l.at(0) < l.at(1);
    vp_assert(lt || !lt, "C20 probe");
#endif
}
#endif
#ifdef C20_PROBE
static void mk3(QStringList &l) { QString a = qstr(symTxt()), b = qstr(symTxt()), c = qstr(symTxt()); vp_c20_strlist_push(&l, &a); vp_c20_strlist_push(&l, &b); vp_c20_strlist_push(&l, &c); }
extern "C" void h_pA()   // one manual insertion step with iterators
{
    QStringList l; mk3(l);
    auto last = l.begin() + 1; QString val = std::move(*last); auto next = last; --next;
    if (val < *next) { *last = std::move(*next); last = next; }
    *last = std::move(val);
    vp_assert(l.at(0).size() <= 3, "C20 probe");
}
extern "C" void h_pB()   // the same with plain references, no iterator objects
{
    QStringList l; mk3(l);
    QString &s0 = l[0], &s1 = l[1];
    QString val = std::move(s1);
    QString *last = &s1;
    if (val < s0) { s1 = std::move(s0); last = &s0; }
    *last = std::move(val);
    vp_assert(l.at(0).size() <= 3, "C20 probe");
}
extern "C" void h_pC()   // libstdc++ helper directly, once
{
    QStringList l; mk3(l);
    std::__unguarded_linear_insert(l.begin() + 1, __gnu_cxx::__ops::__val_less_iter());
    vp_assert(l.at(0).size() <= 3, "C20 probe");
}
#endif
