# C12 - roster view = last full roster + authorised pushes (QXmppRosterManager)
TUS = ['src/base/QXmppRosterIq.cpp', 'src/base/QXmppIq.cpp', 'src/base/QXmppStanza.cpp', 'src/base/QXmppUtils.cpp',
       'src/base/QXmppPresence.cpp', 'src/base/QXmppMucIq.cpp', 'src/client/QXmppClientExtension.cpp']
MODELS = ['qt_core.c', 'qt_list.c', 'qt_dom.c', 'models.c']
B_PRE = 'pre-state: 2 roster slots (each used or not; keys <= 3 arbitrary UTF-16 units, name <= 1 unit, any subscription value), received flag arbitrary'
B_IQ = 'iq: type attribute any string <= 6 units, id <= 2 units, own bare JID 1..3 units without "/"; items: jid <= 3 units, name <= 1 unit, subscription in {absent/empty, none, both, from, to, remove}'
def I(name, bound, **kw):
    d = dict(name=name, entry='h_' + name, unwind=7, timeout_s=240, mem_gb=3, bound=bound); d.update(kw); return d
SPEC = dict(
    property='C12',
    groups=[
        dict(name='roster', harness='h.cpp', tus=TUS, models=MODELS, shadow_task=True,
             instances=[
                 I('presence', 'presence table 2 contacts (bare JID 1..2 units) x 2 resources (<= 2 units), each used or not; stanza: from any string <= 5 units, type any but subscribe', mem_gb=6),
                 I('push_unauth_n1', 'from present, any string <= 5 units whose bare part differs from the own bare JID; 1 item; ' + B_IQ + '; ' + B_PRE),
                 I('push_unauth_n2', 'as push_unauth_n1 with 2 items'),
                 I('foreign_tag', 'one-item roster push without from whose element name is any string <= 2 units other than iq; ' + B_PRE),
                 I('foreign_ns', 'iq whose query child is in any namespace <= 4 units (never the roster namespace), one item; ' + B_PRE),
                 I('push_auth_nofrom_n2', 'no from attribute; 2 items; ' + B_IQ + '; ' + B_PRE),
                 I('push_auth_from_n2', 'from present: empty, own bare JID, or own bare JID + "/" + any resource (<= 5 units in total); 2 items'),
                 I('push_auth_from_n1', 'as push_auth_from_n2 with 1 item'),
                 I('push_auth_from_n0', 'as push_auth_from_n2 with no item'),
                 I('connected', 'stream-management state in {none, new, resumed}, authenticated or not; ' + B_PRE + '; presence table 2 contacts x 1 resource (each used or not)'),
                 I('connected_result_new', 'new stream (state NewStream), authenticated; then the roster result with 2 items (no subscription=remove)'),
                 I('connected_result_resumed', 'resumed stream whose roster was not yet received; then the roster result with 2 items'),
                 I('connected_error', 'new stream, authenticated; the roster request fails (QXmppError)'),
                 I('disconnected', 'stream-management state in {none, new, resumed}; ' + B_PRE + '; presence table 2 contacts x 1 resource'),
             ]),
    ],
    bounds=[
        'single steps from an arbitrary valid pre-state (no histories): one roster IQ / one connect (+ the answer to its roster request) / one disconnect / one presence',
        B_PRE, B_IQ,
        'from attribute of a roster IQ: absent, or any string <= 5 UTF-16 units (covers empty, own bare, own full with resources up to 3 units, domain, stranger, prefix/suffix/case look-alikes of those lengths)',
        'roster IQ shape fixed per instance: exactly one <query xmlns=jabber:iq:roster> child with 0, 1 or 2 <item> children carrying jid/name/subscription attributes',
        'presence table: 2 contacts x 2 resources in the presence instance (x 1 in connected/disconnected), map capacity 3; roster map capacity 4',
        'the view is compared with the reference at one solver-chosen probe key of maximal length (all stored keys are within that length), which is equivalent to comparing all keys',
    ],
    assumptions=[
        'QDomElement::attribute(name) yields the empty string for an absent attribute (Qt contract): absent and empty id/jid/name/subscription/type attributes are the same input; for from the absent case is exercised separately',
        'the configured own bare JID is non-empty and contains no "/" (it is user@domain of a connected client)',
        'representation invariant of the pre-state: roster entries are stored under their own bare JID, keys are distinct, presences are stored under non-empty bare JIDs',
        'the answer handed to the roster-request continuation is what QXmppClient::sendIq promises: the response element or a QXmppError; a roster result carries no subscription=remove items (RFC 6121 2.1.4)',
        'QXmppTask/QXmppPromise shadow (contract discharged by C13); the context object (the manager) is alive',
        'QXmppClient is environment: configuration().jidBare()/jid(), streamManagementState(), isAuthenticated() return harness-chosen values; sendPacket()/sendIq() serialise the stanza with its real toXml() into the writer tree model and log it; sendPacket may return either value',
        'signals of the manager (moc output in the real build) are a ghost log',
        'QMap<QString,Item>, QMap<QString,QMap<QString,QXmppPresence>>, QMap<QString,QXmppPresence> are the class-level slot map of vp_slotmap.h (value semantics, lookup by key equality, capacity asserted, no ordering)',
        '~QString does not decrement the reference count (string blocks are never recycled; over-counted references only force copies where Qt would modify in place)',
    ],
    outside=[
        'sequences of more than one event (the inductive step from an arbitrary valid pre-state carries the property); larger item counts / longer strings than the bounds',
        'a from attribute equal to the server domain is treated like any other foreign sender (RFC 6121 2.1.6: only no from or the own bare JID); the real code agrees',
        'roster item details beyond jid/name/subscription: groups (QSet/QHash is not modelled: <group/> children are never fed), ask, approved, MIX annotations and channel elements, roster versioning',
        'subscription values outside RFC 6121 (anything but none/to/from/both/remove) and roster IQs with extra or misplaced children',
        'presences of type subscribe (subscription-request handling, QXmppMovedManager, auto-accept) and the contents of the stored QXmppPresence objects',
        'order of getRosterBareJids()/getResources() (the map model is unordered) and the QStringList-returning accessors themselves; the view is read from the private maps',
        'a roster result of an EARLIER session arriving after a new session started (pending IQs are failed by the client on disconnect: C07/C10)',
        'QObject plumbing: constructor, connect(), onRegistered/import-export of roster data',
    ],
)
