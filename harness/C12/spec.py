TUS = ['src/base/QXmppRosterIq.cpp', 'src/base/QXmppIq.cpp', 'src/base/QXmppStanza.cpp', 'src/base/QXmppUtils.cpp',
       'src/base/QXmppPresence.cpp', 'src/base/QXmppMucIq.cpp', 'src/client/QXmppClientExtension.cpp']
def I(name, **kw):
    d = dict(name=name, entry='h_' + name, unwind=7, timeout_s=150, mem_gb=6, bound=''); d.update(kw); return d
SPEC = dict(
    property='C12',
    groups=[
        dict(name='roster', harness='h.cpp', tus=TUS, models=['qt_core.c', 'qt_list.c', 'qt_dom.c', 'models.c'], shadow_task=True,
             instances=[I(n) for n in ['push_unauth_n1', 'push_unauth_n2', 'push_auth_nofrom_n2', 'push_auth_from_n2', 'push_auth_from_n1', 'push_auth_from_n0', 'connected', 'connected_result_new', 'connected_result_resumed', 'connected_error', 'disconnected', 'presence']]),
        dict(name='dbg', harness='h.cpp', tus=TUS, models=['qt_core.c', 'qt_list.c', 'qt_dom.c', 'models.c'], shadow_task=True, cxxdefs={'C12_DEBUG': 1},
             instances=[I('dbg1', tiers=('thorough',)), I('dbg2', tiers=('thorough',)), I('dbg6', tiers=('thorough',), timeout_s=40), I('dbg3', tiers=('thorough',), timeout_s=100), I('dbg4', tiers=('thorough',), timeout_s=100)]),
    ],
    bounds=[], assumptions=[], outside=[],
)
