// C12 - roster view = last full roster + authorised pushes.
// REAL code under check: QXmppRosterManager::{handleStanza, _q_connected (+ result continuation), _q_disconnected,
// _q_presenceReceived}, QXmppRosterManagerPrivate::clear, QXmppRosterIq::parse / Item::parse, QXmppIq/QXmppStanza::parse,
// QXmppIq::toXml (the acknowledgement that is put on the wire), QXmppUtils::jidToBareJid/jidToResource.
// Environment (this file + models.c): QXmppClient (configuration().jidBare(), sendPacket, sendIq, stream-management state,
// isAuthenticated) as harness-controlled ghost state, the manager's signals as a ghost log, QMap<QString,...> as the
// class-level slot map of vp_slotmap.h, QDom / QXmlStreamWriter tree model, QXmppTask/QXmppPromise shadow.
#include <QString>
#include <QMap>
#include <QList>
#include <QDomElement>
#include <QXmlStreamWriter>
#include <variant>
#include <optional>
#include <memory>
#include <any>
#include <functional>
#include <QObject>
#include <QSet>
#include <QStringList>
#include <QSharedDataPointer>
#include <QDateTime>
#include <QNetworkProxy>
#include <QSslError>
#include <QAbstractSocket>
#include <QFuture>
#include "vp_harness.h"
#include "vp_dom.h"
#include "vp_slotmap.h"
extern "C" { unsigned vp_c12_dom_nchildren(const QDomElement *); unsigned vp_c12_dom_nattrs(const QDomElement *); }

#define private public
#define protected public
#include "QXmppRosterIq.h"
#include "QXmppPresence.h"
// class-level container models: must precede the first use of these QMap instantiations
#define ROSTER_CAP 4     /* 2 contacts in the pre-state + 2 pushed items */
#ifndef PRES_CAP
#define PRES_CAP 3
#endif                   /* 2 contacts / resources in the pre-state + 1 new */
template<> class QMap<QString, QXmppRosterIq::Item> : public VpSlotMap<QXmppRosterIq::Item, ROSTER_CAP> { };
template<> class QMap<QString, QXmppPresence> : public VpSlotMap<QXmppPresence, PRES_CAP> { };
template<> class QMap<QString, QMap<QString, QXmppPresence>> : public VpSlotMap<QMap<QString, QXmppPresence>, PRES_CAP> { };
#include "QXmppClient.h"
#include "QXmppConfiguration.h"
#include "client/QXmppRosterManager.cpp"
#undef private
#undef protected


// ------------------------------------------------------------------------------------------------ environment
static QString g_ownBare, g_ownFull;
static int g_smState;            // QXmppClient::StreamManagementState
static bool g_auth;
static int g_nsent;              // packets handed to QXmppClient::sendPacket
static QDomElement g_sent[2];    // ... as they would go on the wire (QXmppNonza::toXml through the writer tree model)
static int g_niq;                // IQ requests handed to QXmppClient::sendIq
static QDomElement g_iqSent[2];
static std::optional<QXmppPromise<QXmppClient::IqResult>> g_iqPromise;
enum { SigAdded = 1, SigChanged, SigRemoved, SigRosterReceived, SigPresenceChanged, SigSubscription };
static int g_nsig;
static int g_sigKind[4];
static QString g_sigA[4], g_sigB[4];
static char g_cfgRaw[16];
static char g_clientRaw[64];

static void sig(int kind, const QString &a, const QString &b)
{
    if (g_nsig < 4) { g_sigKind[g_nsig] = kind; g_sigA[g_nsig] = a; g_sigB[g_nsig] = b; }
    g_nsig++;
}
// the signals of the manager (bodies are moc output in the real build: QMetaObject::activate) -> ghost log
void QXmppRosterManager::rosterReceived() { sig(SigRosterReceived, QString(), QString()); }
void QXmppRosterManager::presenceChanged(const QString &b, const QString &r) { sig(SigPresenceChanged, b, r); }
void QXmppRosterManager::subscriptionReceived(const QString &b) { sig(SigSubscription, b, QString()); }
void QXmppRosterManager::subscriptionRequestReceived(const QString &b, const QXmppPresence &) { sig(SigSubscription, b, QString()); }
void QXmppRosterManager::itemAdded(const QString &b) { sig(SigAdded, b, QString()); }
void QXmppRosterManager::itemChanged(const QString &b) { sig(SigChanged, b, QString()); }
void QXmppRosterManager::itemRemoved(const QString &b) { sig(SigRemoved, b, QString()); }

// QXmppClient as seen by the roster manager
QXmppClient::StreamManagementState QXmppClient::streamManagementState() const { return StreamManagementState(g_smState); }
bool QXmppClient::isAuthenticated() const { return g_auth; }
QXmppConfiguration &QXmppClient::configuration() { return *reinterpret_cast<QXmppConfiguration *>(g_cfgRaw); }
QString QXmppConfiguration::jidBare() const { return g_ownBare; }
QString QXmppConfiguration::jid() const { return g_ownFull; }
bool QXmppClient::sendPacket(const QXmppNonza &p)
{
    VpWriter w;
    p.toXml(w.writer());
    if (g_nsent < 2) g_sent[g_nsent] = w.root();
    g_nsent++;
    return vp_bool();   // sending may fail; the manager must not depend on it
}
QXmppTask<QXmppClient::IqResult> QXmppClient::sendIq(QXmppIq &&iq, const std::optional<QXmppSendStanzaParams> &)
{
    VpWriter w;
    iq.toXml(w.writer());
    if (g_niq < 2) g_iqSent[g_niq] = w.root();
    g_niq++;
    g_iqPromise.emplace();
    return g_iqPromise->task();
}

// ------------------------------------------------------------------------------------------------ helpers
#define L(x) QStringLiteral(x)

struct Mgr {
    VpRaw<QXmppRosterManager> raw;
    QXmppRosterManagerPrivate *d;
    Mgr()
    {
        // the manager object itself is raw storage (QObject part never touched); only its private data is live
        d = new QXmppRosterManagerPrivate;
        new (const_cast<std::unique_ptr<QXmppRosterManagerPrivate> *>(&raw->d)) std::unique_ptr<QXmppRosterManagerPrivate>(d);
        raw->m_client = reinterpret_cast<QXmppClient *>(g_clientRaw);
    }
    QXmppRosterManager *operator->() { return raw.p(); }
};

// reference roster: what the property text says the view must be
#define REF_CAP 4
struct RefRoster {
    bool used[REF_CAP]; QString key[REF_CAP]; QString name[REF_CAP]; int type[REF_CAP];
    RefRoster() { for (int i = 0; i < REF_CAP; i++) used[i] = false; }
    bool contains(const QString &k) const { for (int i = 0; i < REF_CAP; i++) { if (used[i] && key[i] == k) return true; } return false; }
    void put(const QString &k, const QString &n, int t)
    {
        for (int i = 0; i < REF_CAP; i++) { if (used[i] && key[i] == k) { name[i] = n; type[i] = t; return; } }
        for (int i = 0; i < REF_CAP; i++) { if (!used[i]) { used[i] = true; key[i] = k; name[i] = n; type[i] = t; return; } }
        vp_assume(false);   // REF_CAP = pre-state + pushed items, never reached
    }
    bool remove(const QString &k) { for (int i = 0; i < REF_CAP; i++) { if (used[i] && key[i] == k) { used[i] = false; return true; } } return false; }
    void clear() { for (int i = 0; i < REF_CAP; i++) used[i] = false; }
    int size() const { int n = 0; for (int i = 0; i < REF_CAP; i++) { if (used[i]) n++; } return n; }
};

// symbolic pre-state: two fully built roster entries with distinct keys sit in slots 0 and 1; whether each slot is in use
// is symbolic (so 0, 1 or 2 contacts, including a hole in front).  Building both unconditionally keeps every pointer of
// the pre-state concrete.  Representation invariant: entries[k].bareJid() == k.
static void symRoster(QXmppRosterManagerPrivate *d, RefRoster &ref)
{
    QString k[2];
    for (int i = 0; i < 2; i++) {
        k[i] = vpSymString(3); QString nm = vpSymString(1);
        unsigned t = vp_u8(); vp_assume(t <= 4 || t == 8);   // any SubscriptionType value
        QXmppRosterIq::Item it; it.setBareJid(k[i]); it.setName(nm); it.setSubscriptionType(QXmppRosterIq::Item::SubscriptionType(t));
        *d->entries.val[i] = it; d->entries.key[i] = k[i];
        ref.key[i] = k[i]; ref.name[i] = nm; ref.type[i] = int(t);
    }
    vp_assume(!(k[0] == k[1]));
    for (int i = 0; i < 2; i++) { bool u = vp_bool(); d->entries.used[i] = u; ref.used[i] = u; }
    d->isRosterReceived = vp_bool();
}
// The view equals the reference iff they agree on every key.  `probe` is an arbitrary string of the maximal key length
// chosen by the solver, so one comparison at the probe covers all keys (all keys in either map have <= 3 units).
static void checkRoster(const QXmppRosterManagerPrivate *d, const RefRoster &ref)
{
    const QString probe = vpSymString(3);
    bool inRef = false, inView = false; QString refName; int refType = -1;
    for (int i = 0; i < REF_CAP; i++) { if (ref.used[i] && ref.key[i] == probe) { inRef = true; refName = ref.name[i]; refType = ref.type[i]; } }
    for (int i = 0; i < ROSTER_CAP; i++) {
        if (d->entries.used[i] && d->entries.key[i] == probe) {
            vp_assert(!inView, "C12 a contact appears once in the roster view");
            inView = true;
            const QXmppRosterIq::Item &it = *d->entries.val[i];
            vp_assert(inRef, "C12 roster view contains no contact beyond last full roster + authorised pushes");
            if (inRef) {
                vp_assert(it.bareJid() == probe, "C12 contact is stored under its own bare JID");
                vp_assert(it.name() == refName, "C12 contact has the name of the latest authorised item");
                vp_assert(int(it.subscriptionType()) == refType, "C12 contact has the subscription of the latest authorised item");
            }
        }
    }
    if (inRef) vp_assert(inView, "C12 roster view contains every contact of last full roster + authorised pushes");
}

// reference sender check (RFC 6121 2.1.6 and the property text): no/empty 'from' (the server, implicitly), or the
// bare part of 'from' (everything before the first '/') is exactly the own bare JID
#define FROM_MAX 5
static bool refAuthorised(bool hasFrom, const QString &from, const QString &own)
{
    if (!hasFrom || from.size() == 0) return true;
    int n = from.size(), cut = n;
    for (int i = FROM_MAX - 1; i >= 0; i--) { if (i < n && from.at(i) == QChar(u'/')) cut = i; }
    if (cut != own.size()) return false;
    for (int i = 0; i < FROM_MAX; i++) { if (i < cut && from.at(i) != own.at(i)) return false; }
    return true;
}
static bool noSlash(const QString &s) { for (int i = 0; i < 3; i++) { if (i < s.size() && s.at(i) == QChar(u'/')) return false; } return true; }

static QDomElement el(const QString &tag, const QString &ns) { QDomElement e; vp_dom_new(&e, &tag, &ns); return e; }
static void attr(QDomElement &e, const QString &n, const QString &v) { vp_dom_set_attr(&e, &n, &v); }

// The DOM model keeps attributes in slots interned by name; interning every name used by the parsers/serialisers up
// front (unconditionally) keeps the slot table constant during symbolic execution.
static void internAttrs()
{
    QDomElement e = el(L("x"), QString());
    const QString v;
    attr(e, L("type"), v); attr(e, L("id"), v); attr(e, L("from"), v); attr(e, L("to"), v); attr(e, L("jid"), v); attr(e, L("name"), v);
    attr(e, L("subscription"), v); attr(e, L("ask"), v); attr(e, L("approved"), v); attr(e, L("ver"), v); attr(e, L("lang"), v);
    attr(e, L("xmlns"), v); attr(e, L("participant-id"), v);
}

struct PushItem { QString jid, name; int type; };
// Every string below lives in ONE model block (symbolic length and content) - never a choice between blocks - so that
// the length hints of the string model stay constant.  An absent attribute and an empty attribute are the same thing for
// the code under check (it reads attributes with QDomElement::attribute(name), Qt contract: absent -> empty string);
// only for `from` the absent case is exercised separately (entry points with hasFrom == false).
// <item jid name subscription/> ; subscription over {"" (absent), none, both, from, to, remove}
static QDomElement symItem(PushItem &pi)
{
    using I = QXmppRosterIq::Item;
    QDomElement it = el(L("item"), QString());
    pi.jid = vpSymString(3); attr(it, L("jid"), pi.jid);
    pi.name = vpSymString(1); attr(it, L("name"), pi.name);
    QString sub = vpSymString(6);
    if (sub.size() == 0) pi.type = I::NotSet;
    else if (sub == L("none")) pi.type = I::None;
    else if (sub == L("both")) pi.type = I::Both;
    else if (sub == L("from")) pi.type = I::From;
    else if (sub == L("to")) pi.type = I::To;
    else if (sub == L("remove")) pi.type = I::Remove;
    else vp_assume(false);          // other subscription values: outside the claim
    attr(it, L("subscription"), sub);
    return it;
}

// iq (type, id, from?) > query xmlns=jabber:iq:roster > <= 2 item
struct SymIq { QDomElement iq; bool isSet; QString type, id; bool hasFrom; QString from; int nitems; PushItem item[2]; };
// The SHAPE of the tree (from present?, number of items) is fixed per entry point: a symbolic shape makes every node
// pointer of the DOM model a case split.  All contents are symbolic.
static void symRosterIq(SymIq &q, bool hasFrom, int n)
{
    q.iq = el(L("iq"), L("jabber:client"));
    q.type = vpSymString(6);                           // any type attribute: set, get, result, error, empty, junk
    attr(q.iq, L("type"), q.type);
    q.isSet = (q.type == L("set"));
    q.id = vpSymString(2); attr(q.iq, L("id"), q.id);
    q.hasFrom = hasFrom;
    if (hasFrom) { q.from = vpSymString(FROM_MAX); attr(q.iq, L("from"), q.from); }
    QDomElement query = el(L("query"), L("jabber:iq:roster"));
    q.nitems = n;
    if (n > 0) { QDomElement it = symItem(q.item[0]); vp_dom_append(&query, &it); }
    if (n > 1) { QDomElement it = symItem(q.item[1]); vp_dom_append(&query, &it); }
    vp_dom_append(&q.iq, &query);
}
static void symOwnJid()
{
    internAttrs();
    g_ownBare = vpSymStringNonEmpty(3);
    vp_assume(noSlash(g_ownBare));     // a bare JID has no resource part
    g_ownFull = g_ownBare; g_ownFull.append(QChar(u'/')); g_ownFull.append(QChar(u'r'));   // no QStringBuilder: its memcpy with a symbolic size is a measured killer
}

// ------------------------------------------------------------------------------------------------ (1) unauthorised push
static void pushUnauth(int nitems)
{
    symOwnJid();
    Mgr m; RefRoster ref;
    symRoster(m.d, ref);
    const bool recv = m.d->isRosterReceived;
    SymIq q; symRosterIq(q, true, nitems);
    vp_assume(!refAuthorised(q.hasFrom, q.from, g_ownBare));
    bool r = m->QXmppRosterManager::handleStanza(q.iq);
    vp_assert(!r, "C12 roster IQ from an unauthorised sender is not accepted (handleStanza returns false)");
    vp_assert(g_nsent == 0 && g_niq == 0, "C12 roster IQ from an unauthorised sender is not acknowledged");
    vp_assert(g_nsig == 0, "C12 roster IQ from an unauthorised sender emits no change notification");
    vp_assert(m.d->isRosterReceived == recv, "C12 roster IQ from an unauthorised sender leaves the received flag alone");
    checkRoster(m.d, ref);
}
extern "C" void h_push_unauth_n1() { pushUnauth(1); }
extern "C" void h_push_unauth_n2() { pushUnauth(2); }

// any stanza that is not a roster IQ changes nothing: (a) element name other than "iq", (b) first child in another namespace.
// The tree shape is that of a one-item roster push from the server (no from), so a manager that skipped the first check
// would apply it.
static void foreign(bool otherTag)
{
    symOwnJid();
    Mgr m; RefRoster ref;
    symRoster(m.d, ref);
    const bool recv = m.d->isRosterReceived;
    QString tag = L("iq"), ns = L("jabber:iq:roster");
    if (otherTag) { tag = vpSymString(2); vp_assume(!(tag == L("iq"))); }
    else { ns = vpSymString(4); }                                      // never the roster namespace (16 units)
    QDomElement st = el(tag, L("jabber:client"));
    attr(st, L("type"), vpSymString(6)); attr(st, L("id"), vpSymString(2));
    QDomElement query = el(L("query"), ns);
    PushItem pi; QDomElement it = symItem(pi); vp_dom_append(&query, &it);
    vp_dom_append(&st, &query);
    bool r = m->QXmppRosterManager::handleStanza(st);
    vp_assert(!r, "C12 a stanza that is not a roster IQ is not handled by the roster manager");
    vp_assert(g_nsent == 0 && g_niq == 0 && g_nsig == 0, "C12 a stanza that is not a roster IQ is neither answered nor announced");
    vp_assert(m.d->isRosterReceived == recv, "C12 a stanza that is not a roster IQ leaves the received flag alone");
    checkRoster(m.d, ref);
}
extern "C" void h_foreign_tag() { foreign(true); }
extern "C" void h_foreign_ns() { foreign(false); }

// ------------------------------------------------------------------------------------------------ (2) authorised roster IQ
// from absent / empty / own bare / own full JID (any resource); any IQ type; items applied in order
static void pushAuth(bool hasFrom, int nitems)
{
    symOwnJid();
    Mgr m; RefRoster ref;
    symRoster(m.d, ref);
    const bool recv = m.d->isRosterReceived;
    SymIq q; symRosterIq(q, hasFrom, nitems);
    vp_assume(refAuthorised(q.hasFrom, q.from, g_ownBare));
    // reference transition + expected notifications
    int expN = 0; int expKind[2]; QString expArg[2];
    if (q.isSet) {
        for (int i = 0; i < 2; i++) {
            if (i >= nitems) break;
            const PushItem &pi = q.item[i];
            if (pi.type == QXmppRosterIq::Item::Remove) {
                if (ref.remove(pi.jid)) { expKind[expN] = SigRemoved; expArg[expN] = pi.jid; expN++; }
            } else {
                const bool had = ref.contains(pi.jid);
                ref.put(pi.jid, pi.name, pi.type);
                expKind[expN] = had ? SigChanged : SigAdded; expArg[expN] = pi.jid; expN++;
            }
        }
    }
    bool r = m->QXmppRosterManager::handleStanza(q.iq);
    // the property only speaks about pushes (type set); whether a roster get/result/error is consumed or left to the
    // client's fallback answer is C08's subject (defect D8), so the return value is checked for pushes only
    if (q.isSet) vp_assert(r, "C12 roster push from the server / own account is handled (handleStanza returns true)");
    vp_assert(g_niq == 0, "C12 handling a roster IQ sends no request");
    if (q.isSet) {
        vp_assert(g_nsent == 1, "C12 an authorised roster push is acknowledged with exactly one stanza");
        if (g_nsent == 1) {
            const QDomElement &a = g_sent[0];
            vp_assert(a.tagName() == L("iq"), "C12 the acknowledgement is an iq");
            vp_assert(a.attribute(L("type")) == L("result"), "C12 the acknowledgement has type result");
            vp_assert(a.attribute(L("id")) == q.id, "C12 the acknowledgement carries the id of the push");
            vp_assert(vp_c12_dom_nchildren(&a) == 0, "C12 the acknowledgement is an empty result");
        }
    } else {
        vp_assert(g_nsent == 0, "C12 a roster IQ that is not a push (type != set) is not acknowledged");
    }
    vp_assert(m.d->isRosterReceived == recv, "C12 a roster push leaves the received flag alone");
    checkRoster(m.d, ref);
    vp_assert(g_nsig == expN, "C12 one notification per effective change of an authorised push");
    for (int i = 0; i < 2; i++) {
        if (i >= expN || i >= g_nsig) break;
        vp_assert(g_sigKind[i] == expKind[i], "C12 notification kind matches the change (added / changed / removed), in item order");
        vp_assert(g_sigA[i] == expArg[i], "C12 notification names the changed contact");
    }
}
extern "C" void h_push_auth_nofrom_n2() { pushAuth(false, 2); }
extern "C" void h_push_auth_from_n2() { pushAuth(true, 2); }
extern "C" void h_push_auth_from_n1() { pushAuth(true, 1); }
extern "C" void h_push_auth_from_n0() { pushAuth(true, 0); }

// ------------------------------------------------------------------------------------------------ presence table helpers
typedef QMap<QString, QXmppPresence> ResMap;
// pre-state: two contacts (outer slots 0,1) with two resources each (inner slots 0,1); which slots are in use is symbolic
struct RefPresence { QString bare[2]; bool bareUsed[2]; QString res[2][2]; bool resUsed[2][2]; };
static void symPresences(QXmppRosterManagerPrivate *d, RefPresence &rp, int nres)
{
    for (int i = 0; i < 2; i++) {
        rp.bare[i] = vpSymStringNonEmpty(2);            // invariant: a presence is only ever stored under a non-empty bare JID
        const bool uo = vp_bool();
        d->presences.key[i] = rp.bare[i]; d->presences.used[i] = uo; rp.bareUsed[i] = uo;
        ResMap &inner = *d->presences.val[i];
        for (int j = 0; j < 2; j++) {
            rp.resUsed[i][j] = false;
            if (j >= nres) continue;
            rp.res[i][j] = vpSymString(2);
            QString f = rp.bare[i]; f.append(QChar(u'/')); f.append(rp.res[i][j]);
            QXmppPresence p; p.setFrom(f);
            *inner.val[j] = p; inner.key[j] = rp.res[i][j];
            const bool u = uo && vp_bool();             // invariant of the slot map: an unused outer slot holds an empty inner map
            inner.used[j] = u; rp.resUsed[i][j] = u;
        }
        if (nres > 1) vp_assume(!(rp.res[i][0] == rp.res[i][1]));
    }
    vp_assume(!(rp.bare[0] == rp.bare[1]));
}
static bool refHasPresence(const RefPresence &rp, const QString &b, const QString &r)
{
    for (int i = 0; i < 2; i++) {
        if (!rp.bareUsed[i] || !(rp.bare[i] == b)) continue;
        for (int j = 0; j < 2; j++) { if (rp.resUsed[i][j] && rp.res[i][j] == r) return true; }
    }
    return false;
}
static bool viewHasPresence(const QXmppRosterManagerPrivate *d, const QString &b, const QString &r)
{
    for (int i = 0; i < PRES_CAP; i++) {
        if (!d->presences.used[i] || !(d->presences.key[i] == b)) continue;
        const ResMap &inner = *d->presences.val[i];
        for (int j = 0; j < PRES_CAP; j++) { if (inner.used[j] && inner.key[j] == r) return true; }
    }
    return false;
}
static bool viewPresencesEmpty(const QXmppRosterManagerPrivate *d)
{
    for (int i = 0; i < PRES_CAP; i++) { if (d->presences.used[i]) return false; }
    return true;
}

// ------------------------------------------------------------------------------------------------ (3) session start / end
// connected: arbitrary earlier view (roster + presences + received flag), arbitrary stream-management outcome,
// then the answer to the roster request (a full roster with 2 items, or an error)
// For the variants that go on to the answer, the decision "request sent" must be taken on a concrete path (otherwise the
// promise object is uninitialised on a merged path and every later dereference becomes a case split): smFixed/recvFixed.
static void connected(bool withResult, bool resultIsError, int smFixed = -1, int recvFixed = -1)
{
    symOwnJid();
    Mgr m; RefRoster ref; RefPresence rp;
    symRoster(m.d, ref);
    symPresences(m.d, rp, 1);
    if (recvFixed >= 0) m.d->isRosterReceived = (recvFixed != 0);
    const bool recv0 = m.d->isRosterReceived;
    if (smFixed >= 0) { g_smState = smFixed; g_auth = true; }
    else { g_smState = vp_u8(); vp_assume(g_smState <= 2); g_auth = vp_bool(); }
    const bool resumed = (g_smState == QXmppClient::ResumedStream);
    const QString pb = vpSymString(2), pr = vpSymString(2);
    const bool hadPresence = refHasPresence(rp, pb, pr);

    m->_q_connected();

    if (!resumed) ref.clear();
    const bool recv1 = resumed ? recv0 : false;
    vp_assert(m.d->isRosterReceived == recv1, "C12 a session that is not a resumption starts with the roster marked as not received");
    if (!resumed) vp_assert(viewPresencesEmpty(m.d), "C12 no presence of an earlier session survives into a new session");
    else vp_assert(viewHasPresence(m.d, pb, pr) == hadPresence, "C12 a resumed session keeps the presence table");
    const bool expectRequest = !recv1 && g_auth;
    vp_assert(g_niq == (expectRequest ? 1 : 0), "C12 the roster is requested exactly when it is not yet known on this session");
    vp_assert(g_nsent == 0 && g_nsig == 0, "C12 connecting sends nothing but the roster request and notifies nothing");
    if (expectRequest && g_niq == 1) {
        const QDomElement &r = g_iqSent[0];
        vp_assert(r.tagName() == L("iq") && r.attribute(L("type")) == L("get"), "C12 the roster request is an iq of type get");
        QDomElement c = r.firstChildElement();
        vp_assert(c.tagName() == L("query") && c.namespaceURI() == L("jabber:iq:roster"), "C12 the roster request carries the roster query");
    }
    if (!withResult) { checkRoster(m.d, ref); return; }
    vp_assume(expectRequest && g_iqPromise.has_value());
    if (resultIsError) {
        g_iqPromise->finish(QXmppClient::IqResult(QXmppError { QString(), {} }));
        vp_assert(!m.d->isRosterReceived && g_nsig == 0, "C12 a failed roster request leaves the roster marked as not received");
        checkRoster(m.d, ref);
        return;
    }
    // presences that arrived between the roster request and its answer: an arbitrary table (seed C12-4: the result handler wiped it)
    RefPresence rp2; symPresences(m.d, rp2, 1);
    const bool hadPresence2 = refHasPresence(rp2, pb, pr);
    SymIq q; symRosterIq(q, false, 2);
    // RFC 6121 2.1.4: a roster result lists the contacts; subscription='remove' only occurs in pushes
    vp_assume(q.item[0].type != QXmppRosterIq::Item::Remove && q.item[1].type != QXmppRosterIq::Item::Remove);
    g_iqPromise->finish(QXmppClient::IqResult(q.iq));
    ref.clear();
    ref.put(q.item[0].jid, q.item[0].name, q.item[0].type);
    ref.put(q.item[1].jid, q.item[1].name, q.item[1].type);
    vp_assert(m.d->isRosterReceived, "C12 the full roster result marks the roster as received");
    vp_assert(g_nsig == 1 && g_sigKind[0] == SigRosterReceived, "C12 the full roster result is announced once (rosterReceived)");
    vp_assert(g_nsent == 0 && g_niq == 1, "C12 the full roster result is not answered");
    vp_assert(viewHasPresence(m.d, pb, pr) == hadPresence2, "C12 the full roster result leaves the presence table as it is (resources stay listed iff their latest presence was available)");
    checkRoster(m.d, ref);
}
extern "C" void h_connected() { connected(false, false); }
extern "C" void h_connected_result_new() { connected(true, false, QXmppClient::NewStream); }
extern "C" void h_connected_result_resumed() { connected(true, false, QXmppClient::ResumedStream, 0); }
extern "C" void h_connected_error() { connected(true, true, QXmppClient::NewStream); }

extern "C" void h_disconnected()
{
    symOwnJid();
    Mgr m; RefRoster ref; RefPresence rp;
    symRoster(m.d, ref);
    symPresences(m.d, rp, 1);
    const bool recv0 = m.d->isRosterReceived;
    g_smState = vp_u8(); vp_assume(g_smState <= 2);
    g_auth = vp_bool();
    const bool resumable = (g_smState != QXmppClient::NoStreamManagement);
    const QString pb = vpSymString(2), pr = vpSymString(2);
    const bool hadPresence = refHasPresence(rp, pb, pr);

    m->_q_disconnected();

    if (!resumable) ref.clear();
    vp_assert(m.d->isRosterReceived == (resumable ? recv0 : false), "C12 a disconnect that cannot be resumed forgets that the roster was received");
    if (!resumable) vp_assert(viewPresencesEmpty(m.d), "C12 a disconnect that cannot be resumed clears the presence table");
    else vp_assert(viewHasPresence(m.d, pb, pr) == hadPresence, "C12 a resumable disconnect keeps the presence table");
    vp_assert(g_nsent == 0 && g_niq == 0 && g_nsig == 0, "C12 disconnecting sends and notifies nothing");
    checkRoster(m.d, ref);
}

// ------------------------------------------------------------------------------------------------ (4) presence table
// one presence stanza (any type but subscribe, any from) on an arbitrary table
static void splitJid(const QString &jid, QString &bare, QString &res)
{
    int n = jid.size(), cut = -1;
    for (int i = FROM_MAX - 1; i >= 0; i--) { if (i < n && jid.at(i) == QChar(u'/')) cut = i; }
    if (cut < 0) { bare = jid; res = QString(); return; }
    bare = jid.left(cut); res = jid.mid(cut + 1);
}
#ifndef PRES_NRES
#define PRES_NRES 2
#endif
extern "C" void h_presence()
{
    symOwnJid();
    Mgr m; RefRoster ref; RefPresence rp;
    symRoster(m.d, ref);
    symPresences(m.d, rp, PRES_NRES);
    QXmppPresence p;
    const QString from = vpSymString(FROM_MAX);
    unsigned t = vp_u8(); vp_assume(t <= 7 && t != QXmppPresence::Subscribe);
    p.setFrom(from); p.setType(QXmppPresence::Type(t));
    const QString pb = vpSymString(FROM_MAX), pr = vpSymString(FROM_MAX);
    const bool had = refHasPresence(rp, pb, pr);
    QString bare, res; splitJid(from, bare, res);

    m->_q_presenceReceived(p);

    bool expect = had;
    const bool relevant = bare.size() > 0 && (t == QXmppPresence::Available || t == QXmppPresence::Unavailable);
    if (relevant && pb == bare && pr == res) expect = (t == QXmppPresence::Available);
    vp_assert(viewHasPresence(m.d, pb, pr) == expect, "C12 presence table lists exactly the resources whose latest presence was available");
    vp_assert(g_nsent == 0 && g_niq == 0, "C12 a presence is not answered by the roster manager");
    vp_assert(g_nsig == (relevant ? 1 : 0), "C12 presenceChanged is emitted once per available/unavailable presence");
    if (relevant && g_nsig == 1) vp_assert(g_sigKind[0] == SigPresenceChanged && g_sigA[0] == bare && g_sigB[0] == res, "C12 presenceChanged names contact and resource");
    checkRoster(m.d, ref);   // presences never touch the contact list
}
