// Class-level model of QMap<QString, V> (DESIGN 2.3 "class-level containers"), installed as a full C++ specialisation
// BEFORE the qxmpp code that uses the map is compiled.  Value semantics (what implicit sharing implements), fixed
// capacity CAP, one fixed slot per entry (no shifting, every access at a literal index), lookup by key equality.
// Not modelled: ordering (keys() returns the keys in slot order, QMap returns them sorted), iterators.
// Exceeding the capacity is a MODEL failure (inconclusive), never a silent drop.
//
// Every slot ALWAYS holds a live, valid V (a default-constructed one while the slot is unused).  Symbolic execution merges
// references to several slots; a null or uninitialised alternative in such a merge turns every later dereference into a
// read of an unknown object (measured: the destructor of a QXmppPresence then explores garbage lists).  With live
// defaults all alternatives are valid objects.
// Every value lives in its OWN heap object (val[i] points to it): a reference that is a merge of several values then is a
// choice between distinct objects at offset 0.  (Values embedded in one enclosing object would make the merged reference
// "object + symbolic offset", and every store through it a byte-level update of the whole enclosing object - measured.)
// Values are never freed (no leak check is claimed here).
#pragma once
#include <QString>
#include <QList>
extern "C" void vp_c12_model_limit(bool ok);   // models.c: ASSERT(ok, "..."), ASSUME(ok)

template<typename V, int CAP> class VpSlotMap
{
public:
    bool used[CAP];
    QString key[CAP];
    V *val[CAP];

    VpSlotMap() { for (int i = 0; i < CAP; i++) { used[i] = false; val[i] = new V(); } }
    VpSlotMap(const VpSlotMap &o) { for (int i = 0; i < CAP; i++) { used[i] = o.used[i]; key[i] = o.key[i]; val[i] = new V(*o.val[i]); } }
    VpSlotMap &operator=(const VpSlotMap &o) { if (this != &o) { for (int i = 0; i < CAP; i++) { used[i] = o.used[i]; key[i] = o.key[i]; *val[i] = *o.val[i]; } } return *this; }
    ~VpSlotMap() { }

    void clear() { for (int i = 0; i < CAP; i++) { if (used[i]) { used[i] = false; key[i] = QString(); *val[i] = V(); } } }
    int size() const { int n = 0; for (int i = 0; i < CAP; i++) { if (used[i]) n++; } return n; }
    int count() const { return size(); }
    bool isEmpty() const { return size() == 0; }
    bool contains(const QString &k) const { for (int i = 0; i < CAP; i++) { if (used[i] && key[i] == k) return true; } return false; }
    V value(const QString &k) const { for (int i = 0; i < CAP; i++) { if (used[i] && key[i] == k) return *val[i]; } return V(); }
    const V operator[](const QString &k) const { return value(k); }
    void insert(const QString &k, const V &v)
    {
        for (int i = 0; i < CAP; i++) { if (used[i] && key[i] == k) { *val[i] = v; return; } }
        for (int i = 0; i < CAP; i++) { if (!used[i]) { *val[i] = v; key[i] = k; used[i] = true; return; } }
        vp_c12_model_limit(false);
    }
    V &operator[](const QString &k)
    {
        for (int i = 0; i < CAP; i++) { if (used[i] && key[i] == k) return *val[i]; }
        for (int i = 0; i < CAP; i++) { if (!used[i]) { key[i] = k; used[i] = true; return *val[i]; } }   // unused slot == default V
        vp_c12_model_limit(false);
        return *val[0];
    }
    int remove(const QString &k)
    {
        for (int i = 0; i < CAP; i++) { if (used[i] && key[i] == k) { used[i] = false; key[i] = QString(); *val[i] = V(); return 1; } }
        return 0;
    }
    QList<QString> keys() const { QList<QString> r; for (int i = 0; i < CAP; i++) { if (used[i]) r.append(key[i]); } return r; }
};
