// Class-level model of QMap<QString, V> (DESIGN 2.3 "class-level containers"), installed as a full C++ specialisation
// BEFORE the qxmpp code that uses the map is compiled.  Value semantics (what implicit sharing implements), fixed
// capacity VP_MAP_CAP, one fixed slot per entry (no shifting, indices stay concrete), lookup by key equality.
// Not modelled: ordering (keys() returns the keys in slot order, QMap returns them sorted), iterators.
// Exceeding the capacity is a MODEL failure (inconclusive), never a silent drop.
#pragma once
#include <QString>
#include <QList>
#include <new>
#include <cstring>
#ifndef VP_MAP_CAP
#define VP_MAP_CAP 3
#endif
extern "C" void vp_c12_model_limit(bool ok);   // models.c: ASSERT(ok, "..."), ASSUME(ok)

// A cell that is not in use is zero-filled, never uninitialised: symbolic execution merges references to several cells,
// and a read of uninitialised storage on an infeasible branch of such a merge would poison every later dereference.
// Zero is inert for the value types used here (d-pointers: the Qt smart pointers skip null; flags: false).
template<typename V> union VpCell { V v; char none; VpCell() { std::memset(static_cast<void *>(this), 0, sizeof(*this)); } ~VpCell() {} };

template<typename V> class VpSlotMap
{
public:
    bool used[VP_MAP_CAP];
    QString key[VP_MAP_CAP];
    VpCell<V> cell[VP_MAP_CAP];

    VpSlotMap() { for (int i = 0; i < VP_MAP_CAP; i++) used[i] = false; }
    VpSlotMap(const VpSlotMap &o) { for (int i = 0; i < VP_MAP_CAP; i++) { used[i] = false; } copyFrom(o); }
    VpSlotMap &operator=(const VpSlotMap &o) { if (this != &o) { clear(); copyFrom(o); } return *this; }
    ~VpSlotMap() { clear(); }

    void clear() { for (int i = 0; i < VP_MAP_CAP; i++) { if (used[i]) { cell[i].v.~V(); new (&cell[i]) VpCell<V>(); used[i] = false; key[i] = QString(); } } }
    int size() const { int n = 0; for (int i = 0; i < VP_MAP_CAP; i++) { if (used[i]) n++; } return n; }
    int count() const { return size(); }
    bool isEmpty() const { return size() == 0; }
    bool contains(const QString &k) const { for (int i = 0; i < VP_MAP_CAP; i++) { if (used[i] && key[i] == k) return true; } return false; }
    V value(const QString &k) const { for (int i = 0; i < VP_MAP_CAP; i++) { if (used[i] && key[i] == k) return cell[i].v; } return V(); }
    const V operator[](const QString &k) const { return value(k); }
    // every access happens at a literal slot index under a (possibly symbolic) guard
    V *find(const QString &k) { for (int i = 0; i < VP_MAP_CAP; i++) { if (used[i] && key[i] == k) return &cell[i].v; } return nullptr; }
    const V *find(const QString &k) const { for (int i = 0; i < VP_MAP_CAP; i++) { if (used[i] && key[i] == k) return &cell[i].v; } return nullptr; }
    void insert(const QString &k, const V &v)
    {
        for (int i = 0; i < VP_MAP_CAP; i++) { if (used[i] && key[i] == k) { cell[i].v = v; return; } }
        for (int i = 0; i < VP_MAP_CAP; i++) { if (!used[i]) { new (&cell[i].v) V(v); key[i] = k; used[i] = true; return; } }
        vp_c12_model_limit(false);
    }
    V &operator[](const QString &k)
    {
        for (int i = 0; i < VP_MAP_CAP; i++) { if (used[i] && key[i] == k) return cell[i].v; }
        for (int i = 0; i < VP_MAP_CAP; i++) { if (!used[i]) { new (&cell[i].v) V(); key[i] = k; used[i] = true; return cell[i].v; } }
        vp_c12_model_limit(false);
        return cell[0].v;
    }
    int remove(const QString &k)
    {
        for (int i = 0; i < VP_MAP_CAP; i++) { if (used[i] && key[i] == k) { cell[i].v.~V(); new (&cell[i]) VpCell<V>(); used[i] = false; key[i] = QString(); return 1; } }
        return 0;
    }
    QList<QString> keys() const { QList<QString> r; for (int i = 0; i < VP_MAP_CAP; i++) { if (used[i]) r.append(key[i]); } return r; }

private:
    void copyFrom(const VpSlotMap &o) { for (int i = 0; i < VP_MAP_CAP; i++) { if (o.used[i]) { new (&cell[i].v) V(o.cell[i].v); key[i] = o.key[i]; used[i] = true; } } }
};
