// Class-level model of QMap<QString, V> (DESIGN 2.3 "class-level containers"), installed as a full C++ specialisation
// BEFORE the qxmpp code that uses the map is compiled.  Value semantics (what implicit sharing implements), fixed
// capacity CAP, one fixed slot per entry (no shifting, every access at a literal index), lookup by key equality.
// Not modelled: ordering (keys() and iteration go in slot order, QMap is sorted by key).
// Iterators are (map, slot index); end() is index CAP; erase/find/begin/++ act on slots through literal indices.
// Exceeding the capacity is a MODEL failure (inconclusive), never a silent drop.
//
// Every slot ALWAYS holds a live, valid V (a default-constructed one while the slot is unused).  Symbolic execution merges
// references to several slots; a null or uninitialised alternative in such a merge turns every later dereference into a
// read of an unknown object (measured: the destructor of a QXmppPresence then explores garbage lists).  With live
// defaults all alternatives are valid objects.
// Every value lives in its OWN heap object (val[i] points to it): a reference that is a merge of several values then is a
// choice between distinct objects at offset 0.  (Values embedded in one enclosing object would make the merged reference
// "object + symbolic offset", and every store through it a byte-level update of the whole enclosing object - measured.)
// Values are never freed (no leak check is claimed here).
#pragma once
#include <QString>
#include <QList>
extern "C" void vp_c12_model_limit(bool ok);   // models.c: ASSERT(ok, "..."), ASSUME(ok)

template<typename V, int CAP> class VpSlotMap
{
public:
    bool used[CAP];
    QString key[CAP];
    V *val[CAP];

    VpSlotMap() { for (int i = 0; i < CAP; i++) { used[i] = false; val[i] = new V(); } }
    VpSlotMap(const VpSlotMap &o) { for (int i = 0; i < CAP; i++) { used[i] = o.used[i]; key[i] = o.key[i]; val[i] = new V(*o.val[i]); } }
    VpSlotMap &operator=(const VpSlotMap &o) { if (this != &o) { for (int i = 0; i < CAP; i++) { used[i] = o.used[i]; key[i] = o.key[i]; *val[i] = *o.val[i]; } } return *this; }
    ~VpSlotMap() { }

    void clear() { for (int i = 0; i < CAP; i++) { if (used[i]) { used[i] = false; key[i] = QString(); *val[i] = V(); } } }
    int size() const { int n = 0; for (int i = 0; i < CAP; i++) { if (used[i]) n++; } return n; }
    int count() const { return size(); }
    bool isEmpty() const { return size() == 0; }
    bool contains(const QString &k) const { for (int i = 0; i < CAP; i++) { if (used[i] && key[i] == k) return true; } return false; }
    V value(const QString &k) const { for (int i = 0; i < CAP; i++) { if (used[i] && key[i] == k) return *val[i]; } return V(); }
    const V operator[](const QString &k) const { return value(k); }
    void insert(const QString &k, const V &v)
    {
        for (int i = 0; i < CAP; i++) { if (used[i] && key[i] == k) { *val[i] = v; return; } }
        for (int i = 0; i < CAP; i++) { if (!used[i]) { *val[i] = v; key[i] = k; used[i] = true; return; } }
        vp_c12_model_limit(false);
    }
    V &operator[](const QString &k)
    {
        for (int i = 0; i < CAP; i++) { if (used[i] && key[i] == k) return *val[i]; }
        for (int i = 0; i < CAP; i++) { if (!used[i]) { key[i] = k; used[i] = true; return *val[i]; } }   // unused slot == default V
        vp_c12_model_limit(false);
        return *val[0];
    }
    int remove(const QString &k)
    {
        for (int i = 0; i < CAP; i++) { if (used[i] && key[i] == k) { used[i] = false; key[i] = QString(); *val[i] = V(); return 1; } }
        return 0;
    }

    // iterators (added for seed C12-2: a realistic change may use find()/erase() instead of remove())
    template<typename M, typename R> struct It {
        M *m; int i;
        R &operator*() const { return *m->val[i < CAP ? i : 0]; }
        R *operator->() const { return m->val[i < CAP ? i : 0]; }
        R &value() const { return *m->val[i < CAP ? i : 0]; }
        const QString &key() const { return m->key[i < CAP ? i : 0]; }
        bool operator==(const It &o) const { return i == o.i; }
        bool operator!=(const It &o) const { return i != o.i; }
        It &operator++() { int j = CAP; for (int k = CAP - 1; k >= 0; k--) { if (k > i && m->used[k]) j = k; } i = j; return *this; }
        It operator++(int) { It c = *this; ++*this; return c; }
        template<typename M2, typename R2> operator It<M2, R2>() const { return It<M2, R2> { m, i }; }
    };
    using iterator = It<VpSlotMap, V>;
    using const_iterator = It<const VpSlotMap, const V>;
    iterator end() { return iterator { this, CAP }; }
    const_iterator end() const { return const_iterator { this, CAP }; }
    const_iterator cend() const { return end(); }
    const_iterator constEnd() const { return end(); }
    iterator begin() { iterator it { this, -1 }; ++it; return it; }
    const_iterator begin() const { const_iterator it { this, -1 }; ++it; return it; }
    const_iterator cbegin() const { return begin(); }
    const_iterator constBegin() const { return begin(); }
    iterator find(const QString &k) { for (int i = 0; i < CAP; i++) { if (used[i] && key[i] == k) return iterator { this, i }; } return end(); }
    const_iterator find(const QString &k) const { for (int i = 0; i < CAP; i++) { if (used[i] && key[i] == k) return const_iterator { this, i }; } return end(); }
    const_iterator constFind(const QString &k) const { return find(k); }
    iterator erase(iterator it)
    {
        iterator nx = it; ++nx;
        for (int i = 0; i < CAP; i++) { if (i == it.i && used[i]) { used[i] = false; key[i] = QString(); *val[i] = V(); } }
        return nx;
    }
    V take(const QString &k) { V r = value(k); remove(k); return r; }
    QList<V> values() const { QList<V> r; for (int i = 0; i < CAP; i++) { if (used[i]) r.append(*val[i]); } return r; }
    const QString firstKey() const { for (int i = 0; i < CAP; i++) { if (used[i]) return key[i]; } return QString(); }
    QList<QString> keys() const { QList<QString> r; for (int i = 0; i < CAP; i++) { if (used[i]) r.append(key[i]); } return r; }
};
