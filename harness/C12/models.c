/* C12: property-specific environment (C side) */
void vp_c12_model_limit(uint8_t ok) { ASSERT(ok, "C12 class-level QMap model: capacity exceeded"); ASSUME(ok); }
/* QHash<QString,...> (the `groups` set of a roster item): only the shared empty representation is needed because the
   harness never feeds <group/> children; any real hashing is left unmodelled (flagged if reached). */
#ifdef HAVE_G__ZN9QHashData11shared_nullE
GT__ZN9QHashData11shared_nullE G__ZN9QHashData11shared_nullE = { 0, 0, {{{{ (uint32_t)-1 }}}}, 0, 0, 4, 0, 0, 0, 1, {{ 0, 0, 0, 0 }} };
#endif
/* QDateTime as an opaque word: 0 = null/invalid (the only value the roster/iq code ever produces: retry dates and
   e2ee timestamps stay unset); conversions from/to text stay unmodelled (flagged if reached) */
void _ZN9QDateTimeC1Ev(char *self) { *(char**)self = 0; }
void _ZN9QDateTimeC1ERKS_(char *self, char *o) { *(char**)self = *(char**)o; }
void _ZN9QDateTimeD1Ev(char *self) { }
uint8_t _ZNK9QDateTime6isNullEv(char *self) { return *(char**)self == 0; }
uint8_t _ZNK9QDateTime7isValidEv(char *self) { return *(char**)self != 0; }
/* number of child elements of a DOM-model element (vp_dom_count of vp_dom.h is not implemented in qt_dom.c) */
uint32_t vp_c12_dom_nchildren(char *el) { struct dnode *n = DN(el); return n ? n->nch : 0; }
uint32_t vp_c12_dom_nattrs(char *el) { struct dnode *n = DN(el); return n ? n->nattr : 0; }
/* Reference counting of QString on destruction is dropped (class-level override of the inline ~QString): string blocks
   of the model are never recycled, and an over-approximated reference count only makes the copy-on-write paths of the
   string model copy where Qt would modify in place - value semantics are unchanged. Saves a case split per destructor
   whenever the block pointer is an if-then-else of several blocks. */
void _ZN7QStringD2Ev(char *self) { }
void _ZN7QStringD1Ev(char *self) { }
/* QString::startsWith / endsWith (QString overloads; libQt5Core) in terms of the QStringView models of qt_core.c */
uint8_t _ZNK7QString10startsWithERKS_N2Qt15CaseSensitivityE(char *self, char *o, uint32_t cs) { QAD *a = *(QAD**)self, *b = *(QAD**)o;
  return _ZN9QtPrivate10startsWithE11QStringViewS0_N2Qt15CaseSensitivityE(a->f1, (char*)qs_chars(a), b->f1, (char*)qs_chars(b), cs); }
uint8_t _ZNK7QString8endsWithERKS_N2Qt15CaseSensitivityE(char *self, char *o, uint32_t cs) { QAD *a = *(QAD**)self, *b = *(QAD**)o;
  return _ZN9QtPrivate8endsWithE11QStringViewS0_N2Qt15CaseSensitivityE(a->f1, (char*)qs_chars(a), b->f1, (char*)qs_chars(b), cs); }
/* QString::lastIndexOf(QChar, from, cs) (libQt5Core) */
static int64_t vpl_rfind16(QAD *d, int32_t upto, uint16_t c) { int64_t r = -1; for (uint32_t i = 0; i < QHINT16(d); i++) { if (i >= d->f1) break; if ((int32_t)i <= upto && qs_chars(d)[i] == c) r = i; } return r; }
uint32_t _ZNK7QString11lastIndexOfE5QChariN2Qt15CaseSensitivityE(char *self, uint16_t c, uint32_t from, uint32_t cs) { QAD *d = *(QAD**)self; int32_t n = (int32_t)d->f1, f = (int32_t)from;
  if (f < 0) f += n; if (f < 0 || n == 0) return (uint32_t)-1; if (f >= n) f = n - 1; if (numS(d).isnum) return (uint32_t)-1; return (uint32_t)vpl_rfind16(d, f, c); }
