/* C12: property-specific environment (C side) */
void vp_c12_model_limit(uint8_t ok) { ASSERT(ok, "C12 class-level QMap model: capacity exceeded"); ASSUME(ok); }
