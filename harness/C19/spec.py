# C19 - a file transfer reported successful delivered exactly the bytes that were sent (in-band bytestreams)
TUS = ['src/base/QXmppIbbIq.cpp', 'src/base/QXmppIq.cpp', 'src/base/QXmppStanza.cpp', 'src/base/QXmppUtils.cpp', 'src/base/QXmppNonza.cpp',
       'src/base/QXmppByteStreamIq.cpp', 'src/client/QXmppClientExtension.cpp']
MODELS = ['qt_core.c', 'qt_list.c', 'qt_dom.c', 'c19_models.c']
def I(name, bound, **kw):
    d = dict(name=name, entry='h_' + name, unwind=6, timeout_s=300, mem_gb=3, bound=bound); d.update(kw); return d
SPEC = dict(
    property='C19',
    groups=[
        dict(name='ibb', harness='h.cpp', tus=TUS, models=MODELS,
             instances=[
                 I('data_step', 'one job'), I('data_step_kf', ''), I('close_step', ''), I('terminated', ''), I('open_step', ''), I('sender_result2', '', entry='h_sender_step', cdefs={'VP_CASE': 3 | (2 << 2)}), I('sender_result0', '', entry='h_sender_step', cdefs={'VP_CASE': 3 | (0 << 2)}), I('sender_error', '', entry='h_sender_step', cdefs={'VP_CASE': 0 | (1 << 2)}), I('sender_dispatch', '', cdefs={'VP_CASE': 3 | (1 << 2)}), I('lookup', ''), I('transfer2', '', object_bits=12, unwind=6), I('send2', '', object_bits=12, unwind=6),
             ]),
    ],
    bounds=[], assumptions=[], outside=[],
)
